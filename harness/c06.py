"""C06 — spatial lookups agree with the geometry they index.
model: lean/CRModel/Geom.lean, lean/CRModel/Index.lean; theorems: lean/CRProps/C06.lean."""
import contextlib
import copy
import glob
import io
import json
import math
import os
import pickle
from fractions import Fraction

import geom
import c06_dims
from common import CORPUS_DIR, Ctx, InfraError, call, frac, rat, shrink_list

RULE = ("generator dimensions are tabulated in harness/c06_dims.py (173 entries: every constructor parameter, property and public method "
        "of Lanelet, LaneletNetwork, Rectangle, Circle, Polygon, ShapeGroup and every parameter of the driven operations; checked against the "
        "real signatures on every run, unknown name => exit 2). Beyond the description below: lanelets carry the non-geometric constructor "
        "arguments, reach their final geometry / id also through translate_rotate, convert_to_2d or the lanelet_id setter before insertion, "
        "ids 0 / 2**40 / numpy.int64; vertex arrays of every lanelet handed over as float64 / float32 / int64 / int32 arrays chosen per array "
        "(some boundary polylines are moved onto the integer grid first, shared vertices alike), so that integer-dtype and fractional float "
        "boundaries meet in one lanelet; query points also 1/16 and 1/4 of the width inside each boundary; routes list-nocleanup, Scenario.add_objects(list | network), replace_lanelet_network; operations "
        "Scenario.add_objects / remove_lanelet (single and list form, possibly failing half-way and caught), LaneletNetwork.translate_rotate "
        "(exact), create_from_lanelet_network(exclude_lanelet_types, cleanup_ids), read-only probes between operations (deepcopy / pickle "
        "discarded, queries, cleanup_*, convert_to_2d, a rejected add); point lists as arrays / python lists / integer arrays / empty / single; "
        "the same shape object queried twice; a second network sharing the lanelet objects; shapes built with default / integer / numpy-scalar "
        "arguments, through translate_rotate / rotate_translate_local, and with ONE attribute set after construction (before / after a "
        "first query). five kinds of case (the fourth, meets: one polygon on the 1/16 grid x 5..9 shapes placed against it - sharing an edge, part of an edge, one vertex, strictly inside, around it, 1/16 or 1/256 off an edge, across an edge, circles, rotated rectangles; shapely intersects in both argument orders vs the exact predicates). net: 1..7 lanelets on the 1/16 grid (straight / curved strips in the four grid directions, arcs, "
        "adjacent lanes sharing a boundary, successors sharing an end edge, crossing (overlapping) and far-away lanelets), built by "
        "one of seven routes (create_from_lanelet_list, add_lanelet one by one, LaneletNetwork() left empty, Scenario.add_objects, "
        "XML file, protobuf file, open_lanelet_network), then 0..5 operations (add new / known id, remove known / unknown id, each "
        "with rtree True/False, add_lanelets_from_network, deepcopy, pickle, create_from_lanelet_network), then 10..30 query points "
        "(lanelet vertices, boundary mid points shared by neighbours, interior points, 1/256 off a boundary, far away) and 4..10 query "
        "shapes (rectangle exact / rotated, circle, polygon, group; inside one lanelet, around a lanelet, touching, straddling, away); "
        "shape: one shape x its interesting points (contains_point vs exported geometry vs exact truth); obst: lanelets x static / "
        "set-based / trajectory obstacles of every shape kind (get_obstacles, map_obstacles_to_lanelets, filter_obstacles_in_network). "
        "twin: SEVERAL LIVE NETWORKS derived from one another - slot 0 built by a route, forks (copy.deepcopy(network), copy.deepcopy(scenario), "
        "pickle round trip of either, create_from_lanelet_network(net), create_from_lanelet_list(net.lanelets)) of any slot with the source kept "
        "in use, 2..8 steps of add / remove / remove of an id only a sibling holds / add_lanelets_from_network / Scenario.add_objects / "
        "Scenario.remove_lanelet / translate_rotate / discarded deepcopy or pickle (rebuilds) on ANY slot, new lanelets also with an id or at "
        "the place of a sibling's lanelet; EVERY live network queried at the end (30 %: after every step) at the lanelets of all of them, each "
        "judged against the exact polygons of the lanelets IT holds then (model: CR.Index.wrun, theorems C06_world_*). "
        "distinct = canonical JSON of the case; non-trivial = every case (each carries boundary queries by construction)")
ASSUMPTIONS = [
    "GEOS predicates (intersects, dwithin, STRtree.query) are a parameter of the Lean model; their agreement with the exact closed-set "
    "predicates is compared on every case (exact 1/16-grid inputs), not proved",
    "cos/sin of a rectangle orientation are parameters of the model (numpy values sent as exact rationals); points / shapes whose answer "
    "could flip under a boundary perturbation of 1e-9 are excluded for rotated rectangles and counted",
    "the exported geometry of a circle is GEOS's 64-gon: queries whose answer differs between the discs of radius 0.998 r and r are "
    "excluded for the exported-geometry comparisons only, and counted",
    "query points closer than 1e-9 to a lanelet boundary without being on it are excluded (find_lanelet_by_position accepts 1e-15)",
    "changing a lanelet that is already in a network (Lanelet.translate_rotate, vertex setters, LaneletNetwork.translate_rotate) is "
    "neither modelled nor exercised here: whether the index follows such a mutation is property C11 (derived data never goes stale)",
    "STRtree.query promises no order of its hits: lookups are compared as sorted id lists and the theorems claim set equality + each "
    "id once; the tree's envelope prefilter is modelled (treeMeets / treeWithin) and proved redundant (C06_tree_prefilter_sound)",
    "distinct live Python objects have distinct id(): the model gives every shapely polygon object an address and assumes (Adm) that an "
    "added lanelet brings a polygon object not yet in the network and that copies hand out fresh objects",
    "3-D lanelets that were not converted with convert_to_2d are outside the (planar) property; references of a lanelet to traffic signs, "
    "lights or areas that are not in the network are ill-formed input (C10) and not generated",
    "writing into the array a getter hands out WITHOUT telling the object afterwards (no setter call) is not generated: only histories "
    "in which the changed array is assigned again (augmented assignment, self-assignment, the constructor's array) are in the quantifier",
    "histories in which a shape attribute is set after construction are judged by the oracle only (the model has no setters); a failure there has a key "
    "C06/*/stale-after-setter/<Class.attr>",
    "histories on several live networks (case kind twin) use rebuilding operations only (rtree=True) and query with points, rectangles and "
    "polygons (circle queries are the known r/2 finding and stay with the single-network cases); that the copies hand out fresh objects is "
    "the hypothesis Function.Injective f of C06_world_*; a copy that shares a container with its source shows as a disagreement with "
    "CR.Index.wrun and as an oracle failure C06/twin/*",
    "index states left stale on request (add_lanelet / remove_lanelet with rtree=False and no later rebuild) are modelled and covered by the "
    "theorems but not queried: the property speaks about networks built in a supported way",
]
TRUSTED = ["harness/geom.py: exact rational point-in-polygon, polygon-polygon and disc-polygon tests used by the oracle"]
EXTRA_MODULES = ["CRProps.T06"]      # translator tie: Gen.SrcC06 (regenerated from the repo every run) = hand model
REQUIRED_BUCKETS = ["net/route/list", "net/route/add", "net/route/empty", "net/route/scenario", "net/route/xml", "net/route/pb",
                    "net/route/pb-net", "net/op/deepcopy", "net/op/pickle", "net/op/add", "net/op/add-known", "net/op/remove",
                    "net/op/remove-unknown", "net/op/addFrom", "net/op/sc_remove-ok", "net/op/sc_remove-fails",
                    "net/history/query-after-failed-op", "net/op/sc_add-ok", "net/op/sc_add-fails", "net/op/move", "net/op/cut-exclude-type",
                    "net/op/sc_remove-no-referenced", "net/op/single-object-form", "net/route/list-nocleanup", "net/route/sc-list",
                    "net/route/sc-net", "net/route/sc-replace", "net/lanelet/extras", "net/lanelet/pre-move", "net/lanelet/pre-z",
                    "net/lanelet/pre-reid", "net/lanelet/id-class", "net/points/list", "net/points/int", "net/shared-lanelet-objects",
                    "net/probe/deepcopy-discard", "net/probe/pickle-discard", "net/probe/convert2d", "net/probe/cleanup", "net/op/cut", "net/op/rtree-false", "net/point/on-boundary",
                    "net/point/multi", "net/point/none", "net/shape/circ", "net/shape/rect", "net/shape/poly", "net/shape/group",
                    "net/shape/multi", "net/shape/none", "net/shape/touching", "shape/rect", "shape/circ", "shape/poly", "shape/group",
                    "shape/on-boundary", "shape/variant/ints", "shape/variant/np", "shape/variant/defaults", "shape/variant/via-translate",
                    "shape/variant/via-local", "shape/hist/after-query", "shape/hist/mode/iadd", "shape/hist/mode/inplace-reassign", "shape/hist/mode/ctor-alias",
                    "shape/hist/in-place-after-cached-read", "shape/hist/before-query", "shape/hist/Rectangle.center",
                    "shape/hist/Circle.radius", "shape/hist/Polygon.vertices", "obst/static", "obst/set", "obst/traj", "obst/group", "obst/hit", "obst/miss", "obst/empty-candidate-list",
                    "meets/poly", "meets/rect", "meets/circ", "meets/touching", "meets/true", "meets/false",
                    "net/lanelet/dtype/int-right+fractional-left", "net/lanelet/dtype/int-left+fractional-right", "net/lanelet/dtype/all-int",
                    "net/lanelet/dtype/float32", "net/lanelet/dtype/center-not-float64", "obst/lanelet/dtype/int-right+fractional-left",
                    "obst/lanelet/dtype/int-left+fractional-right",
                    # several live networks derived from one another (source AND copy used further; every one queried)
                    "twin/fork/deepcopy", "twin/fork/pickle", "twin/fork/cut", "twin/fork/from-list", "twin/fork/sc-deepcopy",
                    "twin/fork/sc-pickle", "twin/fork/of-a-fork-or-second-fork", "twin/three-or-more-live-networks",
                    "twin/op-on/source", "twin/op-on/copy", "twin/history/edit-one-then-rebuild-other",
                    "twin/history/edit-source-then-rebuild-copy", "twin/history/edit-copy-then-rebuild-source",
                    "twin/op/rebuild-probe", "twin/op/sc_add", "twin/op/sc_remove", "twin/op/move", "twin/op/addFrom",
                    "twin/queries-after-every-step", "twin/live-networks-differ"]

BAND = Fraction(1, 10 ** 9)
TOL = Fraction(1, 10 ** 15)
# the code as it is exports a circle as the disc of radius r/2 (known finding, see lean/CRModel/Geom.lean exportedRadius):
# the correspondence masks the 64-gon band of THAT disc, the oracle judges against the disc of radius r
CODE_CIRC_SCALE = Fraction(1, 2)


def _fail(ctx, key, what, case):
    """ctx.fail, at most 3 times per finding key (the framework keeps 200 failures per worker: a known finding that fires on
    every other case must not crowd out a different failure)."""
    seen = ctx.__dict__.setdefault("_c06_seen", {})
    seen[key] = seen.get(key, 0) + 1
    if seen[key] <= 3:
        ctx.fail(key, what, case)


# ================================================================================================ generators

def _g(r, lim):
    return r.randint(-lim, lim) / 16.0


_ROT = [lambda x, y: (x, y), lambda x, y: (-y, x), lambda x, y: (-x, -y), lambda x, y: (y, -x)]


def gen_strip(r, x0, y0, rot, curved=None, width=None, n=None, length=None):
    """Lanelet along +x from (x0, y0): right boundary y = f(x), left boundary y = f(x) + w(x); rotated by rot * 90 deg."""
    n = n or r.choice([2, 2, 3, 4, 6])
    length = length or r.choice([4.0, 8.0, 10.0, 16.0])
    w = width or r.choice([1.0, 2.0, 3.0, 3.5])
    xs = sorted(set([0.0, length] + [round(r.uniform(0, length) * 16) / 16.0 for _ in range(n - 2)]))
    curved = r.random() < 0.5 if curved is None else curved
    amp = r.choice([0.5, 1.0, 2.0]) if curved else 0.0
    ph = r.uniform(0, 3.0)
    f = [round(amp * math.sin(ph + x / length * 2.5) * 16) / 16.0 for x in xs]
    f = [v - f[0] for v in f]
    taper = r.choice([0.0, 0.0, 0.5]) if curved else 0.0
    right = [[x, v] for x, v in zip(xs, f)]
    left = [[x, v + w + round(taper * x / length * 16) / 16.0] for x, v in zip(xs, f)]
    t = _ROT[rot % 4]
    mv = lambda p: [t(*p)[0] + x0, t(*p)[1] + y0]  # noqa
    return {"left": [mv(p) for p in left], "right": [mv(p) for p in right]}


def gen_arc(r, cx, cy):
    """Left-turn arc lanelet around (cx, cy): right boundary on the outer radius; vertices snapped to the grid."""
    ri = r.choice([3.0, 5.0, 8.0])
    ro = ri + r.choice([2.0, 3.0])
    a0 = r.choice([0.0, math.pi / 2, math.pi, 0.3])
    span = r.choice([math.pi / 2, math.pi / 2, math.pi, 1.0])
    n = r.choice([4, 6, 9])
    snap = lambda v: round(v * 16) / 16.0  # noqa
    left, right = [], []
    for i in range(n):
        a = a0 + span * i / (n - 1)
        left.append([snap(cx + ri * math.cos(a)), snap(cy + ri * math.sin(a))])
        right.append([snap(cx + ro * math.cos(a)), snap(cy + ro * math.sin(a))])
    return {"left": left, "right": right}


def _ring(l):
    return l["right"] + l["left"][::-1]


def _simple(l):
    """well-formed: the lanelet polygon is a simple polygon (no two non-adjacent edges meet, no repeated vertex).
    Coordinates are on the 1/16 grid, so the float cross products below are exact."""
    ring = [tuple(p) for p in _ring(l)]
    n = len(ring)
    if len(set(ring)) != n or sum(ring[i][0] * ring[(i + 1) % n][1] - ring[(i + 1) % n][0] * ring[i][1] for i in range(n)) == 0:
        return False
    for poly in (l["left"], l["right"]):
        if any(poly[i] == poly[i + 1] for i in range(len(poly) - 1)):
            return False
    for i in range(n):
        a, b = ring[i], ring[(i + 1) % n]
        for j in range(i + 1, n):
            c, d = ring[j], ring[(j + 1) % n]
            if j == i + 1:
                if geom.on_segment(a, c, d) or geom.on_segment(d, a, b):
                    return False
            elif i == 0 and j == n - 1:
                if geom.on_segment(b, c, d) or geom.on_segment(c, a, b):
                    return False
            elif geom.seg_intersect(a, b, c, d):
                return False
    return True


def gen_lanelets(r, ids=None, nmax=7):
    """A small road layout; every lanelet polygon is simple."""
    out = []
    x0, y0 = _g(r, 160), _g(r, 160)
    rot = r.randrange(4)
    layout = r.choice(["lanes", "lanes", "chain", "cross", "mixed", "mixed", "single", "arc"])
    if layout in ("lanes", "mixed", "cross"):
        base = gen_strip(r, 0.0, 0.0, 0)
        out.append(base)
        prev = base
        for _ in range(r.randint(1, 2)):  # adjacent lanes: the right boundary is the left boundary of the lane before
            w = r.choice([2.0, 3.0])
            nxt = {"right": [list(p) for p in prev["left"]], "left": [[p[0], p[1] + w] for p in prev["left"]]}
            out.append(nxt)
            prev = nxt
    if layout in ("chain", "mixed", "single"):
        a = gen_strip(r, 0.0, -8.0, 0, width=3.0)
        out.append(a)
        if layout != "single":
            ex, ey_r, ey_l = a["right"][-1][0], a["right"][-1][1], a["left"][-1][1]
            b = gen_strip(r, 0.0, 0.0, 0, width=ey_l - ey_r)
            b = {k: [[p[0] + ex, p[1] + ey_r] for p in b[k]] for k in ("left", "right")}   # successor: shares the end edge
            out.append(b)
    if layout in ("cross", "mixed"):
        out.append(gen_strip(r, r.choice([2.0, 4.0, 5.0]), -6.0, 1, length=16.0))       # crosses the lanes (overlap)
    if layout in ("arc", "mixed") or r.random() < 0.2:
        out.append(gen_arc(r, r.choice([0.0, 4.0, 20.0]), r.choice([0.0, 12.0])))
    if r.random() < 0.5:
        out.append(gen_strip(r, 60.0 + _g(r, 80), 50.0 + _g(r, 80), r.randrange(4)))  # far away
    t = _ROT[rot]
    res = []
    for l in out[:nmax]:
        l = {k: [[t(*p)[0] + x0, t(*p)[1] + y0] for p in l[k]] for k in ("left", "right")}
        if _simple(l):
            res.append(l)
    if not res:
        res = [gen_strip(r, x0, y0, rot, curved=False)]
    pool = ids if ids is not None else r.sample(range(1, 400), len(res))
    for i, l in enumerate(res):
        l["id"] = pool[i]
    return res


def snap_to_integers(r, lanelets):
    """Moves the vertices of some boundary polylines of the layout onto the integer grid (every occurrence of such a vertex
    moves alike, so lanes keep sharing boundaries and successors keep sharing end edges).  The layout is kept only if every
    lanelet polygon stays simple.  Integer coordinates are what lets a boundary be written as an integer-dtype array."""
    for _ in range(4):
        lines = sorted({tuple(map(tuple, l[k])) for l in lanelets for k in ("left", "right")})
        pick = [ln for ln in lines if r.random() < 0.5] or [r.choice(lines)]
        to = {v: (float(round(v[0])), float(round(v[1]))) for ln in pick for v in ln}
        new = [dict(l, left=[list(to.get(tuple(p), p)) for p in l["left"]], right=[list(to.get(tuple(p), p)) for p in l["right"]])
               for l in lanelets]
        if all(_simple(l) for l in new):
            return new
    return lanelets


def vary_dtypes(r, lanelets, p_snap=0.35):
    """Value class of the vertex arrays: the numpy dtype each boundary / centre array has when it is handed to the constructor
    (int64, int32, float32, float64 - the integer ones where the polyline lies on the integer grid, float32 where exact), chosen
    per array, so that one lanelet mixes integer, single and double precision arrays."""
    if r.random() < p_snap:
        lanelets = snap_to_integers(r, lanelets)
    for l in lanelets:
        on_grid = {k: all(float(c).is_integer() for p in l[k] for c in p) for k in ("left", "right")}
        if not (on_grid["left"] or on_grid["right"] or r.random() < 0.15):
            continue
        dt = {}
        for k in ("left", "right"):
            dt[k] = r.choice(["i8", "i8", "i8", "i4", "f8", "f4"]) if on_grid[k] else r.choice(["f8", "f8", "f8", "f4"])
        dt["center"] = r.choice(["i8", "f8", "f8", "f4"])           # applied where exact
        l["dtype"] = dt
    return lanelets


_ADDR = [0]


def _with_addr(ls):
    for l in ls:
        _ADDR[0] += 1
        l["addr"] = _ADDR[0]
    return ls


def net_points(r, lanelets, k=24):
    pts = []
    for l in lanelets:
        ring = _ring(l)
        n = len(ring)
        i = r.randrange(n)
        a, b = ring[i], ring[(i + 1) % n]
        pts.append(list(a))
        pts.append([(a[0] + b[0]) / 2, (a[1] + b[1]) / 2])
        j = r.randrange(len(l["left"]))
        ctr = [(l["left"][j][0] + l["right"][j][0]) / 2, (l["left"][j][1] + l["right"][j][1]) / 2]
        pts.append(ctr)
        d = r.choice([1 / 256.0, -1 / 256.0])
        pts.append([a[0] + d, a[1]] if r.random() < 0.5 else [a[0], a[1] + d])
        pts.append([ctr[0] + _g(r, 64), ctr[1] + _g(r, 64)])
        e0, e1 = l["left"][-1], l["right"][-1]
        pts.append([(e0[0] + e1[0]) / 2, (e0[1] + e1[1]) / 2])          # end edge (shared with a successor)
        # on a cross-section, 1/16 or 1/4 of the width away from the left / the right boundary (the strip a shrunken polygon loses)
        f = r.choice([1 / 16.0, 1 / 4.0, 15 / 16.0, 3 / 4.0])
        j = r.randrange(len(l["left"]))
        pts.append([l["left"][j][0] + f * (l["right"][j][0] - l["left"][j][0]), l["left"][j][1] + f * (l["right"][j][1] - l["left"][j][1])])
    pts.append([r.uniform(-500, 500), r.uniform(-500, 500)])
    pts.append([1.0e6, -1.0e6])
    r.shuffle(pts)
    return pts[:k]


def net_shapes(r, lanelets, k=8):
    out = []
    for _ in range(k):
        l = r.choice(lanelets) if lanelets else {"left": [[0.0, 2.0], [8.0, 2.0]], "right": [[0.0, 0.0], [8.0, 0.0]]}
        ring = _ring(l)
        i = r.randrange(len(ring))
        a, b = ring[i], ring[(i + 1) % len(ring)]
        j = r.randrange(len(l["left"]))
        ctr = [(l["left"][j][0] + l["right"][j][0]) / 2, (l["left"][j][1] + l["right"][j][1]) / 2]
        mid = [(a[0] + b[0]) / 2, (a[1] + b[1]) / 2]
        anchor = r.choice([ctr, list(a), mid, [ctr[0] + _g(r, 160), ctr[1] + _g(r, 160)]])
        kind = r.choice(["rect", "rect", "circ", "circ", "poly", "group"])
        if kind == "circ":
            rad = r.choice([0.5, 1.0, 2.0, 2.5, 5.0, r.randint(1, 160) / 16.0])
            f = r.choice([0.0, 0.3, 0.7, 0.9, 0.96, 1.2, 2.0])
            dx, dy = r.choice([(1, 0), (-1, 0), (0, 1), (0, -1), (0.6, 0.8), (-0.8, 0.6)])
            out.append({"k": "circ", "r": rad, "c": [anchor[0] + round(f * rad * dx * 16) / 16.0, anchor[1] + round(f * rad * dy * 16) / 16.0]})
        elif kind == "rect":
            ln, w = r.choice([0.5, 1.0, 2.0, 4.5, 12.0, 40.0]), r.choice([0.25, 1.0, 2.0, 30.0])
            o = r.choice([0.0, 0.0, 0.0, math.pi / 2, 0.3, -1.2, r.uniform(-6.2, 6.2)])
            c = list(anchor)
            if o == 0.0 and r.random() < 0.5:
                # touching exactly: an edge / a corner of the box on the anchor point
                c = [anchor[0] + r.choice([-1, 0, 1]) * ln / 2, anchor[1] + r.choice([-1, 1]) * w / 2]
            out.append({"k": "rect", "l": ln, "w": w, "c": c, "o": o})
        elif kind == "poly":
            s = geom.gen_shape(r, kinds=("poly",))
            cx = sum(v[0] for v in s["v"]) / len(s["v"])
            cy = sum(v[1] for v in s["v"]) / len(s["v"])
            sx, sy = round((anchor[0] - cx) * 16) / 16.0, round((anchor[1] - cy) * 16) / 16.0
            vs = [[v[0] + sx, v[1] + sy] for v in s["v"]]
            if r.random() < 0.3:
                vs[0] = list(a)                                                         # a vertex exactly on the lanelet boundary
                if len(set(map(tuple, vs))) < len(vs) or geom.shoelace(geom.ring_of(vs)) == 0:
                    vs = [[v[0] + sx, v[1] + sy] for v in s["v"]]
            out.append({"k": "poly", "v": vs})
        else:
            out.append({"k": "group", "s": [{"k": "circ", "r": 1.0, "c": list(anchor)},
                                            {"k": "rect", "l": 2.0, "w": 1.0, "c": list(ctr), "o": 0.0}]})
    return out


ROUTES = ["list", "list", "list-nocleanup", "add", "add", "empty", "scenario", "sc-list", "sc-net", "sc-replace", "xml", "pb", "pb-net"]
FILE_ROUTES = ("xml", "pb", "pb-net")
SC_ROUTES = ("scenario", "sc-list", "sc-net", "sc-replace", "xml", "pb")     # the network stays the one a Scenario owns
PROBES = ["deepcopy-discard", "pickle-discard", "queries", "cleanup", "convert2d", "failed-add", "contains", "by-id"]


def _shift(l, t):
    return dict(l, left=[[p[0] + t[0], p[1] + t[1]] for p in l["left"]], right=[[p[0] + t[0], p[1] + t[1]] for p in l["right"]])


def _decorate(r, l, ids, file_route):
    """Adds the non-geometric arguments, a pre-insertion path and an id class to a lanelet spec."""
    if r.random() < 0.6:
        l["extras"] = gen_extras(r, [i for i in ids if i != l["id"]], file_route)
    k = r.random()
    if k < 0.15:
        l["pre"] = {"move": [r.randint(-160, 160) / 16.0, r.randint(-160, 160) / 16.0]}
    elif k < 0.25:
        l["pre"] = {"z": True}
    elif k < 0.35:
        l["pre"] = {"reid": 900 + r.randint(0, 50)}
    if not file_route and r.random() < 0.1:
        l["idtype"] = "np"
    return l


def gen_net_case(r):
    route = r.choice(ROUTES)
    file_route = route in FILE_ROUTES
    lanelets = _with_addr(vary_dtypes(r, gen_lanelets(r)))
    if not file_route and lanelets and r.random() < 0.15:
        lanelets[r.randrange(len(lanelets))]["id"] = r.choice([0, 2 ** 40])      # id value classes
    if r.random() < 0.3:
        r.shuffle(lanelets)
    if r.random() < 0.1:                                                          # large magnitudes: still exact on the 1/16 grid
        lanelets = [_shift(l, [65536.0, -32768.0]) for l in lanelets]
    all_ids = [l["id"] for l in lanelets]
    lanelets = [_decorate(r, l, all_ids, file_route) for l in lanelets]
    used = {l["id"] for l in lanelets}
    if route in ("list", "list-nocleanup", "add") and len(lanelets) >= 2 and r.random() < 0.1:
        lanelets[-1]["id"] = lanelets[0]["id"]              # a repeated id in the input list: skipped with a warning
    init = [] if route == "empty" else lanelets
    current = []
    for l in init:
        if l["id"] not in [c["id"] for c in current]:
            current.append(l)
    ops = []
    fresh = True
    gone = []                                                # lanelets that were removed: queried as well
    has_sc = route in SC_ROUTES                              # the network is still the one its Scenario owns
    sc_reg = {c["id"] for c in current} if has_sc else set()  # ids the Scenario has registered
    spare = [] if route != "empty" else list(lanelets)

    def new_lanelet(nid):
        l = _with_addr(gen_lanelets(r, ids=[nid], nmax=1))[0]
        if current and r.random() < 0.6:     # place it over an existing lanelet (overlap)
            src = r.choice(current)
            dx = r.choice([0.0, 1.0, 0.5])
            l = dict(l, left=[[p[0] + dx, p[1] + dx] for p in src["left"]], right=[[p[0] + dx, p[1] + dx] for p in src["right"]])
        return _decorate(r, vary_dtypes(r, [l])[0], [c["id"] for c in current], True)

    for _ in range(r.choice([0, 0, 1, 2, 3, 5]) + (2 if route == "empty" and r.random() < 0.7 else 0)):
        kind = r.choice(["add", "add", "add-known", "remove", "remove", "remove-unknown", "addFrom", "deepcopy", "pickle", "cut",
                         "move", "probe", "probe"])
        if has_sc and r.random() < 0.5:
            kind = r.choice(["sc_remove", "sc_remove", "sc_add"])
        rtree = r.random() < 0.7
        if kind == "add":
            if spare:
                l = spare.pop()
            else:
                l = new_lanelet(r.choice([i for i in range(1, 500) if i not in used]))
            used.add(l["id"])
            ops.append({"op": "add", "l": l, "rtree": rtree})
            current.append(l)
            fresh = rtree
        elif kind == "add-known" and current:
            src = r.choice(current)
            l = _with_addr(gen_lanelets(r, ids=[src["id"]], nmax=1))[0]
            ops.append({"op": "add", "l": l, "rtree": rtree})          # rejected: no change, no rebuild
        elif kind == "sc_remove":
            # Scenario.remove_lanelet with one lanelet or a list; an entry that is not (or no longer) in the scenario makes it
            # raise KeyError after the earlier entries were removed; the error is caught and the history goes on
            pres = [c["id"] for c in current if c["id"] in sc_reg]
            absent = r.choice([i for i in range(1, 500) if i not in used])
            former = [g["id"] for g in gone if g["id"] not in [c["id"] for c in current]] or [absent]
            r.shuffle(pres)
            p1 = pres[0] if pres else absent
            p2 = pres[1] if len(pres) > 1 else absent
            ids = r.choice([[p1], [p1], [p1, p2], [p2, p1], [p1, p2], [p1, p1], [p1, absent], [p1, p2, p1], [absent, p1],
                            [r.choice(former)], [p1, r.choice(former), p2], [p2, p1, absent]])
            ops.append({"op": "sc_remove", "ids": ids, "as_list": len(ids) > 1 or r.random() < 0.5, "ref": r.random() < 0.7})
            for i in ids:
                hit = [c for c in current if c["id"] == i and i in sc_reg]
                if not hit:
                    break
                current = [c for c in current if c["id"] != i]
                sc_reg.discard(i)
                gone.extend(hit)
                fresh = True                                   # every single removal rebuilds the index
        elif kind == "sc_add":
            # Scenario.add_objects with one lanelet or a list; an entry whose id the scenario has registered raises ValueError
            # after the earlier entries were added
            nids = r.sample([i for i in range(1, 500) if i not in used and i not in sc_reg], 3)
            ls = [new_lanelet(i) for i in nids]
            if sc_reg and r.random() < 0.5:
                bad = _with_addr(gen_lanelets(r, ids=[r.choice(sorted(sc_reg))], nmax=1))[0]
                ls = r.choice([[ls[0], bad, ls[1]], [bad, ls[0]], [ls[0], ls[1], bad]])
            else:
                ls = ls[:r.randint(1, 3)]
            expect, n_ok = None, 0
            for l in ls:
                if l["id"] in sc_reg:
                    expect = "value"
                    break
                n_ok += 1
                sc_reg.add(l["id"])
                used.add(l["id"])
                current.append(l)
                fresh = True
            ops.append({"op": "sc_add", "ls": ls, "as_list": len(ls) > 1 or r.random() < 0.5, "expect": expect, "n_ok": n_ok})
        elif kind == "remove" and current:
            v = r.choice(current)
            gone.append(v)
            current = [c for c in current if c["id"] != v["id"]]
            ops.append({"op": "remove", "id": v["id"], "rtree": rtree})
            fresh = rtree
        elif kind == "remove-unknown":
            nid = r.choice([i for i in range(1, 500) if i not in used])
            ops.append({"op": "remove", "id": nid, "rtree": rtree})
            fresh = fresh or rtree
        elif kind == "addFrom":
            m = r.randint(0, 2)
            nids = r.sample([i for i in range(1, 500) if i not in used], m)
            ls = [_with_addr(vary_dtypes(r, gen_lanelets(r, ids=[i], nmax=1)))[0] for i in nids]
            used.update(nids)
            ops.append({"op": "addFrom", "ls": ls})
            current.extend(ls)
            fresh = True
        elif kind in ("deepcopy", "pickle"):
            ops.append({"op": kind})
            fresh = True
            has_sc = False
        elif kind == "cut":
            # create_from_lanelet_network: a copy; optionally without the lanelets of some type
            types = sorted({t for c in current for t in (c.get("extras") or {}).get("lanelet_type", [])})
            excl = [r.choice(types)] if types and r.random() < 0.5 else []
            dropped = [c for c in current if set((c.get("extras") or {}).get("lanelet_type", [])) & set(excl)]
            ops.append({"op": "cut", "exclude": excl, "cleanup": r.random() < 0.7, "drop": [c["id"] for c in dropped]})
            gone.extend(dropped)
            current = [c for c in current if c not in dropped]
            fresh = True
            has_sc = False
        elif kind == "move" and (current or gone):
            # LaneletNetwork.translate_rotate by a grid vector, angle 0: exact
            t = [r.randint(-320, 320) / 16.0, r.randint(-320, 320) / 16.0]
            ops.append({"op": "move", "t": t})
            gone = gone + [dict(c) for c in current][:2]           # the old places are queried as well
            current = [_shift(c, t) for c in current]
            fresh = True
        elif kind == "probe":
            ops.append({"op": "probe", "what": r.choice(PROBES)})
    if not fresh:
        # the last change was made with rtree=False: finish with an operation that rebuilds the index
        nid = r.choice([i for i in range(1, 500) if i not in used])
        ops.append(r.choice([{"op": "remove", "id": nid, "rtree": True}, {"op": "addFrom", "ls": []}, {"op": "deepcopy"},
                             {"op": "pickle"}, {"op": "move", "t": [0.0, 0.0]}]))
    geo = (current + gone[:3]) if (current or gone) else lanelets        # also where removed lanelets used to be
    return {"kind": "net", "route": route, "lanelets": init, "ops": ops, "pts": net_points(r, geo, r.choice([10, 20, 30])),
            "shapes": net_shapes(r, geo, r.choice([4, 6, 10])),
            "ptform": r.choice(["array", "array", "list", "int"]), "shared": route == "add" and r.random() < 0.4}


# ---------------------------------------------------------------------------- several live networks derived from one another

FORKS = ["deepcopy", "deepcopy", "pickle", "cut", "from-list", "sc-deepcopy", "sc-deepcopy", "sc-pickle"]
TWIN_ROUTES = ["list", "list", "list-nocleanup", "add", "scenario", "sc-list", "sc-list", "sc-net", "sc-replace", "xml", "pb-net"]
REBUILDING = ("add", "remove", "addFrom", "sc_add", "sc_remove", "move", "rebuild-probe")


def gen_twin_case(r):
    """A history on SEVERAL live networks: slot 0 is built by a route; a fork (copy.deepcopy of the network or of its
    Scenario, pickle round trip, create_from_lanelet_network, create_from_lanelet_list(net.lanelets)) makes a further live
    network out of any slot and the source stays in use; every other step is an operation on one slot.  At the end (in
    some cases after every step) EVERY slot is queried, at the places of the lanelets of all slots."""
    route = r.choice(TWIN_ROUTES)
    file_route = route in FILE_ROUTES
    lanelets = _with_addr(vary_dtypes(r, gen_lanelets(r, nmax=5), p_snap=0.1))
    ids0 = [l["id"] for l in lanelets]
    lanelets = [_decorate(r, l, ids0, file_route) for l in lanelets]
    used = set(ids0)
    has_sc = route in SC_ROUTES
    slots = [{"cur": list(lanelets), "sc": has_sc, "reg": set(ids0) if has_sc else set()}]
    gone, hist = [], []

    def new_lanelet(k):
        cur = slots[k]["cur"]
        cur_ids = {c["id"] for c in cur}
        # id value class: new everywhere, or an id that another live network holds (or held) and this one does not
        foreign = sorted({c["id"] for s in slots for c in s["cur"]} | {g["id"] for g in gone} - cur_ids - slots[k]["reg"])
        foreign = [i for i in foreign if i not in cur_ids and i not in slots[k]["reg"]]
        nid = r.choice(foreign) if foreign and r.random() < 0.35 else r.choice([i for i in range(1, 500) if i not in used])
        used.add(nid)
        l = _with_addr(gen_lanelets(r, ids=[nid], nmax=1))[0]
        everywhere = [c for s in slots for c in s["cur"]]
        if everywhere and r.random() < 0.6:     # over a lanelet of this or of another live network
            src = r.choice(everywhere)
            dx = r.choice([0.0, 1.0, 0.5])
            l = dict(l, left=[[p[0] + dx, p[1] + dx] for p in src["left"]], right=[[p[0] + dx, p[1] + dx] for p in src["right"]])
        return _decorate(r, vary_dtypes(r, [l])[0], sorted(cur_ids), True)

    n_steps = r.choice([2, 3, 3, 4, 5, 6, 8])
    for step in range(n_steps):
        if len(slots) == 1 or (len(slots) < 4 and r.random() < 0.2):
            k = r.randrange(len(slots))
            how = r.choice([f for f in FORKS if slots[k]["sc"] or not f.startswith("sc-")])
            hist.append({"fork": k, "how": how})
            keeps_sc = how.startswith("sc-")
            slots.append({"cur": list(slots[k]["cur"]), "sc": keeps_sc, "reg": set(slots[k]["reg"]) if keeps_sc else set()})
            continue
        k = r.randrange(len(slots))
        sl = slots[k]
        kind = r.choice(["add", "add", "remove", "remove", "remove-unknown", "add-known", "addFrom", "move", "rebuild-probe", "probe"])
        if sl["sc"] and r.random() < 0.5:
            kind = r.choice(["sc_remove", "sc_add"])
        op = None
        if kind == "add":
            l = new_lanelet(k)
            op = {"op": "add", "l": l, "rtree": True}
            sl["cur"] = sl["cur"] + [l]
        elif kind == "remove" and sl["cur"]:
            v = r.choice(sl["cur"])
            gone.append(v)
            sl["cur"] = [c for c in sl["cur"] if c["id"] != v["id"]]
            op = {"op": "remove", "id": v["id"], "rtree": True}
        elif kind == "remove-unknown":
            # an id this network does not hold (possibly one its sibling holds): nothing is removed, the index is rebuilt
            cur_ids = {c["id"] for c in sl["cur"]}
            foreign = sorted({c["id"] for s in slots for c in s["cur"]} - cur_ids)
            nid = r.choice(foreign) if foreign and r.random() < 0.5 else r.choice([i for i in range(1, 500) if i not in used])
            op = {"op": "remove", "id": nid, "rtree": True}
        elif kind == "add-known" and sl["cur"]:
            src = r.choice(sl["cur"])
            op = {"op": "add", "l": _with_addr(gen_lanelets(r, ids=[src["id"]], nmax=1))[0], "rtree": True}   # rejected
        elif kind == "addFrom":
            ls = [new_lanelet(k) for _ in range(r.randint(0, 2))]
            if len({l["id"] for l in ls}) == len(ls):
                op = {"op": "addFrom", "ls": ls}
                sl["cur"] = sl["cur"] + ls
        elif kind == "sc_remove":
            pres = [c for c in sl["cur"] if c["id"] in sl["reg"]]
            if pres:
                v = r.choice(pres)
                gone.append(v)
                sl["cur"] = [c for c in sl["cur"] if c["id"] != v["id"]]
                sl["reg"].discard(v["id"])
                op = {"op": "sc_remove", "ids": [v["id"]], "as_list": r.random() < 0.5, "ref": r.random() < 0.7}
        elif kind == "sc_add":
            ls = [new_lanelet(k) for _ in range(r.randint(1, 2))]
            if len({l["id"] for l in ls}) == len(ls):
                op = {"op": "sc_add", "ls": ls, "as_list": len(ls) > 1 or r.random() < 0.5, "expect": None, "n_ok": len(ls)}
                sl["cur"] = sl["cur"] + ls
                sl["reg"].update(l["id"] for l in ls)
        elif kind == "move" and sl["cur"]:
            t = [r.randint(-320, 320) / 16.0, r.randint(-320, 320) / 16.0]
            op = {"op": "move", "t": t}
            gone.extend(dict(c) for c in sl["cur"][:1])
            sl["cur"] = [_shift(c, t) for c in sl["cur"]]
        elif kind == "rebuild-probe":
            op = {"op": "probe", "what": r.choice(["deepcopy-discard", "pickle-discard"])}
        elif kind == "probe":
            op = {"op": "probe", "what": r.choice(["queries", "cleanup", "contains", "by-id"])}
        if op is not None:
            hist.append({"on": k, "op": op})
    geo = [c for s in slots for c in s["cur"]] + gone[:4]
    seen, uniq = set(), []
    for c in geo:
        key = json.dumps([c["left"], c["right"]])
        if key not in seen:
            seen.add(key)
            uniq.append(c)
    shapes = [s for s in net_shapes(r, uniq or lanelets, r.choice([4, 6, 8])) if not geom.has_circle(s)]
    return {"kind": "twin", "route": route, "lanelets": lanelets, "hist": hist, "pts": net_points(r, uniq or lanelets, r.choice([10, 16, 24])),
            "shapes": shapes, "mid": r.random() < 0.3}


def gen_shape_case(r):
    spec = geom.gen_shape(r)
    pts = geom.interesting_points(r, spec)
    if spec["k"] == "circ":
        cx, cy, rad = spec["c"][0], spec["c"][1], spec["r"]
        for f in (0.55, 0.7, 0.9, 0.97, 0.9985, 1.0001):
            a = r.uniform(0, 2 * math.pi)
            pts.append([cx + f * rad * math.cos(a), cy + f * rad * math.sin(a)])
        pts += [[cx - rad, cy], [cx, cy + rad], [cx - 0.8 * rad, cy - 0.6 * rad]]
    if spec["k"] == "poly":
        vs = spec["v"]
        xs, ys = [v[0] for v in vs], [v[1] for v in vs]
        pts += [[min(xs), min(ys)], [max(xs), max(ys)], [min(xs) - 0.0625, ys[0]], [xs[0], max(ys) + 0.0625]]
    case = {"kind": "shape", "shape": spec, "pts": pts}
    k = spec["k"]
    u = r.random()
    if k in ("rect", "circ", "poly") and u < 0.25:
        # a history: the shape is built differently, optionally queried, then ONE attribute is set; `shape` is what results
        first = _other_value(r, spec)
        attr = r.choice(sorted(first))
        base = dict(spec)
        base.update({attr: first[attr]})
        case["hist"] = {"base": base, "query_first": r.random() < 0.6, "attr": attr}
        if attr in ("c", "v"):
            # array-valued attribute: how the new value reaches the object.  assign: a new array; iadd: augmented assignment
            # `shape.attr += offset` (the getter hands out the stored array, numpy changes it in place, the setter gets the
            # same object back); inplace-reassign: the stored array is overwritten in place and then assigned to itself;
            # ctor-alias: the array given to the constructor is changed in place by its owner and assigned again
            case["hist"]["mode"] = r.choice(["assign", "iadd", "iadd", "inplace-reassign", "ctor-alias"])
            case["hist"]["query_first"] = case["hist"]["query_first"] or r.random() < 0.7
    elif k in ("rect", "circ") and u < 0.45:
        case["variant"] = r.choice(["ints", "np", "defaults", "via-translate", "via-local"])
        if case["variant"] == "ints":
            spec.update({kk: float(max(1, round(spec[kk]))) for kk in ("l", "w", "r") if kk in spec})
            spec["c"] = [float(round(spec["c"][0])), float(round(spec["c"][1]))]
            if k == "rect":
                spec["o"] = 0.0
        elif case["variant"] == "defaults":
            spec["c"] = [0.0, 0.0]
            if k == "rect":
                spec["o"] = 0.0
        elif k == "rect":
            spec["o"] = 0.0 if r.random() < 0.7 else spec["o"]
        if case["variant"] in ("via-translate", "via-local"):
            case["t"] = [r.randint(-320, 320) / 16.0, r.randint(-320, 320) / 16.0]
            if k == "rect":
                spec["o"] = 0.0
        case["pts"] = geom.interesting_points(r, spec) + [[spec["c"][0] + 0.25, spec["c"][1]]]
    elif k == "poly" and u < 0.4:
        case["variant"] = "via-translate"
        case["t"] = [r.randint(-320, 320) / 16.0, r.randint(-320, 320) / 16.0]
    return case


def _other_value(r, spec):
    """For each settable attribute of the primitive a value different from the one in spec (spec key -> value)."""
    k = spec["k"]
    g = lambda: r.randint(-320, 320) / 16.0  # noqa
    if k == "rect":
        return {"c": [g(), g()], "l": spec["l"] + r.choice([0.5, 3.0]), "w": spec["w"] + r.choice([0.25, 2.0]),
                "o": spec["o"] + (r.choice([0.5, 0.75]) if spec["o"] < 0 else -r.choice([0.5, 0.75]))}   # stays a valid orientation
    if k == "circ":
        return {"c": [g(), g()], "r": spec["r"] + r.choice([0.5, 3.0])}
    return {"v": [[v[0] + 7.0, v[1] - 5.0] for v in spec["v"]]}


_ATTR = {"rect": {"c": "center", "l": "length", "w": "width", "o": "orientation"}, "circ": {"c": "center", "r": "radius"},
         "poly": {"v": "vertices"}}


def build_shape_case(case):
    """The shape object of a shape case: plain, through one of the value-class / alternative-construction variants, or
    through a history (construct, maybe query, set one attribute).  Returns (shape, label of the history or None)."""
    import numpy as np
    from commonroad.geometry.shape import Circle, Rectangle
    spec = case["shape"]
    k = spec["k"]
    hist = case.get("hist")
    if hist:
        shp = geom.build_shape(hist["base"])
        if hist["query_first"]:
            shp.contains_point(np.array([0.0, 0.0]))
            _ = shp.shapely_object
        val = spec[hist["attr"]]
        name = _ATTR[k][hist["attr"]]
        mode = hist.get("mode", "assign")
        if hist["attr"] not in ("c", "v") or mode == "assign":
            setattr(shp, name, np.array(val, dtype=float) if hist["attr"] in ("c", "v") else val)
        else:
            new = np.array(val, dtype=float)
            if mode == "ctor-alias":
                # the caller keeps the array it built the shape from
                own = np.array(hist["base"][hist["attr"]], dtype=float)
                if k == "rect":
                    shp = Rectangle(hist["base"]["l"], hist["base"]["w"], own, hist["base"]["o"])
                elif k == "circ":
                    shp = Circle(hist["base"]["r"], own)
                else:
                    from commonroad.geometry.shape import Polygon
                    shp = Polygon(own)
                if hist["query_first"]:
                    shp.contains_point(np.array([0.0, 0.0]))
                    _ = shp.shapely_object
                own[...] = new if own.shape == new.shape else own
                if own.shape != new.shape:
                    own = new
                setattr(shp, name, own)
            else:
                # the history moves the shape by a constant vector (centre: new - old; vertex ring: every vertex alike)
                old = np.array(hist["base"][hist["attr"]], dtype=float)
                delta = (new - old) if hist["attr"] == "c" else (new[0] - old[0])
                cur = getattr(shp, name)                    # the array the getter hands out (the stored one)
                if mode == "iadd":
                    cur += delta                            # what `shape.attr += delta` does: in place on the stored array ...
                    setattr(shp, name, cur)                 # ... then the setter receives that same object
                else:                                       # inplace-reassign
                    cur[...] = cur + delta
                    setattr(shp, name, getattr(shp, name))
        return shp, f"{type(shp).__name__}.{name}"
    var = case.get("variant")
    if var == "ints":
        c = np.array([int(spec["c"][0]), int(spec["c"][1])])
        return (Rectangle(int(spec["l"]), int(spec["w"]), c, 0) if k == "rect" else Circle(int(spec["r"]), c)), None
    if var == "np":
        c = np.array(spec["c"], dtype=np.float64)
        if k == "rect":
            return Rectangle(np.float64(spec["l"]), np.float32(spec["w"]) if float(np.float32(spec["w"])) == spec["w"] else spec["w"],
                             c, np.float64(spec["o"])), None
        return Circle(np.float32(spec["r"]) if float(np.float32(spec["r"])) == spec["r"] else spec["r"], c), None
    if var == "defaults":
        return (Rectangle(spec["l"], spec["w"]) if k == "rect" else Circle(spec["r"])), None
    if var in ("via-translate", "via-local"):
        t = np.array(case["t"], dtype=float)
        if k == "poly":
            base = {"k": "poly", "v": [[v[0] - t[0], v[1] - t[1]] for v in spec["v"]]}
        else:
            base = dict(spec, c=[spec["c"][0] - t[0], spec["c"][1] - t[1]])
        b = geom.build_shape(base)
        return (b.translate_rotate(t, 0.0) if var == "via-translate" else b.rotate_translate_local(t, 0.0)), None
    return geom.build_shape(spec), None


def gen_obst_case(r):
    lanelets = _with_addr(vary_dtypes(r, gen_lanelets(r, nmax=4)))
    obs = []
    oid = 1000
    for _ in range(r.randint(1, 6)):
        oid += r.randint(1, 5)
        l = r.choice(lanelets)
        ring = _ring(l)
        a = r.choice(ring)
        j = r.randrange(len(l["left"]))
        ctr = [(l["left"][j][0] + l["right"][j][0]) / 2, (l["left"][j][1] + l["right"][j][1]) / 2]
        anchor = r.choice([ctr, list(a), [ctr[0] + _g(r, 200), ctr[1] + _g(r, 200)], [a[0] + _g(r, 48), a[1] + _g(r, 48)]])
        typ = r.choice(["static", "static", "set", "traj"])
        if typ == "traj":
            shape = {"k": "rect", "l": r.choice([1.0, 4.5, 5.0]), "w": r.choice([0.5, 2.0]), "c": [0.0, 0.0], "o": 0.0}
            o = r.choice([0.0, 0.0, 0.0, math.pi / 2, 0.4, -2.0])
        else:
            shape = geom.gen_shape(r, exact=(r.random() < 0.7))
            shape = _recentre(shape)
            o = 0.0 if typ == "set" else r.choice([0.0, 0.0, 0.0, 0.5, -1.0])
            if shape["k"] in ("poly", "group") and typ == "static":
                o = 0.0          # keep polygon occupancies exact (rotation about the centroid is float arithmetic)
        obs.append({"id": oid, "type": typ, "shape": shape, "pos": anchor, "o": o})
    return {"kind": "obst", "lanelets": lanelets, "obs": obs, "t": r.choice([0, 0, 1, 2])}


def _recentre(spec):
    """Shape of an obstacle is given in its local frame: move it next to the origin."""
    if spec["k"] == "group":
        return {"k": "group", "s": [_recentre(s) for s in spec["s"]]}
    if spec["k"] in ("rect", "circ"):
        return dict(spec, c=[spec["c"][0] % 2.0 - 1.0, spec["c"][1] % 2.0 - 1.0])
    vs = spec["v"]
    cx = round(sum(v[0] for v in vs) / len(vs) * 16) / 16.0
    cy = round(sum(v[1] for v in vs) / len(vs) * 16) / 16.0
    return {"k": "poly", "v": [[v[0] - cx, v[1] - cy] for v in vs]}


# ================================================================================================ wire format

def wire_shape(spec):
    import numpy as np
    k = spec["k"]
    if k == "group":
        return {"k": "group", "s": [wire_shape(s) for s in spec["s"]]}
    if k == "rect":
        cs = [1, 0] if spec["o"] == 0 else [rat(float(np.cos(spec["o"]))), rat(float(np.sin(spec["o"])))]
        return {"k": "rect", "l": rat(spec["l"]), "w": rat(spec["w"]), "c": [rat(spec["c"][0]), rat(spec["c"][1])], "cs": cs}
    if k == "circ":
        return {"k": "circ", "r": rat(spec["r"]), "c": [rat(spec["c"][0]), rat(spec["c"][1])]}
    return {"k": "poly", "v": [[rat(x), rat(y)] for x, y in spec["v"]]}


def wire_pts(pts):
    return [[rat(x), rat(y)] for x, y in pts]


def wire_lanelet(l):
    return {"id": l["id"], "addr": l["addr"], "left": wire_pts(l["left"]), "right": wire_pts(l["right"])}


# ================================================================================================ implementation side

_DTYPES = {"i8": "int64", "i4": "int32", "f4": "float32", "f8": "float64"}


def _cast(arr, code):
    """arr (float64) as an array of the numpy dtype `code`, if every coordinate survives the conversion unchanged
    (integer dtypes: only arrays on the integer grid); otherwise arr itself.  The VALUES handed to the constructor are
    therefore always the ones of the spec: only the dtype of the array object varies."""
    import numpy as np
    if code in (None, "f8"):
        return arr
    c = arr.astype(_DTYPES[code])
    return c if np.array_equal(c.astype(np.float64), arr) else arr


def _ctor_arrays(l):
    """(left, center, right): the vertex arrays the constructor receives for a lanelet spec (pre-insertion path and dtypes applied)."""
    import numpy as np
    left, right = np.array(l["left"], dtype=float), np.array(l["right"], dtype=float)
    pre = l.get("pre") or {}
    if "move" in pre:
        t = np.array(pre["move"], dtype=float)
        left, right = left - t, right - t
    if pre.get("z"):
        z = np.linspace(1.0, 3.0, len(left)).reshape(-1, 1)
        left, right = np.hstack([left, z]), np.hstack([right, z + 0.5])
    center = (left + right) / 2.0
    dt = l.get("dtype") or {}
    return _cast(left, dt.get("left")), _cast(center, dt.get("center")), _cast(right, dt.get("right"))


def dtype_classes(l):
    """Which dtype classes the vertex arrays of the lanelet spec really have when it is built (after _cast's exactness
    rule).  Lanelets that reach their place through translate_rotate / convert_to_2d get new float arrays there: no class."""
    import numpy as np
    pre = l.get("pre") or {}
    if not l.get("dtype") or "move" in pre or pre.get("z"):
        return set()
    arrs = dict(zip(("left", "center", "right"), _ctor_arrays(l)))
    kinds = {k: a.dtype.kind + str(a.dtype.itemsize) for k, a in arrs.items()}
    fractional = {k: not np.array_equal(np.trunc(arrs[k]), arrs[k]) for k in ("left", "right")}
    out = set()
    if kinds["right"][0] == "i" and kinds["left"][0] == "f" and fractional["left"]:
        out.add("int-right+fractional-left")
    if kinds["left"][0] == "i" and kinds["right"][0] == "f" and fractional["right"]:
        out.add("int-left+fractional-right")
    if kinds["left"][0] == "i" and kinds["right"][0] == "i":
        out.add("all-int")
        if kinds["left"] != kinds["right"]:
            out.add("int32+int64")
    if "f4" in (kinds["left"], kinds["right"]):
        out.add("float32")
    if kinds["center"] != "f8":
        out.add("center-not-float64")
    return out


def build_lanelet(l):
    """The Lanelet of a spec.  Optional spec fields: "extras" (the non-geometric constructor arguments), "pre" (how the
    object reaches its final geometry / id before it is inserted anywhere: "move" = built elsewhere and moved by an
    exact Lanelet.translate_rotate, "z" = built from 3-D vertices and converted with convert_to_2d, "reid" = built with
    another id that the lanelet_id setter then replaces), "idtype" ("np": numpy.int64 id), "dtype" ({"left" / "center" /
    "right": "i8" | "i4" | "f4" | "f8"}: numpy dtype of the vertex array handed to the constructor, applied where exact)."""
    import numpy as np
    from commonroad.common.common_lanelet import LaneletType, LineMarking, RoadUser, StopLine
    from commonroad.scenario.lanelet import Lanelet
    left, center, right = _ctor_arrays(l)
    pre = l.get("pre") or {}
    ex = l.get("extras") or {}
    kw = {}
    for k in ("predecessor", "successor"):
        if k in ex:
            kw[k] = list(ex[k])
    for k in ("adjacent_left", "adjacent_right", "adjacent_left_same_direction", "adjacent_right_same_direction"):
        if k in ex:
            kw[k] = ex[k]
    for k in ("line_marking_left_vertices", "line_marking_right_vertices"):
        if k in ex:
            kw[k] = LineMarking[ex[k]]
    if ex.get("stop_line"):
        kw["stop_line"] = StopLine(np.array(left[-1][:2], dtype=float), np.array(right[-1][:2], dtype=float), LineMarking[ex["stop_line"]])
    if "lanelet_type" in ex:
        kw["lanelet_type"] = {LaneletType[x] for x in ex["lanelet_type"]}
    for k in ("user_one_way", "user_bidirectional"):
        if k in ex:
            kw[k] = {RoadUser[x] for x in ex[k]}
    lid = l["id"]
    if l.get("idtype") == "np":
        lid = np.int64(lid)
    first_id = pre["reid"] if "reid" in pre else lid
    la = Lanelet(left, center, right, first_id, **kw)
    if "reid" in pre:
        la.lanelet_id = lid
    if pre.get("z"):
        la.convert_to_2d()
    if "move" in pre:
        la.translate_rotate(np.array(pre["move"], dtype=float), 0.0)
    return la


def gen_extras(r, ids, file_route):
    """Non-geometric constructor arguments of a lanelet (none of them may influence a lookup)."""
    ex = {}
    others = list(ids)
    if r.random() < 0.5 and others:
        ex["predecessor"] = r.sample(others, min(len(others), r.randint(0, 2)))
        ex["successor"] = r.sample(others, min(len(others), r.randint(0, 2)))
        if not file_route and r.random() < 0.3:
            ex["successor"] = ex["successor"] + [r.randint(600, 700)]          # dangling reference
    if r.random() < 0.4 and others:
        ex["adjacent_left"] = r.choice(others)
        ex["adjacent_left_same_direction"] = r.random() < 0.5
    if r.random() < 0.4 and others:
        ex["adjacent_right"] = r.choice(others)
        ex["adjacent_right_same_direction"] = r.random() < 0.5
    if r.random() < 0.5:
        ex["line_marking_left_vertices"] = r.choice(["DASHED", "SOLID", "CURB", "NO_MARKING", "UNKNOWN"])
        ex["line_marking_right_vertices"] = r.choice(["DASHED", "SOLID", "BROAD_SOLID", "NO_MARKING"])
    if r.random() < 0.3:
        ex["stop_line"] = r.choice(["SOLID", "DASHED"])
    if r.random() < 0.6:
        ex["lanelet_type"] = r.sample(["URBAN", "HIGHWAY", "SIDEWALK", "BUS_LANE", "INTERSECTION"], r.randint(1, 2))
    if r.random() < 0.4:
        ex["user_one_way"] = r.sample(["VEHICLE", "CAR", "BUS", "BICYCLE"], r.randint(1, 2))
    if r.random() < 0.2:
        ex["user_bidirectional"] = r.sample(["PEDESTRIAN", "BICYCLE"], 1)
    return ex


def _quiet(f, *a, **k):
    import logging
    logging.disable(logging.CRITICAL)
    try:
        with contextlib.redirect_stdout(io.StringIO()):
            return f(*a, **k)
    finally:
        logging.disable(logging.NOTSET)


def _via_file(ctx, lanelets, fmt, net_only):
    from commonroad.common.file_reader import CommonRoadFileReader
    from commonroad.common.file_writer import CommonRoadFileWriter, OverwriteExistingFile
    from commonroad.common.util import FileFormat
    from commonroad.planning.planning_problem import PlanningProblemSet
    from commonroad.scenario.scenario import Scenario, ScenarioID, Tag
    sc = Scenario(0.1, ScenarioID(), tags={Tag.URBAN})
    sc.add_objects([build_lanelet(l) for l in lanelets])
    ff = FileFormat.XML if fmt == "xml" else FileFormat.PROTOBUF
    path = os.path.join(ctx.tmpdir(), "c06." + ("xml" if fmt == "xml" else "pb"))
    w = CommonRoadFileWriter(sc, PlanningProblemSet(), "a", "b", "c", {Tag.URBAN}, file_format=ff)
    _quiet(w.write_to_file, path, OverwriteExistingFile.ALWAYS)
    rd = CommonRoadFileReader(path)
    if net_only:
        return _quiet(rd.open_lanelet_network), None
    sc2 = _quiet(rd.open)[0]
    return sc2.lanelet_network, sc2


def build_network(ctx, route, lanelets):
    """(network, scenario that owns it or None)"""
    from commonroad.scenario.lanelet import LaneletNetwork
    if route == "list":
        return LaneletNetwork.create_from_lanelet_list([build_lanelet(l) for l in lanelets]), None
    if route == "list-nocleanup":
        return LaneletNetwork.create_from_lanelet_list([build_lanelet(l) for l in lanelets], cleanup_ids=False), None
    if route in ("sc-list", "sc-net", "sc-replace"):
        from commonroad.scenario.scenario import Scenario
        sc = Scenario(0.1)
        if route == "sc-list":
            sc.add_objects([build_lanelet(l) for l in lanelets])
        elif route == "sc-net":
            sc.add_objects(LaneletNetwork.create_from_lanelet_list([build_lanelet(l) for l in lanelets]))
        else:
            sc.add_objects([_stray_lanelet(950), _stray_lanelet(951)])
            sc.replace_lanelet_network(LaneletNetwork.create_from_lanelet_list([build_lanelet(l) for l in lanelets]))
        return sc.lanelet_network, sc
    if route in ("add", "empty"):
        n = LaneletNetwork()
        for l in lanelets:
            n.add_lanelet(build_lanelet(l))
        return n, None
    if route == "scenario":
        from commonroad.scenario.scenario import Scenario
        sc = Scenario(0.1)
        for l in lanelets:
            sc.add_objects(build_lanelet(l))
        return sc.lanelet_network, sc
    if route == "xml":
        return _via_file(ctx, lanelets, "xml", False)
    if route == "pb":
        return _via_file(ctx, lanelets, "pb", False)
    if route == "pb-net":
        return _via_file(ctx, lanelets, "pb", True)
    raise ValueError(route)


def _stray_lanelet(i):
    """A lanelet that was never added to anything (far away), for naming an id the scenario does not contain."""
    return build_lanelet({"id": i, "left": [[9000.0, 9002.0], [9010.0, 9002.0]], "right": [[9000.0, 9000.0], [9010.0, 9000.0]]})


def _probe(n, what):
    """Read-only (or idempotent) use of a network between two operations; nothing observable may change."""
    import numpy as np
    from commonroad.geometry.shape import Rectangle
    if what == "deepcopy-discard":
        copy.deepcopy(n)
    elif what == "pickle-discard":
        pickle.dumps(n)
    elif what == "queries":
        n.find_lanelet_by_position([np.array([0.0, 0.0]), np.array([3.5, 1.25])])
        n.find_lanelet_by_shape(Rectangle(4.0, 2.0, np.array([1.0, 1.0]), 0.3))
        _ = n.lanelet_polygons, [la.polygon.shapely_object.bounds for la in n.lanelets]
    elif what == "cleanup":
        n.cleanup_lanelet_references()
        n.cleanup_traffic_light_references()
        n.cleanup_traffic_sign_references()
    elif what == "convert2d":
        n.convert_to_2d()
    elif what == "failed-add":
        try:
            n.add_lanelet("not a lanelet")
        except AssertionError:
            pass
    elif what == "contains":
        for la in n.lanelets:
            la.contains_points(np.array([[0.0, 0.0], [1.0, 1.0]]))
            la.convert_to_polygon()
    elif what == "by-id":
        for la in n.lanelets:
            assert n.find_lanelet_by_id(la.lanelet_id) is la
        assert n.find_lanelet_by_id(99999) is None
    else:
        raise ValueError(what)


def apply_op(n, op, sc=None):
    """Apply one operation; returns (network, owning scenario or None, class of the exception the operation raised and we
    caught or None).  Only operations through the Scenario are allowed to raise (they are part of the history: the caller
    catches the error and goes on using the network)."""
    from commonroad.scenario.lanelet import LaneletNetwork
    k = op["op"]
    caught = None
    if k == "add":
        n.add_lanelet(build_lanelet(op["l"]), rtree=op["rtree"])
    elif k == "remove":
        n.remove_lanelet(op["id"], rtree=op["rtree"])
    elif k == "addFrom":
        other = LaneletNetwork.create_from_lanelet_list([build_lanelet(l) for l in op["ls"]])
        n.add_lanelets_from_network(other)
    elif k == "sc_remove":
        if sc is None or sc.lanelet_network is not n:
            raise ValueError("sc_remove without the owning scenario")
        objs = {}
        for i in op["ids"]:
            if i not in objs:
                objs[i] = n.find_lanelet_by_id(i) or _stray_lanelet(i)
        arg = [objs[i] for i in op["ids"]]
        try:
            sc.remove_lanelet(arg if (len(arg) != 1 or op.get("as_list", True)) else arg[0], op.get("ref", True))
        except Exception as e:  # noqa: the history goes on after the caller caught the error
            from common import err_class
            caught = err_class(e)
    elif k == "sc_add":
        if sc is None or sc.lanelet_network is not n:
            raise ValueError("sc_add without the owning scenario")
        objs = [build_lanelet(l) for l in op["ls"]]
        try:
            sc.add_objects(objs if (len(objs) != 1 or op.get("as_list", True)) else objs[0])
        except Exception as e:  # noqa: the history goes on after the caller caught the error
            from common import err_class
            caught = err_class(e)
    elif k == "move":
        import numpy as np
        n.translate_rotate(np.array(op["t"], dtype=float), 0.0)
    elif k == "probe":
        _probe(n, op["what"])
    elif k == "deepcopy":
        n, sc = copy.deepcopy(n), None
    elif k == "pickle":
        n, sc = pickle.loads(pickle.dumps(n)), None
    elif k == "cut":
        from commonroad.common.common_lanelet import LaneletType
        excl = {LaneletType[x] for x in op.get("exclude", [])}
        n, sc = LaneletNetwork.create_from_lanelet_network(n, None, excl or None, op.get("cleanup", True)), None
    else:
        raise ValueError(k)
    return n, sc, caught


def model_ops(ops):
    """Operations of a case as model operations; pos[i] = index of the model operation that stands for case operation i
    (None: several / none)."""
    out, pos = [], []
    for i, op in enumerate(ops):
        k = op["op"]
        pos.append(len(out))
        if k == "add":
            out.append({"op": "add", "l": wire_lanelet(op["l"]), "rtree": op["rtree"]})
        elif k == "remove":
            out.append({"op": "remove", "id": op["id"], "rtree": op["rtree"]})
        elif k == "addFrom":
            out.append({"op": "addFrom", "ls": [wire_lanelet(l) for l in op["ls"]]})
        elif k == "sc_remove":
            out.append({"op": "scRemove", "ids": op["ids"]})
        elif k == "sc_add":
            pos[-1] = None
            for l in op["ls"][:op["n_ok"]]:             # the entries before the one that raises are added one by one
                out.append({"op": "add", "l": wire_lanelet(l), "rtree": True})
        elif k == "move":
            out.append({"op": "move", "t": [rat(op["t"][0]), rat(op["t"][1])], "shift": 100000 * (i + 1)})
        elif k == "probe":
            pos[-1] = None
        elif k == "cut":
            out.append({"op": "copy", "shift": 100000 * (i + 1)})
            for lid in op.get("drop", []):
                out.append({"op": "remove", "id": lid, "rtree": True})
        else:
            out.append({"op": "copy", "shift": 100000 * (i + 1)})
    return out, pos


def impl_rings(n):
    """Exact polygon (right boundary followed by the reversed left boundary) of every lanelet currently in the network."""
    out = {}
    for l in n.lanelets:
        vs = [list(map(float, p)) for p in l.right_vertices] + [list(map(float, p)) for p in l.left_vertices[::-1]]
        out[int(l.lanelet_id)] = geom.ring_of(vs)
    return out


# ================================================================================================ one case

def run_net(ctx, case, model=True):
    import numpy as np
    from commonroad.geometry.shape import ShapeGroup  # noqa
    route, lanelets, ops, pts, shapes = case["route"], case["lanelets"], case["ops"], case["pts"], case["shapes"]
    ctx.tag("net/route/" + route)
    for op in ops:
        k = op["op"]
        if k == "add":
            ctx.tag("net/op/add")
        elif k == "remove":
            ctx.tag("net/op/remove")
        elif k == "probe":
            ctx.tag("net/probe/" + op["what"])
        else:
            ctx.tag("net/op/" + k)
        if op.get("rtree") is False:
            ctx.tag("net/op/rtree-false")
        if k == "cut" and op.get("exclude"):
            ctx.tag("net/op/cut-exclude-type")
        if k == "sc_remove" and not op.get("ref", True):
            ctx.tag("net/op/sc_remove-no-referenced")
        if k in ("sc_remove", "sc_add") and not op.get("as_list", True):
            ctx.tag("net/op/single-object-form")
    for l in (lanelets + [o["l"] for o in ops if o["op"] == "add"] + [x for o in ops if o["op"] in ("sc_add", "addFrom") for x in o["ls"]]):
        for c in (dtype_classes(l) if not (route in FILE_ROUTES and any(l is x for x in lanelets)) else ()):
            ctx.tag("net/lanelet/dtype/" + c)           # (what comes out of a file is float64 whatever was written)
        if l.get("extras"):
            ctx.tag("net/lanelet/extras")
        for kk in (l.get("pre") or {}):
            ctx.tag("net/lanelet/pre-" + kk)
        if l.get("idtype") == "np" or l["id"] in (0, 2 ** 40):
            ctx.tag("net/lanelet/id-class")
    ctx.tag("net/points/" + case.get("ptform", "array"))
    ctx.case(case)

    r = call(build_network, ctx, route, lanelets)
    if r[0] == "err":
        _fail(ctx, f"C06/build/{route}/raises-{r[1]}", f"building the network by route {route} raises {r[2]}", case)
        return
    n, sc = r[1]
    caught = []
    known = {l["id"] for l in lanelets} if route != "empty" else set()
    n2 = None
    if case.get("shared") and route == "add" and not any(o["op"] == "move" for o in ops):
        # the same Lanelet objects in a second network: whatever happens to the first must not disturb it
        from commonroad.scenario.lanelet import LaneletNetwork
        n2 = LaneletNetwork()
        for la in n.lanelets:
            n2.add_lanelet(la)
        ctx.tag("net/shared-lanelet-objects")
    ptform = case.get("ptform", "array")
    if ptform == "list":
        nps = [[float(p[0]), float(p[1])] for p in pts]
    elif ptform == "int" and all(float(c).is_integer() for p in pts for c in p):
        nps = [np.array([int(p[0]), int(p[1])]) for p in pts]
    else:
        nps = [np.array(p, dtype=float) for p in pts]
    if pts and ops:
        call(n.find_lanelet_by_position, nps)           # query -> mutate -> query
    for i, op in enumerate(ops):
        if op["op"] == "add" and op["l"]["id"] in known:
            ctx.tag("net/op/add-known")
        if op["op"] == "remove" and op["id"] not in known:
            ctx.tag("net/op/remove-unknown")
        if op["op"] == "add":
            known.add(op["l"]["id"])
        if op["op"] == "remove":
            known.discard(op["id"])
        if op["op"] == "addFrom":
            known.update(l["id"] for l in op["ls"])
        if op["op"] == "sc_remove":
            known.difference_update(op["ids"])
        keep_ids = None
        if op["op"] == "cut":
            excl = set(op.get("exclude", []))
            keep_ids = sorted(int(la.lanelet_id) for la in n.lanelets if not ({t.name for t in la.lanelet_type} & excl))
        r = call(apply_op, n, op, sc)
        if r[0] == "err":
            _fail(ctx, f"C06/op/{op['op']}/raises-{r[1]}", f"operation {i} ({op['op']}) raises {r[2]}", case)
            return
        n, sc, c = r[1]
        caught.append(c)
        if keep_ids is not None and sorted(int(la.lanelet_id) for la in n.lanelets) != keep_ids:
            _fail(ctx, "C06/create_from_lanelet_network/wrong-lanelets", f"create_from_lanelet_network(exclude_lanelet_types="
                  f"{op.get('exclude')}) holds {sorted(int(la.lanelet_id) for la in n.lanelets)}, lanelets without an excluded type: "
                  f"{keep_ids}", dict(case, ops=ops[:i + 1], pts=[], shapes=[]))
        if op["op"] in ("sc_remove", "sc_add"):
            ctx.tag(f"net/op/{op['op']}-fails" if c else f"net/op/{op['op']}-ok")
            if c and all(o["op"] == "probe" for o in ops[i + 1:]):
                ctx.tag("net/history/query-after-failed-op")
        if op["op"] == "sc_add" and c != op["expect"]:
            _fail(ctx, "C06/op/sc_add/unexpected-outcome", f"Scenario.add_objects of lanelets {[x['id'] for x in op['ls']]}: raised "
                  f"{c}, expected {op['expect']} (ids registered in the scenario decide)", case)

    # ---- the polygon of every lanelet is its right boundary followed by the reversed left boundary; lanelet_polygons lists them
    for la in n.lanelets:
        want = [tuple(map(float, v[:2])) for v in la.right_vertices] + [tuple(map(float, v[:2])) for v in la.left_vertices[::-1]]
        got = [tuple(map(float, v[:2])) for v in la.polygon.shapely_object.exterior.coords]
        if got[:-1] != want and got != want:
            _fail(ctx, "C06/lanelet.polygon/ring-differs", f"lanelet {la.lanelet_id}: polygon ring {got} is not right boundary + reversed "
                  f"left boundary {want}", case)
        if la.convert_to_polygon() is not la.polygon:
            _fail(ctx, "C06/lanelet.polygon/convert_to_polygon-differs", f"lanelet {la.lanelet_id}: convert_to_polygon() is not polygon", case)
    if [id(x) for x in n.lanelet_polygons] != [id(la.polygon) for la in n.lanelets]:
        _fail(ctx, "C06/lanelet_polygons/differs", "lanelet_polygons is not the list of the lanelets' polygons", case)
    if n2 is not None:
        rings2 = impl_rings(n2)
        r2 = call(n2.find_lanelet_by_position, nps) if pts else ("ok", [])
        if r2[0] == "err":
            _fail(ctx, f"C06/shared/find_lanelet_by_position/raises-{r2[1]}", f"second network sharing the lanelet objects: {r2[2]}", case)
        else:
            for p, got in zip(pts, r2[1]):
                q = (frac(p[0]), frac(p[1]))
                st = {i: geom.ring_point(q, rings2[i], BAND) for i in rings2}
                want = sorted(i for i in st if st[i][0] and not st[i][2])
                got = sorted(int(g) for g in got if not st[int(g)][2])
                if got != want:
                    _fail(ctx, "C06/shared/find_lanelet_by_position/wrong", f"a second network holding the same lanelet objects answers "
                          f"{got} for {p}, its lanelets containing the point: {want}", dict(case, pts=[p], shapes=[]))

    rings = impl_rings(n)
    ids = sorted(rings)

    # ---- find_lanelet_by_position
    r0 = call(n.find_lanelet_by_position, [])
    if r0[0] == "err":
        _fail(ctx, f"C06/find_lanelet_by_position/raises-{r0[1]}/empty-point-list", f"find_lanelet_by_position([]) raises {r0[2]}",
              dict(case, pts=[], shapes=[]))
    elif r0[1] != []:
        _fail(ctx, "C06/find_lanelet_by_position/empty-point-list-nonempty", f"find_lanelet_by_position([]) = {r0[1]}",
              dict(case, pts=[], shapes=[]))
    r = call(n.find_lanelet_by_position, nps) if pts else ("ok", [])
    if pts and r[0] == "ok":
        r1 = call(n.find_lanelet_by_position, nps[:1])
        if r1[0] == "err" or sorted(map(int, r1[1][0])) != sorted(map(int, r[1][0])):
            _fail(ctx, "C06/find_lanelet_by_position/single-point-differs", f"the first point alone: {r1[1:]}, in the list: {r[1][0]}",
                  dict(case, pts=pts[:1], shapes=[]))
    impl_pos, want_pos, masks_pos = None, [], []
    for p in pts:
        q = (frac(p[0]), frac(p[1]))
        want, amb = [], []
        for i in ids:
            ins, onb, near = geom.ring_point(q, rings[i], BAND)
            if near:
                amb.append(i)
            elif ins:
                want.append(i)
            if onb:
                ctx.tag("net/point/on-boundary")
        want_pos.append(want)
        masks_pos.append(amb)
        ctx.tag("net/point/multi" if len(want) > 1 else ("net/point/none" if not want else "net/point/one"))
    if r[0] == "err":
        impl_pos = {"err": r[1]}
        _fail(ctx, f"C06/find_lanelet_by_position/raises-{r[1]}", f"find_lanelet_by_position raises {r[2]} (route {route}, {len(ops)} ops)",
                 dict(case, pts=pts[:1], shapes=[]))
    else:
        impl_pos = {"ok": []}
        for p, got, want, amb in zip(pts, r[1], want_pos, masks_pos):
            got = sorted(int(g) for g in got if int(g) not in amb)
            impl_pos["ok"].append(got)
            if amb:
                ctx.excluded += 1
            if got != want:
                miss, extra = sorted(set(want) - set(got)), sorted(set(got) - set(want))
                what = "misses" if miss else ("reports" if extra else "repeats")
                _fail(ctx, f"C06/find_lanelet_by_position/{what}",
                         f"point {p}: find_lanelet_by_position = {got}, lanelets whose polygon contains it = {want} (route {route}, ops "
                         f"{[o['op'] for o in ops]})", dict(case, pts=[p], shapes=[]))

    # ---- Lanelet.contains_points
    if len(pts) >= 2:
        arr = np.array(pts, dtype=float)
        for l in n.lanelets:
            rr = call(l.contains_points, arr)
            if rr[0] == "err":
                _fail(ctx, f"C06/contains_points/raises-{rr[1]}", f"Lanelet.contains_points raises {rr[2]}", case)
                continue
            for p, got, want, amb in zip(pts, rr[1], want_pos, masks_pos):
                if l.lanelet_id in amb:
                    continue
                if bool(got) != (l.lanelet_id in want):
                    _fail(ctx, "C06/contains_points/wrong", f"lanelet {l.lanelet_id}.contains_points({p}) = {bool(got)}, exact polygon "
                             f"membership = {l.lanelet_id in want}", dict(case, pts=[p, p], shapes=[]))
            if model:
                # the model builds the polygon from the two boundary polylines of THIS lanelet (right ++ reversed left)
                wl = {"id": int(l.lanelet_id), "addr": 0, "left": wire_pts([list(map(float, v)) for v in l.left_vertices]),
                      "right": wire_pts([list(map(float, v)) for v in l.right_vertices])}
                keep = [k for k, amb in enumerate(masks_pos) if l.lanelet_id not in amb]
                m = ctx.driver.ask("C06", "contains_points", {"lanelet": wl, "pts": wire_pts(pts)})
                ctx.compare(case, {"ok": [bool(rr[1][k]) for k in keep]},
                            {"ok": [m["ok"][k] for k in keep]} if "ok" in m else m,
                            "Lanelet.contains_points vs CR.Index.Lanelet.containsPoints")
        if model and n.lanelets:
            # the assertion on the point array: a single point is refused
            l = n.lanelets[0]
            r1 = call(l.contains_points, np.array(pts[:1], dtype=float))
            wl = {"id": int(l.lanelet_id), "addr": 0, "left": wire_pts([list(map(float, v)) for v in l.left_vertices]),
                  "right": wire_pts([list(map(float, v)) for v in l.right_vertices])}
            m = ctx.driver.ask("C06", "contains_points", {"lanelet": wl, "pts": wire_pts(pts[:1])})
            ctx.compare(case, {"err": r1[1]} if r1[0] == "err" else {"ok": [bool(x) for x in r1[1]]}, m,
                        "Lanelet.contains_points on a single point vs CR.Index.Lanelet.containsPoints")

    # ---- find_lanelet_by_shape (+ cut-out by shape)
    from commonroad.scenario.lanelet import LaneletNetwork
    impl_sh, masks_sh = [], []          # implementation answers / ambiguous ids, both for the comparison with the model of the code
    for spec in shapes:
        ctx.tag("net/shape/" + spec["k"])
        shp = geom.build_shape(spec)
        rr = call(n.find_lanelet_by_shape, shp)
        want, amb, amb_code, sure_code = [], [], [], []
        for i in ids:
            t, a = geom.shape_meets_ring(spec, rings[i], exported=True, band=BAND)
            if a:
                amb.append(i)
            elif t:
                want.append(i)
            if geom.has_circle(spec):
                tc, ac = geom.shape_meets_ring(spec, rings[i], exported=True, band=BAND, circ_scale=CODE_CIRC_SCALE)
                if ac:
                    amb_code.append(i)
                elif tc:
                    sure_code.append(i)
            else:
                if a:
                    amb_code.append(i)
                # touching: meets, but no interior point in common (recognised by an unsuccessful robust test)
                if t and not a and spec["k"] != "group" and geom.rings_intersect(rings[i], _spec_ring(spec), BAND)[1]:
                    ctx.tag("net/shape/touching")
        masks_sh.append(amb_code)
        if amb:
            ctx.excluded += 1
        ctx.tag("net/shape/multi" if len(want) > 1 else ("net/shape/none" if not want else "net/shape/one"))
        if rr[0] == "err":
            impl_sh.append({"err": rr[1]})
            _fail(ctx, f"C06/find_lanelet_by_shape/raises-{rr[1]}/{spec['k']}", f"find_lanelet_by_shape({spec}) raises {rr[2]}",
                     dict(case, pts=[], shapes=[spec]))
            continue
        impl_sh.append({"ok": sorted(int(g) for g in rr[1] if int(g) not in amb_code)})
        rr2 = call(n.find_lanelet_by_shape, shp)           # the same shape object once more (cached exported geometry)
        if rr2[0] == "err" or sorted(map(int, rr2[1])) != sorted(map(int, rr[1])):
            _fail(ctx, f"C06/find_lanelet_by_shape/second-query-differs/{spec['k']}", f"shape {spec}: first answer {rr[1]}, second "
                  f"{rr2[1:]}", dict(case, pts=[], shapes=[spec]))
        got = sorted(int(g) for g in rr[1] if int(g) not in amb)
        if got != want:
            miss, extra = sorted(set(want) - set(got)), sorted(set(got) - set(want))
            what = "misses" if miss else ("reports" if extra else "repeats")
            if geom.has_circle(spec) and any(i in sure_code for i in miss):
                what = "misses-within-half-radius"            # not explained by the known r/2 export
            if len(set(got)) != len(got):
                what = "repeats"
            kk = kind_key(spec, lambda sp: (any(geom.shape_meets_ring(sp, rings[i], exported=True, band=BAND) == (True, False)
                                                for i in miss), False)) if spec["k"] == "group" else spec["k"]
            _fail(ctx, f"C06/find_lanelet_by_shape/{what}/{kk}",
                     f"shape {spec}: find_lanelet_by_shape = {got}, lanelets whose polygon meets the shape = {want} (route {route}, ops "
                     f"{[o['op'] for o in ops]})", dict(case, pts=[], shapes=[spec]))
        # create_from_lanelet_network(network, shape) keeps exactly the lanelets meeting the shape
        if spec["k"] == "group":
            continue            # (a ShapeGroup has no single exported geometry; the cut-out is not among the property's lookups)
        rc = call(LaneletNetwork.create_from_lanelet_network, n, shp)
        if rc[0] == "err":
            _fail(ctx, f"C06/create_from_lanelet_network/raises-{rc[1]}/{spec['k']}", f"create_from_lanelet_network(shape={spec}) raises {rc[2]}",
                     dict(case, pts=[], shapes=[spec]))
        else:
            gotc = sorted(l.lanelet_id for l in rc[1].lanelets if l.lanelet_id not in amb)
            if gotc != want:
                miss = sorted(set(want) - set(gotc))
                what = "misses" if miss else "reports"
                if spec["k"] == "circ" and any(i in sure_code for i in miss):
                    what = "misses-within-half-radius"
                _fail(ctx, f"C06/create_from_lanelet_network/{what}/{spec['k']}",
                         f"shape {spec}: create_from_lanelet_network keeps {gotc}, lanelets whose polygon meets the shape = {want}",
                         dict(case, pts=[], shapes=[spec]))

    # ---- correspondence with the Lean model
    if model:
        from_list = route in ("list", "list-nocleanup", "xml", "sc-net", "sc-replace")
        init = {"fromList": [wire_lanelet(l) for l in lanelets], "shift": 50000} if from_list else {}
        mops, pos = model_ops(ops)
        if not from_list:
            pos = [None if x is None else x + len(lanelets) for x in pos]
            mops = [{"op": "add", "l": wire_lanelet(l), "rtree": True} for l in lanelets] + mops
        m = ctx.driver.ask("C06", "net", {"tol": rat(TOL), "init": init, "ops": mops, "pts": wire_pts(pts),
                                          "shapes": [wire_shape(s) for s in shapes]})
        if "ok" in m:
            mm = m["ok"]
            mpos = mm["pos"]
            if "ok" in mpos:
                mpos = {"ok": [sorted(i for i in got if i not in amb) for got, amb in zip(mpos["ok"], masks_pos)]}
            msh = []
            for ans, amb in zip(mm["shape"], masks_sh):
                msh.append({"ok": sorted(i for i in ans["ok"] if i not in amb)} if "ok" in ans else ans)
            # exceptions raised and caught: the model predicts them for Scenario.remove_lanelet (other operations: none)
            mc = [mm["caught"][x] if (x is not None and o["op"] == "sc_remove") else None for x, o in zip(pos, ops)]
            m = {"ids": sorted(mm["ids"]), "pos": mpos, "shape": msh, "caught": mc}
        impl_caught = [c if o["op"] == "sc_remove" else None for c, o in zip(caught, ops)]
        ctx.compare(case, {"ids": ids, "pos": impl_pos, "shape": impl_sh, "caught": impl_caught}, m, "LaneletNetwork lookups vs CR.Index.findByPosition/findByShape")


def apply_fork(n, sc, how):
    """A further live network made from (n, sc); the source is not touched.  Returns (network, owning scenario or None)."""
    from commonroad.scenario.lanelet import LaneletNetwork
    if how == "deepcopy":
        return copy.deepcopy(n), None
    if how == "pickle":
        return pickle.loads(pickle.dumps(n)), None
    if how == "cut":
        return LaneletNetwork.create_from_lanelet_network(n), None
    if how == "from-list":
        return LaneletNetwork.create_from_lanelet_list(list(n.lanelets), cleanup_ids=False), None
    if how in ("sc-deepcopy", "sc-pickle"):
        if sc is None or sc.lanelet_network is not n:
            raise ValueError("scenario fork without the owning scenario")
        sc2 = copy.deepcopy(sc) if how == "sc-deepcopy" else pickle.loads(pickle.dumps(sc))
        return sc2.lanelet_network, sc2
    raise ValueError(how)


def _twin_lookups(ctx, n, case, nps, tag):
    """Oracle for ONE live network: its lookups against the exact geometry of the lanelets it holds NOW.  Returns
    (ids, position answers, shape answers, ambiguous ids per point, ambiguous ids per shape)."""
    pts, shapes = case["pts"], case["shapes"]
    hist_txt = [("fork %d %s" % (h["fork"], h["how"])) if "fork" in h else ("%s on %d" % (h["op"]["op"], h["on"])) for h in case["hist"]]
    rings = impl_rings(n)
    ids = sorted(rings)
    impl_pos, masks_pos, impl_sh, masks_sh = None, [], [], []
    r = call(n.find_lanelet_by_position, nps) if pts else ("ok", [])
    if r[0] == "err":
        impl_pos = {"err": r[1]}
        _fail(ctx, f"C06/twin/find_lanelet_by_position/raises-{r[1]}", f"{tag}: find_lanelet_by_position raises {r[2]} (history {hist_txt})",
              dict(case, pts=pts[:1], shapes=[]))
    else:
        impl_pos = {"ok": []}
        for p, got in zip(pts, r[1]):
            q = (frac(p[0]), frac(p[1]))
            want, amb = [], []
            for i in ids:
                ins, onb, near = geom.ring_point(q, rings[i], BAND)
                if near:
                    amb.append(i)
                elif ins:
                    want.append(i)
            masks_pos.append(amb)
            if amb:
                ctx.excluded += 1
            got = sorted(int(g) for g in got if int(g) not in amb)
            impl_pos["ok"].append(got)
            if got != want:
                miss, extra = sorted(set(want) - set(got)), sorted(set(got) - set(want))
                what = "misses" if miss else ("reports" if extra else "repeats")
                _fail(ctx, f"C06/twin/find_lanelet_by_position/{what}",
                      f"{tag} (lanelets {ids}), point {p}: find_lanelet_by_position = {got}, its lanelets whose polygon contains the "
                      f"point = {want} (route {case['route']}, history {hist_txt})", dict(case, pts=[p], shapes=[]))
    for spec in shapes:
        rr = call(n.find_lanelet_by_shape, geom.build_shape(spec))
        want, amb = [], []
        for i in ids:
            t, a = geom.shape_meets_ring(spec, rings[i], exported=True, band=BAND)
            if a:
                amb.append(i)
            elif t:
                want.append(i)
        masks_sh.append(amb)
        if amb:
            ctx.excluded += 1
        if rr[0] == "err":
            impl_sh.append({"err": rr[1]})
            _fail(ctx, f"C06/twin/find_lanelet_by_shape/raises-{rr[1]}/{spec['k']}", f"{tag}: find_lanelet_by_shape({spec}) raises {rr[2]} "
                  f"(history {hist_txt})", dict(case, pts=[], shapes=[spec]))
            continue
        got = sorted(int(g) for g in rr[1] if int(g) not in amb)
        impl_sh.append({"ok": got})
        if got != want:
            miss, extra = sorted(set(want) - set(got)), sorted(set(got) - set(want))
            what = "misses" if miss else ("reports" if extra else "repeats")
            _fail(ctx, f"C06/twin/find_lanelet_by_shape/{what}/{spec['k']}",
                  f"{tag} (lanelets {ids}), shape {spec}: find_lanelet_by_shape = {got}, its lanelets whose polygon meets the shape = "
                  f"{want} (route {case['route']}, history {hist_txt})", dict(case, pts=[], shapes=[spec]))
    return ids, impl_pos, impl_sh, masks_pos, masks_sh


def run_twin(ctx, case, model=True):
    import numpy as np
    route, lanelets, hist, pts = case["route"], case["lanelets"], case["hist"], case["pts"]
    ctx.tag("twin/route/" + ("scenario-owned" if route in SC_ROUTES else "plain"))
    ctx.case(case)
    r = call(build_network, ctx, route, lanelets)
    if r[0] == "err":
        _fail(ctx, f"C06/build/{route}/raises-{r[1]}", f"building the network by route {route} raises {r[2]}", case)
        return
    live = [list(r[1])]                         # slot -> [network, owning scenario or None]
    nps = [np.array(p, dtype=float) for p in pts]
    family = [{0}]                              # slot -> slots it is related to by forks (itself included)
    edited_since = [set()]                      # slot -> relatives whose lanelet set changed since this slot's last rebuild
    for i, h in enumerate(hist):
        if "fork" in h:
            k = h["fork"]
            ctx.tag("twin/fork/" + h["how"])
            r = call(apply_fork, live[k][0], live[k][1], h["how"])
            if r[0] == "err":
                _fail(ctx, f"C06/twin/fork/{h['how']}/raises-{r[1]}", f"step {i}: fork of slot {k} by {h['how']} raises {r[2]}", case)
                return
            live.append(list(r[1]))
            new = len(live) - 1
            fam = family[k] | {new}
            family.append(set())
            for j in fam:
                family[j] = fam
            edited_since.append(set())
            if k != 0 or any("fork" in g for g in hist[:i]):
                ctx.tag("twin/fork/of-a-fork-or-second-fork")
        else:
            k, op = h["on"], h["op"]
            kind = op["op"] if op["op"] != "probe" else ("rebuild-probe" if op["what"] in ("deepcopy-discard", "pickle-discard") else "probe")
            ctx.tag("twin/op/" + kind)
            ctx.tag("twin/op-on/" + ("source" if k == 0 else "copy"))
            before = sorted(int(la.lanelet_id) for la in live[k][0].lanelets)
            r = call(apply_op, live[k][0], op, live[k][1])
            if r[0] == "err":
                _fail(ctx, f"C06/twin/op/{op['op']}/raises-{r[1]}", f"step {i}: {op['op']} on slot {k} raises {r[2]}", case)
                return
            live[k][0], live[k][1], c = r[1]
            if c is not None:
                _fail(ctx, f"C06/twin/op/{op['op']}/unexpected-{c}", f"step {i}: {op['op']} on slot {k} raised {c}; the ids registered "
                      f"in ITS scenario do not explain that", case)
            changed = sorted(int(la.lanelet_id) for la in live[k][0].lanelets) != before or op["op"] == "move"
            if kind in REBUILDING:
                if edited_since[k]:
                    ctx.tag("twin/history/edit-one-then-rebuild-other")
                    if 0 in edited_since[k]:
                        ctx.tag("twin/history/edit-source-then-rebuild-copy")
                    if k == 0:
                        ctx.tag("twin/history/edit-copy-then-rebuild-source")
                edited_since[k] = set()
            if changed:
                for j in family[k] - {k}:
                    edited_since[j].add(k)
        if case.get("mid") and i + 1 < len(hist):
            ctx.tag("twin/queries-after-every-step")
            for j, (n, _) in enumerate(live):
                _twin_lookups(ctx, n, case, nps, f"after step {i}, live network {j}")
    if len(live) >= 3:
        ctx.tag("twin/three-or-more-live-networks")
    res = [_twin_lookups(ctx, n, case, nps, f"after the history, live network {j}") for j, (n, _) in enumerate(live)]
    if len({tuple(x[0]) for x in res}) > 1:
        ctx.tag("twin/live-networks-differ")

    if model:
        from_list = route in ("list", "list-nocleanup", "xml", "sc-net", "sc-replace")
        init = {"fromList": [wire_lanelet(l) for l in lanelets], "shift": 50000} if from_list else {}
        wops = [] if from_list else [{"on": 0, "op": {"op": "add", "l": wire_lanelet(l), "rtree": True}} for l in lanelets]
        for i, h in enumerate(hist):
            if "fork" in h:
                wops.append({"fork": h["fork"], "shift": 100000 * (i + 1)})
            else:
                for mo in model_ops([h["op"]])[0]:
                    if "shift" in mo:
                        mo["shift"] = 100000 * (i + 1)                 # fresh objects per step (model_ops numbers from 0)
                    wops.append({"on": h["on"], "op": mo})
        m = ctx.driver.ask("C06", "world", {"tol": rat(TOL), "init": init, "wops": wops, "pts": wire_pts(pts),
                                            "shapes": [wire_shape(s) for s in case["shapes"]]})
        impl = [{"ids": ids, "pos": ip, "shape": ish} for ids, ip, ish, _, _ in res]
        if "ok" in m and len(m["ok"]) == len(res):
            out = []
            for slot, (ids, ip, ish, mp, ms) in zip(m["ok"], res):
                mpos = slot["pos"]
                if "ok" in mpos and len(mp) == len(mpos["ok"]):
                    mpos = {"ok": [sorted(i for i in got if i not in amb) for got, amb in zip(mpos["ok"], mp)]}
                msh = [({"ok": sorted(i for i in ans["ok"] if i not in amb)} if "ok" in ans else ans) for ans, amb in zip(slot["shape"], ms)]
                out.append({"ids": sorted(slot["ids"]), "pos": mpos, "shape": msh})
            m = out
        ctx.compare(case, impl, m, "lookups of every live network vs CR.Index.wrun + findByPosition/findByShape per slot")


def _spec_ring(spec):
    if spec["k"] == "rect":
        return geom.ring_of(geom.rect_vertices(spec))
    return geom.ring_of(spec["v"])


def _exported_contains(shape, p):
    """Point membership in the planar geometry the shape exports (members' geometries for a group)."""
    import shapely.geometry
    from commonroad.geometry.shape import ShapeGroup
    pt = shapely.geometry.Point(p)
    if isinstance(shape, ShapeGroup):
        return any(s.shapely_object.intersects(pt) for s in shape.shapes)
    return bool(shape.shapely_object.intersects(pt))


def run_shape(ctx, case, model=True):
    import numpy as np
    spec, pts = case["shape"], case["pts"]
    ctx.tag("shape/" + spec["k"])
    if case.get("variant"):
        ctx.tag("shape/variant/" + case["variant"])
    ctx.case(case)
    r = call(build_shape_case, case)
    if r[0] == "err":
        _fail(ctx, f"C06/shape/construct/raises-{r[1]}/{spec['k']}", f"constructing {spec} ({case.get('variant') or case.get('hist')}) "
              f"raises {r[2]}", case)
        return
    shp, hist = r[1]
    if hist:
        ctx.tag("shape/hist/" + hist)
        ctx.tag("shape/hist/after-query" if case["hist"]["query_first"] else "shape/hist/before-query")
        if case["hist"].get("mode"):
            ctx.tag("shape/hist/mode/" + case["hist"]["mode"])
            if case["hist"]["query_first"] and case["hist"]["mode"] != "assign":
                ctx.tag("shape/hist/in-place-after-cached-read")
        model = False               # the model has no attribute setters: the oracle judges histories
    impl, mask, impl_exp, mask_exp = [], [], [], []
    kk = kind_key(spec)
    kke = lambda p: kind_key(spec, lambda sp: geom.point_in_exported(sp, p, BAND))  # noqa
    for p in pts:
        member, amb = geom.point_in_shape(spec, p, BAND)
        emember, eamb = geom.point_in_exported(spec, p, BAND)
        q = (frac(p[0]), frac(p[1]))
        if member and not amb and _on_boundary(spec, q):
            ctx.tag("shape/on-boundary")
        sub = {"kind": "shape", "shape": spec, "pts": [p]}
        rc = call(shp.contains_point, np.array(p, dtype=float))
        if rc[0] == "err":
            _fail(ctx, f"C06/contains_point/raises-{rc[1]}/{kk}", f"{spec}.contains_point({p}) raises {rc[2]}", sub)
            impl.append(None)
            mask.append(True)
        else:
            got = bool(rc[1])
            impl.append(got)
            mask.append(amb)
            if amb:
                ctx.excluded += 1
            elif got != member:
                key = f"C06/contains_point/stale-after-setter/{hist}" if hist else f"C06/contains_point/{'misses' if member else 'reports'}/{kk}"
                _fail(ctx, key, f"{spec}{' (after ' + hist + ' = ...)' if hist else ''}.contains_point({p}) = {got}, the set "
                         f"it denotes {'contains' if member else 'does not contain'} the point", dict(case, pts=[p]))
        re_ = call(_exported_contains, shp, p)
        if re_[0] == "err":
            _fail(ctx, f"C06/shapely_object/raises-{re_[1]}/{kk}", f"{spec}.shapely_object raises {re_[2]}", sub)
            impl_exp.append(None)
            mask_exp.append(True)
            continue
        impl_exp.append(bool(re_[1]))
        mask_exp.append(geom.point_in_exported(spec, p, BAND, circ_scale=CODE_CIRC_SCALE)[1] if geom.has_circle(spec) else eamb)
        if eamb:
            ctx.excluded += 1
        elif re_[1] != emember:
            what = "misses" if emember else "reports"
            if emember and geom.has_circle(spec) and geom.point_in_exported(spec, p, BAND, circ_scale=CODE_CIRC_SCALE) == (True, False):
                what = "misses-within-half-radius"
            stale = hist and not (what == "misses" and geom.has_circle(spec))      # a plain circle miss is the known r/2 export
            _fail(ctx, f"C06/shapely_object/stale-after-setter/{hist}" if stale else f"C06/shapely_object/{what}/{kke(p)}",
                  f"exported geometry of {spec}{' (after ' + hist + ' = ...)' if hist else ''} "
                     f"{'contains' if re_[1] else 'does not contain'} {p}, the set the shape denotes {'does' if emember else 'does not'}", sub)
    if model:
        a = {"shape": wire_shape(spec), "pts": wire_pts(pts)}
        m1 = ctx.driver.ask("C06", "contains", a)["ok"]
        m2 = ctx.driver.ask("C06", "denotes", a)["ok"]
        m4 = ctx.driver.ask("C06", "exported", a)["ok"]
        keep = [i for i, x in enumerate(mask) if not x]
        ctx.compare(case, [impl[i] for i in keep], [m1[i] for i in keep], "Shape.contains_point vs CR.Geom.Shape.contains")
        ctx.compare(case, [impl[i] for i in keep], [m2[i] for i in keep], "Shape.contains_point vs the denoted set (disc / box / ring / union)")
        keep_e = [i for i, x in enumerate(mask_exp) if not x]
        ctx.compare(case, [impl_exp[i] for i in keep_e], [m4[i] for i in keep_e], "Shape.shapely_object vs CR.Geom.Prim.exported")
        if spec["k"] == "rect":
            m3 = ctx.driver.ask("C06", "rect", a)["ok"]
            bad = [i for i in keep if len(set(m3[i])) != 1]
            ctx.compare(case, [], bad, "model: ring test = local box test = convex-quad test for a rectangle")


def kind_key(spec, test=None):
    """Class of a shape for finding keys.  A group with circle members is "group+circ" only if the expected answer hangs on
    the circles (test(group without its circles) is not a sure True): the exported circle is a known finding and must not
    hide a failure that the other members cause."""
    if spec["k"] != "group":
        return spec["k"]
    if not geom.has_circle(spec):
        return "group"
    rest = [m for m in spec["s"] if m["k"] != "circ"]
    if test is not None and rest and test({"k": "group", "s": rest}) == (True, False):
        return "group"
    return "group+circ"


def _on_boundary(spec, q):
    k = spec["k"]
    if k == "group":
        return any(_on_boundary(s, q) for s in spec["s"])
    if k == "circ":
        return (q[0] - frac(spec["c"][0])) ** 2 + (q[1] - frac(spec["c"][1])) ** 2 == frac(spec["r"]) ** 2
    return geom.point_in_ring(q, _spec_ring(spec))[1] == 0


def build_obstacle(o, t):
    """The obstacle, built so that its occupancy at time step t is `shape` placed at (pos, o)."""
    import numpy as np
    from commonroad.prediction.prediction import Occupancy, SetBasedPrediction, TrajectoryPrediction
    from commonroad.scenario.obstacle import DynamicObstacle, ObstacleType, StaticObstacle
    from commonroad.scenario.state import InitialState, KSState
    from commonroad.scenario.trajectory import Trajectory
    pos = np.array(o["pos"], dtype=float)
    shape = geom.build_shape(o["shape"])
    if o["type"] == "static":
        return StaticObstacle(o["id"], ObstacleType.PARKED_VEHICLE, shape,
                              InitialState(position=pos, orientation=o["o"], time_step=0))
    init = InitialState(position=pos if t == 0 else pos + 100.0, orientation=o["o"], time_step=0, velocity=1.0, acceleration=0.0,
                        yaw_rate=0.0, slip_angle=0.0)
    if o["type"] == "set":
        # the occupancy set at every predicted step is the shape translated to pos
        placed = shape.rotate_translate_local(pos, 0.0)
        occ = [Occupancy(k, placed if k == t else shape.rotate_translate_local(pos + 100.0, 0.0)) for k in range(1, 4)]
        return DynamicObstacle(o["id"], ObstacleType.CAR, shape, init, SetBasedPrediction(1, occ))
    states = [KSState(position=pos if k == t else pos + 100.0, orientation=o["o"], time_step=k, velocity=1.0, steering_angle=0.0)
              for k in range(1, 4)]
    return DynamicObstacle(o["id"], ObstacleType.CAR, shape, init, TrajectoryPrediction(Trajectory(1, states), shape))


def run_obst(ctx, case, model=True):
    from commonroad.scenario.lanelet import LaneletNetwork
    lanelets, obs, t = case["lanelets"], case["obs"], case["t"]
    ctx.case(case)
    for l in lanelets:
        for c in dtype_classes(l):
            ctx.tag("obst/lanelet/dtype/" + c)
    r = call(lambda: [build_obstacle(o, t) for o in obs])
    if r[0] == "err":
        _fail(ctx, f"C06/obstacle/construct/raises-{r[1]}", f"constructing the obstacles raises {r[2]}", case)
        return
    objs = r[1]
    n = LaneletNetwork.create_from_lanelet_list([build_lanelet(l) for l in lanelets])
    rings = impl_rings(n)
    ids = [l.lanelet_id for l in n.lanelets]
    # geometric truth from the occupancy shapes the obstacles report at time t (C04 covers their placement)
    specs, truth, amb, truthc, ambc = {}, {}, {}, {}, {}     # (truthc, ambc): for the exported geometry as the code builds it
    for o, obj in zip(obs, objs):
        ctx.tag("obst/" + o["type"])
        occ = obj.occupancy_at_time(t)
        if occ is None:
            _fail(ctx, "C06/obstacle/no-occupancy", f"obstacle {o} has no occupancy at time step {t}", case)
            return
        spec = geom.spec_of_shape(occ.shape)
        if spec["k"] == "group":
            ctx.tag("obst/group")
        specs[o["id"]] = spec
        for i in ids:
            tr, a = geom.shape_meets_ring(spec, rings[i], exported=True, band=BAND)
            truth[(i, o["id"])], amb[(i, o["id"])] = tr, a
            truthc[(i, o["id"])], ambc[(i, o["id"])] = (geom.shape_meets_ring(spec, rings[i], exported=True, band=BAND,
                                                                               circ_scale=CODE_CIRC_SCALE)
                                                        if geom.has_circle(spec) else (tr, a))
            if a:
                ctx.excluded += 1
            else:
                ctx.tag("obst/hit" if tr else "obst/miss")
    sub = lambda i, k: dict(case, lanelets=[l for l in lanelets if l["id"] == i] or lanelets, obs=[o for o in obs if o["id"] == k])  # noqa
    kko = lambda i, k: kind_key(specs[k], lambda sp: geom.shape_meets_ring(sp, rings[i], exported=True, band=BAND))  # noqa

    # value class: no candidates at all
    r0 = call(lambda: ([la.get_obstacles([], t) for la in n.lanelets], n.map_obstacles_to_lanelets([]), n.filter_obstacles_in_network([])))
    if r0[0] == "err" or any(x for x in r0[1][0]) or r0[1][1] != {} or r0[1][2] != []:
        _fail(ctx, "C06/obstacles/empty-candidate-list", f"with no candidate obstacle: {r0[1:]}", dict(case, obs=[]))
    ctx.tag("obst/empty-candidate-list")

    impl_get = []
    for l in n.lanelets:
        rr = call(l.get_obstacles, objs, t)
        if rr[0] == "err":
            _fail(ctx, f"C06/get_obstacles/raises-{rr[1]}", f"Lanelet.get_obstacles raises {rr[2]}", case)
            impl_get.append({"err": rr[1]})
            continue
        got = [x.obstacle_id for x in rr[1]]
        impl_get.append([k for k in got if not ambc[(l.lanelet_id, k)]])
        for o in obs:
            k = o["id"]
            if amb[(l.lanelet_id, k)]:
                continue
            if (k in got) != truth[(l.lanelet_id, k)]:
                _fail(ctx, "C06/get_obstacles/" + _what(truth, truthc, ambc, l.lanelet_id, k, specs[k]) + "/" + kko(l.lanelet_id, k),
                         f"lanelet {l.lanelet_id}.get_obstacles(t={t}) {'contains' if k in got else 'omits'} obstacle {k} with occupancy "
                         f"{specs[k]}; polygon meets the occupancy: {truth[(l.lanelet_id, k)]}", sub(l.lanelet_id, k))
        if len(got) != len(set(got)):
            _fail(ctx, "C06/get_obstacles/repeats", f"lanelet {l.lanelet_id}.get_obstacles returns an obstacle twice: {got}", case)

    impl_map, impl_filter = None, None
    if t == 0:
        rm = call(n.map_obstacles_to_lanelets, objs)
        if rm[0] == "err":
            _fail(ctx, f"C06/map_obstacles_to_lanelets/raises-{rm[1]}", f"map_obstacles_to_lanelets raises {rm[2]}", case)
        else:
            mp = {i: [x.obstacle_id for x in v] for i, v in rm[1].items()}
            impl_map = []
            for i in ids:
                got = mp.get(i, [])
                kept = [k for k in got if not ambc[(i, k)]]
                impl_map.append([i, kept])
                for o in obs:
                    k = o["id"]
                    if not amb[(i, k)] and (k in got) != truth[(i, k)]:
                        _fail(ctx, "C06/map_obstacles_to_lanelets/" + _what(truth, truthc, ambc, i, k, specs[k]) + "/" + kko(i, k),
                                 f"map_obstacles_to_lanelets: lanelet {i} -> {got}; obstacle {k} ({specs[k]}) meets the lanelet polygon: "
                                 f"{truth[(i, k)]}", sub(i, k))
            for i, got in mp.items():
                if i not in ids:
                    _fail(ctx, "C06/map_obstacles_to_lanelets/unknown-lanelet", f"key {i} is not a lanelet of the network", case)
                if not got:
                    _fail(ctx, "C06/map_obstacles_to_lanelets/empty-entry", f"lanelet {i} is listed with no obstacle", case)
        rf = call(n.filter_obstacles_in_network, objs)
        if rf[0] == "err":
            _fail(ctx, f"C06/filter_obstacles_in_network/raises-{rf[1]}", f"filter_obstacles_in_network raises {rf[2]}", case)
        else:
            got = [x.obstacle_id for x in rf[1]]
            keepc = {o["id"] for o in obs if any(truthc[(i, o["id"])] and not ambc[(i, o["id"])] for i in ids)
                     or not any(ambc[(i, o["id"])] for i in ids)}
            impl_filter = sorted(k for k in got if k in keepc)
            for o in obs:
                k = o["id"]
                sure_in = any(truth[(i, k)] and not amb[(i, k)] for i in ids)
                if not sure_in and any(amb[(i, k)] for i in ids):
                    continue                                   # the union's answer hangs on an ambiguous pair
                if (k in got) != sure_in:
                    kf = "group" if any(kko(i, k) == "group" for i in ids) else kind_key(specs[k])
                    what = "misses" if sure_in else "reports"
                    if sure_in and geom.has_circle(specs[k]) and any(truthc[(i, k)] and not ambc[(i, k)] for i in ids):
                        what = "misses-within-half-radius"
                    _fail(ctx, "C06/filter_obstacles_in_network/" + what + "/" + kf,
                             f"filter_obstacles_in_network {'keeps' if k in got else 'drops'} obstacle {k} ({specs[k]}); it meets a "
                             f"lanelet polygon: {sure_in}", dict(case, obs=[o]))
            if len(got) != len(set(got)):
                _fail(ctx, "C06/filter_obstacles_in_network/repeats", f"an obstacle is returned twice: {got}", case)

    if model:
        mo = [{"id": o["id"], "shape": wire_shape(specs[o["id"]])} for o in obs]
        m = ctx.driver.ask("C06", "obstacles", {"lanelets": [wire_lanelet(l) for l in lanelets], "obs": mo})["ok"]
        mget = [[k for k in got if not ambc[(i, k)]] for i, got in zip(ids, m["get"])]
        ctx.compare(case, impl_get, mget, "Lanelet.get_obstacles vs CR.Index.getObstacles")
        if impl_map is not None:
            mm = dict((i, got) for i, got in m["map"])
            mmap = [[i, [k for k in mm.get(i, []) if not ambc[(i, k)]]] for i in ids]
            ctx.compare(case, impl_map, mmap, "map_obstacles_to_lanelets vs CR.Index.mapObstacles")
        if impl_filter is not None:
            ctx.compare(case, impl_filter, sorted(k for k in m["filter"] if k in keepc),
                        "filter_obstacles_in_network vs CR.Index.filterObstacles")


def _what(truth, truthc, ambc, i, k, spec):
    """misses / reports; a miss of a shape with circles that the known r/2 export does not explain gets its own class."""
    if not truth[(i, k)]:
        return "reports"
    return "misses-within-half-radius" if geom.has_circle(spec) and truthc[(i, k)] and not ambc[(i, k)] else "misses"


# ---------------------------------------------------------------------------- polygon / shape intersection on exact inputs

def _interior_point(r, ring_f):
    """A grid point at least 1/8 inside the polygon (None if none is found)."""
    ring = geom.ring_of(ring_f)
    xs, ys = [v[0] for v in ring_f], [v[1] for v in ring_f]
    for _ in range(40):
        q = [round(r.uniform(min(xs), max(xs)) * 16) / 16.0, round(r.uniform(min(ys), max(ys)) * 16) / 16.0]
        ins, d2 = geom.point_in_ring((frac(q[0]), frac(q[1])), list(ring))
        if ins and d2 > Fraction(1, 64):
            return q
    return None


def gen_meets_case(r):
    """One polygon on the 1/16 grid and shapes placed against it: touching along an edge, along part of an edge, in one
    vertex, strictly inside, around it, just off an edge, across an edge, circles, and random shapes."""
    if r.random() < 0.5:
        ring = geom.gen_shape(r, kinds=("poly",))["v"]
    else:
        ring = _ring(r.choice(gen_lanelets(r, nmax=3)))
    n = len(ring)
    ccw = geom.shoelace(geom.ring_of(ring)) > 0
    shapes = []

    def edge(i):
        a, b = ring[i], ring[(i + 1) % n]
        dx, dy = b[0] - a[0], b[1] - a[1]
        out = (dy, -dx) if ccw else (-dy, dx)            # outward normal (not normalised; grid vector)
        return a, b, dx, dy, out

    for _ in range(r.randint(5, 9)):
        a, b, dx, dy, out = edge(r.randrange(n))
        mid = [(a[0] + b[0]) / 2, (a[1] + b[1]) / 2]
        k = r.choice([0.25, 0.5, 1.0])
        apex = [mid[0] + k * out[0], mid[1] + k * out[1]]
        what = r.choice(["edge", "part-edge", "vertex", "inside", "around", "off", "across", "rect-side", "circ", "random", "rot"])
        if what == "edge":
            shapes.append({"k": "poly", "v": [list(a), list(b), apex]})
        elif what == "part-edge":
            q = [a[0] + 0.75 * dx, a[1] + 0.75 * dy]
            shapes.append({"k": "poly", "v": [mid, q, apex]})
        elif what == "vertex":
            shapes.append({"k": "poly", "v": [list(a), [apex[0] + 0.25 * dx, apex[1] + 0.25 * dy],
                                              [apex[0] - 0.25 * dx - k * out[0] * 0.5, apex[1] - 0.25 * dy - k * out[1] * 0.5]]})
        elif what == "inside":
            q = _interior_point(r, ring)
            if q is not None:
                e = 1 / 32.0
                shapes.append(r.choice([{"k": "rect", "l": 2 * e, "w": 2 * e, "c": q, "o": 0.0},
                                        {"k": "poly", "v": [[q[0] - e, q[1] - e], [q[0] + e, q[1] - e], [q[0], q[1] + e]]}]))
        elif what == "around":
            xs, ys = [v[0] for v in ring], [v[1] for v in ring]
            m = r.choice([0.0, 0.0625, 1.0])               # 0: the box touches the polygon's extreme vertices from outside in
            shapes.append({"k": "rect", "l": max(xs) - min(xs) + 2 * m, "w": max(ys) - min(ys) + 2 * m,
                           "c": [(max(xs) + min(xs)) / 2, (max(ys) + min(ys)) / 2], "o": 0.0})
        elif what == "off":
            e = r.choice([1 / 16.0, 1 / 256.0])
            sh = [e * (1 if out[0] > 0 else -1 if out[0] < 0 else 0), e * (1 if out[1] > 0 else -1 if out[1] < 0 else 0)]
            shapes.append({"k": "poly", "v": [[a[0] + sh[0], a[1] + sh[1]], [b[0] + sh[0], b[1] + sh[1]],
                                              [apex[0] + sh[0], apex[1] + sh[1]]]})
        elif what == "across":
            shapes.append({"k": "poly", "v": [[mid[0] - 0.25 * out[0], mid[1] - 0.25 * out[1]], apex,
                                              [apex[0] + 0.25 * dx, apex[1] + 0.25 * dy]]})
        elif what == "rect-side":
            xs, ys = [v[0] for v in ring], [v[1] for v in ring]
            side = r.choice(["right", "top"])
            v = r.choice([q for q in ring if (q[0] == max(xs) if side == "right" else q[1] == max(ys))])
            if side == "right":
                shapes.append({"k": "rect", "l": 1.0, "w": r.choice([0.5, 2.0]), "c": [v[0] + 0.5, v[1] + r.choice([0.0, 0.25, -0.25])],
                               "o": 0.0})
            else:
                shapes.append({"k": "rect", "l": r.choice([0.5, 2.0]), "w": 1.0, "c": [v[0] + r.choice([0.0, 0.25, -1.0]), v[1] + 0.5],
                               "o": 0.0})
        elif what == "circ":
            rad = r.choice([0.5, 1.0, 2.0, 4.0])
            f = r.choice([0.0, 0.25, 0.45, 0.55, 1.0, 2.5])
            shapes.append({"k": "circ", "r": rad, "c": [mid[0] + round(f * rad * 16) / 16.0 * (1 if out[0] > 0 else -1 if out[0] < 0 else 0),
                                                        mid[1] + round(f * rad * 16) / 16.0 * (1 if out[1] > 0 else -1 if out[1] < 0 else 0)]})
        elif what == "rot":
            shapes.append({"k": "rect", "l": r.choice([1.0, 4.0]), "w": r.choice([0.5, 2.0]), "c": mid,
                           "o": r.choice([0.3, -1.2, math.pi / 2, r.uniform(-3, 3)])})
        else:
            s = geom.gen_shape(r, kinds=("poly", "rect"), exact=True)
            shapes.append(s)
    shapes = [s for s in shapes if s["k"] != "poly" or (len(set(map(tuple, s["v"]))) == len(s["v"])
                                                         and geom.shoelace(geom.ring_of(s["v"])) != 0)]
    return {"kind": "meets", "ring": [list(v) for v in ring], "shapes": shapes}


def run_meets(ctx, case, model=True):
    """polygon.shapely_object.intersects(shape.shapely_object) vs the exact predicates (model: ringsMeet / discMeetsRing)."""
    import numpy as np
    from commonroad.geometry.shape import Polygon
    ring_f, shapes = case["ring"], case["shapes"]
    ctx.case(case)
    ring = geom.ring_of(ring_f)
    pa = Polygon(np.array(ring_f, dtype=float)).shapely_object
    impl, mask = [], []
    for spec in shapes:
        ctx.tag("meets/" + spec["k"])
        sub = dict(case, shapes=[spec])
        so = geom.build_shape(spec).shapely_object
        r1, r2 = call(pa.intersects, so), call(so.intersects, pa)
        if r1[0] == "err" or r2[0] == "err":
            _fail(ctx, f"C06/intersects/raises/{spec['k']}", f"intersects raises for polygon {ring_f} and {spec}", sub)
            impl.append(None)
            mask.append(True)
            continue
        got = bool(r1[1])
        impl.append([got, bool(r2[1])])
        t, a = geom.shape_meets_ring(spec, ring, exported=True, band=BAND)
        ac = geom.shape_meets_ring(spec, ring, exported=True, band=BAND, circ_scale=CODE_CIRC_SCALE)[1] if spec["k"] == "circ" else a
        mask.append(ac)
        if bool(r2[1]) != got:
            _fail(ctx, f"C06/intersects/asymmetric/{spec['k']}", f"polygon {ring_f} intersects {spec}: {got}, the other way round: "
                  f"{bool(r2[1])}", sub)
        if spec["k"] == "circ":
            continue                    # the exported circle is the known r/2 finding: compared with the model of the code only
        if a:
            ctx.excluded += 1
            continue
        if t and geom.spec_exact(spec) and geom.rings_intersect(ring, _spec_ring(spec), BAND)[1]:
            ctx.tag("meets/touching")
        ctx.tag("meets/true" if t else "meets/false")
        if got != t:
            _fail(ctx, f"C06/intersects/{'misses' if t else 'reports'}/{spec['k']}",
                  f"exported geometries of polygon {ring_f} and {spec} intersect: {got}; the sets they denote share a point: {t}", sub)
    if model and shapes:
        m = ctx.driver.ask("C06", "meets", {"ring": wire_pts(ring_f), "shapes": [wire_shape(s) for s in shapes]})["ok"]
        keep = [i for i, x in enumerate(mask) if not x]
        ctx.compare(case, [impl[i] for i in keep], [m[i] for i in keep],
                    "shapely intersects (both argument orders) vs CR.Geom.ringsMeet / discMeetsRing")


def run_case(ctx, case, model=True):
    k = case["kind"]
    if k == "net":
        run_net(ctx, case, model)
    elif k == "shape":
        run_shape(ctx, case, model)
    elif k == "meets":
        run_meets(ctx, case, model)
    elif k == "twin":
        run_twin(ctx, case, model)
    else:
        run_obst(ctx, case, model)


def check_dimensions():
    """The table of harness/c06_dims.py must know every constructor parameter, property and public method of the anchored
    classes and every parameter of the driven operations: code growth must not escape the generator silently."""
    unknown, stale = c06_dims.check()
    if stale:
        import sys
        print(f"C06 dimension table: entries the code no longer has: {stale}", file=sys.stderr)
    if unknown:
        raise InfraError(f"C06 dimension table (harness/c06_dims.py) does not know {unknown}: decide how the generator varies them")


def run(ctx):
    check_dimensions()
    for p in sorted(glob.glob(os.path.join(CORPUS_DIR, "C06", "*.json"))):
        run_case(ctx, json.load(open(p)))
    r = ctx.rng
    for _ in range(ctx.n(260)):
        run_case(ctx, gen_net_case(r))
    for _ in range(ctx.n(160)):
        run_case(ctx, gen_twin_case(r))
    for _ in range(ctx.n(500)):
        run_case(ctx, gen_shape_case(r))
    for _ in range(ctx.n(200)):
        run_case(ctx, gen_obst_case(r))
    for _ in range(ctx.n(300)):
        run_case(ctx, gen_meets_case(r))


search = run


def replay(ctx, case):
    run_case(ctx, case, model=False)


def _fails(case, key):
    c = Ctx("C06", "quick", 0)
    try:
        run_case(c, case, model=False)
    except Exception:  # noqa
        return False
    finally:
        c.close()
    return any(f.key == key for f in c.failures)


def shrink(case, key):
    """Greedy: drop operations, then lanelets / obstacles, while the same finding key is still reported."""
    if not _fails(case, key):
        return case
    if case["kind"] == "net":
        if case["ops"]:
            ops = shrink_list(case["ops"], lambda x: _fails(dict(case, ops=x), key), 40)
            if _fails(dict(case, ops=[]), key):
                ops = []
            case = dict(case, ops=ops)
        if len(case["lanelets"]) > 1:
            case = dict(case, lanelets=shrink_list(case["lanelets"], lambda x: _fails(dict(case, lanelets=x), key), 40))
    elif case["kind"] == "twin":
        # dropping a fork makes later steps name a slot that does not exist: such a candidate does not fail and is not taken
        case = dict(case, mid=False) if _fails(dict(case, mid=False), key) else case
        if case["hist"]:
            case = dict(case, hist=shrink_list(case["hist"], lambda x: _fails(dict(case, hist=x), key), 60))
        if len(case["lanelets"]) > 1:
            case = dict(case, lanelets=shrink_list(case["lanelets"], lambda x: _fails(dict(case, lanelets=x), key), 40))
    elif case["kind"] == "obst":
        if len(case["lanelets"]) > 1:
            case = dict(case, lanelets=shrink_list(case["lanelets"], lambda x: _fails(dict(case, lanelets=x), key), 40))
        if len(case["obs"]) > 1:
            case = dict(case, obs=shrink_list(case["obs"], lambda x: _fails(dict(case, obs=x), key), 40))
    return case
