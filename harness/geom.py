"""Independent planar geometry for the oracles (exact rational arithmetic where the inputs allow it).

Shape specs are JSON-able dicts:
  {"k":"rect","l":L,"w":W,"c":[x,y],"o":theta}   {"k":"circ","r":R,"c":[x,y]}
  {"k":"poly","v":[[x,y],...]}                    {"k":"group","s":[spec,...]}
"""
from __future__ import annotations

import math
from fractions import Fraction

from common import frac


def F(x):
    return frac(x)


def build_shape(spec):
    """Construct the commonroad Shape for a spec."""
    import numpy as np
    from commonroad.geometry.shape import Circle, Polygon, Rectangle, ShapeGroup
    k = spec["k"]
    if k == "rect":
        return Rectangle(spec["l"], spec["w"], np.array(spec["c"], dtype=float), spec["o"])
    if k == "circ":
        return Circle(spec["r"], np.array(spec["c"], dtype=float))
    if k == "poly":
        return Polygon(np.array(spec["v"], dtype=float))
    if k == "group":
        return ShapeGroup([build_shape(s) for s in spec["s"]])
    raise ValueError(k)


def rect_vertices(spec):
    """Corner points of a rectangle spec (float cos/sin, then exact)."""
    l2, w2 = F(spec["l"]) / 2, F(spec["w"]) / 2
    c, s = F(math.cos(spec["o"])), F(math.sin(spec["o"]))
    if spec["o"] == 0:
        c, s = Fraction(1), Fraction(0)
    cx, cy = F(spec["c"][0]), F(spec["c"][1])
    out = []
    for (x, y) in ((-l2, -w2), (l2, -w2), (l2, w2), (-l2, w2)):
        out.append((cx + c * x - s * y, cy + s * x + c * y))
    return out


def seg_dist2(p, a, b):
    """Squared distance from point p to segment ab (exact)."""
    (px, py), (ax, ay), (bx, by) = p, a, b
    dx, dy = bx - ax, by - ay
    d2 = dx * dx + dy * dy
    if d2 == 0:
        return (px - ax) ** 2 + (py - ay) ** 2
    t = ((px - ax) * dx + (py - ay) * dy) / d2
    t = max(Fraction(0), min(Fraction(1), t))
    qx, qy = ax + t * dx, ay + t * dy
    return (px - qx) ** 2 + (py - qy) ** 2


def on_segment(p, a, b):
    (px, py), (ax, ay), (bx, by) = p, a, b
    cross = (bx - ax) * (py - ay) - (by - ay) * (px - ax)
    if cross != 0:
        return False
    return min(ax, bx) <= px <= max(ax, bx) and min(ay, by) <= py <= max(ay, by)


def point_in_ring(p, ring):
    """(inside_or_boundary, squared distance to the boundary) for a simple polygon ring (exact)."""
    n = len(ring)
    if n >= 2 and ring[0] == ring[-1]:
        ring = ring[:-1]
        n -= 1
    d2 = min(seg_dist2(p, ring[i], ring[(i + 1) % n]) for i in range(n))
    if d2 == 0:
        return True, d2
    px, py = p
    inside = False
    for i in range(n):
        (ax, ay), (bx, by) = ring[i], ring[(i + 1) % n]
        if (ay > py) != (by > py):
            xint = ax + (py - ay) * (bx - ax) / (by - ay)
            if px < xint:
                inside = not inside
    return inside, d2


def point_in_shape(spec, p, band=Fraction(1, 10 ** 9)):
    """(member, ambiguous): exact membership of p in the closed shape; ambiguous when p is within `band` of the boundary
    and the boundary itself is only known up to float rounding (rotated rectangles); exact shapes are never ambiguous
    unless `always_band` semantics is wanted by the caller."""
    p = (F(p[0]), F(p[1]))
    k = spec["k"]
    if k == "circ":
        cx, cy, r = F(spec["c"][0]), F(spec["c"][1]), F(spec["r"])
        d2 = (p[0] - cx) ** 2 + (p[1] - cy) ** 2
        member = d2 <= r * r
        # implementation compares r >= float norm: sqrt rounding may flip within ~1 ulp
        amb = abs(d2 - r * r) <= band * max(Fraction(1), r) and d2 != r * r
        return member, amb
    if k == "rect":
        ring = rect_vertices(spec)
        member, d2 = point_in_ring(p, ring)
        exact = spec["o"] == 0
        amb = (0 < d2 <= band * band) if exact else (d2 <= band * band)
        return member, amb
    if k == "poly":
        ring = [(F(x), F(y)) for x, y in spec["v"]]
        member, d2 = point_in_ring(p, ring)
        return member, 0 < d2 <= band * band
    if k == "group":
        res = [point_in_shape(s, p, band) for s in spec["s"]]
        member = any(m for m, _ in res)
        amb = any(a for _, a in res)
        return member, amb
    raise ValueError(k)


def shoelace(ring):
    n = len(ring)
    return sum(ring[i][0] * ring[(i + 1) % n][1] - ring[(i + 1) % n][0] * ring[i][1] for i in range(n)) / 2


def gen_shape(r, kinds=("rect", "circ", "poly", "group"), depth=0, exact=False):
    """Random shape spec on the dyadic grid k/16."""
    k = r.choice(kinds if depth == 0 else [x for x in kinds if x != "group"])
    g = lambda lim=320: r.randint(-lim, lim) / 16.0  # noqa
    if k == "rect":
        o = 0.0 if exact or r.random() < 0.4 else r.choice([math.pi / 2, 0.3, -1.2, r.uniform(-6.2, 6.2)])
        return {"k": "rect", "l": r.randint(1, 160) / 16.0, "w": r.randint(1, 96) / 16.0, "c": [g(), g()], "o": o}
    if k == "circ":
        return {"k": "circ", "r": r.choice([5.0, 2.5, 0.625, r.randint(1, 160) / 16.0]), "c": [g(), g()]}
    if k == "poly":
        # star-shaped simple polygon around a centre, vertices snapped to the grid
        cx, cy = g(), g()
        n = r.randint(3, 7)
        angs = sorted(r.uniform(0, 2 * math.pi) for _ in range(n))
        vs = []
        for a in angs:
            rad = r.uniform(1.0, 8.0)
            v = [round((cx + rad * math.cos(a)) * 16) / 16.0, round((cy + rad * math.sin(a)) * 16) / 16.0]
            if v not in vs:
                vs.append(v)
        if len(vs) < 3 or shoelace([(F(x), F(y)) for x, y in vs]) == 0:
            return {"k": "poly", "v": [[cx, cy], [cx + 2.0, cy], [cx + 2.0, cy + 1.5], [cx, cy + 1.5]]}
        return {"k": "poly", "v": vs}
    return {"k": "group", "s": [gen_shape(r, kinds, depth + 1, exact) for _ in range(r.randint(1, 3))]}


def interesting_points(r, spec):
    """Points inside, outside, on the boundary (exactly, where representable) and far away."""
    pts = []
    if spec["k"] == "group":
        for s in spec["s"]:
            pts.extend(interesting_points(r, s))
        return pts
    if spec["k"] == "circ":
        cx, cy, rad = spec["c"][0], spec["c"][1], spec["r"]
        pts += [[cx, cy], [cx + rad, cy], [cx, cy - rad], [cx + 0.6 * rad, cy + 0.8 * rad], [cx + rad + 0.0625, cy],
                [cx + 0.75 * rad, cy + 0.75 * rad], [cx + r.uniform(-rad, rad), cy + r.uniform(-rad, rad)]]
    elif spec["k"] == "rect":
        vs = [(float(x), float(y)) for x, y in rect_vertices(spec)]
        cx, cy = spec["c"]
        pts += [[cx, cy], list(vs[0]), [(vs[0][0] + vs[1][0]) / 2, (vs[0][1] + vs[1][1]) / 2],
                [vs[2][0] + 0.0625, vs[2][1] + 0.0625],
                [cx + r.uniform(-1, 1) * spec["l"], cy + r.uniform(-1, 1) * spec["w"]]]
    else:
        vs = spec["v"]
        cx = sum(v[0] for v in vs) / len(vs)
        cy = sum(v[1] for v in vs) / len(vs)
        i = r.randrange(len(vs))
        a, b = vs[i], vs[(i + 1) % len(vs)]
        pts += [[cx, cy], list(a), [(a[0] + b[0]) / 2, (a[1] + b[1]) / 2], [a[0] + 0.0625, a[1]],
                [cx + r.uniform(-9, 9), cy + r.uniform(-9, 9)]]
    pts.append([r.uniform(-100, 100), r.uniform(-100, 100)])
    return pts


# ------------------------------------------------------------------------------------------------ C06 additions
# exact closed-set intersection tests (simple polygons, discs) with a robustness margin; float bounding boxes are used
# only to skip pairs that are far apart (margin 1e-3, far above any float rounding of the box corners)

class Ring(list):
    """A vertex ring (list of Fraction pairs) that remembers its float bounding box and its edges."""
    __slots__ = ("box", "edges")

    def __init__(self, pts):
        super().__init__(pts)
        xs = [float(p[0]) for p in pts] or [0.0]
        ys = [float(p[1]) for p in pts] or [0.0]
        self.box = (min(xs), min(ys), max(xs), max(ys))
        n = len(pts)
        self.edges = [(pts[i], pts[(i + 1) % n]) for i in range(n)]


_FAR = 1e-3


def ring_of(vs):
    """Exact ring (Fraction pairs) of a vertex array; a repeated closing vertex is dropped."""
    ring = [(F(x), F(y)) for x, y in vs]
    if len(ring) >= 2 and ring[0] == ring[-1]:
        ring = ring[:-1]
    return Ring(ring)


def _as_ring(ring):
    return ring if isinstance(ring, Ring) else Ring(list(ring))


def _box_gap(b1, b2):
    """Lower bound (float) of the distance between two boxes."""
    dx = max(b1[0] - b2[2], b2[0] - b1[2], 0.0)
    dy = max(b1[1] - b2[3], b2[1] - b1[3], 0.0)
    return max(dx, dy)


def _cross(a, b, p):
    return (b[0] - a[0]) * (p[1] - a[1]) - (b[1] - a[1]) * (p[0] - a[0])


def seg_intersect(a, b, c, d):
    """Closed segments ab, cd share a point (exact)."""
    if max(a[0], b[0]) < min(c[0], d[0]) or max(c[0], d[0]) < min(a[0], b[0]) \
            or max(a[1], b[1]) < min(c[1], d[1]) or max(c[1], d[1]) < min(a[1], b[1]):
        return False
    d1, d2, d3, d4 = _cross(a, b, c), _cross(a, b, d), _cross(c, d, a), _cross(c, d, b)
    if ((d1 > 0 > d2) or (d1 < 0 < d2)) and ((d3 > 0 > d4) or (d3 < 0 < d4)):
        return True
    return (d1 == 0 and on_segment(c, a, b)) or (d2 == 0 and on_segment(d, a, b)) \
        or (d3 == 0 and on_segment(a, c, d)) or (d4 == 0 and on_segment(b, c, d))


def seg_cross_point(a, b, c, d):
    """Intersection point of the lines ab, cd if the segments meet in a single point, else None."""
    den = (b[0] - a[0]) * (d[1] - c[1]) - (b[1] - a[1]) * (d[0] - c[0])
    if den == 0:
        return None
    t = ((c[0] - a[0]) * (d[1] - c[1]) - (c[1] - a[1]) * (d[0] - c[0])) / den
    u = ((c[0] - a[0]) * (b[1] - a[1]) - (c[1] - a[1]) * (b[0] - a[0])) / den
    if 0 <= t <= 1 and 0 <= u <= 1:
        return (a[0] + t * (b[0] - a[0]), a[1] + t * (b[1] - a[1]))
    return None


def inside_ring(p, ring):
    """p in the closed simple polygon (exact; no distances)."""
    ring = _as_ring(ring)
    b = ring.box
    fx, fy = float(p[0]), float(p[1])
    if fx < b[0] - _FAR or fx > b[2] + _FAR or fy < b[1] - _FAR or fy > b[3] + _FAR:
        return False
    px, py = p
    inside = False
    for (a, c) in ring.edges:
        (ax, ay), (bx, by) = a, c
        if (ay > py) != (by > py):
            lhs = (px - ax) * (by - ay)
            rhs = (py - ay) * (bx - ax)
            if lhs == rhs:
                return True                       # on this edge
            if (lhs < rhs) == (by > ay):
                inside = not inside
        elif ay == py and by == py and min(ax, bx) <= px <= max(ax, bx):
            return True                           # on a horizontal edge
        elif ay == py and ax == px:
            return True                           # on a vertex
    return inside


def ring_point(p, ring, band):
    """(inside_or_on_boundary, on_boundary, near): near = outside/inside but within band of the boundary (not on it)."""
    ring = _as_ring(ring)
    b = ring.box
    fx, fy = float(p[0]), float(p[1])
    if fx < b[0] - _FAR or fx > b[2] + _FAR or fy < b[1] - _FAR or fy > b[3] + _FAR:
        return False, False, False
    ins = inside_ring(p, ring)
    d2 = None
    bb = band * band
    for (a, c) in ring.edges:
        # only edges whose box is within _FAR of p can be nearer than band
        if fx < min(float(a[0]), float(c[0])) - _FAR or fx > max(float(a[0]), float(c[0])) + _FAR \
                or fy < min(float(a[1]), float(c[1])) - _FAR or fy > max(float(a[1]), float(c[1])) + _FAR:
            continue
        e = seg_dist2(p, a, c)
        if d2 is None or e < d2:
            d2 = e
    if d2 is None:
        return ins, False, False
    if d2 == 0:
        return True, True, False
    return ins, False, d2 <= bb


def set_dist2(p, ring):
    """Squared distance from p to the closed polygon (0 inside)."""
    ring = _as_ring(ring)
    if inside_ring(p, ring):
        return Fraction(0)
    return min(seg_dist2(p, a, b) for (a, b) in ring.edges)


def rings_intersect(A, B, band=None):
    """(truth, ambiguous) for two closed simple polygons.  truth is exact.  With band = None the answer is never
    ambiguous; otherwise it is ambiguous unless it survives every perturbation of the boundaries smaller than band:
    disjoint with a gap > band, or a common point that is farther than band inside both."""
    A, B = _as_ring(A), _as_ring(B)
    if _box_gap(A.box, B.box) > _FAR:
        return False, False
    pts = []
    truth = False
    for (a, b) in A.edges:
        for (c, d) in B.edges:
            if seg_intersect(a, b, c, d):
                truth = True
                if band is None:
                    return True, False
                q = seg_cross_point(a, b, c, d)
                if q is not None:
                    pts.append(q)
    if band is None:
        if not truth and A and B:
            truth = inside_ring(B[0], A) or inside_ring(A[0], B)
        return truth, False
    inA = [v for v in B if inside_ring(v, A)]
    inB = [v for v in A if inside_ring(v, B)]
    if inA or inB:
        truth = True
    b2 = band * band
    if not truth:
        gap2 = min(min(seg_dist2(a, c, d), seg_dist2(b, c, d), seg_dist2(c, a, b), seg_dist2(d, a, b))
                   for (a, b) in A.edges for (c, d) in B.edges)
        return truth, gap2 <= b2
    cand = pts + inA + inB
    if cand:
        cand = cand + [(sum(q[0] for q in cand) / len(cand), sum(q[1] for q in cand) / len(cand))]
    for q in cand:
        if inside_ring(q, A) and inside_ring(q, B) \
                and min(seg_dist2(q, a, b) for (a, b) in A.edges) > b2 and min(seg_dist2(q, a, b) for (a, b) in B.edges) > b2:
            return truth, False
    return truth, True


# the exported geometry of a circle is GEOS's 64-gon inscribed in it: it contains the disc of radius r*cos(pi/64) > 0.998 r
DISC_INNER = Fraction(998, 1000)


def disc_meets_ring(c, r, ring, polygonal=False, band=Fraction(1, 10 ** 9)):
    """(truth, ambiguous): closed disc of radius r around c meets the closed polygon.  polygonal=True: the answer is
    ambiguous when it could differ for an inscribed polygon between radius 0.998 r and r (exported geometry)."""
    ring = _as_ring(ring)
    c = (F(c[0]), F(c[1]))
    r = F(r)
    fc = (float(c[0]), float(c[1]), float(c[0]), float(c[1]))
    if _box_gap(fc, ring.box) > float(r) * 1.001 + _FAR:
        return False, False
    d2 = set_dist2(c, ring)
    truth = r >= 0 and d2 <= r * r
    if polygonal:
        inner = DISC_INNER * r
        amb = inner * inner < d2 <= (r * (1 + band)) ** 2
    else:
        amb = False
    return truth, amb


def spec_exact(spec):
    """The boundary of the shape is given exactly by its parameters (no float trigonometry involved)."""
    k = spec["k"]
    if k == "rect":
        return spec["o"] == 0
    if k == "group":
        return all(spec_exact(s) for s in spec["s"])
    return True


def has_circle(spec):
    return spec["k"] == "circ" or (spec["k"] == "group" and any(has_circle(s) for s in spec["s"]))


def shape_meets_ring(spec, ring, exported=True, band=Fraction(1, 10 ** 9), circ_scale=1):
    """(truth, ambiguous): the set denoted by the shape spec meets the closed polygon `ring`.
    exported=True: judge for a polygonal export, i.e. discs have the 64-gon band.  circ_scale: factor on every circle's
    radius (1: the disc the circle denotes)."""
    k = spec["k"]
    if k == "group":
        res = [shape_meets_ring(s, ring, exported, band, circ_scale) for s in spec["s"]]
        truth = any(t for t, _ in res)
        # ambiguous if an ambiguous member could change the union's answer
        sure_true = any(t and not a for t, a in res)
        amb = (not sure_true) and any(a for _, a in res)
        return truth, amb
    if k == "circ":
        return disc_meets_ring(spec["c"], F(spec["r"]) * circ_scale, ring, polygonal=exported, band=band)
    if k == "rect":
        return rings_intersect(ring, ring_of(rect_vertices(spec)), None if spec_exact(spec) else band)
    if k == "poly":
        return rings_intersect(ring, ring_of(spec["v"]), None)
    raise ValueError(k)


def point_in_exported(spec, p, band=Fraction(1, 10 ** 9), circ_scale=1):
    """(member, ambiguous) of p in a polygonal export of the shape: as point_in_shape, but a disc is only known to lie
    between the discs of radius 0.998 r and r (r = circ_scale * radius)."""
    k = spec["k"]
    if k == "circ":
        q = (F(p[0]), F(p[1]))
        cx, cy, r = F(spec["c"][0]), F(spec["c"][1]), F(spec["r"]) * circ_scale
        d2 = (q[0] - cx) ** 2 + (q[1] - cy) ** 2
        inner = DISC_INNER * r
        return d2 <= r * r, inner * inner < d2 <= (r * (1 + band)) ** 2
    if k == "group":
        res = [point_in_exported(s, p, band, circ_scale) for s in spec["s"]]
        sure_true = any(t and not a for t, a in res)
        return any(t for t, _ in res), (not sure_true) and any(a for _, a in res)
    return point_in_shape(spec, p, band)


def spec_of_shape(shape):
    """Shape spec read back from a commonroad Shape object (parameters as stored)."""
    from commonroad.geometry.shape import Circle, Polygon, Rectangle, ShapeGroup
    if isinstance(shape, Rectangle):
        return {"k": "rect", "l": float(shape.length), "w": float(shape.width), "c": [float(shape.center[0]), float(shape.center[1])],
                "o": float(shape.orientation)}
    if isinstance(shape, Circle):
        return {"k": "circ", "r": float(shape.radius), "c": [float(shape.center[0]), float(shape.center[1])]}
    if isinstance(shape, Polygon):
        return {"k": "poly", "v": [[float(x), float(y)] for x, y in shape.vertices]}
    if isinstance(shape, ShapeGroup):
        return {"k": "group", "s": [spec_of_shape(s) for s in shape.shapes]}
    raise ValueError(type(shape))
