"""Independent planar geometry for the oracles (exact rational arithmetic where the inputs allow it).

Shape specs are JSON-able dicts:
  {"k":"rect","l":L,"w":W,"c":[x,y],"o":theta}   {"k":"circ","r":R,"c":[x,y]}
  {"k":"poly","v":[[x,y],...]}                    {"k":"group","s":[spec,...]}
"""
from __future__ import annotations

import math
from fractions import Fraction

from common import frac


def F(x):
    return frac(x)


def build_shape(spec):
    """Construct the commonroad Shape for a spec."""
    import numpy as np
    from commonroad.geometry.shape import Circle, Polygon, Rectangle, ShapeGroup
    k = spec["k"]
    if k == "rect":
        return Rectangle(spec["l"], spec["w"], np.array(spec["c"], dtype=float), spec["o"])
    if k == "circ":
        return Circle(spec["r"], np.array(spec["c"], dtype=float))
    if k == "poly":
        return Polygon(np.array(spec["v"], dtype=float))
    if k == "group":
        return ShapeGroup([build_shape(s) for s in spec["s"]])
    raise ValueError(k)


def rect_vertices(spec):
    """Corner points of a rectangle spec (float cos/sin, then exact)."""
    l2, w2 = F(spec["l"]) / 2, F(spec["w"]) / 2
    c, s = F(math.cos(spec["o"])), F(math.sin(spec["o"]))
    if spec["o"] == 0:
        c, s = Fraction(1), Fraction(0)
    cx, cy = F(spec["c"][0]), F(spec["c"][1])
    out = []
    for (x, y) in ((-l2, -w2), (l2, -w2), (l2, w2), (-l2, w2)):
        out.append((cx + c * x - s * y, cy + s * x + c * y))
    return out


def seg_dist2(p, a, b):
    """Squared distance from point p to segment ab (exact)."""
    (px, py), (ax, ay), (bx, by) = p, a, b
    dx, dy = bx - ax, by - ay
    d2 = dx * dx + dy * dy
    if d2 == 0:
        return (px - ax) ** 2 + (py - ay) ** 2
    t = ((px - ax) * dx + (py - ay) * dy) / d2
    t = max(Fraction(0), min(Fraction(1), t))
    qx, qy = ax + t * dx, ay + t * dy
    return (px - qx) ** 2 + (py - qy) ** 2


def on_segment(p, a, b):
    (px, py), (ax, ay), (bx, by) = p, a, b
    cross = (bx - ax) * (py - ay) - (by - ay) * (px - ax)
    if cross != 0:
        return False
    return min(ax, bx) <= px <= max(ax, bx) and min(ay, by) <= py <= max(ay, by)


def point_in_ring(p, ring):
    """(inside_or_boundary, squared distance to the boundary) for a simple polygon ring (exact)."""
    n = len(ring)
    if n >= 2 and ring[0] == ring[-1]:
        ring = ring[:-1]
        n -= 1
    d2 = min(seg_dist2(p, ring[i], ring[(i + 1) % n]) for i in range(n))
    if d2 == 0:
        return True, d2
    px, py = p
    inside = False
    for i in range(n):
        (ax, ay), (bx, by) = ring[i], ring[(i + 1) % n]
        if (ay > py) != (by > py):
            xint = ax + (py - ay) * (bx - ax) / (by - ay)
            if px < xint:
                inside = not inside
    return inside, d2


def point_in_shape(spec, p, band=Fraction(1, 10 ** 9)):
    """(member, ambiguous): exact membership of p in the closed shape; ambiguous when p is within `band` of the boundary
    and the boundary itself is only known up to float rounding (rotated rectangles); exact shapes are never ambiguous
    unless `always_band` semantics is wanted by the caller."""
    p = (F(p[0]), F(p[1]))
    k = spec["k"]
    if k == "circ":
        cx, cy, r = F(spec["c"][0]), F(spec["c"][1]), F(spec["r"])
        d2 = (p[0] - cx) ** 2 + (p[1] - cy) ** 2
        member = d2 <= r * r
        # implementation compares r >= float norm: sqrt rounding may flip within ~1 ulp
        amb = abs(d2 - r * r) <= band * max(Fraction(1), r) and d2 != r * r
        return member, amb
    if k == "rect":
        ring = rect_vertices(spec)
        member, d2 = point_in_ring(p, ring)
        exact = spec["o"] == 0
        amb = (0 < d2 <= band * band) if exact else (d2 <= band * band)
        return member, amb
    if k == "poly":
        ring = [(F(x), F(y)) for x, y in spec["v"]]
        member, d2 = point_in_ring(p, ring)
        return member, 0 < d2 <= band * band
    if k == "group":
        res = [point_in_shape(s, p, band) for s in spec["s"]]
        member = any(m for m, _ in res)
        amb = any(a for _, a in res)
        return member, amb
    raise ValueError(k)


def shoelace(ring):
    n = len(ring)
    return sum(ring[i][0] * ring[(i + 1) % n][1] - ring[(i + 1) % n][0] * ring[i][1] for i in range(n)) / 2


def gen_shape(r, kinds=("rect", "circ", "poly", "group"), depth=0, exact=False):
    """Random shape spec on the dyadic grid k/16."""
    k = r.choice(kinds if depth == 0 else [x for x in kinds if x != "group"])
    g = lambda lim=320: r.randint(-lim, lim) / 16.0  # noqa
    if k == "rect":
        o = 0.0 if exact or r.random() < 0.4 else r.choice([math.pi / 2, 0.3, -1.2, r.uniform(-6.2, 6.2)])
        return {"k": "rect", "l": r.randint(1, 160) / 16.0, "w": r.randint(1, 96) / 16.0, "c": [g(), g()], "o": o}
    if k == "circ":
        return {"k": "circ", "r": r.choice([5.0, 2.5, 0.625, r.randint(1, 160) / 16.0]), "c": [g(), g()]}
    if k == "poly":
        # star-shaped simple polygon around a centre, vertices snapped to the grid
        cx, cy = g(), g()
        n = r.randint(3, 7)
        angs = sorted(r.uniform(0, 2 * math.pi) for _ in range(n))
        vs = []
        for a in angs:
            rad = r.uniform(1.0, 8.0)
            v = [round((cx + rad * math.cos(a)) * 16) / 16.0, round((cy + rad * math.sin(a)) * 16) / 16.0]
            if v not in vs:
                vs.append(v)
        if len(vs) < 3 or shoelace([(F(x), F(y)) for x, y in vs]) == 0:
            return {"k": "poly", "v": [[cx, cy], [cx + 2.0, cy], [cx + 2.0, cy + 1.5], [cx, cy + 1.5]]}
        return {"k": "poly", "v": vs}
    return {"k": "group", "s": [gen_shape(r, kinds, depth + 1, exact) for _ in range(r.randint(1, 3))]}


def interesting_points(r, spec):
    """Points inside, outside, on the boundary (exactly, where representable) and far away."""
    pts = []
    if spec["k"] == "group":
        for s in spec["s"]:
            pts.extend(interesting_points(r, s))
        return pts
    if spec["k"] == "circ":
        cx, cy, rad = spec["c"][0], spec["c"][1], spec["r"]
        pts += [[cx, cy], [cx + rad, cy], [cx, cy - rad], [cx + 0.6 * rad, cy + 0.8 * rad], [cx + rad + 0.0625, cy],
                [cx + 0.75 * rad, cy + 0.75 * rad], [cx + r.uniform(-rad, rad), cy + r.uniform(-rad, rad)]]
    elif spec["k"] == "rect":
        vs = [(float(x), float(y)) for x, y in rect_vertices(spec)]
        cx, cy = spec["c"]
        pts += [[cx, cy], list(vs[0]), [(vs[0][0] + vs[1][0]) / 2, (vs[0][1] + vs[1][1]) / 2],
                [vs[2][0] + 0.0625, vs[2][1] + 0.0625],
                [cx + r.uniform(-1, 1) * spec["l"], cy + r.uniform(-1, 1) * spec["w"]]]
    else:
        vs = spec["v"]
        cx = sum(v[0] for v in vs) / len(vs)
        cy = sum(v[1] for v in vs) / len(vs)
        i = r.randrange(len(vs))
        a, b = vs[i], vs[(i + 1) % len(vs)]
        pts += [[cx, cy], list(a), [(a[0] + b[0]) / 2, (a[1] + b[1]) / 2], [a[0] + 0.0625, a[1]],
                [cx + r.uniform(-9, 9), cy + r.uniform(-9, 9)]]
    pts.append([r.uniform(-100, 100), r.uniform(-100, 100)])
    return pts
