#!/usr/bin/env python3
"""Regenerate the generated parts of DESIGN.md (between `<!-- GEN:name -->` and `<!-- /GEN:name -->` markers):
   summary  — the per-property table of §1 (theorem counts, models, tie kind, quick wall time, fixes, known findings)
   props    — §5, one entry per property: models, theorem names, what is proved / partial / assumed (manifest.d text),
              what is modelled rather than verified (manifest.d note), findings
   Sources: lean/CRProps/*.lean, imports, manifest.d/*.json, evidence/*.json, known-findings.txt, harness/cXX.py (EXTRA_MODULES)."""
import json, os, re, sys, textwrap
ROOT = os.path.dirname(os.path.dirname(os.path.abspath(__file__)))
LEAN = os.path.join(ROOT, "lean")
ALL = [f"C{i:02d}" for i in range(1, 21)]


def strip_comments(s):
    out, i, depth = [], 0, 0
    while i < len(s):
        if s.startswith("/-", i):
            depth += 1; i += 2
        elif s.startswith("-/", i) and depth:
            depth -= 1; i += 2
        elif depth:
            i += 1
        elif s.startswith("--", i):
            while i < len(s) and s[i] != "\n":
                i += 1
        else:
            out.append(s[i]); i += 1
    return "".join(out)


def theorems(mod):
    p = os.path.join(LEAN, *mod.split(".")) + ".lean"
    if not os.path.exists(p):
        return []
    return re.findall(r"^\s*(?:private\s+|protected\s+)?theorem\s+([A-Za-z0-9_.'«»]+)", strip_comments(open(p, encoding="utf-8").read()), flags=re.M)


def imports(mod, seen=None):
    seen = seen if seen is not None else set()
    p = os.path.join(LEAN, *mod.split(".")) + ".lean"
    if mod in seen or not os.path.exists(p):
        return seen
    seen.add(mod)
    for m in re.findall(r"^import\s+([A-Za-z0-9_.]+)", open(p, encoding="utf-8").read(), flags=re.M):
        if m.split(".")[0] in ("CRModel", "CRProofs", "CRProps", "Gen"):
            imports(m, seen)
    return seen


def extra_modules(pid):
    p = os.path.join(ROOT, "harness", pid.lower() + ".py")
    if not os.path.exists(p):
        return []
    m = re.search(r"^EXTRA_MODULES\s*=\s*\[(.*?)\]", open(p, encoding="utf-8").read(), flags=re.M | re.S)
    return re.findall(r"[\"']([A-Za-z0-9_.]+)[\"']", m.group(1)) if m else []


def loc(mods):
    n = 0
    for m in mods:
        p = os.path.join(LEAN, *m.split(".")) + ".lean"
        if os.path.exists(p):
            n += sum(1 for _ in open(p, encoding="utf-8"))
    return n


def findings():
    fixed, known = {}, {}
    for l in open(os.path.join(ROOT, "known-findings.txt"), encoding="utf-8"):
        m = re.match(r"^(fixed|known):\s+property=(C\d\d)\s+(.*)$", l.strip())
        if m:
            (fixed if m.group(1) == "fixed" else known).setdefault(m.group(2), []).append(m.group(3))
    return fixed, known


def wrap(s, ind=""):
    return "\n".join(textwrap.wrap(s, 112, initial_indent=ind, subsequent_indent=ind, break_long_words=False, break_on_hyphens=False))


def main():
    props = {json.loads(l)["id"]: json.loads(l) for l in open(os.path.join(ROOT, "properties.jsonl"))}
    fixed, known = findings()
    rows, secs, total = [], [], 0
    for pid in ALL:
        md = os.path.join(ROOT, "manifest.d", pid + ".json")
        if not os.path.exists(md):
            continue
        man = json.load(open(md))
        ev = json.load(open(os.path.join(ROOT, "evidence", pid + ".json"))) if os.path.exists(os.path.join(ROOT, "evidence", pid + ".json")) else None
        main_mod = f"CRProps.{pid}"
        extra = extra_modules(pid)
        ths = theorems(main_mod)
        eths = {m: theorems(m) for m in extra}
        allimp = set()
        for m in [main_mod] + extra:
            imports(m, allimp)
        models = sorted(m.split(".", 1)[1] for m in allimp if m.startswith("CRModel."))
        proofs = sorted(m for m in allimp if m.startswith("CRProofs."))
        n_all = len(ths) + sum(len(v) for v in eths.values())
        total += n_all
        tie = "T + C" if any(m.startswith("CRProps.T") for m in extra) or any(m.startswith("Gen.") for m in allimp) else "C"
        kn = known.get(pid, [])
        rows.append(f"| {pid} | {', '.join(models)} | {len(ths)}" + (f" + {sum(len(v) for v in eths.values())} in {', '.join(m.split('.')[1] for m in extra)}" if extra else "")
                    + f" | {tie} | {round(ev['wall_s']) if ev else '?'} | {len(fixed.get(pid, []))} | {len(kn) if kn else '–'} |")
        s = [f"### {pid} — {props[pid]['title']}", ""]
        s.append(wrap(f"**Models** (`lean/CRModel/`, {loc(['CRModel.' + m for m in models])} lines): " + ", ".join(f"`{m}`" for m in models)
                      + f". **Helper proofs** ({loc(proofs)} lines): " + (", ".join(f"`{m.split('.', 1)[1]}`" for m in proofs) or "–") + "."))
        s.append("")
        s.append(wrap(f"**Theorems** `lean/CRProps/{pid}.lean` ({len(ths)}): " + ", ".join(f"`{t}`" for t in ths) + "."))
        for m, v in eths.items():
            s.append("")
            s.append(wrap(f"**Also built and audited by this check** `lean/{m.replace('.', '/')}.lean` ({len(v)}): " + ", ".join(f"`{t}`" for t in v) + "."))
        s.append("")
        s.append(wrap("**What is proved, what is partial, how it is tied** (the check's `level_claimed.text`): " + man["text"]))
        s.append("")
        s.append(wrap("**Technique**: " + man["technique"]))
        s.append("")
        s.append(wrap("**Trusted / modelled rather than verified** (`level_note`): " + man["note"]))
        if ev:
            c = ev["coverage"]
            s.append("")
            s.append(wrap(f"**Last run on /repo** (quick, seed {ev.get('seed')}): {c['discharged']}/{c['obligations']} obligations, {c['evaluations']} cases "
                          f"({c['distinct_nontrivial']} distinct non-trivial), {c['traces_validated_against_impl']} model/implementation comparisons, "
                          f"{c['disagreements_checked']} disagreements, {c.get('excluded_ambiguous', 0)} excluded as ambiguous, {round(ev['wall_s'])} s."))
        if fixed.get(pid):
            s.append("")
            s.append(f"**Defects found and repaired in /repo** ({len(fixed[pid])}):")
            for f in fixed[pid]:
                s.append(wrap(f, "* ")[0:2] + wrap(f, "  ")[2:])
        if kn:
            s.append("")
            s.append(f"**Known findings, not repaired** ({len(kn)} keys; §6.3):")
            for f in kn:
                s.append(wrap(f, "* ")[0:2] + wrap(f, "  ")[2:])
        secs.append("\n".join(s))
    table = ("| id | models (lean/CRModel) | theorems | tie | quick (s) | defects repaired (`fix:`) | known-finding keys |\n|---|---|---|---|---|---|---|\n"
             + "\n".join(rows) + f"\n\nTotal: {total} theorems in the property and tie files (helper lemmas in `lean/CRProofs/` not counted).")
    gen = {"summary": table, "props": "\n\n".join(secs)}
    p = os.path.join(ROOT, "DESIGN.md")
    txt = open(p, encoding="utf-8").read()
    for k, v in gen.items():
        a, b = f"<!-- GEN:{k} -->", f"<!-- /GEN:{k} -->"
        if a not in txt or b not in txt:
            print("marker missing:", k, file=sys.stderr)
            continue
        i, j = txt.index(a) + len(a), txt.index(b)
        txt = txt[:i] + "\n" + v + "\n" + txt[j:]
    # counts quoted in the hand-written prose
    import subprocess
    try:
        nfix = len(subprocess.check_output(["git", "-C", "/repo", "log", "--oneline", "--grep", "^fix:"], text=True).splitlines())
    except Exception:
        nfix = None
    if nfix:
        txt = re.sub(r"\b\d+ `fix:` commits in `/repo`", f"{nfix} `fix:` commits in `/repo`", txt)
        txt = re.sub(r"### 6\.2 Repaired \(\d+ commits;", f"### 6.2 Repaired ({nfix} commits;", txt)
        txt = re.sub(r"where all \d+ repaired", f"where all {nfix} repaired", txt)
    nseed = len([d for d in os.listdir(os.path.join(ROOT, "seeded")) if os.path.isdir(os.path.join(ROOT, "seeded", d))])
    txt = re.sub(r"`BASELINE\.json`\); \d+ independently", f"`BASELINE.json`); {nseed} independently", txt)
    open(p, "w", encoding="utf-8").write(txt)
    print("theorems", total, "fix commits", nfix, "seeds", nseed)


if __name__ == "__main__":
    main()
