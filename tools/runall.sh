#!/bin/bash
# tools/runall.sh [seeds...] : run every claimed check's quick tier for the given seeds (default 0), 6 at a time; summary table
cd "$(dirname "$0")/.."
SEEDS="${@:-0}"
PROPS=$(python3 -c "import json;print(' '.join(c['property_id'] for c in json.load(open('MANIFEST.json'))['checks']))")
mkdir -p /tmp/runall
for s in $SEEDS; do
  for p in $PROPS; do echo "$p $s"; done
done | xargs -P 6 -L 1 bash -c 'VERIF_SEED=$1 VERIF_EVIDENCE_DIR=/tmp/runall/ev_$1 VERIF_REPLAY_DIR=/tmp/runall/rp_$1 ./check $0 > /tmp/runall/$0_$1.log 2>&1; echo "$0 seed=$1 rc=$? $(grep -v KNOWN /tmp/runall/$0_$1.log | tail -1 | cut -c1-150)"' | sort
