#!/usr/bin/env python3
"""Run the relevant checks against behaviour-preserving refactorings (benign/<name>/patch.diff, meta.json with "checks").
Expected: exit 0 and no VIOLATION line (a `no-failing-input-found` report is tolerated by the protocol but counted)."""
import json, os, subprocess, sys, time
ROOT = os.path.dirname(os.path.dirname(os.path.abspath(__file__)))
REPO = "/tmp/benigntest_repo"


def sh(cmd, cwd=None, env=None):
    p = subprocess.run(cmd, shell=True, cwd=cwd, env=env, stdout=subprocess.PIPE, stderr=subprocess.STDOUT, text=True)
    return p.returncode, p.stdout


def main():
    bdir = os.path.join(ROOT, "benign")
    dirs = [a for a in sys.argv[1:]] or sorted(os.path.join(bdir, d) for d in os.listdir(bdir) if os.path.isdir(os.path.join(bdir, d)))
    sh(f"git -C /repo worktree remove --force {REPO}")
    rc, out = sh(f"git -C /repo worktree add --detach {REPO} HEAD")
    if rc:
        print(out)
        return 2
    results = {}
    for d in dirs:
        name = os.path.basename(d.rstrip("/"))
        meta = json.load(open(os.path.join(d, "meta.json")))
        rc, out = sh(f"git apply {os.path.join(d, 'patch.diff')}", cwd=REPO)
        res = {"what": meta.get("what"), "checks": {}}
        if rc:
            res["error"] = out[-200:]
        else:
            for cp in meta["checks"]:
                t0 = time.time()
                rc, out = sh(f"./check {cp}", cwd=ROOT, env=dict(os.environ, VERIF_REPO=REPO, VERIF_EVIDENCE_DIR="/tmp/benigntest_evidence",
                                                               VERIF_REPLAY_DIR=os.path.join(d, "replays")))
                vl = [x for x in out.splitlines() if x.startswith("VIOLATION")]
                res["checks"][cp] = {"rc": rc, "violation": vl[:2], "wall_s": round(time.time() - t0, 1)}
        sh("git checkout -- .", cwd=REPO)
        results[name] = res
        print(name, {k: (v["rc"], "NFIF" if any("no-failing-input-found" in x for x in v["violation"]) else ("VIOL" if v["violation"] else "")) for k, v in res["checks"].items()}, res.get("error", ""))
        json.dump(results, open(os.path.join(bdir, "RESULTS.json"), "w"), indent=1)
    sh(f"git -C /repo worktree remove --force {REPO}")
    return 0


if __name__ == "__main__":
    sys.exit(main())
