#!/usr/bin/env python3
"""Run the repository's pinned test suite and compare with /root/.vp/BASELINE.json stable_pass.
usage: tools/baseline.py [repo_dir]   (exit 0 iff every stable_pass test passes)"""
import json, os, subprocess, sys, tempfile, xml.etree.ElementTree as ET

repo = sys.argv[1] if len(sys.argv) > 1 else "/repo"
base = json.load(open("/root/.vp/BASELINE.json"))
want = set(base["stable_pass"])
with tempfile.TemporaryDirectory() as td:
    jx = os.path.join(td, "j.xml")
    env = dict(os.environ)
    env.pop("COMMONROAD_IO_VERIF", None)
    p = subprocess.run(["/venv/bin/python", "-m", "pytest", "-q", "-p", "no:cacheprovider", "--timeout=900",
                        "--continue-on-collection-errors", "-n", "8" if os.environ.get("XDIST") else "0",
                        f"--junitxml={jx}"] if os.environ.get("XDIST") else
                       ["/venv/bin/python", "-m", "pytest", "-q", "-p", "no:cacheprovider", "--timeout=900",
                        "--continue-on-collection-errors", f"--junitxml={jx}"],
                       cwd=repo, env=env, stdout=subprocess.PIPE, stderr=subprocess.STDOUT, text=True)
    passed = set()
    for tc in ET.parse(jx).getroot().iter("testcase"):
        if not any(c.tag in ("failure", "error", "skipped") for c in tc):
            passed.add(f"{tc.get('classname')}::{tc.get('name')}")
missing = sorted(want - passed)
print(f"stable_pass={len(want)} passed_now={len(passed)} missing={len(missing)}")
for m in missing[:40]:
    print("  MISSING", m)
sys.exit(1 if missing else 0)
