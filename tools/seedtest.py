#!/usr/bin/env python3
"""Run the checks against seeded property-breaking changes.

  tools/seedtest.py [--validate] [--tier quick] [seeded/<dir> ...]     (default: every directory under seeded/)

For each seeded/<name>/ (patch.diff, demo.py, meta.json):
  --validate: confirm the seed itself: demo passes on the clean tree, fails with the patch, baseline suite stays green
  always:     apply patch to /repo, run ./check <property>, expect exit 1 + VIOLATION line, then `git checkout -- .`
Results are written to seeded/RESULTS.json and printed as a table.
"""
import json
import os
import subprocess
import sys
import time

ROOT = os.path.dirname(os.path.dirname(os.path.abspath(__file__)))
MAIN_REPO = "/repo"
REPO = f"/tmp/seedtest_repo_{os.getpid()}"      # own scratch worktree of /repo per run: the patches are never applied to /repo itself


def sh(cmd, cwd=None, env=None, timeout=3000):
    p = subprocess.run(cmd, shell=True, cwd=cwd, env=env, stdout=subprocess.PIPE, stderr=subprocess.STDOUT, text=True, timeout=timeout)
    return p.returncode, p.stdout


def clean():
    rc, out = sh("git status --porcelain --untracked-files=no", cwd=REPO)
    return out.strip() == ""


def main():
    args = [a for a in sys.argv[1:] if not a.startswith("--")]
    validate = "--validate" in sys.argv
    tier = "thorough" if "--thorough" in sys.argv else "quick"
    sdir = os.path.join(ROOT, "seeded")
    dirs = args or sorted(os.path.join(sdir, d) for d in os.listdir(sdir) if os.path.isdir(os.path.join(sdir, d)))
    sh(f"git -C {MAIN_REPO} worktree remove --force {REPO}")
    rc, out = sh(f"git -C {MAIN_REPO} worktree add --detach {REPO} HEAD")
    if rc != 0:
        print("cannot create scratch worktree:", out)
        return 2
    results = {}
    respath = os.environ.get("SEEDTEST_RESULTS", os.path.join(sdir, "RESULTS.json"))      # other seeds: write elsewhere
    if os.path.exists(respath):
        results = json.load(open(respath))
    for d in dirs:
        d = os.path.abspath(d)
        name = os.path.basename(d)
        meta = json.load(open(os.path.join(d, "meta.json")))
        prop = meta["property"]
        patch = os.path.join(d, "patch.diff")
        demo = os.path.join(d, "demo.py")
        env = dict(os.environ, PYTHONPATH=REPO, MPLBACKEND="Agg")
        res = {"property": prop}
        try:
            if validate:
                rc0, _ = sh(f"/venv/bin/python {demo}", cwd=d, env=env)
                res["demo_clean_rc"] = rc0
            rc, out = sh(f"git apply {patch}", cwd=REPO)
            if rc != 0:
                res["error"] = "patch does not apply: " + out[-300:]
                results[name] = res
                continue
            if validate:
                rc1, o1 = sh(f"/venv/bin/python {demo}", cwd=d, env=env)
                res["demo_patched_rc"] = rc1
                rcb, ob = sh(f"{ROOT}/tools/baseline.py {REPO}")
                res["baseline_green"] = rcb == 0
            t0 = time.time()
            res["caught"], res["with_failing_input"], res["violation_lines"], res["finding_keys"], res["check_rc"] = False, False, [], [], {}
            for cp in meta.get("check_with", [prop]):
                rc, out = sh(f"./check {cp} --tier {tier}", cwd=ROOT,
                             env=dict(os.environ, VERIF_SEED=os.environ.get("VERIF_SEED", "0"),
                                      VERIF_REPO=REPO,
                                      VERIF_EVIDENCE_DIR=f"/tmp/seedtest_evidence_{os.getpid()}", VERIF_REPLAY_DIR=os.environ.get("SEEDTEST_REPLAYS", os.path.join(d, "replays"))))
                res["check_rc"][cp] = rc
                vl = [line for line in out.splitlines() if line.startswith("VIOLATION")]
                res["violation_lines"] += vl[:3]
                res["finding_keys"] += [line.strip() for line in out.splitlines() if line.startswith("  " + cp + "/")][:3]
                res["caught"] = res["caught"] or (rc == 1 and bool(vl))
                res["with_failing_input"] = res["with_failing_input"] or any("no-failing-input-found" not in v for v in vl)
            res["check_wall_s"] = round(time.time() - t0, 1)
        finally:
            sh("git checkout -- .", cwd=REPO)
        results[name] = res
        print(f"{name:28s} {prop} caught={res.get('caught')} failing-input={res.get('with_failing_input')} "
              f"rc={res.get('check_rc')} {res.get('check_wall_s')}s "
              + (f"demo {res.get('demo_clean_rc')}->{res.get('demo_patched_rc')} baseline_green={res.get('baseline_green')}" if validate else "")
              + (" ERROR " + res["error"] if "error" in res else ""))
        merged = json.load(open(respath)) if os.path.exists(respath) else {}      # another run may have written meanwhile
        merged[name] = res
        json.dump(merged, open(respath, "w"), indent=1)
    sh(f"git -C {MAIN_REPO} worktree remove --force {REPO}")
    sh(f"rm -rf /tmp/seedtest_evidence_{os.getpid()}")
    return 0


if __name__ == "__main__":
    sys.exit(main())
