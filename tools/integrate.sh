#!/bin/bash
# tools/integrate.sh Cxx : bring a builder's branches (verif wCxx in /tmp/vw_Cxx, repo wCxx in /tmp/repo_Cxx) into /verif and /repo
set -u
P=$1
cd /repo || exit 2
if [ -n "$(git status --porcelain --untracked-files=no)" ]; then echo "/repo dirty"; exit 2; fi
BASE=$(git merge-base main w$P)
COMMITS=$(git rev-list --reverse $BASE..w$P)
for c in $COMMITS; do
  subj=$(git log -1 --format=%s $c)
  if git log main --format=%s | grep -qxF "$subj"; then echo "skip duplicate: $subj"; continue; fi
  echo "cherry-pick: $subj"
  if ! git cherry-pick $c >/dev/null 2>&1; then echo "CONFLICT cherry-picking $c ($subj)"; git status --short | head; exit 3; fi
done
/verif/tools/baseline.py /repo || { echo "BASELINE RED"; exit 4; }
cd /verif || exit 2
git merge --no-edit w$P >/dev/null 2>&1
python3 tools/mkmain.py >/dev/null
# any remaining conflicts?
git checkout --ours MANIFEST.json 2>/dev/null; git add MANIFEST.json 2>/dev/null
if git diff --name-only --diff-filter=U | grep -v "lean/Driver/Main.lean" | grep -q .; then echo "VERIF CONFLICTS:"; git diff --name-only --diff-filter=U; exit 5; fi
python3 tools/mkmanifest.py; python3 tools/fixhashes.py
git add -A && git commit -qm "Merge $P from builder branch" 
echo "merged $P"
