#!/usr/bin/env python3
"""Insert /repo commit hashes into 'fixed:' lines of known-findings.txt that only quote the fix commit's subject."""
import subprocess, os, re
ROOT = os.path.dirname(os.path.dirname(os.path.abspath(__file__)))
p = os.path.join(ROOT, "known-findings.txt")
log = subprocess.run("git -C /repo log --format='%h %s' main", shell=True, capture_output=True, text=True).stdout.splitlines()
out = []
for line in open(p).read().splitlines():
    if line.startswith("fixed:"):
        for entry in log:
            h, subj = entry.split(" ", 1)
            if subj.startswith("fix:") and subj in line and h not in line:
                line = re.sub(r"(property=\S+)\s+", r"\1 " + h + " ", line, count=1)
                break
    out.append(line)
open(p, "w").write("\n".join(out) + "\n")
