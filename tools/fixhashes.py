#!/usr/bin/env python3
"""Normalise 'fixed:' lines of known-findings.txt: exactly one /repo main commit hash right after property=Cxx,
looked up by the fix commit's subject quoted in the line (builders wrote hashes of their own worktrees)."""
import subprocess, os, re
ROOT = os.path.dirname(os.path.dirname(os.path.abspath(__file__)))
p = os.path.join(ROOT, "known-findings.txt")
log = subprocess.run("git -C /repo log --format='%h %s' main", shell=True, capture_output=True, text=True).stdout.splitlines()
subj2h = {}
for entry in log:
    h, subj = entry.split(" ", 1)
    if subj.startswith("fix:"):
        subj2h[subj] = h
out = []
for line in open(p).read().splitlines():
    if line.startswith("fixed:"):
        hit = [s for s in subj2h if s in line]
        if hit:
            subj = max(hit, key=len)
            m = re.match(r"(fixed:\s+property=\S+)\s+((?:[0-9a-f]{7,40}\s+)*)(.*)", line)
            if m:
                line = f"{m.group(1)} {subj2h[subj]} {m.group(3)}"
    out.append(line)
open(p, "w").write("\n".join(out) + "\n")
