#!/usr/bin/env python3
"""Regenerate MANIFEST.json from the table below (keeps the manifest valid while the framework grows)."""
import json, os
ROOT = os.path.dirname(os.path.dirname(os.path.abspath(__file__)))
ALL = [f"C{i:02d}" for i in range(1, 21)]

COMMON_NOTE = ("Trusted: Lean 4.33 kernel + propext/Classical.choice/Quot.sound (audited per theorem on every run; no sorry, "
               "no native_decide, no own axioms); the hand-written Lean model is tied to /repo by a correspondence harness that "
               "runs model (compiled driver) and implementation on the same generated inputs every run, and by a direct oracle on "
               "the real code that produces replays. ")

CLAIMED = {}
def main():
    mdir = os.path.join(ROOT, "manifest.d")
    for f in sorted(os.listdir(mdir)) if os.path.isdir(mdir) else []:
        if f.endswith(".json"):
            CLAIMED[f[:-5]] = json.load(open(os.path.join(mdir, f)))
    checks = []
    for pid in ALL:
        if pid not in CLAIMED:
            continue
        c = CLAIMED[pid]
        checks.append({
            "property_id": pid,
            "quick_cmd": f"./check {pid} --tier quick",
            "thorough_cmd": f"./check {pid} --tier thorough",
            "evidence_file": f"evidence/{pid}.json",
            "replay_cmd_template": f"./check {pid} --replay {{path}}",
            "engine": "lean4-model+correspondence",
            "level_claimed": {"category": "proof", "text": c["text"], "design_ref": c["design"]},
            "level_note": c["note"],
            "technique": c["technique"],
        })
    na = [{"property_id": p, "reason": "check not built yet in this round (planned in DESIGN.md §5/§8); not claimed until its "
           "model, theorems and correspondence exist"} for p in ALL if p not in CLAIMED]
    man = {
        "version": 1,
        "setup_cmd": "./check --setup",
        "hooks": {"guard": "COMMONROAD_IO_VERIF", "enable": "no hooks are needed: every observation point is a public accessor; "
                  "checks import /repo's working tree in-process (editable install in /venv)",
                  "baseline_off_cmd": "cd /repo && /venv/bin/python -m pytest -q -p no:cacheprovider --timeout=900 "
                                      "--continue-on-collection-errors",
                  "source_commits": [], "add_only": True},
        "engines": [{"name": "lean4-model+correspondence", "path": "lean/ + harness/",
                     "serves_properties": [c["property_id"] for c in checks],
                     "kind_free_text": "Lean 4 executable models with machine-checked theorems (lake project lean/), compiled "
                     "driver crdriver speaking a JSON line protocol, Python correspondence harness + direct oracles"}],
        "checks": checks,
        "notes": "See DESIGN.md. Exit codes: 0 held, 1 VIOLATION, 2 infrastructure/timeout (never a verdict).",
        "not_applicable": na,
    }
    json.dump(man, open(os.path.join(ROOT, "MANIFEST.json"), "w"), indent=1)
    print("claimed", [c["property_id"] for c in checks])

if __name__ == "__main__":
    main()
