#!/usr/bin/env python3
"""Markdown table of the seeded changes and which check catches them (from seeded/*/meta.json + seeded/RESULTS.json)."""
import json, os, glob
ROOT = os.path.dirname(os.path.dirname(os.path.abspath(__file__)))
res = json.load(open(os.path.join(ROOT, "seeded", "RESULTS.json")))
print("| seed | breaks | what it needs to manifest | caught by | finding key(s) reported |")
print("|---|---|---|---|---|")
for d in sorted(glob.glob(os.path.join(ROOT, "seeded", "C*_*"))):
    n = os.path.basename(d)
    m = json.load(open(os.path.join(d, "meta.json")))
    r = res.get(n, {})
    rc = r.get("check_rc")
    by = ", ".join(k for k, v in rc.items() if v == 1) if isinstance(rc, dict) else (m["property"] if r.get("caught") else "")
    if not r.get("caught"):
        by = "**missed**"
    elif not r.get("with_failing_input"):
        by += " (no-failing-input-found)"
    keys = "; ".join(sorted({k.split(":")[0] for k in r.get("finding_keys", [])}))[:160]
    needs = " ".join(str(m.get("needs", "")).split())[:230]
    files = ", ".join(os.path.basename(f) for f in m.get("files", []))[:60]
    print(f"| {n} | {files} | {needs} | {by} | {keys} |")
