#!/bin/sh
# usage: mergeb.sh <branch> <Cxx>
set -e
cd /verif
b=$1; c=$2
git merge --no-edit refs/heads/$b >/tmp/merge_$c.log 2>&1 || {
  git checkout --ours MANIFEST.json 2>/dev/null || true
  git checkout --theirs evidence/$c.json 2>/dev/null || true
  git checkout --ours lean/Driver/Main.lean 2>/dev/null || true
  git checkout --ours seeded/RESULTS.json seeded/README.md 2>/dev/null || true
  git add MANIFEST.json evidence/$c.json lean/Driver/Main.lean seeded/RESULTS.json seeded/README.md 2>/dev/null || true
  if git diff --name-only --diff-filter=U | grep . ; then echo "UNRESOLVED"; exit 1; fi
  git commit -q --no-edit
}
python3 tools/mkmain.py >/dev/null
python3 tools/mkmanifest.py >/dev/null
git add -A; git commit -qm "merge $b: regenerate Main.lean / MANIFEST.json" || true
echo merged $b
