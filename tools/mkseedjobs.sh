#!/bin/bash
# tools/mkseedjobs.sh Cxx ... : scratch worktrees + property text files for independent seeding agents
for p in "$@"; do
  git -C /repo worktree add -q --detach /tmp/seed_$p HEAD
  python3 - "$p" <<'PY'
import json,sys
pid=sys.argv[1]
for l in open('/verif/properties.jsonl'):
    p=json.loads(l)
    if p['id']==pid:
        open(f"/tmp/seed_{pid}.property.txt","w").write(f"{p['id']} — {p['title']}\n\nSTATEMENT: {p['statement']}\n\nQUANTIFIED OVER: {p['quantifier']['text']}\n\nWHY THE EXISTING TESTS CANNOT SETTLE IT: {p['why_tests_cant']}\n\nCODE ANCHORS: {', '.join(p['anchors']['files'])}\n")
PY
done
ls -d /tmp/seed_C*/ 2>/dev/null
