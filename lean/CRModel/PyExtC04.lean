/-
  CRModel.PyExtC04 — the fixed vocabulary `harness/translate/src_c04.py` maps the Python idioms of the occupancy code
  (prediction/prediction.py, scenario/obstacle.py, geometry/shape.py, scenario/scenario.py, scenario/traffic_light.py) to.
  Hand-written, core Lean only.  Everything here is *trusted to denote* the Python operation named in its comment.
-/
import CRModel.Occupancy
import CRModel.Place
import CRModel.TrafficLightHist
namespace CR.PyC04
open CR.Occ

/-! ### time stamps of stored occupancies (`Occupancy.time_step : Union[int, Interval]`) -/

/-- `isinstance(occ.time_step, Interval)` -/
def tsIsInterval : TS → Bool
  | .ival _ _ => true
  | .step _ => false

/-- `isinstance(occ.time_step, int)` -/
def tsIsInt : TS → Bool
  | .step _ => true
  | .ival _ _ => false

/-- `occ.time_step` read as the integer it is (only meaningful behind `tsIsInt`) -/
def tsInt : TS → Int
  | .step t => t
  | .ival lo _ => lo

/-- `occ.time_step` read as the `Interval` it is (only meaningful behind `tsIsInterval`); bounds are integers -/
def tsInterval : TS → CR.Iv.I
  | .ival lo hi => ⟨lo, hi⟩
  | .step t => ⟨t, t⟩

/-- `for x in xs: if <p x>: return x` — position of the element the loop returns (`none`: the loop runs to its end). -/
def firstIdxFrom {α : Type} (p : α → Bool) : List α → Nat → Option Nat
  | [], _ => none
  | a :: as, i => if p a then some i else firstIdxFrom p as (i + 1)

def firstIdx {α : Type} (p : α → Bool) (l : List α) : Option Nat := firstIdxFrom p l 0

/-- `Occupancy(time_step, shape)`: the pair of its two constructor arguments. -/
def occupancy {σ : Type} (t : Int) (s : σ) : Int × σ := (t, s)

/-! ### `TrajectoryPrediction._create_occupancy_set`: which state gives which occupancy -/

/-- where the orientation used for placing comes from: the state's own attribute, `math.atan2(<attr y>, <attr x>)` of
    two named attributes of the state, or absent (`not hasattr(state, "orientation")`) -/
inductive Heading where
  | own
  | atan2 (y x : String)
  | absent
  deriving DecidableEq, Repr

/-- a trajectory state as the occupancy code sees it: its identity (position in `state_list`), its own time step, and
    where its orientation comes from -/
structure TState where
  idx : Nat
  time_step : Int
  heading : Heading
  deriving DecidableEq, Repr

/-- `hasattr(state, "orientation")` -/
def TState.hasOrientation (s : TState) : Bool := s.heading != .absent

/-- `copy.copy(state)`: an equal state object -/
def copyState (s : TState) : TState := s

/-- which shape is placed: the prediction's `_shape`, or its member list `_shape.shapes` (trailer model) -/
inductive ShapeRef where
  | own
  | members
  deriving DecidableEq, Repr

/-- `occupancy_shape_from_state(shape, state)` / `shape_group_occupancy_shape_from_state(shapes, state, wheelbases)`:
    the region obtained by placing `what` at the pose of state number `idx`, the orientation taken from `heading` -/
structure Region where
  what : ShapeRef
  idx : Nat
  heading : Heading
  deriving DecidableEq, Repr

/-- `occupancy_shape_from_state(self._shape, state)` -/
def regionOf (sh : ShapeRef) (s : TState) : Region := ⟨sh, s.idx, s.heading⟩

/-- `shape_group_occupancy_shape_from_state(self._shape.shapes, state, self.wheelbase_lengths)` -/
def regionTrailer (sh : ShapeRef) (s : TState) (_wb : Option (List Rat)) : Region := ⟨sh, s.idx, s.heading⟩

/-! ### placement geometry (geometry/shape.py) -/
open CR.Rigid CR.Place

/-- `shapely.affinity.rotate(polygon, angle, origin=.., use_radians=..)` (its `.exterior.coords`), `cosf` / `sinf` standing
    for cosine and sine of an angle in radians: every vertex rotated about the polygon's area centroid (`origin="centroid"`).
    Other origins / an angle in degrees are not what the occupancy code may use: they give the empty ring here, which no
    tie theorem accepts. -/
def shapelyRotate (cosf sinf : Rat → Rat) (vs : List Pt) (angle : Rat) (origin : String) (useRadians : Bool) : List Pt :=
  if origin = "centroid" ∧ useRadians = true then vs.map (about (cosf angle) (sinf angle) (centroid vs) ⟨0, 0⟩) else []

/-- `array_of_points + translation` (numpy broadcasting of a length-2 vector over an `(n, 2)` array) -/
def addAll (vs : List Pt) (t : Pt) : List Pt := vs.map (fun p => Pt.add p t)

/-- `isinstance(shape, ShapeGroup)` -/
def isGroup : Shape → Bool
  | .group _ => true
  | _ => false

/-- which object `_centered_extent` is asked about in the uncertain branch of `occupancy_shape_from_state` -/
inductive ShapeTag where
  | shape          -- the obstacle's shape
  | rotatedRegion (by_ : Rat)  -- `state.position.rotate_translate_local([0, 0], by_)`: the position region turned about its own centre
  deriving DecidableEq, Repr

/-- `_centered_extent(x)`: `(lv, wv)` for the shape, `(ls, ws)` for the turned position region (parameters) -/
def extentOf (x : ShapeTag) (lv wv ls ws : Rat) : Rat × Rat :=
  match x with
  | .shape => (lv, wv)
  | .rotatedRegion _ => (ls, ws)

/-- `np.abs` on a number -/
def absR (x : Rat) : Rat := if x < 0 then -x else x

/-! ### the scenario's obstacle dictionaries (scenario/scenario.py) -/

/-- `list(d.values())` of an insertion-ordered dict `id -> obstacle`, kept as an association list -/
def values {α β : Type} (d : List (α × β)) : List (α × β) := d

/-- `list(itertools.chain(a, b, c, d))` -/
def chain4 {α : Type} (a b c d : List α) : List α := a ++ b ++ c ++ d

/-- `key in d` for a dict kept as an association list -/
def hasKey {β : Type} (d : List (Nat × β)) (k : Nat) : Bool := d.any (fun x => x.1 == k)

/-- `d[key]` (first entry with that key; keys of a dict are unique) -/
def getKey {β : Type} (d : List (Nat × β)) (k : Nat) : Option (Nat × β) := d.find? (fun x => x.1 == k)

/-! ### the traffic-light cycle object (scenario/traffic_light.py) -/
open CR.TL CR.TL.Hist

/-- `np.array_equal(np.diff(table), durations)` -/
def diffs : List Int → List Int
  | a :: b :: rest => (b - a) :: diffs (b :: rest)
  | _ => []

end CR.PyC04
