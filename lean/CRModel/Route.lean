/-
  CRModel.Route — model of `Lanelet.find_lanelet_successors_in_range` (lanelet.py:919-954) and
  `Lanelet.find_lanelet_predecessors_in_range` (:956-991).

  The two functions are the same text with `successor` / `predecessor` exchanged, so the model is one
  function over a link relation `nbr : Nat → List Nat` (the successor list resp. predecessor list of a
  lanelet id, in list order) and `len : Nat → Rat` (`find_lanelet_by_id(i).distance[-1]`).

  The `while paths:` loop is a fuel-bounded worklist over `(path, length)` pairs; one round of the loop
  (`for p, le in zip(paths, lengths)`) is `round`; `paths_final` is appended to in program order, so the
  output list (order and multiplicity) is exactly that of the implementation.
-/
import CRModel.Basic
namespace CR.Route

abbrev Path := List Nat
abbrev Item := Path × Rat

/-- The condition of the `if` at :940 / :977: `s in p or s == self.lanelet_id or le >= max_length`. -/
def blocked (start : Nat) (maxLen : Rat) (p : Path) (le : Rat) (s : Nat) : Bool :=
  decide (s ∈ p) || decide (s = start) || decide (maxLen ≤ le)

/-- What one neighbour `s` of the last element of `p` appends to `paths_final` (:939-950). -/
def finalOf (len : Nat → Rat) (start : Nat) (maxLen : Rat) (p : Path) (le : Rat) (s : Nat) : Option Path :=
  if blocked start maxLen p le s then some p
  else if le + len s < maxLen then none
  else some (p ++ [s])

/-- What one neighbour `s` appends to `paths_next` / `lengths_next`. -/
def nextOf (len : Nat → Rat) (start : Nat) (maxLen : Rat) (p : Path) (le : Rat) (s : Nat) : Option Item :=
  if blocked start maxLen p le s then none
  else if le + len s < maxLen then some (p ++ [s], le + len s)
  else none

/-- The neighbours of `p[-1]` (`p` is never empty in the loop; an empty `p` has none). -/
def nbrsOfLast (nbr : Nat → List Nat) (p : Path) : List Nat :=
  match p.getLast? with
  | none => []
  | some x => nbr x

/-- Entries appended to `paths_final` while handling `(p, le)` (:935-950). -/
def finals (nbr : Nat → List Nat) (len : Nat → Rat) (start : Nat) (maxLen : Rat) (it : Item) : List Path :=
  match nbrsOfLast nbr it.1 with
  | [] => [it.1]
  | ss => ss.filterMap (finalOf len start maxLen it.1 it.2)

/-- Entries appended to `paths_next` while handling `(p, le)`. -/
def nexts (nbr : Nat → List Nat) (len : Nat → Rat) (start : Nat) (maxLen : Rat) (it : Item) : List Item :=
  (nbrsOfLast nbr it.1).filterMap (nextOf len start maxLen it.1 it.2)

/-- `while paths:` with fuel.  `none` = the fuel ran out with a non-empty worklist. -/
def loop (nbr : Nat → List Nat) (len : Nat → Rat) (start : Nat) (maxLen : Rat) :
    Nat → List Item → List Path → Option (List Path)
  | _, [], final => some final
  | 0, _ :: _, _ => none
  | fuel + 1, it :: its, final =>
    loop nbr len start maxLen fuel ((it :: its).flatMap (nexts nbr len start maxLen))
      (final ++ (it :: its).flatMap (finals nbr len start maxLen))

/-- `paths = [[s] for s in self.successor]`, `lengths = [len(s) …]` (:927-929). -/
def initItems (nbr : Nat → List Nat) (len : Nat → Rat) (start : Nat) : List Item :=
  (nbr start).map fun s => ([s], len s)

/-- `find_lanelet_successors_in_range` (with `nbr` = successor lists) resp.
    `find_lanelet_predecessors_in_range` (with `nbr` = predecessor lists). -/
def findInRange (nbr : Nat → List Nat) (len : Nat → Rat) (start : Nat) (maxLen : Rat) (fuel : Nat) :
    Option (List Path) :=
  loop nbr len start maxLen fuel (initItems nbr len start) []

/-! ### A finite network as data (what the driver receives) -/

structure Node where
  id : Nat
  succ : List Nat
  pred : List Nat
  len : Rat

def lookup (g : List Node) (i : Nat) : Option Node := g.find? (·.id = i)
def succOf (g : List Node) (i : Nat) : List Nat := match lookup g i with | some n => n.succ | none => []
def predOf (g : List Node) (i : Nat) : List Nat := match lookup g i with | some n => n.pred | none => []
def lenOf (g : List Node) (i : Nat) : Rat := match lookup g i with | some n => n.len | none => 0
def ids (g : List Node) : List Nat := g.map (·.id)

/-- Every id mentioned as a successor / predecessor, and the start, names a lanelet of the network
    (`find_lanelet_by_id` would return `None` otherwise and the attribute access raises). -/
def closedNet (g : List Node) (start : Nat) : Bool :=
  decide (start ∈ ids g) && g.all fun n => n.succ.all (fun s => decide (s ∈ ids g)) && n.pred.all (fun s => decide (s ∈ ids g))

/-- The fuel the model uses: one more than the number of lanelets (enough by `C20_route_terminates`). -/
def fuelFor (g : List Node) : Nat := g.length + 1

def findSuccessors (g : List Node) (start : Nat) (maxLen : Rat) : Option (List Path) :=
  findInRange (succOf g) (lenOf g) start maxLen (fuelFor g)

def findPredecessors (g : List Node) (start : Nat) (maxLen : Rat) : Option (List Path) :=
  findInRange (predOf g) (lenOf g) start maxLen (fuelFor g)

/-! ### The same loop with the lookups that can fail

`lanelet_network.find_lanelet_by_id(i)` returns `None` for an id that names no lanelet, and the attribute access
`.successor` / `.predecessor` / `.distance` that follows raises `AttributeError`.  The functions below evaluate the
lookups exactly where the implementation does (:929, :934, :945 resp. :966, :971, :982); every failure has the same class,
so the result is `.error .attr` as soon as one evaluated lookup is dangling.  `CRProofs/Route.lean` proves that on a closed
network they agree with the total functions above (`findR_eq`).  This is what the driver runs. -/

/-- `for s in successors:` for one worklist entry; returns what is appended to (`paths_final`, `paths_next`). -/
def expandR (g : List Node) (start : Nat) (maxLen : Rat) (p : Path) (le : Rat) : List Nat → Res (List Path × List Item)
  | [] => .ok ([], [])
  | s :: ss =>
    if blocked start maxLen p le s then
      match expandR g start maxLen p le ss with
      | .error e => .error e
      | .ok (f, n) => .ok (p :: f, n)
    else
      match lookup g s with
      | none => .error .attr
      | some nd =>
        match expandR g start maxLen p le ss with
        | .error e => .error e
        | .ok (f, n) =>
          if le + nd.len < maxLen then .ok (f, (p ++ [s], le + nd.len) :: n) else .ok ((p ++ [s]) :: f, n)

/-- One `(p, le)` of the `for p, le in zip(paths, lengths)` loop. -/
def itemR (g : List Node) (nbrOf : Node → List Nat) (start : Nat) (maxLen : Rat) (it : Item) : Res (List Path × List Item) :=
  match it.1.getLast? with
  | none => .error .index
  | some x =>
    match lookup g x with
    | none => .error .attr
    | some nd =>
      match nbrOf nd with
      | [] => .ok ([it.1], [])
      | ss => expandR g start maxLen it.1 it.2 ss

def roundR (g : List Node) (nbrOf : Node → List Nat) (start : Nat) (maxLen : Rat) : List Item → Res (List Path × List Item)
  | [] => .ok ([], [])
  | it :: its =>
    match itemR g nbrOf start maxLen it with
    | .error e => .error e
    | .ok (f1, n1) =>
      match roundR g nbrOf start maxLen its with
      | .error e => .error e
      | .ok (f2, n2) => .ok (f1 ++ f2, n1 ++ n2)

/-- `while paths:`; `.error .other` = fuel exhausted (never on a finite network with enough fuel). -/
def loopR (g : List Node) (nbrOf : Node → List Nat) (start : Nat) (maxLen : Rat) :
    Nat → List Item → List Path → Res (List Path)
  | _, [], final => .ok final
  | 0, _ :: _, _ => .error .other
  | fuel + 1, it :: its, final =>
    match roundR g nbrOf start maxLen (it :: its) with
    | .error e => .error e
    | .ok (f, n) => loopR g nbrOf start maxLen fuel n (final ++ f)

/-- `lengths = [lanelet_network.find_lanelet_by_id(s).distance[-1] for s in self.successor]`. -/
def initR (g : List Node) : List Nat → Res (List Item)
  | [] => .ok []
  | s :: ss =>
    match lookup g s with
    | none => .error .attr
    | some nd =>
      match initR g ss with
      | .error e => .error e
      | .ok r => .ok (([s], nd.len) :: r)

def findInRangeR (g : List Node) (nbrOf : Node → List Nat) (start : Nat) (maxLen : Rat) : Res (List Path) :=
  match lookup g start with
  | none => .error .key      -- the start lanelet is taken from the network here; the harness always supplies it
  | some st =>
    match initR g (nbrOf st) with
    | .error e => .error e
    | .ok items => loopR g nbrOf start maxLen (fuelFor g) items []

def findSuccessorsR (g : List Node) (start : Nat) (maxLen : Rat) : Res (List Path) :=
  findInRangeR g (·.succ) start maxLen

def findPredecessorsR (g : List Node) (start : Nat) (maxLen : Rat) : Res (List Path) :=
  findInRangeR g (·.pred) start maxLen

end CR.Route
