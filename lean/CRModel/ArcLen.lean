/-
  CRModel.ArcLen — model of the arc-length geometry of `Lanelet`
  (commonroad/scenario/lanelet.py):

    * `Lanelet.distance` / `_compute_polyline_cumsum_dist`        :293-301, 357-366
    * `Lanelet.interpolate_position`                               :658-679
    * `Lanelet.merge_lanelets`                                     :779-836

  Numbers are exact rationals.  The Euclidean segment lengths `np.sqrt(np.square(np.diff(c)).sum(axis=1))`
  are *parameters* `ℓ : List Rat` of the model (one entry per segment); the harness sends the values the
  implementation computed, and the theorems hold for arbitrary `ℓ` satisfying the side condition that
  matters (`0 ≤ ℓᵢ`, resp. `0 < ℓᵢ` for "distinct consecutive vertices").
-/
import CRModel.Basic
namespace CR.Arc

abbrev Pt := Rat × Rat

def sumRat : List Rat → Rat
  | [] => 0
  | d :: ds => d + sumRat ds

/-- `np.cumsum` on rationals. -/
def cumsumFrom (acc : Rat) : List Rat → List Rat
  | [] => []
  | d :: ds => (acc + d) :: cumsumFrom (acc + d) ds

/-- `_compute_polyline_cumsum_dist([center])` (:357-366): `np.cumsum(np.append([0], seglens))`
    (with a single polyline the `np.amin(…, axis=1)` comparator is the identity). -/
def cumDist (ℓ : List Rat) : List Rat := cumsumFrom 0 (0 :: ℓ)

/-- `_compute_polyline_cumsum_dist([left, right])` (`inner_distance`, :303-311): per segment the
    minimum of the two boundary segment lengths, then the cumulative sum. -/
def cumDistMin (ℓl ℓr : List Rat) : List Rat :=
  cumsumFrom 0 (0 :: List.zipWith (fun a b => if a ≤ b then a else b) ℓl ℓr)

/-- `np.searchsorted(d, s)` (side = 'left') on a sorted array: the first index `i` with `s ≤ d[i]`,
    `len(d)` if there is none. -/
def searchsortedLeft (s : Rat) : List Rat → Nat
  | [] => 0
  | x :: xs => if x < s then 1 + searchsortedLeft s xs else 0

/-- `while not self.distance[idx] <= distance: idx += 1` (:672-673), Python indexing
    (negative index from the end, `IndexError` past the end).  Fuel `len(d) + 2` always suffices
    because `idx` starts at `≥ -1` and the loop ends at `idx = len(d)` with an `IndexError` at the latest. -/
def advance (d : List Rat) (s : Rat) : Nat → Int → Res Int
  | 0, _ => .error .other
  | f + 1, idx =>
    match pyGet? d idx with
    | none => .error .index
    | some x => if x ≤ s then .ok idx else advance d s f (idx + 1)

/-- `(1 - r) * a + r * b` on points. -/
def blend (r : Rat) (a b : Pt) : Pt := ((1 - r) * a.1 + r * b.1, (1 - r) * a.2 + r * b.2)

structure Interp where
  center : Pt
  right : Pt
  left : Pt
  idx : Int
  deriving DecidableEq

/-- `Lanelet.interpolate_position(distance)` (:658-679), verbatim.
    `c r l` are the centre / right / left polylines, `ℓ` the centre segment lengths.
    `.error .assert`  — the admissibility assertion (`0 ≤ s ≤ distance[-1]`) fails;
    `.error .zeroDiv` — stands for "numpy evaluates `0/0`: the returned coordinates are NaN"
                        (a zero-length segment; Python raises nothing here);
    `.error .index`   — an index past the end of an array. -/
def interpolate (c r l : List Pt) (ℓ : List Rat) (s : Rat) : Res Interp :=
  let d := cumDist ℓ
  match pyGet? d (-1) with
  | none => .error .index
  | some total =>
    if ¬ (s ≤ total ∧ 0 ≤ s) then .error .assert else
    let idx0 : Int := (searchsortedLeft s d : Int) - 1
    match advance d s (d.length + 2) idx0 with
    | .error e => .error e
    | .ok idx =>
      match pyGet? d idx, pyGet? d (idx + 1) with
      | some d0, some d1 =>
        if d1 - d0 = 0 then .error .zeroDiv else
        let t := (s - d0) / (d1 - d0)
        match pyGet? c idx, pyGet? c (idx + 1), pyGet? r idx, pyGet? r (idx + 1),
              pyGet? l idx, pyGet? l (idx + 1) with
        | some c0, some c1, some r0, some r1, some l0, some l1 =>
          .ok ⟨blend t c0 c1, blend t r0 r1, blend t l0 l1, idx⟩
        | _, _, _, _, _, _ => .error .index
      | _, _ => .error .index

/-! ### the caches behind `distance` / `inner_distance` (tied to the source by translation, CRProps/T20.lean) -/

/-- `Lanelet.distance` (getter, :293-300) as a function of the cache `self._distance`: the value of the cache after the call,
    which is also the returned array.  An existing cache is handed out as it is, an empty one is filled. -/
def distanceGet (cache : Option (List Rat)) (ℓ : List Rat) : Option (List Rat) :=
  match cache with
  | some d => some d
  | none => some (cumDist ℓ)

/-- `Lanelet.inner_distance` (getter, :306-314) as a function of the cache `self._inner_distance`. -/
def innerDistanceGet (cache : Option (List Rat)) (ℓl ℓr : List Rat) : Option (List Rat) :=
  match cache with
  | some d => some d
  | none => some (cumDistMin ℓl ℓr)

/-- The cache is usable for a centre line with segment lengths `ℓ`: empty, or holding exactly `cumDist ℓ`. -/
def CacheOk (cache : Option (List Rat)) (ℓ : List Rat) : Prop := cache = none ∨ cache = some (cumDist ℓ)

/-- Every method of `Lanelet` that assigns one of the vertex arrays (`self._center_vertices`, `_left_vertices`,
    `_right_vertices`), and whether the same method afterwards resets the cumulative-distance cache that depends on the array
    (`_distance` for the centre line, `_inner_distance` for the boundaries).  `translate_rotate` is a rigid motion: the
    cumulative distances are invariant under it and it keeps the caches. -/
def vertexWriters : List (String × String × Bool) := [
  ("center_vertices.setter", "_center_vertices", true),
  ("convert_to_2d", "_center_vertices", true),
  ("convert_to_2d", "_left_vertices", true),
  ("convert_to_2d", "_right_vertices", true),
  ("left_vertices.setter", "_left_vertices", true),
  ("right_vertices.setter", "_right_vertices", true),
  ("translate_rotate", "_center_vertices", false),
  ("translate_rotate", "_left_vertices", false),
  ("translate_rotate", "_right_vertices", false)]

/-! ### the side condition that ties the length parameters to the points -/

/-- Squared Euclidean distance. -/
def distSq (a b : Pt) : Rat := (b.1 - a.1) * (b.1 - a.1) + (b.2 - a.2) * (b.2 - a.2)

/-- `ℓ` is the list of Euclidean segment lengths of the polyline `c`: one non-negative entry per segment whose square
    is the squared distance of the segment's end points (i.e. `ℓᵢ = sqrt(|cᵢ₊₁ − cᵢ|²)`, lanelet.py:364).
    Decidable, so the harness checks it on every grid polyline for the lengths numpy computed (driver op `euclid`). -/
def isEuclid : List Pt → List Rat → Bool
  | a :: b :: t, x :: xs => decide (0 ≤ x) && decide (x * x = distSq a b) && isEuclid (b :: t) xs
  | [_], [] => true
  | _, _ => false

/-! ### merge_lanelets -/

structure Lanelet where
  id : Nat
  pred : List Nat
  succ : List Nat
  left : List Pt
  center : List Pt
  right : List Pt
  deriving DecidableEq

/-- `np.isclose(a, b)` with the default `rtol = 1e-5`, `atol = 1e-8`: `|a - b| ≤ atol + rtol·|b|`
    (the decimal constants are used as exact rationals; on the harness's grid `|a-b|` is `0` or `≥ 1/16`). -/
def isClose (a b : Rat) : Bool :=
  decide ((if a - b < 0 then -(a - b) else a - b) ≤ (1 : Rat) / 100000000 + (1 : Rat) / 100000 * (if b < 0 then -b else b))

def ptClose (a b : Pt) : Bool := isClose a.1 b.1 && isClose a.2 b.2

/-- `is_valid_polyline` as far as the model can see it: at least two points. -/
def validPolyline (p : List Pt) : Bool := decide (2 ≤ p.length)

/-- `int(str(a) + str(b))`. -/
def concatId (a b : Nat) : Nat := a * 10 ^ (Nat.repr b).length + b

/-- `Lanelet.merge_lanelets(l1, l2)` (:779-836), geometry and link part.
    * assertion: the two lanelets are linked in some direction (:789-798);
    * `pred`/`suc` selection (:801-806);
    * joint test on the LEFT boundary only (`np.isclose(pred.left[-1], suc.left[0]).all()`, :810-813);
    * concatenation `pred.X ++ suc.X[idx:]` (:816-818), id, predecessor of `pred`, successor of `suc`;
    * the `Lanelet` constructor's polyline assertions (:108-110 via the setters). -/
def mergeLanelets (l1 l2 : Lanelet) : Res Lanelet :=
  if ¬ (l1.id ∈ l2.succ ∨ l2.id ∈ l1.succ ∨ l1.id ∈ l2.pred ∨ l2.id ∈ l1.pred) then .error .assert else
  let (p, s) := if l1.id ∈ l2.pred ∨ l2.id ∈ l1.succ then (l1, l2) else (l2, l1)
  match pyGet? p.left (-1), pyGet? s.left 0 with
  | some a, some b =>
    let k := if ptClose a b then 1 else 0
    let left := p.left ++ s.left.drop k
    let center := p.center ++ s.center.drop k
    let right := p.right ++ s.right.drop k
    if validPolyline left && validPolyline center && validPolyline right then
      .ok ⟨concatId p.id s.id, p.pred, s.succ, left, center, right⟩
    else .error .assert
  | _, _ => .error .index

/-- The merge loop of `all_lanelets_by_merging_successors_from_lanelet` / `…predecessors…` (:864-872, :905-913):
    `pred = path[0]; for lanelet in path[1:]: pred = Lanelet.merge_lanelets(pred, lanelet)`. -/
def mergeChain : Lanelet → List Lanelet → Res Lanelet
  | m, [] => .ok m
  | m, x :: xs =>
    match mergeLanelets m x with
    | .error e => .error e
    | .ok m' => mergeChain m' xs

/-- Segment lengths of a polyline for a length function on point pairs (used to state the
    "length of the merged lanelet is the sum of the parts" theorem for every such function). -/
def segLens (len : Pt → Pt → Rat) : List Pt → List Rat
  | a :: b :: t => len a b :: segLens len (b :: t)
  | _ => []

end CR.Arc
