/-
  CRModel.DrawSelect — which patches `MPRenderer.draw_scenario` appends to `obstacle_patches`, as a function of
  the obstacle (role, initial time step, prediction kind and horizon, the time steps at which the
  implementation reports an occupancy / a trajectory state / a signal state) and of the draw parameters
  (time window and flags of the parameter group of each obstacle role).  The guards are those of
  commonroad/visualization/mp_renderer.py:
    draw_scenario 454-472, draw_static_obstacle 474-489, _draw_occupancy 491-503,
    draw_dynamic_obstacle 505-643, draw_phantom_obstacle 645-677, draw_environment_obstacle 679-693,
    _draw_history 695-720, draw_trajectory 722-778, draw_lanelet_network 1047-1049 (draw_ids),
    draw_planning_problem_set 1490-1492 (draw_ids).
  The geometry of a patch is not modelled: an emitted item names *which* occupancy / state is drawn;
  the harness maps items to shapes with the implementation's own `occupancy_at_time`.
-/
import CRModel.Basic
namespace CR.Draw

/-- Kind of prediction with `prediction.final_time_step` (for an `Interval` the harness sends its end,
    which is what `final_time_step < time_begin` compares). -/
inductive Pred where
  | none
  | traj (final : Int)
  | setb (final : Int)
  /-- a `SetBasedPrediction` with an empty `occupancy_set`: `final_time_step` = `max(())` raises `ValueError`
      (excluded by the XSD, which demands at least one occupancy; kept so that the read is a partial one) -/
  | setbEmpty
  deriving DecidableEq, Repr

inductive Role where
  | static | dynamic | phantom | env
  deriving DecidableEq, Repr

/-- Set of time steps: all of them, or a finite list. -/
structure TSet where
  all : Bool
  ts : List Int
  deriving Repr

def TSet.mem (s : TSet) (t : Int) : Bool := s.all || s.ts.contains t

/-- What the selection logic reads from one obstacle. -/
structure Obst where
  role : Role
  /-- `initial_state.time_step` (static / dynamic obstacles) -/
  initTs : Int
  pred : Pred
  /-- time steps `t` with `occupancy_at_time(t) is not None` -/
  occ : TSet
  /-- `initial_state.is_uncertain_position` -/
  uncInit : Bool
  /-- time steps with a trajectory state (`prediction.trajectory.state_at_time_step(t) is not None`) -/
  stateAt : TSet
  /-- … whose position is uncertain (a shape) -/
  uncAt : TSet
  /-- time steps with `signal_state_at_time_step(t) is not None` -/
  sigAt : TSet
  /-- time steps at which the occupancy shape is a `Rectangle` -/
  rectAt : TSet
  /-- `obstacle_type in supported_icons()` -/
  iconType : Bool
  /-- `obstacle_shape` has `length` and `width` -/
  hasLW : Bool
  /-- `initial_state.orientation` / `.velocity` is an interval -/
  orientIntInit : Bool := false
  velIntInit : Bool := false
  /-- time steps whose trajectory state has an interval as orientation / velocity -/
  orientIntAt : TSet := ⟨false, []⟩
  velIntAt : TSet := ⟨false, []⟩
  deriving Repr

/-- What the drawing code reads from a state: is the position a `Shape`, are orientation / velocity intervals. -/
structure StateInfo where
  uncPos : Bool
  orientInt : Bool
  velInt : Bool
  deriving DecidableEq, Repr

def Obst.initInfo (o : Obst) : StateInfo := ⟨o.uncInit, o.orientIntInit, o.velIntInit⟩
def Obst.stateInfo (o : Obst) (t : Int) : StateInfo := ⟨o.uncAt.mem t, o.orientIntAt.mem t, o.velIntAt.mem t⟩

/-- Which point a marker is anchored at: the position array itself, or `position.center` of a shape. -/
inductive Anchor where
  | exact | center
  deriving DecidableEq, Repr

/-- Which number is used for an orientation / velocity: the value itself, or the centre of the interval. -/
inductive Mid where
  | exact | mid
  deriving DecidableEq, Repr

def anchorSel (s : StateInfo) : Anchor := if s.uncPos then .center else .exact
def midSel (isInterval : Bool) : Mid := if isInterval then .mid else .exact

/-- Parameters read by `draw_dynamic_obstacle` (group `dynamic_obstacle` and its sub-groups). -/
structure DynFlags where
  tb : Int
  te : Int
  drawShape : Bool
  drawIcon : Bool
  drawDirection : Bool
  drawSignals : Bool
  drawOccupancies : Bool
  drawTrajectory : Bool
  drawHistory : Bool
  histSteps : Int
  histStepSize : Int
  /-- `history` sub-group reads `draw_params.time_begin` of the dynamic-obstacle group: same `tb` -/
  drawInitialState : Bool
  showLabel : Bool
  /-- `dynamic_obstacle.state.draw_arrow` -/
  stateArrow : Bool := false
  /-- window and mode of the nested `trajectory` group -/
  trajTb : Int
  trajTe : Int
  trajContinuous : Bool
  deriving Repr, DecidableEq

/-- Parameters read by `draw_phantom_obstacle`. -/
structure PhFlags where
  tb : Int
  te : Int
  drawShape : Bool
  drawOccupancies : Bool
  deriving Repr, DecidableEq

structure Flags where
  dyn : DynFlags
  ph : PhFlags
  /-- `static_obstacle.time_begin`, `environment_obstacle.time_begin` -/
  tbStatic : Int
  tbEnv : Int
  deriving Repr, DecidableEq

/-- One entry appended (directly or through `Shape.draw`) to `obstacle_patches` / `dynamic_labels`. -/
inductive Item where
  /-- the occupancy at time step `t` -/
  | occ (t : Int)
  /-- the uncertain position of the initial state -/
  | uncInit
  /-- the uncertain position of the trajectory state at `t` (extra occupancies) -/
  | uncState (t : Int)
  /-- fading occupancy of the history at `t` -/
  | hist (t : Int)
  /-- direction triangle -/
  | dir
  /-- icon patches, placed at the anchor with the given orientation reading -/
  | icon (a : Anchor) (r : Mid)
  /-- signal ellipses of the signal state at `time_begin` -/
  | sig
  /-- continuous trajectory line -/
  | trajLine
  /-- uncertain position of a trajectory state drawn by `draw_trajectory` -/
  | uncTraj (t : Int)
  /-- label text (goes to `dynamic_labels`), placed 0.5 right of the anchor -/
  | label (a : Anchor)
  /-- state marker of `draw_state`: circle at the anchor, arrow (orientation reading, velocity reading) if asked for -/
  | state (a : Anchor) (arrow : Option (Mid × Mid))
  deriving DecidableEq, Repr

/-- Python `range(a, b)`. -/
def pyRange (a b : Int) : List Int := (List.range (b - a).toNat).map (fun (i : Nat) => a + (i : Int))

/-- `_draw_occupancy(occ, state, …)` for the shape at `time_begin` (mp_renderer.py:491-503, called at 489 / 591
    with `obj.initial_state`). -/
def occWithInit (o : Obst) (t : Int) : List Item :=
  (if o.occ.mem t then [Item.occ t] else []) ++ (if o.uncInit then [Item.uncInit] else [])

/-- `draw_static_obstacle`: occupancy at `time_begin` (always defined) and the uncertain initial position. -/
def drawStatic (tb : Int) (o : Obst) : List Item := occWithInit o tb

/-- `draw_environment_obstacle`: `obj.occupancy_at_time(time_begin).draw(...)`. -/
def drawEnv (tb : Int) (_o : Obst) : List Item := [Item.occ tb]

/-- `draw_phantom_obstacle` (mp_renderer.py:658-677). -/
def drawPhantom (f : PhFlags) (o : Obst) : List Item :=
  (if f.drawShape then (if o.occ.mem f.tb then [Item.occ f.tb] else []) else []) ++
  (if f.drawOccupancies then
     (pyRange (if f.drawShape then f.tb + 1 else f.tb) f.te).flatMap
       (fun t => if o.occ.mem t then [Item.occ t] else [])
   else [])

def Pred.isNone : Pred → Bool
  | .none => true
  | _ => false

def Pred.isTraj : Pred → Bool
  | .traj _ => true
  | _ => false

def Pred.isSet : Pred → Bool
  | .setb _ => true
  | .setbEmpty => true
  | _ => false

def Pred.final : Pred → Int
  | .none => 0
  | .traj f => f
  | .setb f => f
  | .setbEmpty => 0

/-- The two early returns of `draw_dynamic_obstacle` (mp_renderer.py:534-543); note Python's precedence
    `A and B or C`. -/
def dynHidden (f : DynFlags) (o : Obst) : Bool :=
  ((o.pred.isNone && decide (o.initTs < f.tb)) || decide (o.initTs > f.te)) ||
  ((!o.pred.isNone && decide (o.pred.final < f.tb)) || decide (o.initTs > f.te))

/-- `_draw_history` (695-720): `for history_idx in range(history_steps, 0, -1)`. -/
def histItems (f : DynFlags) (o : Obst) : List Item :=
  ((List.range f.histSteps.toNat).reverse.map (fun (i : Nat) => ((i : Int) + 1))).flatMap
    (fun idx => let t := f.tb - idx * f.histStepSize
                if o.occ.mem t then [Item.hist t] else [])

/-- Result of the icon block (549-585): effective `draw_shape`, effective `draw_icon`, emitted items. -/
def iconBlock (f : DynFlags) (o : Obst) : Bool × Bool × List Item :=
  if f.drawIcon && o.iconType && o.pred.isTraj then
    if o.hasLW then
      (false, true, if f.tb = o.initTs then [Item.icon (anchorSel o.initInfo) (midSel o.initInfo.orientInt)]
                    else if o.stateAt.mem f.tb then
                      [Item.icon (anchorSel (o.stateInfo f.tb)) (midSel (o.stateInfo f.tb).orientInt)]
                    else [])
    else (true, false, [])
  else if f.drawIcon then (true, true, [])
  else (f.drawShape, false, [])

/-- `draw_trajectory` (722-778) for the trajectory of a dynamic obstacle: patches only
    (the dotted form goes to `dynamic_collections`). -/
def trajItems (f : DynFlags) (o : Obst) : List Item :=
  if f.trajTb ≥ f.trajTe then [] else
  let ts := (pyRange f.trajTb f.trajTe).filter (fun t => o.stateAt.mem t)
  (if f.trajContinuous && (ts.any (fun t => !o.uncAt.mem t)) then [Item.trajLine] else []) ++
  (ts.filter (fun t => o.uncAt.mem t)).map Item.uncTraj

/-- `state` of lines 622-627: the initial state if `time_begin == 0`, else the trajectory state. -/
def labelState (f : DynFlags) (o : Obst) : Option StateInfo :=
  if f.tb = 0 then some o.initInfo
  else if o.pred.isTraj && o.stateAt.mem f.tb then some (o.stateInfo f.tb) else none

/-- `draw_state` (866-911): circle at the (centre of the) position, arrow for the (centre of the) orientation and velocity. -/
def stateItem (f : DynFlags) (s : StateInfo) : Item :=
  Item.state (anchorSel s) (if f.stateArrow then some (midSel s.orientInt, midSel s.velInt) else none)

/-- `draw_dynamic_obstacle` (mp_renderer.py:505-643). -/
def drawDynamic (f : DynFlags) (o : Obst) : List Item :=
  if dynHidden f o then [] else
  let (shape, icon, iconItems) := iconBlock f o
  (if f.drawHistory && o.pred.isTraj then histItems f o else []) ++
  iconItems ++
  (if shape then
     (if o.occ.mem f.tb then
        occWithInit o f.tb ++ (if f.drawDirection && o.rectAt.mem f.tb then [Item.dir] else [])
      else [])
   else []) ++
  (if f.drawSignals && (shape || icon) then
     (if o.occ.mem f.tb && o.sigAt.mem f.tb then [Item.sig] else [])
   else []) ++
  (if f.drawOccupancies || o.pred.isSet then
     (pyRange (if shape then f.tb + 1 else f.tb) f.te).flatMap
       (fun t => (if o.occ.mem t then [Item.occ t] else []) ++
                 (if o.pred.isTraj && o.stateAt.mem t && o.uncAt.mem t then [Item.uncState t] else []))
   else []) ++
  (if f.drawTrajectory && o.pred.isTraj then trajItems f o else []) ++
  (match labelState f o with
   | some s => (if f.showLabel then [Item.label (anchorSel s)] else []) ++
               (if f.drawInitialState then [stateItem f s] else [])
   | none => [])

/-- Dispatch of `draw_scenario` (464-472). -/
def drawObstacle (f : Flags) (o : Obst) : List Item :=
  match o.role with
  | .dynamic => drawDynamic f.dyn o
  | .static => drawStatic f.tbStatic o
  | .env => drawEnv f.tbEnv o
  | .phantom => drawPhantom f.ph o

/-- All obstacles, in the order of `Scenario.obstacles`; items tagged with the obstacle index. -/
def drawScenario (f : Flags) (os : List Obst) : List (List Item) := os.map (drawObstacle f)

/-- Only the occupancy items (the "obstacle shapes"). -/
def occItems (l : List Item) : List Int :=
  l.filterMap (fun i => match i with | .occ t => some t | _ => none)

/-- `draw_lanelet_network`: `if isinstance(draw_ids, list) and lanelet_id not in draw_ids: continue`. -/
def laneletsDrawn (ids : List Int) (drawIds : Option (List Int)) : List Int :=
  ids.filter (fun i => match drawIds with | none => true | some l => l.contains i)

/-- `draw_planning_problem_set`: `if draw_ids is None or pp_id in draw_ids`. -/
def problemsDrawn (ids : List Int) (drawIds : Option (List Int)) : List Int :=
  ids.filter (fun i => match drawIds with | none => true | some l => l.contains i)

/-! ## The same logic with every partial read made explicit

The functions above say *what* is emitted.  The functions below follow the same code once more but perform every
read that can fail in Python through a partial primitive, so that "the selection logic never dereferences `None`,
never indexes a shape, never takes the cosine of an interval, never concatenates nothing" is a statement
(`CRProps/C19.lean`, `C19_total_selection`) instead of a property of Lean's totality.  matplotlib itself stays outside. -/

/-- `x.attr` / `x.method()` where `x` may be `None`: `AttributeError`. -/
def deref {α : Type} : Option α → Res α
  | some a => .ok a
  | none => .error .attr

/-- `position[0]`: only an array can be indexed; a `Shape` raises `TypeError`. -/
def indexXY (isShape : Bool) : Res Unit := if isShape then .error .type else .ok ()

/-- `position.center`: only a `Shape` has it; an array raises `AttributeError`. -/
def centerOf (isShape : Bool) : Res Unit := if isShape then .ok () else .error .attr

/-- `math.cos(x)`, `max(x, 3.0 / s) * cos * s` as `FancyArrow` length, rotation matrix of an icon: `x` must be a number;
    an `Interval` raises `TypeError`. -/
def realArg (isInterval : Bool) : Res Unit := if isInterval then .error .type else .ok ()

/-- `np.concatenate(list)`: `ValueError` on an empty list. -/
def npConcatenate (n : Nat) : Res Unit := if n = 0 then .error .value else .ok ()

/-- `distances_end[-1] = min(distances_end[-1], max_dist)` in `_draw_bound` (mp_renderer.py:1089-1092): `n` = number of dash
    starts `np.arange(linewidth / 2, max_dist, 18.0)`; indexing the last element of an empty array is an `IndexError`.
    The code has no guard (known finding, proposed_fixes/C19_dashed_marking_on_short_bound.patch). -/
def dashEndsUnguarded (n : Nat) : Res Unit := if n = 0 then .error .index else .ok ()

/-- `position[0]` without the `is_uncertain_position` test (the code before the repair). -/
def anchorUnguarded (s : StateInfo) : Res Anchor := do indexXY s.uncPos; pure .exact

/-- `position = state.position.center if state.is_uncertain_position else state.position; position[0], position[1]`
    (mp_renderer.py label 636, icon 570-572, draw_state 882). -/
def anchorC (s : StateInfo) : Res Anchor :=
  if s.uncPos then do centerOf s.uncPos; indexXY false; pure .center
  else do indexXY s.uncPos; pure .exact

/-- `x = 0.5 * (x.start + x.end) if isinstance(x, Interval) else x; math.cos(x)` (draw_state 888-896, icon 573-575). -/
def midC (isInterval : Bool) : Res Mid :=
  if isInterval then do realArg false; pure .mid
  else do realArg isInterval; pure .exact

/-- `obj.occupancy_at_time(t)`: `None` or an occupancy (of which the code later asks `isinstance(shape, Rectangle)`). -/
def occAtC (o : Obst) (t : Int) : Option Bool := if o.occ.mem t then some (o.rectAt.mem t) else none

/-- `obj.prediction.final_time_step` -/
def Pred.finalC : Pred → Res Int
  | .none => .error .attr
  | .traj f => .ok f
  | .setb f => .ok f
  | .setbEmpty => .error .value

/-- `obj.prediction.trajectory.state_at_time_step(t)`: only a `TrajectoryPrediction` has a trajectory. -/
def trajStateC (o : Obst) (t : Int) : Res (Option StateInfo) :=
  if o.pred.isTraj then .ok (if o.stateAt.mem t then some (o.stateInfo t) else none) else .error .attr

/-- lines 534-543 with Python's short-circuit evaluation: `prediction.final_time_step` is read only behind
    `prediction is not None`. -/
def dynHiddenC (f : DynFlags) (o : Obst) : Res Bool :=
  if (o.pred.isNone && decide (o.initTs < f.tb)) || decide (o.initTs > f.te) then pure true
  else do
    let c ← (if !o.pred.isNone then do let fin ← o.pred.finalC; pure (decide (fin < f.tb)) else pure false)
    pure (c || decide (o.initTs > f.te))

def iconBlockC (f : DynFlags) (o : Obst) : Res (Bool × Bool × List Item) :=
  if f.drawIcon && o.iconType && o.pred.isTraj then
    if o.hasLW then do
      let st ← (if f.tb = o.initTs then pure (some o.initInfo) else trajStateC o f.tb)
      match st with
      | some s => do
        let a ← anchorC s
        let r ← midC s.orientInt
        pure (false, true, [Item.icon a r])
      | none => pure (false, true, [])
    else pure (true, false, [])
  else if f.drawIcon then pure (true, true, [])
  else pure (f.drawShape, false, [])

/-- lines 622-627 -/
def labelStateC (f : DynFlags) (o : Obst) : Res (Option StateInfo) :=
  if f.tb = 0 then pure (some o.initInfo)
  else if o.pred.isTraj then trajStateC o f.tb else pure none

def stateItemC (f : DynFlags) (s : StateInfo) : Res Item := do
  let a ← anchorC s
  if f.stateArrow then do
    let r ← midC s.orientInt
    let v ← midC s.velInt
    pure (Item.state a (some (r, v)))
  else pure (Item.state a none)

/-- the loop of lines 611-616: `state_at_time_step` only for a `TrajectoryPrediction`; `occ`/`state` may be `None`
    and are tested inside `_draw_occupancy`. -/
def occLoopC (o : Obst) : List Int → Res (List Item)
  | [] => pure []
  | t :: ts => do
    let st ← (if o.pred.isTraj then trajStateC o t else pure none)
    let rest ← occLoopC o ts
    pure ((match occAtC o t with | some _ => [Item.occ t] | none => []) ++
          (match st with | some s => if s.uncPos then [Item.uncState t] else [] | none => []) ++ rest)

/-- `draw_dynamic_obstacle` with explicit partial reads. -/
def drawDynamicC (f : DynFlags) (o : Obst) : Res (List Item) := do
  if ← dynHiddenC f o then pure [] else
  let (shape, icon, iconItems) ← iconBlockC f o
  let shapeItems : List Item :=
    if shape then
      match occAtC o f.tb with
      | some isRect => occWithInit o f.tb ++ (if f.drawDirection && isRect then [Item.dir] else [])
      | none => []
    else []
  let sigItems : List Item :=
    if f.drawSignals && (shape || icon) then
      match occAtC o f.tb with
      | some _ => if o.sigAt.mem f.tb then [Item.sig] else []
      | none => []
    else []
  let occs ← (if f.drawOccupancies || o.pred.isSet then occLoopC o (pyRange (if shape then f.tb + 1 else f.tb) f.te)
              else pure [])
  let st ← labelStateC f o
  let tail ← (match st with
    | some s => do
      let a ← anchorC s
      let si ← (if f.drawInitialState then do let i ← stateItemC f s; pure [i] else pure [])
      pure ((if f.showLabel then [Item.label a] else []) ++ si)
    | none => pure [])
  pure ((if f.drawHistory && o.pred.isTraj then histItems f o else []) ++ iconItems ++ shapeItems ++ sigItems ++ occs ++
        (if f.drawTrajectory && o.pred.isTraj then trajItems f o else []) ++ tail)

/-- `draw_environment_obstacle`: `obj.occupancy_at_time(time_begin).draw(...)` — no `None` test in the code. -/
def drawEnvC (tb : Int) (o : Obst) : Res (List Item) := do
  let _ ← deref (occAtC o tb)
  pure [Item.occ tb]

def drawObstacleC (f : Flags) (o : Obst) : Res (List Item) :=
  match o.role with
  | .dynamic => drawDynamicC f.dyn o
  | .static => pure (drawStatic f.tbStatic o)
  | .env => drawEnvC f.tbEnv o
  | .phantom => pure (drawPhantom f.ph o)

def drawScenarioC (f : Flags) (os : List Obst) : Res (List (List Item)) := os.mapM (drawObstacleC f)

/-! ### lanelet network: which lanelets are filled, and the border-vertex collections (mp_renderer.py:1047-1124, 1437-1463) -/

structure LaneletInfo where
  id : Int
  /-- `lanelet.adj_left is None or not lanelet.adj_left_same_direction` -/
  leftBorder : Bool
  deriving Repr

structure NetFlags where
  drawIds : Option (List Int)
  borderVertices : Bool
  leftBound : Bool
  rightBound : Bool
  deriving Repr

structure NetOut where
  /-- lanelets entering the loop body (filled if `fill_lanelet`) -/
  drawn : List Int
  /-- number of `EllipseCollection`s appended for the border vertices -/
  borderCollections : Nat
  deriving Repr, DecidableEq

def netSelected (f : NetFlags) (ls : List LaneletInfo) : List LaneletInfo :=
  ls.filter (fun l => match f.drawIds with | none => true | some d => d.contains l.id)

/-- `coordinates_left_border_vertices` / `…right…`: one entry per selected lanelet whose bound is visited. -/
def leftVerts (f : NetFlags) (ls : List LaneletInfo) : List Int :=
  if f.borderVertices then ((netSelected f ls).filter (fun l => (f.borderVertices || f.leftBound) && l.leftBorder)).map (·.id)
  else []

def rightVerts (f : NetFlags) (ls : List LaneletInfo) : List Int :=
  if f.borderVertices then ((netSelected f ls).filter (fun _ => f.borderVertices || f.rightBound)).map (·.id) else []

/-- `if draw_border_vertices and len(coordinates) > 0: np.concatenate(coordinates); append(EllipseCollection)` twice. -/
def drawNetC (f : NetFlags) (ls : List LaneletInfo) : Res NetOut := do
  let l := leftVerts f ls
  let r := rightVerts f ls
  let n1 ← (if f.borderVertices && !l.isEmpty then do npConcatenate l.length; pure 1 else pure 0)
  let n2 ← (if f.borderVertices && !r.isEmpty then do npConcatenate r.length; pure 1 else pure 0)
  pure { drawn := (netSelected f ls).map (·.id), borderCollections := n1 + n2 }

/-- The same without the `len(...) > 0` tests (the code before the repair): for documentation of the defect. -/
def drawNetUnguarded (f : NetFlags) (ls : List LaneletInfo) : Res NetOut := do
  let l := leftVerts f ls
  let r := rightVerts f ls
  let n1 ← (if f.borderVertices then do npConcatenate l.length; pure 1 else pure 0)
  let n2 ← (if f.borderVertices then do npConcatenate r.length; pure 1 else pure 0)
  pure { drawn := (netSelected f ls).map (·.id), borderCollections := n1 + n2 }

/-! ### traffic-light labels (traffic_sign.py create_img_boxes_traffic_lights 509-531) -/

structure LightInfo where
  hasPosition : Bool
  active : Bool
  /-- `traffic_light.get_state_at_time_step(time_begin).value` (opaque) -/
  state : String
  deriving Repr

/-- The loop over the traffic lights with its local variable `state` (`var`: unbound = `none`, it survives from
    one iteration to the next).  `assignInactive = true` is the code as it is: both branches assign `state`
    (`active`: the cycle state; otherwise `TrafficLightState.INACTIVE`); `false` is the code before the repair,
    where the inactive branch did not.  Reading an unbound local is `UnboundLocalError`.
    Result: the label texts of the lights that have a position, in order, if `show_label`. -/
def lightLabelsGo (showLabel assignInactive : Bool) : Option String → List LightInfo → Res (List String)
  | _, [] => pure []
  | var, l :: ls =>
    if !l.hasPosition then lightLabelsGo showLabel assignInactive var ls else
    let var' := if l.active then some l.state else if assignInactive then some "inactive" else var
    if showLabel then
      match var' with
      | some s => do
        let rest ← lightLabelsGo showLabel assignInactive var' ls
        pure (s :: rest)
      | none => .error .other
    else lightLabelsGo showLabel assignInactive var' ls

def lightLabelsC (showLabel : Bool) (ls : List LightInfo) : Res (List String) := lightLabelsGo showLabel true none ls

/-! ### frame by frame on one renderer (mp_renderer.py clear 220-238, render 301-329)

`draw_*` append to the renderer's buffers, `render(keep_static_artists)` shows the buffers and ends with
`clear(keep_static_artists)`: the obstacle patches and labels are always dropped, the static artists (lanelet network,
planning-problem annotations) are kept iff `keep_static_artists`.  A frame = some draws followed by one render. -/

structure Buffers where
  /-- `obstacle_patches` (per drawn obstacle) -/
  patches : List (List Item)
  /-- number of lanelet-network drawings held in `static_collections` -/
  networks : Nat
  deriving Repr, DecidableEq

structure Frame where
  flags : Flags
  obstacles : List Obst
  /-- the frame draws the lanelet network (`draw_scenario`) or only the obstacles (`draw_list(scenario.obstacles)`) -/
  drawNetwork : Bool
  /-- `render(keep_static_artists=…)` -/
  keepStatic : Bool
  deriving Repr

/-- the draws of a frame -/
def Frame.draw (fr : Frame) (b : Buffers) : Buffers :=
  { patches := b.patches ++ drawScenario fr.flags fr.obstacles,
    networks := b.networks + (if fr.drawNetwork then 1 else 0) }

/-- `clear(keep_static_artists)` at the end of `render` -/
def clearBuffers (keep : Bool) (b : Buffers) : Buffers :=
  { patches := [], networks := if keep then b.networks else 0 }

/-- What each frame of a history shows (buffers at its render), starting from buffers `b`. -/
def showFrames : Buffers → List Frame → List Buffers
  | _, [] => []
  | b, fr :: rest => fr.draw b :: showFrames (clearBuffers fr.keepStatic (fr.draw b)) rest

/-! The same buffers under an arbitrary history of the renderer's public operations: draws, `clear(keep)`,
`render(keep)` (shows, then clears) and `render_dynamic()` (shows, does not clear — the per-frame step of
`create_video`, which calls `clear()` *before* the draws of a frame, mp_renderer.py:395-404). -/

inductive ROp where
  | draw (fr : Frame)
  | clear (keep : Bool)
  | render (keep : Bool)
  | renderDynamic
  deriving Repr

/-- buffers after a history -/
def stateAfter : Buffers → List ROp → Buffers
  | b, [] => b
  | b, .draw fr :: r => stateAfter (fr.draw b) r
  | b, .clear k :: r => stateAfter (clearBuffers k b) r
  | b, .render k :: r => stateAfter (clearBuffers k b) r
  | b, .renderDynamic :: r => stateAfter b r

/-- what every `render` / `render_dynamic` of a history shows -/
def runOps : Buffers → List ROp → List Buffers
  | _, [] => []
  | b, .draw fr :: r => runOps (fr.draw b) r
  | b, .clear k :: r => runOps (clearBuffers k b) r
  | b, .render k :: r => b :: runOps (clearBuffers k b) r
  | b, .renderDynamic :: r => b :: runOps b r

/-! ### what is on the AXES (mp_renderer.py remove_dynamic 239-252, render_dynamic 254-285, render_static 287-299,
render 301-329, create_video 331-420)

The buffers above are what a show *hands* to matplotlib; what the figure displays is what is on the axes afterwards.
`render_dynamic()` first re-adds every artist registered in `dynamic_artists` (an artist already on the axes is the same
object, displayed once), then wraps `obstacle_patches` in ONE new `PatchCollection`, adds it to the axes and registers it
(`dynamic_artists = artist_list`, the list that ends with the new collection).  `remove_dynamic()` takes exactly the
registered artists off the axes, `clear()` empties the registration list WITHOUT touching the axes, `ax.cla()` (first
statement of `render`, `ax.clear()` at the start of `create_video`) empties the axes without touching the registrations.
Only the obstacle patch collections are modelled (identity = the number of the show that created them). -/

abbrev PatchCol := List (List Item)

structure Rend where
  buf : Buffers
  /-- obstacle patch collections on the axes, in the order they were added -/
  axes : List (Nat × PatchCol)
  /-- the obstacle patch collections registered in `dynamic_artists` -/
  dyn : List (Nat × PatchCol)
  /-- number of patch collections created so far -/
  next : Nat
  deriving Repr

def Rend.init : Rend := ⟨⟨[], 0⟩, [], [], 0⟩

def Rend.registered (s : Rend) (i : Nat) : Bool := s.dyn.any (fun c => c.1 == i)

/-- `ax.add_artist` / `ax.add_collection` of an artist: an object already on the axes is displayed once -/
def addArtist (ax : List (Nat × PatchCol)) (c : Nat × PatchCol) : List (Nat × PatchCol) :=
  if ax.any (fun d => d.1 == c.1) then ax else ax ++ [c]

def Rend.renderDynamic (s : Rend) : Rend :=
  { s with axes := s.dyn.foldl addArtist s.axes ++ [(s.next, s.buf.patches)],
           dyn := s.dyn ++ [(s.next, s.buf.patches)], next := s.next + 1 }

def Rend.removeDynamic (s : Rend) : Rend := { s with axes := s.axes.filter (fun c => !s.registered c.1) }

def Rend.clear (k : Bool) (s : Rend) : Rend := { s with buf := clearBuffers k s.buf, dyn := [] }

def Rend.cla (s : Rend) : Rend := { s with axes := [] }

inductive AOp where
  | draw (fr : Frame)
  | clear (keep : Bool)
  | render (keep : Bool)
  | renderDynamic
  | renderStatic
  | removeDynamic
  | cla
  deriving Repr

def stepA : Rend → AOp → Rend
  | s, .draw fr => { s with buf := fr.draw s.buf }
  | s, .clear k => s.clear k
  | s, .render k => (s.cla.renderDynamic).clear k      -- cla; render_static; render_dynamic; clear(keep)
  | s, .renderDynamic => s.renderDynamic
  | s, .renderStatic => s                              -- static collections are not obstacle patches
  | s, .removeDynamic => s.removeDynamic
  | s, .cla => s.cla

def AOp.shows : AOp → Bool
  | .render _ => true
  | .renderDynamic => true
  | _ => false

/-- the obstacle patch collections on the axes after every `render` / `render_dynamic` of a history -/
def runAxes : Rend → List AOp → List (List (Nat × PatchCol))
  | _, [] => []
  | s, op :: r => if op.shows then (stepA s op).axes :: runAxes (stepA s op) r else runAxes (stepA s op) r

/-- `create_video`'s `update(frame)`: `remove_dynamic(); clear(); draw_list(...); render_dynamic()` -/
def videoFrame (ds : List Frame) : List AOp := [.removeDynamic, .clear false] ++ ds.map AOp.draw ++ [.renderDynamic]

/-- `create_video`: `ax.clear()`, `init_frame` (`draw_list(...); render_static()`), then one `update` per frame -/
def videoOps (init : List Frame) (frames : List (List Frame)) : List AOp :=
  [.cla] ++ init.map AOp.draw ++ [.renderStatic] ++ frames.flatMap videoFrame

end CR.Draw
