/-
  CRModel.DrawSelect — which patches `MPRenderer.draw_scenario` appends to `obstacle_patches`, as a function of
  the obstacle (role, initial time step, prediction kind and horizon, the time steps at which the
  implementation reports an occupancy / a trajectory state / a signal state) and of the draw parameters
  (time window and flags of the parameter group of each obstacle role).  The guards are those of
  commonroad/visualization/mp_renderer.py:
    draw_scenario 454-472, draw_static_obstacle 474-489, _draw_occupancy 491-503,
    draw_dynamic_obstacle 505-643, draw_phantom_obstacle 645-677, draw_environment_obstacle 679-693,
    _draw_history 695-720, draw_trajectory 722-778, draw_lanelet_network 1047-1049 (draw_ids),
    draw_planning_problem_set 1490-1492 (draw_ids).
  The geometry of a patch is not modelled: an emitted item names *which* occupancy / state is drawn;
  the harness maps items to shapes with the implementation's own `occupancy_at_time`.
-/
import CRModel.Basic
namespace CR.Draw

/-- Kind of prediction with `prediction.final_time_step` (for an `Interval` the harness sends its end,
    which is what `final_time_step < time_begin` compares). -/
inductive Pred where
  | none
  | traj (final : Int)
  | setb (final : Int)
  deriving DecidableEq, Repr

inductive Role where
  | static | dynamic | phantom | env
  deriving DecidableEq, Repr

/-- Set of time steps: all of them, or a finite list. -/
structure TSet where
  all : Bool
  ts : List Int
  deriving Repr

def TSet.mem (s : TSet) (t : Int) : Bool := s.all || s.ts.contains t

/-- What the selection logic reads from one obstacle. -/
structure Obst where
  role : Role
  /-- `initial_state.time_step` (static / dynamic obstacles) -/
  initTs : Int
  pred : Pred
  /-- time steps `t` with `occupancy_at_time(t) is not None` -/
  occ : TSet
  /-- `initial_state.is_uncertain_position` -/
  uncInit : Bool
  /-- time steps with a trajectory state (`prediction.trajectory.state_at_time_step(t) is not None`) -/
  stateAt : TSet
  /-- … whose position is uncertain (a shape) -/
  uncAt : TSet
  /-- time steps with `signal_state_at_time_step(t) is not None` -/
  sigAt : TSet
  /-- time steps at which the occupancy shape is a `Rectangle` -/
  rectAt : TSet
  /-- `obstacle_type in supported_icons()` -/
  iconType : Bool
  /-- `obstacle_shape` has `length` and `width` -/
  hasLW : Bool
  deriving Repr

/-- Parameters read by `draw_dynamic_obstacle` (group `dynamic_obstacle` and its sub-groups). -/
structure DynFlags where
  tb : Int
  te : Int
  drawShape : Bool
  drawIcon : Bool
  drawDirection : Bool
  drawSignals : Bool
  drawOccupancies : Bool
  drawTrajectory : Bool
  drawHistory : Bool
  histSteps : Int
  histStepSize : Int
  /-- `history` sub-group reads `draw_params.time_begin` of the dynamic-obstacle group: same `tb` -/
  drawInitialState : Bool
  showLabel : Bool
  /-- window and mode of the nested `trajectory` group -/
  trajTb : Int
  trajTe : Int
  trajContinuous : Bool
  deriving Repr

/-- Parameters read by `draw_phantom_obstacle`. -/
structure PhFlags where
  tb : Int
  te : Int
  drawShape : Bool
  drawOccupancies : Bool
  deriving Repr

structure Flags where
  dyn : DynFlags
  ph : PhFlags
  /-- `static_obstacle.time_begin`, `environment_obstacle.time_begin` -/
  tbStatic : Int
  tbEnv : Int
  deriving Repr

/-- One entry appended (directly or through `Shape.draw`) to `obstacle_patches` / `dynamic_labels`. -/
inductive Item where
  /-- the occupancy at time step `t` -/
  | occ (t : Int)
  /-- the uncertain position of the initial state -/
  | uncInit
  /-- the uncertain position of the trajectory state at `t` (extra occupancies) -/
  | uncState (t : Int)
  /-- fading occupancy of the history at `t` -/
  | hist (t : Int)
  /-- direction triangle -/
  | dir
  /-- icon patches -/
  | icon
  /-- signal ellipses of the signal state at `time_begin` -/
  | sig
  /-- continuous trajectory line -/
  | trajLine
  /-- uncertain position of a trajectory state drawn by `draw_trajectory` -/
  | uncTraj (t : Int)
  /-- label text (goes to `dynamic_labels`) -/
  | label
  /-- state marker of `draw_state` -/
  | state
  deriving DecidableEq, Repr

/-- Python `range(a, b)`. -/
def pyRange (a b : Int) : List Int := (List.range (b - a).toNat).map (fun (i : Nat) => a + (i : Int))

/-- `_draw_occupancy(occ, state, …)` for the shape at `time_begin` (mp_renderer.py:491-503, called at 489 / 591
    with `obj.initial_state`). -/
def occWithInit (o : Obst) (t : Int) : List Item :=
  (if o.occ.mem t then [Item.occ t] else []) ++ (if o.uncInit then [Item.uncInit] else [])

/-- `draw_static_obstacle`: occupancy at `time_begin` (always defined) and the uncertain initial position. -/
def drawStatic (tb : Int) (o : Obst) : List Item := occWithInit o tb

/-- `draw_environment_obstacle`: `obj.occupancy_at_time(time_begin).draw(...)`. -/
def drawEnv (tb : Int) (_o : Obst) : List Item := [Item.occ tb]

/-- `draw_phantom_obstacle` (mp_renderer.py:658-677). -/
def drawPhantom (f : PhFlags) (o : Obst) : List Item :=
  (if f.drawShape then (if o.occ.mem f.tb then [Item.occ f.tb] else []) else []) ++
  (if f.drawOccupancies then
     (pyRange (if f.drawShape then f.tb + 1 else f.tb) f.te).flatMap
       (fun t => if o.occ.mem t then [Item.occ t] else [])
   else [])

def Pred.isNone : Pred → Bool
  | .none => true
  | _ => false

def Pred.isTraj : Pred → Bool
  | .traj _ => true
  | _ => false

def Pred.isSet : Pred → Bool
  | .setb _ => true
  | _ => false

def Pred.final : Pred → Int
  | .none => 0
  | .traj f => f
  | .setb f => f

/-- The two early returns of `draw_dynamic_obstacle` (mp_renderer.py:534-543); note Python's precedence
    `A and B or C`. -/
def dynHidden (f : DynFlags) (o : Obst) : Bool :=
  ((o.pred.isNone && decide (o.initTs < f.tb)) || decide (o.initTs > f.te)) ||
  ((!o.pred.isNone && decide (o.pred.final < f.tb)) || decide (o.initTs > f.te))

/-- `_draw_history` (695-720): `for history_idx in range(history_steps, 0, -1)`. -/
def histItems (f : DynFlags) (o : Obst) : List Item :=
  ((List.range f.histSteps.toNat).reverse.map (fun (i : Nat) => ((i : Int) + 1))).flatMap
    (fun idx => let t := f.tb - idx * f.histStepSize
                if o.occ.mem t then [Item.hist t] else [])

/-- Result of the icon block (549-585): effective `draw_shape`, effective `draw_icon`, emitted items. -/
def iconBlock (f : DynFlags) (o : Obst) : Bool × Bool × List Item :=
  if f.drawIcon && o.iconType && o.pred.isTraj then
    if o.hasLW then
      (false, true, if f.tb = o.initTs || o.stateAt.mem f.tb then [Item.icon] else [])
    else (true, false, [])
  else if f.drawIcon then (true, true, [])
  else (f.drawShape, false, [])

/-- `draw_trajectory` (722-778) for the trajectory of a dynamic obstacle: patches only
    (the dotted form goes to `dynamic_collections`). -/
def trajItems (f : DynFlags) (o : Obst) : List Item :=
  if f.trajTb ≥ f.trajTe then [] else
  let ts := (pyRange f.trajTb f.trajTe).filter (fun t => o.stateAt.mem t)
  (if f.trajContinuous && (ts.any (fun t => !o.uncAt.mem t)) then [Item.trajLine] else []) ++
  (ts.filter (fun t => o.uncAt.mem t)).map Item.uncTraj

/-- `state` of lines 622-627: the initial state if `time_begin == 0`, else the trajectory state. -/
def labelState (f : DynFlags) (o : Obst) : Bool :=
  if f.tb = 0 then true else (o.pred.isTraj && o.stateAt.mem f.tb)

/-- `draw_dynamic_obstacle` (mp_renderer.py:505-643). -/
def drawDynamic (f : DynFlags) (o : Obst) : List Item :=
  if dynHidden f o then [] else
  let (shape, icon, iconItems) := iconBlock f o
  (if f.drawHistory && o.pred.isTraj then histItems f o else []) ++
  iconItems ++
  (if shape then
     (if o.occ.mem f.tb then
        occWithInit o f.tb ++ (if f.drawDirection && o.rectAt.mem f.tb then [Item.dir] else [])
      else [])
   else []) ++
  (if f.drawSignals && (shape || icon) then
     (if o.occ.mem f.tb && o.sigAt.mem f.tb then [Item.sig] else [])
   else []) ++
  (if f.drawOccupancies || o.pred.isSet then
     (pyRange (if shape then f.tb + 1 else f.tb) f.te).flatMap
       (fun t => (if o.occ.mem t then [Item.occ t] else []) ++
                 (if o.pred.isTraj && o.stateAt.mem t && o.uncAt.mem t then [Item.uncState t] else []))
   else []) ++
  (if f.drawTrajectory && o.pred.isTraj then trajItems f o else []) ++
  (if f.showLabel && labelState f o then [Item.label] else []) ++
  (if f.drawInitialState && labelState f o then [Item.state] else [])

/-- Dispatch of `draw_scenario` (464-472). -/
def drawObstacle (f : Flags) (o : Obst) : List Item :=
  match o.role with
  | .dynamic => drawDynamic f.dyn o
  | .static => drawStatic f.tbStatic o
  | .env => drawEnv f.tbEnv o
  | .phantom => drawPhantom f.ph o

/-- All obstacles, in the order of `Scenario.obstacles`; items tagged with the obstacle index. -/
def drawScenario (f : Flags) (os : List Obst) : List (List Item) := os.map (drawObstacle f)

/-- Only the occupancy items (the "obstacle shapes"). -/
def occItems (l : List Item) : List Int :=
  l.filterMap (fun i => match i with | .occ t => some t | _ => none)

/-- `draw_lanelet_network`: `if isinstance(draw_ids, list) and lanelet_id not in draw_ids: continue`. -/
def laneletsDrawn (ids : List Int) (drawIds : Option (List Int)) : List Int :=
  ids.filter (fun i => match drawIds with | none => true | some l => l.contains i)

/-- `draw_planning_problem_set`: `if draw_ids is None or pp_id in draw_ids`. -/
def problemsDrawn (ids : List Int) (drawIds : Option (List Int)) : List Int :=
  ids.filter (fun i => match drawIds with | none => true | some l => l.contains i)

end CR.Draw
