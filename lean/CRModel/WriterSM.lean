/-
  CRModel.WriterSM — state machine of the scenario file writers
    commonroad/common/file_writer.py                   (CommonRoadFileWriter: a facade, delegates 1:1)
    commonroad/common/writer/file_writer_interface.py  (FileWriter.__init__, _handle_file_path, DecimalPrecision)
    commonroad/common/writer/file_writer_xml.py        (XMLFileWriter, float_to_str)
    commonroad/common/writer/file_writer_protobuf.py   (ProtobufFileWriter)

  What is modelled: everything that survives between calls or is shared between writers —
    * the process-global `precision.decimals` (interface.py:10-14), written by every constructor
      (interface.py:58) and read by `float_to_str` while a tree is built (xml.py:62-74);
    * per writer object: its constructor arguments and the children of `XMLFileWriter._root_node`;
    * the file system (path ↦ content), the default file names and the overwrite policy.
  What is a parameter (`Codec`): which nodes / bytes a scenario, a planning-problem set and the
  remaining constructor arguments turn into at a given precision (C01–C03 are about that content).

  `Sem` selects between the code as it is now (`repaired`) and the code as it was before the two
  `fix:` commits (`legacy`); the driver and the theorems use `repaired`, `legacy` is kept to state the
  two defects as theorems on a witness (CRProps/C15.lean).
-/
import CRModel.Basic
namespace CR.Writer

inductive Format where
  | xml | pb
  deriving DecidableEq, Repr, Inhabited

/-- `write_to_file` (scenario + planning problems) | `write_scenario_to_file` (scenario only). -/
inductive Kind where
  | full | scenarioOnly
  deriving DecidableEq, Repr, Inhabited

/-- `OverwriteExistingFile` (interface.py:17-24). -/
inductive Mode where
  | ask | always | skip
  deriving DecidableEq, Repr, Inhabited

/-- `FileFormat.value` — `_get_suffix` (xml.py:176, protobuf.py:182). -/
def suffix : Format → String
  | .xml => ".xml"
  | .pb => ".pb"

/-- The content producers the state machine does not look into. `Input` stands for everything a
    writer is constructed from except format and precision: scenario, planning-problem set, author,
    affiliation, source, tags, location. -/
structure Codec (Input Node Bytes : Type) where
  /-- `str(scenario.scenario_id)` -/
  benchId : Input → String
  /-- `_add_all_objects_from_scenario` at the precision `float_to_str` sees (xml.py:186-203) -/
  scNodes : Input → Nat → List Node
  /-- `_add_all_planning_problems_from_planning_problem_set` (xml.py:205-207) -/
  ppNodes : Input → Nat → List Node
  /-- header attributes (`_write_header`, `set` overwrites) + the root's children, serialised -/
  dumpXml : Input → List Node → Bytes
  /-- the protobuf message is built from scratch in every write and holds no text-formatted float
      (protobuf.py:199-235) -/
  pbBytes : Input → Kind → Bytes

/-- Variant of the code. -/
structure Sem where
  /-- the XML root element is created in every write (now: xml.py:227, 269) / once in `__init__` only
      (before: xml.py:153) -/
  freshRoot : Bool
  /-- a write installs the writer's own `decimal_precision` for its duration and restores the global
      afterwards (now: interface.py:57, 60-72, xml.py:229, 271) / uses whatever `precision.decimals` holds (before) -/
  ownPrec : Bool
  deriving DecidableEq, Repr

def repaired : Sem := ⟨true, true⟩
def legacy : Sem := ⟨false, false⟩

/-- A writer object. -/
structure Writer (Input Node : Type) where
  fmt : Format
  inp : Input
  /-- `self._decimal_precision` -/
  prec : Nat
  /-- children of `self._root_node` (XML); unused for protobuf (`_commonroad_msg` is re-created) -/
  root : List Node

/-- Process state. -/
structure Proc (Input Node Bytes : Type) where
  /-- `precision.decimals` -/
  gprec : Nat
  fs : String → Option Bytes
  /-- the writer objects, in order of construction -/
  ws : List (Writer Input Node)

inductive Op (Input : Type) where
  /-- `CommonRoadFileWriter(..., decimal_precision = prec, file_format = fmt)` (or the class itself) -/
  | new (fmt : Format) (inp : Input) (prec : Nat)
  /-- `ws[w].write_to_file(file, mode)` / `.write_scenario_to_file(file, mode)`;
      `answerN`: the user types "n" when asked (only looked at for `Mode.ask` on an existing file) -/
  | write (w : Nat) (kind : Kind) (file : Option String) (mode : Mode) (answerN : Bool)

inductive Outcome (Bytes : Type) where
  | created (id : Nat)
  | skipped
  | wrote (path : String) (b : Bytes)
  | failed (e : Err)
  deriving DecidableEq, Repr

section
variable {Input Node Bytes : Type}

/-- File name used: the given one, else `str(scenario_id) + suffix` (interface.py:158-159) —
    except `XMLFileWriter.write_scenario_to_file`, which has its own copy of the path handling and
    appends no suffix (xml.py:252-253 `if filename is None: filename = str(self.scenario.scenario_id)`). -/
def resolveName (c : Codec Input Node Bytes) (w : Writer Input Node) (kind : Kind) : Option String → String
  | some f => f
  | none =>
    match w.fmt, kind with
    | .xml, .scenarioOnly => c.benchId w.inp
    | f, _ => c.benchId w.inp ++ suffix f

/-- `overwrite == "n"` for an existing file (interface.py:161-174; same text in xml.py:255-267). -/
def keepExisting : Mode → Bool → Bool
  | .ask, answerN => answerN
  | .skip, _ => true
  | .always, _ => false

/-- The nodes one write appends to the root element, at the precision `float_to_str` reads. -/
def newNodes (c : Codec Input Node Bytes) (inp : Input) (kind : Kind) (p : Nat) : List Node :=
  c.scNodes inp p ++ (match kind with | .full => c.ppNodes inp p | .scenarioOnly => [])

/-- What the property says the content is: a function of the writer's own inputs. -/
def render (c : Codec Input Node Bytes) (fmt : Format) (inp : Input) (kind : Kind) (prec : Nat) : Bytes :=
  match fmt with
  | .xml => c.dumpXml inp (newNodes c inp kind prec)
  | .pb => c.pbBytes inp kind

def setFile (fs : String → Option Bytes) (p : String) (b : Bytes) : String → Option Bytes :=
  fun q => if q = p then some b else fs q

def writeStep (sem : Sem) (c : Codec Input Node Bytes) (st : Proc Input Node Bytes)
    (i : Nat) (kind : Kind) (file : Option String) (mode : Mode) (answerN : Bool) :
    Proc Input Node Bytes × Outcome Bytes :=
  match st.ws[i]? with
  | none => (st, .failed .index)
  | some w =>
    let name := resolveName c w kind file
    -- `pathlib.Path("").is_file()` is False; `_handle_file_path` returns "" and the caller returns
    -- (`if not filename: return`) — all but XMLFileWriter.write_scenario_to_file, which goes on
    let viaHandle := !(w.fmt == .xml && kind == .scenarioOnly)
    if name = "" && viaHandle then (st, .skipped) else
    if name ≠ "" && (st.fs name).isSome && keepExisting mode answerN then (st, .skipped) else
    -- the precision `float_to_str` sees while the content is built; restored afterwards
    let p := if sem.ownPrec then w.prec else st.gprec
    match w.fmt with
    | .xml =>
      let root0 := if sem.freshRoot then [] else w.root
      let children := root0 ++ newNodes c w.inp kind p
      let st' := { st with ws := st.ws.set i { w with root := children } }
      -- `tree.write("")` raises after the tree has been built
      if name = "" then (st', .failed .other) else
      let b := c.dumpXml w.inp children
      ({ st' with fs := setFile st.fs name b }, .wrote name b)
    | .pb =>
      let b := c.pbBytes w.inp kind
      ({ st with fs := setFile st.fs name b }, .wrote name b)

def step (sem : Sem) (c : Codec Input Node Bytes) (st : Proc Input Node Bytes) :
    Op Input → Proc Input Node Bytes × Outcome Bytes
  | .new fmt inp prec =>
    -- interface.py:57-58 `self._decimal_precision = …; precision.decimals = decimal_precision`;
    -- xml.py:153 root element / protobuf.py:95 message
    ({ st with gprec := prec, ws := st.ws ++ [⟨fmt, inp, prec, []⟩] }, .created st.ws.length)
  | .write i kind file mode answerN => writeStep sem c st i kind file mode answerN

def run (sem : Sem) (c : Codec Input Node Bytes) (st : Proc Input Node Bytes) :
    List (Op Input) → Proc Input Node Bytes × List (Outcome Bytes)
  | [] => (st, [])
  | op :: ops =>
    let r := step sem c st op
    let rs := run sem c r.1 ops
    (rs.1, r.2 :: rs.2)

/-- Final state / outcomes of a history. -/
def runSt (sem : Sem) (c : Codec Input Node Bytes) (st : Proc Input Node Bytes) (ops : List (Op Input)) :
    Proc Input Node Bytes := (run sem c st ops).1

def runOut (sem : Sem) (c : Codec Input Node Bytes) (st : Proc Input Node Bytes) (ops : List (Op Input)) :
    List (Outcome Bytes) := (run sem c st ops).2

end

/-! ### The symbolic codec used by the driver (and by the witnesses of the two former defects)

  Content is abstracted to *what the harness can recognise in a real file*: which input it was made
  from, how many scenario / planning-problem blocks the root holds, and with how many decimals the
  probe coordinates of each block were written. -/

structure SInput where
  id : Nat
  name : String
  deriving DecidableEq, Repr, Inhabited

/-- `pp = false`: a scenario block (location … obstacles); `pp = true`: the planning problems. -/
structure SNode where
  pp : Bool
  inp : Nat
  prec : Nat
  deriving DecidableEq, Repr, Inhabited

inductive SBytes where
  /-- a file some writer produced -/
  | file (fmt : Format) (inp : Nat) (nodes : List SNode)
  /-- content that was there before (not produced by a writer) -/
  | foreign (k : Nat)
  deriving DecidableEq, Repr, Inhabited

def symCodec : Codec SInput SNode SBytes where
  benchId := fun i => i.name
  scNodes := fun i p => [⟨false, i.id, p⟩]
  ppNodes := fun i p => [⟨true, i.id, p⟩]
  dumpXml := fun i ns => .file .xml i.id ns
  pbBytes := fun i k => .file .pb i.id (⟨false, i.id, 0⟩ :: (match k with | .full => [⟨true, i.id, 0⟩] | .scenarioOnly => []))

end CR.Writer
