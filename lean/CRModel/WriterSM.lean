/-
  CRModel.WriterSM — state machine of the scenario file writers
    commonroad/common/file_writer.py                   (CommonRoadFileWriter: a facade, delegates 1:1)
    commonroad/common/writer/file_writer_interface.py  (FileWriter.__init__, _own_decimal_precision, _handle_file_path)
    commonroad/common/writer/file_writer_xml.py        (XMLFileWriter, float_to_str)
    commonroad/common/writer/file_writer_protobuf.py   (ProtobufFileWriter)

  The MECHANISM is modelled, step by step, on mutable state:
    * the process-global `precision.decimals` (`Proc.gprec`, interface.py:10-14): assigned by every constructor
      (interface.py:58); a write of the XML writer saves it, installs the writer's own `_decimal_precision`, and
      restores the saved value in a `finally` (interface.py:60-72, xml.py:240, 282) — also when a node creator raises;
    * every node creator (`…XMLNode.create_node`) formats its floats with `float_to_str`, which reads the global AT THAT
      MOMENT (xml.py:62-74): `appendItem` passes `st.gprec` of the current state to `Codec.xmlNode`;
    * per writer object: the constructor arguments, and the mutable document — the children of `_root_node` / the repeated
      fields of `_commonroad_msg` (`Writer.root`) and the date attribute the header sets (`Writer.date`); a write replaces
      the document by an empty one (xml.py:238, 280; protobuf.py:203, 230), `_write_header` sets the date,
      `_add_all_objects_from_scenario` / `_add_all_planning_problems_…` append one node per object, the file is dumped from
      the document as it then is;
    * the file system (path ↦ content), the default file names, the overwrite policy, the empty file name.
  Parameters (`Codec`): which objects a scenario / planning-problem set consists of, what node an object becomes at a
  given precision (and whether its creator raises), how a document is serialised, how the date stamp is erased, what a
  reader makes of a file (C01–C03 are about these).

  `Sem` selects between the code as it is now (`repaired`) and the code before the two `fix:` commits (`legacy`);
  driver and theorems use `repaired`, `legacy` states the two former defects as theorems (CRProps/C15.lean).
-/
import CRModel.Basic
namespace CR.Writer

inductive Format where
  | xml | pb
  deriving DecidableEq, Repr, Inhabited

/-- `write_to_file` (scenario + planning problems) | `write_scenario_to_file` (scenario only). -/
inductive Kind where
  | full | scenarioOnly
  deriving DecidableEq, Repr, Inhabited

/-- `OverwriteExistingFile` (interface.py:17-24). -/
inductive Mode where
  | ask | always | skip
  deriving DecidableEq, Repr, Inhabited

/-- What `input()` does when the user is asked: types "n", types anything else, or raises (EOFError: no terminal). -/
inductive Answer where
  | n | other | eof
  deriving DecidableEq, Repr, Inhabited

/-- `FileFormat.value` — `_get_suffix`. -/
def suffix : Format → String
  | .xml => ".xml"
  | .pb => ".pb"

/-- The content producers the state machine does not look into. `Input` stands for everything a writer is constructed
    from except format and precision: scenario, planning-problem set, author, affiliation, source, tags, location. -/
structure Codec (Input Item Node Bytes Date Content : Type) where
  /-- `str(scenario.scenario_id)` -/
  benchId : Input → String
  /-- the objects `_add_all_objects_from_scenario` iterates over (location, tags, lanelets, signs, lights,
      intersections, obstacles), in that order -/
  scItems : Input → List Item
  /-- the objects `_add_all_planning_problems_from_planning_problem_set` iterates over -/
  ppItems : Input → List Item
  /-- a `…XMLNode.create_node(x)`; the `Nat` is what `precision.decimals` holds when it runs; may raise -/
  xmlNode : Item → Nat → Res Node
  /-- a `…Message.create_message(x)` (no text-formatted float); may raise -/
  pbNode : Item → Res Node
  /-- `tree.write`: header attributes (from the input) + date attribute + the root's children -/
  dumpXml : Input → Option Date → List Node → Bytes
  /-- `SerializeToString` of the message: information (with date) + repeated fields -/
  dumpPb : Input → Option Date → List Node → Bytes
  /-- the content "the date stamp aside" -/
  eraseDate : Bytes → Bytes
  /-- a reader (`CommonRoadFileReader(...).open()`), `none` when it raises -/
  read : Bytes → Option Content

/-- Variant of the code. -/
structure Sem where
  /-- the XML root element is replaced by an empty one at the start of every write (now) / never (before) -/
  freshRoot : Bool
  /-- an XML write installs the writer's own precision and restores the global afterwards (now) / does neither (before) -/
  ownPrec : Bool
  deriving DecidableEq, Repr

def repaired : Sem := ⟨true, true⟩
def legacy : Sem := ⟨false, false⟩

/-- A writer object. -/
structure Writer (Input Node Date : Type) where
  fmt : Format
  inp : Input
  /-- `self._decimal_precision` -/
  prec : Nat
  /-- the date attribute of the document (`_root_node.get("date")` / `information.date`) -/
  date : Option Date
  /-- children of `self._root_node` / repeated fields of `self._commonroad_msg` -/
  root : List Node

/-- Process state. -/
structure Proc (Input Node Bytes Date : Type) where
  /-- `precision.decimals` -/
  gprec : Nat
  fs : String → Option Bytes
  /-- names under which no file can be created (e.g. the directory does not exist): `tree.write` / `open` raise -/
  unwritable : String → Bool
  /-- the writer objects, in order of construction -/
  ws : List (Writer Input Node Date)

inductive Op (Input Date : Type) where
  /-- `CommonRoadFileWriter(..., decimal_precision = prec, file_format = fmt)` (or the class itself) -/
  | new (fmt : Format) (inp : Input) (prec : Nat)
  /-- `ws[w].write_to_file(file, mode)` / `.write_scenario_to_file(file, mode)`;
      `answer`: what `input()` does when asked (only looked at for `Mode.ask` on an existing file);
      `date`: what `datetime.datetime.today()` returns during this call -/
  | write (w : Nat) (kind : Kind) (file : Option String) (mode : Mode) (answer : Answer) (date : Date)
  /-- user code assigns the public module global: `precision.decimals = g` (as the test-suite does) -/
  | setGlobal (g : Nat)

inductive Outcome (Bytes : Type) where
  | created (id : Nat)
  /-- an operation that is not a writer call (`setGlobal`) -/
  | done
  | skipped
  | wrote (path : String) (b : Bytes)
  | failed (e : Err)
  deriving DecidableEq, Repr

section
variable {Input Item Node Bytes Date Content : Type}

/-- File name used: the given one, else `str(scenario_id) + suffix` (interface.py:158-159) — except
    `XMLFileWriter.write_scenario_to_file`, which has its own copy of the path handling and appends no suffix
    (xml.py `if filename is None: filename = str(self.scenario.scenario_id)`). -/
def resolveName (c : Codec Input Item Node Bytes Date Content) (w : Writer Input Node Date) (kind : Kind) :
    Option String → String
  | some f => f
  | none =>
    match w.fmt, kind with
    | .xml, .scenarioOnly => c.benchId w.inp
    | f, _ => c.benchId w.inp ++ suffix f

/-- `overwrite == "n"` for an existing file (interface.py:161-174; same text in XMLFileWriter.write_scenario_to_file). -/
def keepExisting : Mode → Answer → Bool
  | .ask, .n => true
  | .ask, _ => false
  | .skip, _ => true
  | .always, _ => false

/-- `input(...)` raises: only when the user is asked, i.e. mode ASK on an existing file. -/
def askRaises : Mode → Answer → Bool
  | .ask, .eof => true
  | _, _ => false

/-- The objects one write turns into nodes. -/
def itemsOf (c : Codec Input Item Node Bytes Date Content) (inp : Input) : Kind → List Item
  | .full => c.scItems inp ++ c.ppItems inp
  | .scenarioOnly => c.scItems inp

/-! #### The specification: content as a function of the writer's own inputs (and the date) -/

/-- Nodes of a list of objects, all made by the same creator; the first exception wins. -/
def mkNodes (mk : Item → Res Node) : List Item → Res (List Node)
  | [] => .ok []
  | it :: r =>
    match mk it with
    | .error e => .error e
    | .ok n =>
      match mkNodes mk r with
      | .error e => .error e
      | .ok ns => .ok (n :: ns)

/-- The node creator of a format at a FIXED precision. -/
def creator (c : Codec Input Item Node Bytes Date Content) (fmt : Format) (prec : Nat) (it : Item) : Res Node :=
  match fmt with
  | .xml => c.xmlNode it prec
  | .pb => c.pbNode it

def dump (c : Codec Input Item Node Bytes Date Content) (fmt : Format) (inp : Input) (d : Option Date) (ns : List Node) : Bytes :=
  match fmt with
  | .xml => c.dumpXml inp d ns
  | .pb => c.dumpPb inp d ns

/-- What the property says the content is: a function of format, scenario + planning problems + remaining arguments,
    the method called, the writer's own precision — and the date of the call. `error` = the call raises. -/
def render (c : Codec Input Item Node Bytes Date Content) (fmt : Format) (inp : Input) (kind : Kind) (prec : Nat)
    (date : Date) : Res Bytes :=
  match mkNodes (creator c fmt prec) (itemsOf c inp kind) with
  | .error e => .error e
  | .ok ns => .ok (dump c fmt inp (some date) ns)

/-! #### The mechanism -/

abbrev St (Input Node Bytes Date : Type) := Proc Input Node Bytes Date

def setFile (fs : String → Option Bytes) (p : String) (b : Bytes) : String → Option Bytes :=
  fun q => if q = p then some b else fs q

/-- Replace the writer object number `i`. -/
def setWriter (st : St Input Node Bytes Date) (i : Nat) (w : Writer Input Node Date) : St Input Node Bytes Date :=
  { st with ws := st.ws.set i w }

/-- `self._root_node.append(XNode.create_node(x))` / `msg.xs.append(XMessage.create_message(x))`:
    the creator runs NOW — an XML creator formats with whatever `precision.decimals` holds in this state. -/
def appendItem (c : Codec Input Item Node Bytes Date Content) (st : St Input Node Bytes Date) (i : Nat) (it : Item) :
    St Input Node Bytes Date × Option Err :=
  match st.ws[i]? with
  | none => (st, some .index)
  | some w =>
    match creator c w.fmt st.gprec it with
    | .error e => (st, some e)
    | .ok n => (setWriter st i { w with root := w.root ++ [n] }, none)

/-- The `for x in …: append(create_node(x))` loops; an exception leaves the document as far as it got. -/
def appendItems (c : Codec Input Item Node Bytes Date Content) (st : St Input Node Bytes Date) (i : Nat) :
    List Item → St Input Node Bytes Date × Option Err
  | [] => (st, none)
  | it :: r =>
    match appendItem c st i it with
    | (st', some e) => (st', some e)
    | (st', none) => appendItems c st' i r

/-- `_write_header`: attributes are set (overwritten), among them the date of the call. -/
def writeHeader (st : St Input Node Bytes Date) (i : Nat) (date : Date) : St Input Node Bytes Date :=
  match st.ws[i]? with
  | none => st
  | some w => setWriter st i { w with date := some date }

/-- `self._root_node = etree.Element("commonRoad")` / `self._commonroad_msg = commonroad_pb2.CommonRoad()`. -/
def freshDocument (st : St Input Node Bytes Date) (i : Nat) : St Input Node Bytes Date :=
  match st.ws[i]? with
  | none => st
  | some w => setWriter st i { w with date := none, root := [] }

/-- `_write_header(); _add_all_objects_from_scenario(); [_add_all_planning_problems…()]` — one after the other,
    each loop reading the state the previous one left. -/
def buildDocument (c : Codec Input Item Node Bytes Date Content) (st : St Input Node Bytes Date) (i : Nat)
    (inp : Input) (kind : Kind) (date : Date) : St Input Node Bytes Date × Option Err :=
  let st1 := writeHeader st i date
  match appendItems c st1 i (c.scItems inp) with
  | (st2, some e) => (st2, some e)
  | (st2, none) =>
    match kind with
    | .scenarioOnly => (st2, none)
    | .full => appendItems c st2 i (c.ppItems inp)

/-- `with self._own_decimal_precision(): <body>` (interface.py:60-72): save, install, run, restore in `finally`. -/
def withOwnPrecision (sem : Sem) (st : St Input Node Bytes Date) (own : Nat)
    (body : St Input Node Bytes Date → St Input Node Bytes Date × Option Err) : St Input Node Bytes Date × Option Err :=
  if sem.ownPrec then
    let saved := st.gprec
    let r := body { st with gprec := own }
    ({ r.1 with gprec := saved }, r.2)
  else body st

/-- The document-building part of a write call: a new, empty document (always for protobuf, for XML since the fix),
    then header and loops — the XML writer runs them inside `with self._own_decimal_precision()`. -/
def buildFor (sem : Sem) (c : Codec Input Item Node Bytes Date Content) (st : St Input Node Bytes Date) (i : Nat)
    (w : Writer Input Node Date) (kind : Kind) (date : Date) : St Input Node Bytes Date × Option Err :=
  let st1 := if w.fmt == .pb || sem.freshRoot then freshDocument st i else st
  match w.fmt with
  | .xml => withOwnPrecision sem st1 w.prec (fun s => buildDocument c s i w.inp kind date)
  | .pb => buildDocument c st1 i w.inp kind date

def writeStep (sem : Sem) (c : Codec Input Item Node Bytes Date Content) (st : St Input Node Bytes Date)
    (i : Nat) (kind : Kind) (file : Option String) (mode : Mode) (answer : Answer) (date : Date) :
    St Input Node Bytes Date × Outcome Bytes :=
  match st.ws[i]? with
  | none => (st, .failed .index)
  | some w =>
    let name := resolveName c w kind file
    -- `pathlib.Path("").is_file()` is False; `_handle_file_path` returns "" and the caller returns
    -- (`if not filename: return`) — all but XMLFileWriter.write_scenario_to_file, which goes on
    let viaHandle := !(w.fmt == .xml && kind == .scenarioOnly)
    if name = "" && viaHandle then (st, .skipped) else
    -- the user is asked and `input()` raises: nothing has happened yet
    if name ≠ "" && (st.fs name).isSome && askRaises mode answer then (st, .failed .other) else
    if name ≠ "" && (st.fs name).isSome && keepExisting mode answer then (st, .skipped) else
    match buildFor sem c st i w kind date with
    | (st2, some e) => (st2, .failed e)          -- a creator raised: nothing is written
    | (st2, none) =>
      -- `tree.write("")` / `open(…)` in a directory that does not exist raise after the document has been built
      if name = "" || st.unwritable name then (st2, .failed .other) else
      -- the file is dumped from the document as it is NOW
      match st2.ws[i]? with
      | none => (st2, .failed .index)
      | some w2 =>
        let b := dump c w2.fmt w2.inp w2.date w2.root
        ({ st2 with fs := setFile st2.fs name b }, .wrote name b)

def step (sem : Sem) (c : Codec Input Item Node Bytes Date Content) (st : St Input Node Bytes Date) :
    Op Input Date → St Input Node Bytes Date × Outcome Bytes
  | .new fmt inp prec =>
    -- interface.py:57-58 `self._decimal_precision = …; precision.decimals = decimal_precision`;
    -- xml.py:164 root element / protobuf.py:95 message
    ({ st with gprec := prec, ws := st.ws ++ [⟨fmt, inp, prec, none, []⟩] }, .created st.ws.length)
  | .write i kind file mode answer date => writeStep sem c st i kind file mode answer date
  | .setGlobal g => ({ st with gprec := g }, .done)

def run (sem : Sem) (c : Codec Input Item Node Bytes Date Content) (st : St Input Node Bytes Date) :
    List (Op Input Date) → St Input Node Bytes Date × List (Outcome Bytes)
  | [] => (st, [])
  | op :: ops =>
    let r := step sem c st op
    let rs := run sem c r.1 ops
    (rs.1, r.2 :: rs.2)

/-- Final state / outcomes of a history. -/
def runSt (sem : Sem) (c : Codec Input Item Node Bytes Date Content) (st : St Input Node Bytes Date)
    (ops : List (Op Input Date)) : St Input Node Bytes Date := (run sem c st ops).1

def runOut (sem : Sem) (c : Codec Input Item Node Bytes Date Content) (st : St Input Node Bytes Date)
    (ops : List (Op Input Date)) : List (Outcome Bytes) := (run sem c st ops).2

/-- The global precision after every operation of a history (observable: `precision.decimals`). -/
def runGprecs (sem : Sem) (c : Codec Input Item Node Bytes Date Content) (st : St Input Node Bytes Date) :
    List (Op Input Date) → List Nat
  | [] => []
  | op :: ops => (step sem c st op).1.gprec :: runGprecs sem c (step sem c st op).1 ops

end


/-! ### The same mechanism, method by method

  What the translator tie (CRProps/T15.lean) compares the CURRENT source with: the functional part
  (`handleFilePath`; `withOwnPrecision`, `buildFor`, `writeStep` above) and, for the methods whose contribution to the
  property is *which* state they touch, the ordered table of their state accesses `(kind, target, what)`. -/

/-- `FileWriter._handle_file_path` (interface.py:153-172) as a function of mode, file existence and the user's answer:
    the name to write to; `""` = leave the file alone; or `input()` raised.  The default name is
    `str(scenario_id) + suffix` for both formats. -/
def handleFilePath {Input Item Node Bytes Date Content : Type} (c : Codec Input Item Node Bytes Date Content)
    (st : Proc Input Node Bytes Date) (w : Writer Input Node Date) (file : Option String) (mode : Mode) (a : Answer) :
    Res String :=
  let name := resolveName c w .full file
  if name ≠ "" && (st.fs name).isSome && askRaises mode a then .error .other else
  if name ≠ "" && (st.fs name).isSome && keepExisting mode a then .ok "" else .ok name

namespace Tables

/-- `(kind, target, what)` of one state access. -/
abbrev Access := String × String × String

/-- `FileWriter.__init__` (interface.py:34-58): the inputs are stored (explicit argument, else the scenario's), the writer's own precision is stored and the module global is assigned THE SAME argument (`Op.new`: `gprec := prec`, `Writer.prec := prec`) -/
def ctorAccesses : List Access :=
  [("assert", "", "not (author is None and scenario.author is None)"),
   ("assert", "", "not (affiliation is None and scenario.affiliation is None)"),
   ("assert", "", "not (source is None and scenario.source is None)"),
   ("assert", "", "not (tags is None and scenario.tags is None)"),
   ("assign", "self.scenario", "scenario"),
   ("assign", "self.planning_problem_set", "planning_problem_set"),
   ("assign", "self.author", "author ?? scenario.author"),
   ("assign", "self.affiliation", "affiliation ?? scenario.affiliation"),
   ("assign", "self.source", "source ?? scenario.source"),
   ("assign", "self.location", "location ?? scenario.location"),
   ("assign", "self.tags", "tags ?? scenario.tags"),
   ("assign", "self._decimal_precision", "decimal_precision"),
   ("assign", "precision.decimals", "decimal_precision")]

/-- `XMLFileWriter.__init__`: all eight arguments go to `FileWriter.__init__` in order; an empty root element (`Writer.root := []`, `date := none`) -/
def xmlCtorAccesses : List Access :=
  [("super", "__init__", "scenario, planning_problem_set, author, affiliation, source, tags, location, decimal_precision"),
   ("assign", "self._root_node", "etree.Element('commonRoad')")]

/-- `ProtobufFileWriter.__init__`: the same with an empty message -/
def pbCtorAccesses : List Access :=
  [("super", "__init__", "scenario, planning_problem_set, author, affiliation, source, tags, location, decimal_precision"),
   ("assign", "self._commonroad_msg", "commonroad_pb2.CommonRoad()")]

/-- `CommonRoadFileWriter.__init__`: the format selects the class, the eight remaining arguments are passed on in order (`Op.new fmt inp prec`) -/
def facadeCtorAccesses : List Access :=
  [("assign", "self._file_format", "file_format"),
   ("assign", "self._file_writer", "None"),
   ("if", "", "file_format == FileFormat.XML"),
   ("assign", "self._file_writer", "XMLFileWriter(scenario, planning_problem_set, author, affiliation, source, tags, location, decimal_precision)"),
   ("else", "", ""),
   ("if", "", "file_format == FileFormat.PROTOBUF"),
   ("assign", "self._file_writer", "ProtobufFileWriter(scenario, planning_problem_set, author, affiliation, source, tags, location, decimal_precision)"),
   ("else", "", ""),
   ("endif", "", ""),
   ("endif", "", "")]

/-- `XMLFileWriter._write_header`: attributes of the writer's OWN root element are set (overwritten) from its own inputs; `date` from the clock (`writeHeader`) -/
def xmlHeaderAccesses : List Access :=
  [("set", "self._root_node", "timeStepSize"),
   ("set", "self._root_node", "commonRoadVersion"),
   ("set", "self._root_node", "author"),
   ("set", "self._root_node", "affiliation"),
   ("set", "self._root_node", "source"),
   ("if", "", "self.scenario.scenario_id"),
   ("set", "self._root_node", "benchmarkID"),
   ("else", "", ""),
   ("endif", "", ""),
   ("except", "", "Exception"),
   ("set", "self._root_node", "benchmarkID"),
   ("set-from-clock", "self._root_node", "date")]

/-- `XMLFileWriter._add_all_objects_from_scenario`: `Codec.scItems` in this order, one `create_node` each, appended to the writer's OWN root element (`appendItems … (c.scItems inp)`) -/
def xmlScenarioAccesses : List Access :=
  [("if", "", "self.location is not None"),
   ("append", "self._root_node", "LocationXMLNode.create_node(self.location)"),
   ("else", "", ""),
   ("append", "self._root_node", "LocationXMLNode.create_node(Location())"),
   ("endif", "", ""),
   ("append", "self._root_node", "TagXMLNode.create_node(self.tags)"),
   ("append", "self._root_node", "LaneletXMLNode.create_node(each self.scenario.lanelet_network.lanelets)"),
   ("append", "self._root_node", "TrafficSignXMLNode.create_node(each self.scenario.lanelet_network.traffic_signs)"),
   ("append", "self._root_node", "TrafficLightXMLNode.create_node(each self.scenario.lanelet_network.traffic_lights)"),
   ("append", "self._root_node", "IntersectionXMLNode.create_node(each self.scenario.lanelet_network.intersections)"),
   ("append", "self._root_node", "ObstacleXMLNode.create_node(each self.scenario.obstacles)")]

/-- `XMLFileWriter._add_all_planning_problems_from_planning_problem_set` (`appendItems … (c.ppItems inp)`) -/
def xmlPlanningAccesses : List Access :=
  [("append", "self._root_node", "PlanningProblemXMLNode.create_node(each self.planning_problem_set.planning_problem_dict.values())")]

/-- `ProtobufFileWriter._write_header`: the information message (with the date of the call) replaces the one of the writer's OWN message -/
def pbHeaderAccesses : List Access :=
  [("CopyFrom", "self._commonroad_msg.information", "ScenarioInformationMessage.create_message(self.scenario.scenario_id.scenario_version, str(self.scenario.scenario_id), self._author, self._affiliation, self._source, self.scenario.dt)")]

/-- `ProtobufFileWriter._add_all_objects_from_scenario`: singular fields are replaced, repeated fields of the writer's OWN message are appended to -/
def pbScenarioAccesses : List Access :=
  [("CopyFrom", "self._commonroad_msg.scenario_tags", "ScenarioTagsMessage.create_message(list(self.tags))"),
   ("if", "", "self.location is not None"),
   ("bind", "location_msg", "LocationMessage.create_message(self.location)"),
   ("else", "", ""),
   ("bind", "location_msg", "LocationMessage.create_message(Location())"),
   ("endif", "", ""),
   ("CopyFrom", "self._commonroad_msg.location", "location_msg"),
   ("append", "self._commonroad_msg.lanelets", "LaneletMessage.create_message(each self.scenario.lanelet_network.lanelets)"),
   ("append", "self._commonroad_msg.traffic_signs", "TrafficSignMessage.create_message(each self.scenario.lanelet_network.traffic_signs)"),
   ("append", "self._commonroad_msg.traffic_lights", "TrafficLightMessage.create_message(each self.scenario.lanelet_network.traffic_lights)"),
   ("append", "self._commonroad_msg.intersections", "IntersectionMessage.create_message(each self.scenario.lanelet_network.intersections)"),
   ("append", "self._commonroad_msg.static_obstacles", "StaticObstacleMessage.create_message(each self.scenario.static_obstacles)"),
   ("append", "self._commonroad_msg.dynamic_obstacles", "DynamicObstacleMessage.create_message(each self.scenario.dynamic_obstacles)"),
   ("append", "self._commonroad_msg.environment_obstacles", "EnvironmentObstacleMessage.create_message(each self.scenario.environment_obstacle)"),
   ("append", "self._commonroad_msg.phantom_obstacles", "PhantomObstacleMessage.create_message(each self.scenario.phantom_obstacle)")]

/-- `ProtobufFileWriter._add_all_planning_problems_from_planning_problem_set` -/
def pbPlanningAccesses : List Access :=
  [("append", "self._commonroad_msg.planning_problems", "PlanningProblemMessage.create_message(each self.planning_problem_set.planning_problem_dict.values())")]

/-- `OverwriteExistingFile`: `Mode.ask | always | skip` by member name and value (interface.py:17-24). -/
def overwriteModes : List (String × Int) := [("ASK_USER_INPUT", 0), ("ALWAYS", 1), ("SKIP", 2)]

/-- The six methods that fill a document. -/
def documentMethods : List (List Access) :=
  [xmlHeaderAccesses, xmlScenarioAccesses, xmlPlanningAccesses, pbHeaderAccesses, pbScenarioAccesses, pbPlanningAccesses]

/-- The writer's own document: the root element / the message and its fields. -/
def ownDocument : List String :=
  ["self._root_node", "self._commonroad_msg.information", "self._commonroad_msg.scenario_tags", "self._commonroad_msg.location",
   "self._commonroad_msg.lanelets", "self._commonroad_msg.traffic_signs", "self._commonroad_msg.traffic_lights",
   "self._commonroad_msg.intersections", "self._commonroad_msg.static_obstacles", "self._commonroad_msg.dynamic_obstacles",
   "self._commonroad_msg.environment_obstacles", "self._commonroad_msg.phantom_obstacles", "self._commonroad_msg.planning_problems"]

/-- An access that changes an object: only the writer's own document may be its target; a statement the extraction
    does not know (`other`) is not admitted. -/
def writesOwnDocument (a : Access) : Bool :=
  if a.1 = "set" || a.1 = "set-from-clock" || a.1 = "append" || a.1 = "CopyFrom" || a.1 = "extend" || a.1 = "assign" then ownDocument.contains a.2.1
  else a.1 ≠ "other"

end Tables

/-! ### The symbolic codec used by the driver (and by the witnesses of the two former defects)

  Content is abstracted to *what the harness can recognise in a real file*: which input it was made from, the date
  stamp, how many scenario / planning-problem blocks the document holds, and with how many decimals the probe
  coordinates of each block were written. -/

structure SInput where
  id : Nat
  name : String
  /-- the planning-problem set is not empty -/
  hasPP : Bool := true
  /-- the planning problems cannot be written: the XML creator raises this … -/
  xmlErr : Option Err := none
  /-- … and the protobuf creator this -/
  pbErr : Option Err := none
  deriving DecidableEq, Repr, Inhabited

structure SItem where
  pp : Bool
  inp : Nat
  xmlErr : Option Err
  pbErr : Option Err
  deriving DecidableEq, Repr, Inhabited

/-- `pp = false`: a scenario block (location … obstacles); `pp = true`: the planning problems. -/
structure SNode where
  pp : Bool
  inp : Nat
  prec : Nat
  deriving DecidableEq, Repr, Inhabited

inductive SBytes where
  /-- a file some writer produced -/
  | file (fmt : Format) (inp : Nat) (date : Option String) (nodes : List SNode)
  /-- content that was there before (not produced by a writer) -/
  | foreign (k : Nat)
  deriving DecidableEq, Repr, Inhabited

/-- What a reader returns, as far as the harness tells read-backs apart. -/
structure SContent where
  fmt : Format
  inp : Nat
  pp : Bool
  prec : Nat
  deriving DecidableEq, Repr, Inhabited

/-- A file reads back iff it holds exactly one scenario block, optionally followed by the planning problems, of the
    input named in the header (a second block repeats ids: the reader raises). -/
def symRead : SBytes → Option SContent
  | .file f i _ [⟨false, j, p⟩] => if i = j then some ⟨f, i, false, p⟩ else none
  | .file f i _ [⟨false, j, p⟩, ⟨true, k, q⟩] => if i = j ∧ i = k ∧ p = q then some ⟨f, i, true, p⟩ else none
  | _ => none

def symCodec : Codec SInput SItem SNode SBytes String SContent where
  benchId := fun i => i.name
  scItems := fun i => [⟨false, i.id, none, none⟩]
  ppItems := fun i => if i.hasPP then [⟨true, i.id, i.xmlErr, i.pbErr⟩] else []
  xmlNode := fun it p => match it.xmlErr with
    | some e => .error e
    | none => .ok ⟨it.pp, it.inp, p⟩
  pbNode := fun it => match it.pbErr with
    | some e => .error e
    | none => .ok ⟨it.pp, it.inp, 0⟩
  dumpXml := fun i d ns => .file .xml i.id d ns
  dumpPb := fun i d ns => .file .pb i.id d ns
  eraseDate := fun b => match b with
    | .file f i _ ns => .file f i none ns
    | .foreign k => .foreign k
  read := symRead

end CR.Writer
