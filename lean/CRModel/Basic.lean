/-
  CRModel.Basic — shared plain definitions for the executable models of commonroad-io.
  No imports beyond core Lean, so that the driver links without Mathlib.
-/
namespace CR

/-- Error classes the harness maps Python exceptions to. -/
inductive Err where
  | assert | value | key | attr | type | zeroDiv | index | other
  deriving DecidableEq, Repr, Inhabited

def Err.toString : Err → String
  | .assert => "assert" | .value => "value" | .key => "key" | .attr => "attr"
  | .type => "type" | .zeroDiv => "zero-div" | .index => "index" | .other => "other"

instance : ToString Err := ⟨Err.toString⟩

deriving instance DecidableEq for Except

/-- Result of a modelled Python call: a value or an exception class. -/
abbrev Res (α : Type) := Except Err α

/-- Python list indexing with negative indices (`l[i]`). -/
def pyGet? {α : Type} (l : List α) (i : Int) : Option α :=
  if 0 ≤ i then l[i.toNat]? else
    if (-i).toNat ≤ l.length then l[l.length - (-i).toNat]? else none

/-- `np.cumsum` on a list of integers. -/
def cumsumFrom (acc : Int) : List Int → List Int
  | [] => []
  | d :: ds => (acc + d) :: cumsumFrom (acc + d) ds

def cumsum (l : List Int) : List Int := cumsumFrom 0 l

/-- `np.argmax` of a boolean vector `x < l[i]`: index of the first `True`, `0` if there is none. -/
def argmaxLtFrom (x : Int) : List Int → Nat → Option Nat
  | [], _ => none
  | a :: as, i => if x < a then some i else argmaxLtFrom x as (i + 1)

def argmaxLt (x : Int) (l : List Int) : Nat := (argmaxLtFrom x l 0).getD 0

def sumInt : List Int → Int
  | [] => 0
  | d :: ds => d + sumInt ds

end CR
