/-
  CRModel.CRXmlW — the node builders of commonroad/common/writer/file_writer_xml.py as functions from the *shape* of the
  object (which optional parts exist, how many list entries) to the sequence of child-element names they emit, in
  emission order.  The harness recomputes every parameter from the Python objects, asks for the name sequence, and
  compares it with the children of the element the real writer produced (correspondence op `kids`).
-/
import CRModel.XsdModel

namespace CR.XmlW

def rep (n : Nat) (s : String) : List String := List.replicate n s
def opt (b : Bool) (s : String) : List String := if b then [s] else []

/-- Point.create_node, file_writer_xml.py:1034-1046 -/
def pointKids (hasZ : Bool) : List String := ["x", "y"] ++ opt hasZ "z"

/-- RectangleXMLNode.create_rectangle_node (`dyn` = dynamic_obstacle_shape; for the shape of a dynamic obstacle the
    orientation is written iff `oriSet` = `rectangle.orientation != 0.0`, the center iff `ctrSet` = some coordinate != 0.0) -/
def rectangleKids (dyn oriSet ctrSet : Bool) : List String :=
  ["length", "width"] ++ opt (!dyn || oriSet) "orientation" ++ opt (!dyn || ctrSet) "center"

/-- CircleXMLNode.create_circle_node (center of a dynamic obstacle's shape only if `ctrSet` = some coordinate != 0.0) -/
def circleKids (dyn ctrSet : Bool) : List String := ["radius"] ++ opt (!dyn || ctrSet) "center"

/-- PolygonXMLNode.create_polygon_node, :837-840 -/
def polygonKids (n : Nat) : List String := rep n "point"

inductive ShapeK where | rectangle | circle | polygon
  deriving DecidableEq, Repr

def ShapeK.tag : ShapeK → String
  | .rectangle => "rectangle" | .circle => "circle" | .polygon => "polygon"

/-- ShapeXMLNode.create_node, :734-741: one node per member of a ShapeGroup, else one node -/
def shapeKids (ks : List ShapeK) : List String := ks.map ShapeK.tag

/-- leftBound / rightBound in LaneletXMLNode.create_node, :409-436 -/
def boundKids (n : Nat) (marking : Bool) : List String := rep n "point" ++ opt marking "lineMarking"

structure LaneletP where
  nPred : Nat
  nSucc : Nat
  adjL : Bool
  adjR : Bool
  stop : Bool
  nTypes : Nat
  nOneWay : Nat
  nBidir : Nat
  nSigns : Nat
  nLights : Nat
  deriving Repr

/-- LaneletXMLNode.create_node, :405-506 (an empty lanelet_type set is written as one `unknown`) -/
def laneletKids (p : LaneletP) : List String :=
  ["leftBound", "rightBound"] ++ rep p.nPred "predecessor" ++ rep p.nSucc "successor" ++
  opt p.adjL "adjacentLeft" ++ opt p.adjR "adjacentRight" ++ opt p.stop "stopLine" ++
  rep (if p.nTypes = 0 then 1 else p.nTypes) "laneletType" ++ rep p.nOneWay "userOneWay" ++
  rep p.nBidir "userBidirectional" ++ rep p.nSigns "trafficSignRef" ++ rep p.nLights "trafficLightRef"

/-- LaneletStopLineXMLNode.create_node, :1235-1257 -/
def stopLineKids (points marking : Bool) (nSigns nLights : Nat) : List String :=
  (if points then ["point", "point"] else []) ++ opt marking "lineMarking" ++
  rep nSigns "trafficSignRef" ++ rep nLights "trafficLightRef"

/-- TrafficSignXMLNode.create_node, :1123-1147 -/
def trafficSignKids (nElements : Nat) (position virtual : Bool) : List String :=
  rep nElements "trafficSignElement" ++ opt position "position" ++ opt virtual "virtual"

def signElementKids (nValues : Nat) : List String := ["trafficSignID"] ++ rep nValues "additionalValue"

/-- TrafficLightXMLNode.create_node, :1159-1181 -/
def trafficLightKids (cycle position direction active : Bool) : List String :=
  opt cycle "cycle" ++ opt position "position" ++ opt direction "direction" ++ opt active "active"

/-- TrafficLightCycleXMLNode.create_node, :1193-1203 -/
def cycleKids (n : Nat) (offset : Bool) : List String := rep n "cycleElement" ++ opt offset "timeOffset"

def cycleElementKids : List String := ["duration", "color"]

/-- IntersectionXMLNode.create_node, :1073-1117 -/
def incomingKids (nIn nRight nStraight nLeft : Nat) (leftOf : Bool) : List String :=
  rep nIn "incomingLanelet" ++ rep nRight "successorsRight" ++ rep nStraight "successorsStraight" ++
  rep nLeft "successorsLeft" ++ opt leftOf "isLeftOf"

def intersectionKids (nIncomings : Nat) (crossing : Bool) : List String :=
  rep nIncomings "incoming" ++ opt crossing "crossing"

def crossingKids (n : Nat) : List String := rep n "crossingLanelet"

/-- LocationXMLNode.create_node, :306-321 -/
def locationKids (geo env : Bool) : List String :=
  ["geoNameId", "gpsLatitude", "gpsLongitude"] ++ opt geo "geoTransformation" ++ opt env "environment"

/-- GeoTransformationXMLNode.create_node, :332-351 -/
def geoTransformationKids : List String := ["geoReference", "additionalTransformation"]
def additionalTransformationKids : List String := ["xTranslation", "yTranslation", "zRotation", "scaling"]

/-- EnvironmentXMLNode.create_node, :362-379; the three guards are `<str> is not <Enum member>` in the source -/
def environmentKids (time weather underground : Bool) : List String :=
  (if time then ["time", "timeOfDay"] else []) ++ opt weather "weather" ++ opt underground "underground"

/-- ObstacleXMLNode header + Static/Environment/Dynamic/Phantom builders, :531-657 -/
def staticObstacleKids : List String := ["type", "shape", "initialState"]
def environmentObstacleKids : List String := ["type", "shape"]

inductive Pred where | none | trajectory | occupancySet
  deriving DecidableEq, Repr

def Pred.kids : Pred → List String
  | .none => [] | .trajectory => ["trajectory"] | .occupancySet => ["occupancySet"]

def dynamicObstacleKids (signal0 : Bool) (pred : Pred) (series : Bool) : List String :=
  ["type", "shape", "initialState"] ++ opt signal0 "initialSignalState" ++ pred.kids ++ opt series "signalSeries"

def phantomObstacleKids (setBased : Bool) : List String := opt setBased "occupancySet"

def occupancyKids : List String := ["shape", "time"]
def trajectoryKids (n : Nat) : List String := rep n "state"
def occupancySetKids (n : Nat) : List String := rep n "occupancy"
def signalSeriesKids (n : Nat) : List String := rep n "signalState"

/-- create_exact_node_* / create_interval_node_*, :77-132 -/
def valueKids (interval : Bool) : List String := if interval then ["intervalStart", "intervalEnd"] else ["exact"]

/-- SignalStateXMLNode.create_signal_state_node: `time`, then whichever of the six flags the signal state has -/
def signalStateKids (horn il ir bl hz fb : Bool) : List String :=
  ["time"] ++ opt horn "horn" ++ opt il "indicatorLeft" ++ opt ir "indicatorRight" ++ opt bl "brakingLights" ++
  opt hz "hazardWarningLights" ++ opt fb "flashingBlueLights"

/-- StateXMLNode._map_to_xml_prop, :966-978, on the attribute names the state classes define -/
def xmlProp (a : String) : String :=
  match a with
  | "time_step" => "time" | "delta_y_f" => "deltaYFront" | "delta_y_r" => "deltaYRear"
  | "curvature_rate" => "curvatureChange"
  | "position" => "position" | "orientation" => "orientation" | "velocity" => "velocity"
  | "acceleration" => "acceleration" | "yaw_rate" => "yawRate" | "slip_angle" => "slipAngle"
  | "steering_angle" => "steeringAngle" | "roll_angle" => "rollAngle" | "roll_rate" => "rollRate"
  | "pitch_angle" => "pitchAngle" | "pitch_rate" => "pitchRate" | "velocity_y" => "velocityY"
  | "position_z" => "positionZ" | "velocity_z" => "velocityZ" | "roll_angle_front" => "rollAngleFront"
  | "roll_rate_front" => "rollRateFront" | "velocity_y_front" => "velocityYFront"
  | "position_z_front" => "positionZFront" | "velocity_z_front" => "velocityZFront"
  | "roll_angle_rear" => "rollAngleRear" | "roll_rate_rear" => "rollRateRear"
  | "velocity_y_rear" => "velocityYRear" | "position_z_rear" => "positionZRear"
  | "velocity_z_rear" => "velocityZRear"
  | "left_front_wheel_angular_speed" => "leftFrontWheelAngularSpeed"
  | "right_front_wheel_angular_speed" => "rightFrontWheelAngularSpeed"
  | "left_rear_wheel_angular_speed" => "leftRearWheelAngularSpeed"
  | "right_rear_wheel_angular_speed" => "rightRearWheelAngularSpeed"
  | "curvature" => "curvature" | "jerk" => "jerk" | "jounce" => "jounce"
  | "hitch_angle" => "hitchAngle" | "front_wheel_angular_speed" => "frontWheelAngularSpeed"
  | "rear_wheel_angular_speed" => "rearWheelAngularSpeed"
  | other => other

/-- StateXMLNode.create_state_node, :946-964: one child per used attribute, in `used_attributes` order -/
def stateKids (usedAttrs : List String) : List String := usedAttrs.map xmlProp

/-- PlanningProblemXMLNode.create_node, :989-1011 -/
def planningProblemKids (nGoals : Nat) : List String := ["initialState"] ++ rep nGoals "goalState"

/-- TagXMLNode.create_node, :390-394 -/
def tagKids (tags : List String) : List String := tags

structure RootP where
  nLanelets : Nat
  nSigns : Nat
  nLights : Nat
  nIntersections : Nat
  nStatic : Nat
  nDynamic : Nat
  nPhantom : Nat
  nEnvironment : Nat
  nProblems : Nat
  deriving Repr

/-- XMLFileWriter._add_all_objects_from_scenario + _add_all_planning_problems…, :179-199
    (Scenario.obstacles chains static, dynamic, phantom, environment obstacles: scenario.py:665-674) -/
def rootKids (p : RootP) : List String :=
  ["location", "scenarioTags"] ++ rep p.nLanelets "lanelet" ++ rep p.nSigns "trafficSign" ++
  rep p.nLights "trafficLight" ++ rep p.nIntersections "intersection" ++ rep p.nStatic "staticObstacle" ++
  rep p.nDynamic "dynamicObstacle" ++ rep p.nPhantom "phantomObstacle" ++ rep p.nEnvironment "environmentObstacle" ++
  rep p.nProblems "planningProblem"

end CR.XmlW

/-! ### full element trees of the innermost builders (for the complete-subtree theorems of C03) -/
namespace CR.XmlW
open CR.Xsd

def leaf (n : String) (t : Str) : Xml := .node n [] t []

/-- Point.create_node -/
def pointNode (tag : String) (x y : Str) (z : Option Str) : Xml :=
  .node tag [] [] ([leaf "x" x, leaf "y" y] ++ (match z with | some z => [leaf "z" z] | none => []))

/-- RectangleXMLNode.create_rectangle_node: orientation and center are both present outside dynamic-obstacle shapes,
    and independently present / absent inside them -/
def rectangleNode (l w : Str) (o : Option Str) (c : Option (Str × Str)) : Xml :=
  .node "rectangle" [] [] ([leaf "length" l, leaf "width" w] ++
    (match o with | some o => [leaf "orientation" o] | none => []) ++
    (match c with | some (cx, cy) => [pointNode "center" cx cy none] | none => []))

/-- CircleXMLNode.create_circle_node -/
def circleNode (r : Str) (c : Option (Str × Str)) : Xml :=
  .node "circle" [] [] ([leaf "radius" r] ++ (match c with | some (cx, cy) => [pointNode "center" cx cy none] | none => []))

end CR.XmlW
