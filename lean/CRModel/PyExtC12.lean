/-
  CRModel.PyExtC12 — fixed call table for the translator tie of C12 (harness/translate/src_c12.py → Gen.SrcC12).

  The translator extracts from the `ast` of every hand-written `__eq__` / `__hash__` pair of commonroad-io WHICH attributes
  are compared / hashed and in WHAT syntactic form (`Wrap`, `Atom`, `HForm` below: one constructor per Python idiom).
  This file says what each idiom DENOTES in the language of the hand model (CRModel/EqHash.lean `Kind`, CRModel/HashKey.lean
  `HB`), given the admitted type `Ty` of the attribute: `natKind` (Python `==` on a value of that type), `eqKindOf`
  (a group of comparison atoms on one attribute), `hashKindOf` / `hbOf` (one component of the hashed tuple).
  Anything that has no denotation (an attribute compared with itself, with another attribute, wrapped differently on the
  two sides, a dict compared key-wise without the length test, `tuple(...)` of a set, ...) yields `none`, and the tie
  theorems of CRProps/T12.lean fail.  Core Lean only.
-/
import CRModel.HashKey

namespace CR.EqHash.Src

/-- how ONE side of a comparison in `__eq__` wraps the attribute `a` (the same wrapper on both sides) -/
inductive Wrap where
  | id                      -- `self._a == other.a`
  | set                     -- `set(self._a) == set(other.a)`
  | list                    -- `list(self._a) == list(other.a)`
  | rkey (dec : Nat)        -- `rounded_array_key(self._a) == rounded_array_key(other.a)`; `dec` = default of `decimals`
  | str                     -- `str(self.a) == str(other.a)`
  | items                   -- `self.a.items() == other.a.items()`
  | noneEmptySet            -- `(set() if a is None else set(a))` on both sides
  | noneItems               -- `(None if a is None else a.items())` on both sides
  | keyedBy (idAttr : String)  -- `{e.<idAttr>: e for e in a}` on both sides (a list read as a dict by element id)
  deriving DecidableEq, Repr, Inhabited

/-- one conjunct of `__eq__` about one attribute -/
inductive Atom where
  | eq (w : Wrap)           -- `w(self.a) == w(other.a)`
  | lenEq (w : Wrap)        -- `len(w(self.a)) == len(w(other.a))`
  | keysIn (w : Wrap)       -- `for k in w(self.a).keys(): if k not in w(other.a): <False>`
  | valsEq (w : Wrap)       -- `... if w(self.a).get(k) != w(other.a).get(k): <False>`
  | selfCmp                 -- both sides read the SAME object (`self.a == self.a`): no denotation
  | crossed (b : String)    -- `self.a` compared with `other.b`, b ≠ a: no denotation
  | asym                    -- the two sides are wrapped differently: no denotation
  deriving DecidableEq, Repr, Inhabited

/-- one component of the tuple hashed by `__hash__`, as an expression over the attribute `a` (`it`) -/
inductive HForm where
  | it                      -- `self._a` (inside a generator: the loop variable)
  | rkey (dec : Nat)        -- `rounded_array_key(a)`
  | str                     -- `str(a)`
  | tuple (e : HForm)       -- `tuple(a)` (e = it) / `tuple(e(v) for v in a)`
  | frozenset (e : HForm)   -- `frozenset(a)` / `frozenset(e(v) for v in a)`
  | frozensetItems (v : HForm)  -- `frozenset(a.items())` (v = it) / `frozenset((k, v(x)) for k, x in a.items())`
  | optNone (e : HForm)     -- `None if a is None else e(a)`
  | optEmpty (e : HForm)    -- `frozenset() if a is None else e(a)` / `frozenset(a if a is not None else set())`
  | ifList (e : HForm)      -- `e(a) if isinstance(a, list) else a`
  deriving DecidableEq, Repr, Inhabited

structure EqEntry where
  attr : String
  atoms : List Atom
  deriving Repr

structure HashEntry where
  attr : String
  form : HForm
  deriving Repr

/-- what the translator found in one class -/
structure ClassSrc where
  /-- class named by the `isinstance(other, ·)` guard of `__eq__` ("" if there is none) -/
  guard : String
  eqs : List EqEntry
  hashes : List HashEntry
  deriving Repr

/-- `State.__eq__` / `State.__hash__` iterate over the attribute names at run time; the translator extracts the parts of
    the two loop bodies (state.py:140-190).  A number of decimals that could not be read is 99. -/
structure StateSrc where
  guard : String            -- class of the `isinstance(other, ·)` guard
  namesAsSets : Bool        -- `if set(self.attributes) != set(other.attributes): return False`
  eqLoopOver : String       -- the iterable of the `__eq__` loop (`self.attributes`)
  posBothArrays : Bool      -- position: if both values are ndarrays both become `tuple(np.around(·.position.astype(float), d))`
  posMixedFalse : Bool      -- position: exactly one ndarray ⇒ `return False`
  posDecSelf : Nat
  posDecOther : Nat
  floatDecSelf : Nat        -- `if isinstance(val_self, float): val_self = round(val_self, d)`
  floatDecOther : Nat
  neReturnsFalse : Bool     -- `if val_self != val_other: return False`
  endsTrue : Bool           -- `return True` after the loop
  hashLoopOver : String     -- the iterable of the `__hash__` loop (`sorted(self.attributes)`)
  hashPosDec : Nat          -- position ndarray ⇒ `tuple(np.around(self.position.astype(float), d))`
  hashFloatDec : Nat        -- float ⇒ `round(val, d)`
  hashAppends : Bool        -- `values.append(val)` for every attribute
  hashReturnsTuple : Bool   -- `return hash(tuple(values))`
  deriving DecidableEq, Repr

/-- `SignalState.__eq__` / `__hash__` iterate over `SignalState.__slots__` (state.py:692-720). -/
structure SignalSrc where
  slots : List String
  guard : String
  eqLoopOver : String
  comparesPresence : Bool   -- `hasattr(self, a) != hasattr(other, a)` ⇒ `return False`
  comparesValues : Bool     -- `value != value_other` ⇒ `return False` (value = getattr if present else None)
  endsTrue : Bool
  hashLoopOver : String
  hashOnlyAssigned : Bool   -- `if hasattr(self, a): values.add(getattr(self, a))`
  hashFrozenset : Bool      -- `return hash(frozenset(values))`
  deriving DecidableEq, Repr

/-! ## denotations -/

/-- `listOf eq` is `eq`, `consK eq eq` is `eq` (a chain compared element-wise under `==` is compared under `==`) -/
def normK : Kind → Kind
  | .listOf .eq => .eq
  | .consK .eq .eq => .eq
  | k => k

/-- items `[key, value]` of a dict whose values are compared under `k` -/
def itemK (k : Kind) : Kind := normK (.consK .eq (normK (.listOf k)))

/-- Python `==` on two values of type `τ`: numbers / strings / None / objects by `==`, lists and tuples element-wise,
    sets as sets, dicts as sets of items; ndarrays have no `==` that yields a bool (`none`). -/
def natKind : Ty → Option Kind
  | .none => some .eq
  | .atom => some .eq
  | .arr => none
  | .list τ => (natKind τ).map (fun k => normK (.listOf k))
  | .tuple τ => (natKind τ).map (fun k => normK (.listOf k))
  | .set τ => (natKind τ).map .setOf
  | .frozenset τ => (natKind τ).map .setOf
  | .dict τ => (natKind τ).map (fun k => .setOf (itemK k))
  | .obj _ => some .eq
  | .or .none b => natKind b
  | .or a b => match natKind a, natKind b with
      | some ka, some kb => if ka = kb then some ka else none
      | _, _ => none

/-- element type of an iterable type (through `Optional`) -/
def elemTy : Ty → Option Ty
  | .list τ | .tuple τ | .set τ | .frozenset τ => some τ
  | .or .none b => elemTy b
  | _ => none

/-- the type is an ORDERED iterable (list / tuple), through `Optional` -/
def ordered : Ty → Bool
  | .list _ | .tuple _ => true
  | .or .none b => ordered b
  | _ => false

def dictValTy : Ty → Option Ty
  | .dict τ => some τ
  | .or .none b => dictValTy b
  | _ => none

/-- number of decimals the model's `r10` stands for -/
def modelDecimals : Nat := 10

/-- denotation of `w(self.a) == w(other.a)` for an attribute of type `τ` -/
def wrapKind (τ : Ty) : Wrap → Option Kind
  | .id => natKind τ
  | .set => (elemTy τ).bind (fun e => (natKind e).map .setOf)
  | .list => if ordered τ then natKind τ else none
  | .rkey d => if d = modelDecimals then some .r10 else none
  | .str => match τ with
      | .atom => some .eq
      | _ => none
  | .items => match τ with
      | .dict _ => natKind τ
      | _ => none
  | .noneItems => (dictValTy τ).bind (fun _ => natKind τ)
  | .noneEmptySet => match (elemTy τ).bind natKind with
      | some .eq => some .setNE
      | _ => none
  | .keyedBy _ => none

/-- Denotation of the group of atoms `__eq__` has about one attribute.
    A key-wise dict comparison denotes "the same set of elements" only with all three parts (equal lengths, every key of
    self in other, equal values under equal keys); the elements are the values (objects carrying their id). -/
def eqKindOf (τ : Ty) : List Atom → Option Kind
  | [.eq w] => wrapKind τ w
  | [.lenEq w, .keysIn w', .valsEq w''] =>
      if w = w' ∧ w' = w'' then
        (match w with
         | .id => some (.setOf .eq)
         | .keyedBy _ => some (.setOf .eq)
         | _ => none)
      else none
  | _ => none

/-- canonical order of a group of atoms (the conjuncts may appear in any order in the source) -/
def atomRank : Atom → Nat
  | .eq _ => 0 | .lenEq _ => 1 | .keysIn _ => 2 | .valsEq _ => 3 | .selfCmp => 4 | .crossed _ => 5 | .asym => 6

def sortAtoms (as : List Atom) : List Atom :=
  (as.filter (atomRank · == 0)) ++ (as.filter (atomRank · == 1)) ++ (as.filter (atomRank · == 2))
    ++ (as.filter (atomRank · == 3)) ++ (as.filter (atomRank · ≥ 4))

/-- builder of the hashed component (`tuple` and `frozenset` build alike; they differ in `hashKindOf`) -/
def hbOf : HForm → HB
  | .it => .raw
  | .rkey _ => .convArr
  | .str => .convStr
  | .tuple e => .iter (hbOf e)
  | .frozenset e => .iter (hbOf e)
  | .frozensetItems v => .items (hbOf v)
  | .optNone e => .opt (hbOf e)
  | .optEmpty e => .opt (hbOf e)
  | .ifList e => .ifList (hbOf e)

/-- When do two values of type `τ` yield the same hashed component under `f`?  `tuple(·)` of an unordered container has
    no denotation (the result depends on the iteration order). -/
def hashKindOf : Ty → HForm → Option Kind
  | τ, .it => natKind τ
  | _, .rkey d => if d = modelDecimals then some .r10 else none
  | _, .str => some .eq
  | τ, .tuple e => if ordered τ then (elemTy τ).bind (fun t => (hashKindOf t e).map (fun k => normK (.listOf k))) else none
  | τ, .frozenset e => (elemTy τ).bind (fun t => (hashKindOf t e).map .setOf)
  | τ, .frozensetItems v => (dictValTy τ).bind (fun t => (hashKindOf t v).map (fun k => .setOf (itemK k)))
  -- (a `None` test on an attribute that is never None changes nothing)
  | τ, .optNone e => hashKindOf τ e
  | τ, .optEmpty e => match hashKindOf τ e with
      | some (.setOf .eq) => some .setNE
      | _ => none
  -- `tuple(a) if isinstance(a, list) else a`: the list alternative becomes a tuple with the same elements, every other
  -- alternative is hashed as it is
  | τ, .ifList (.tuple .it) => natKind τ
  | _, .ifList _ => none

end CR.EqHash.Src
