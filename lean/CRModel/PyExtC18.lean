/-
  CRModel.PyExtC18 — the fixed tables the C18 translator tie (harness/translate/src_c18.py → Gen.SrcC18, CRProps/T18.lean) is checked
  against: which attributes of which classes of commonroad-io a READ-ONLY operation may write at all.

  A write extracted from the source is classified where the statement stands as (owner class, attribute of the owner under which the
  written object hangs, kind): `set` = the attribute itself is (re)bound / deleted (`self._x = v`, `del self._x`, `setattr`,
  `functools.cached_property` storing its value), `mut` = the object the attribute holds is changed in place (`self._x.append(v)`,
  `self._x[k] = v`, `self._x += v`, `out=self._x`; attribute "" = the owner object itself is changed in place), `deep` = something
  further below is written (`self._x[i].y = v`, `self._x.y.append(v)`).  Owner `ext:<annotation>` = a parameter annotated with a type
  from outside the library, `param:<name>` = a parameter of unknown type.

  Three tables, each entry with the Python it denotes:
    * `caches`   — derived-data caches: hidden state in the sense of CRModel/Frame.lean (`St.obs` blanks it) or data derived from
                   attributes that `Extra` holds by content token (not part of `St` at all);
    * `own`      — private state of the object the operation was CALLED ON to produce something (renderer, writer, drawing
                   parameters): not part of a scenario or planning problem;
    * `external` — objects of classes outside the library that an operation is handed to fill (lxml nodes), immutable builtins
                   (an augmented assignment to a `str` parameter rebinds the local name), the `memo` dict of the deepcopy protocol.
  Core Lean only.
-/
namespace CR.Frame.Tie

inductive WKind where
  | set | mut | deep
  deriving DecidableEq, Repr, Inhabited

/-- one class of writes: (owner class, attribute, kind) -/
structure W where
  owner : String
  attr : String
  kind : WKind
  deriving DecidableEq, Repr, Inhabited

/-- what a declared cache is, in terms of the model -/
inductive Slot where
  /-- `Pred.traj … cache` of CRModel/Frame.lean: `TrajectoryPrediction.occupancy_set` (functools.cached_property, prediction.py) -/
  | occCache
  /-- `Net.index`: the STRtree with its id table and the buffered polygons it is built from (lanelet.py `_create_strtree`) -/
  | netIndex
  /-- `Light.cache`: `TrafficLightCycle._cycle_init_timesteps` (traffic_light.py) -/
  | lightCache
  /-- cumulative arc lengths of a lanelet, derived from its vertex arrays (`Extra.lanelets` holds those by content token) -/
  | laneletDist
  /-- corner points / shapely polygon of a Rectangle, derived from length, width, center, orientation (held by content token in
      `Extra.obstacles` and in the region tokens of the states) -/
  | shapeGeom
  deriving DecidableEq, Repr, Inhabited

/-- THE CACHE TABLE.  Only `set` (the slot is bound to a freshly computed value or dropped) is admitted: a read-only operation that
    changes a cached VALUE in place (`init_timesteps -= offset`) changes what the next query answers. -/
def caches : List (W × Slot) := [
  -- `TrajectoryPrediction.occupancy_set`: cached_property stores `_create_occupancy_set()` in the instance (prediction.py:291-299);
  -- `_invalidate_occupancy_set` deletes it
  (⟨"TrajectoryPrediction", "occupancy_set", .set⟩, .occCache),
  -- `LaneletNetwork._create_strtree` (lanelet.py): `self._buffered_polygons = …`, `self._lanelet_id_index_by_id = …`,
  -- `self._strtee = STRtree(…)`; `__deepcopy__` sets `self._strtee = None` and rebuilds it
  (⟨"LaneletNetwork", "_strtee", .set⟩, .netIndex),
  (⟨"LaneletNetwork", "_lanelet_id_index_by_id", .set⟩, .netIndex),
  (⟨"LaneletNetwork", "_buffered_polygons", .set⟩, .netIndex),
  -- `TrafficLightCycle.cycle_init_timesteps` (traffic_light.py:165-183): `self._cycle_init_timesteps = np.cumsum(…)`
  (⟨"TrafficLightCycle", "_cycle_init_timesteps", .set⟩, .lightCache),
  -- `Lanelet.distance` / `inner_distance` (lanelet.py): `self._distance = self._compute_polyline_cumsum_dist(…)` when it is None
  (⟨"Lanelet", "_distance", .set⟩, .laneletDist),
  (⟨"Lanelet", "_inner_distance", .set⟩, .laneletDist),
  -- `Rectangle.vertices` / `Rectangle._shapely_polygon` (shape.py): computed on first use, dropped by `_invalidate_vertices`
  (⟨"Rectangle", "_vertices", .set⟩, .shapeGeom),
  (⟨"Rectangle", "__shapely_polygon", .set⟩, .shapeGeom)]

/-- classes whose instances are tools, not scenario elements: an operation called on / with them may rebind (`set`) and change in
    place (`mut`) whatever attribute they have -/
def ownClasses : List String := [
  "MPRenderer",             -- visualization/mp_renderer.py: artists, patches, collections, labels, collected signs, plot limits
  "OffsetImageAutoscale",   -- visualization/traffic_sign.py: a matplotlib OffsetImage subclass
  "BaseParam",              -- visualization/draw_params.py: drawing parameters (`create_video` sets time_begin / time_end per frame)
  "XMLFileWriter",          -- common/writer/file_writer_xml.py: `_root_node`
  "ProtobufFileWriter"]     -- common/writer/file_writer_protobuf.py: `_commonroad_msg`

/-- attributes of those classes BELOW which an operation may write (`deep`): they hold objects the tool made itself.  Not listed on
    purpose: `MPRenderer.traffic_signs` (the collected TrafficSign / TrafficLight objects of the scenario), `focus_obstacle`,
    the writers' `scenario` and `planning_problem_set`. -/
def ownDeep : List (String × String) := [
  ("MPRenderer", "callbacks"),          -- dict event ↦ list of callbacks: `self.callbacks[event].append(f)`
  ("MPRenderer", "dynamic_artists"),    -- `art.remove()` on the matplotlib artists of the last frame
  ("MPRenderer", "draw_params"),        -- the renderer's own MPDrawParams (`draw_params.trajectory.facecolor = …`, time_begin / time_end)
  ("OffsetImageAutoscale", "text_area"),
  ("ProtobufFileWriter", "_commonroad_msg"),   -- `self._commonroad_msg.lanelets.append(msg)`
  ("BaseParam", "[]")]                  -- `create_video`: the per-frame copies in a list of draw parameters

/-- writes that land outside the library's objects -/
def external : List W := [
  -- the writers' helper functions fill the lxml node they are given: `node.append(child)`, `node.extend(children)`
  ⟨"ext:etree.Element", "", .mut⟩,
  -- `file_path += ".gif"` on a `str` parameter (MPRenderer.create_video): rebinds the local name
  ⟨"ext:str", "", .mut⟩,
  -- `memo[id(self)] = result` in `LaneletNetwork.__deepcopy__`: the memo dict of the deepcopy protocol
  ⟨"param:memo", "", .mut⟩,
  -- `draw_params.facecolor = …` in `MPRenderer.draw_trajectories` on the TrajectoryParams it was given or took from its own parameters
  ⟨"param:draw_params", "facecolor", .set⟩,
  ⟨"param:draw_params", "trajectory", .deep⟩]

def slotOf (w : W) : Option Slot := (caches.find? (fun c => c.1 == w)).map (·.2)

def isOwn (w : W) : Bool :=
  ownClasses.contains w.owner && (w.kind != .deep || ownDeep.contains (w.owner, w.attr))

/-- a read-only operation may perform this class of writes -/
def allowed (w : W) : Bool := (slotOf w).isSome || isOwn w || external.contains w

/-- the writes of the slots the Frame model knows as hidden state (`St.obs` blanks exactly these) -/
def Slot.inModelState : Slot → Bool
  | .occCache | .netIndex | .lightCache => true
  | .laneletDist | .shapeGeom => false

end CR.Frame.Tie
