/-
  CRModel.PyExtC05 — the fixed vocabulary `harness/translate/src_c05.py` maps the numpy idioms of
  commonroad/geometry/transform.py and of the `translate_rotate` methods to.  Hand-written, core Lean only.
  Everything here is *trusted to denote* the Python / numpy operation on exact values (floats are rationals).

  Arrays are typed statically by the translator: an `(n, 2)` array of vertices is a `List Pt` (one row per element), an
  `(n, 3)` array of homogeneous vertices a `List H`; their transposes `(2, n)` / `(3, n)` are the SAME Lean lists (the
  translator tracks the layout, `.transpose()` only flips its static tag), a `(3, 3)` array literal is an `M3`.
-/
import CRModel.Rigid
namespace CR.PyC05
open CR.Rigid

/-- one homogeneous vertex `[x, y, w]` (a row of an `(n, 3)` array / a column of a `(3, n)` array) -/
structure H where
  x : Rat
  y : Rat
  w : Rat
  deriving DecidableEq, Repr

/-- `np.array([[a11, a12, a13], [a21, a22, a23], [a31, a32, a33]])` -/
structure M3 where
  a11 : Rat
  a12 : Rat
  a13 : Rat
  a21 : Rat
  a22 : Rat
  a23 : Rat
  a31 : Rat
  a32 : Rat
  a33 : Rat
  deriving DecidableEq, Repr

/-- `A.dot(B)` for two `(3, 3)` arrays: the matrix product. -/
def M3.dot (a b : M3) : M3 :=
  ⟨a.a11 * b.a11 + a.a12 * b.a21 + a.a13 * b.a31, a.a11 * b.a12 + a.a12 * b.a22 + a.a13 * b.a32,
   a.a11 * b.a13 + a.a12 * b.a23 + a.a13 * b.a33,
   a.a21 * b.a11 + a.a22 * b.a21 + a.a23 * b.a31, a.a21 * b.a12 + a.a22 * b.a22 + a.a23 * b.a32,
   a.a21 * b.a13 + a.a22 * b.a23 + a.a23 * b.a33,
   a.a31 * b.a11 + a.a32 * b.a21 + a.a33 * b.a31, a.a31 * b.a12 + a.a32 * b.a22 + a.a33 * b.a32,
   a.a31 * b.a13 + a.a32 * b.a23 + a.a33 * b.a33⟩

/-- one column of `A.dot(B)` for a `(3, 3)` array `A` and a `(3, n)` array `B`: `A` times that column of `B`.
    `A.dot(B)` is then `B.map (M3.app A)` in the column layout. -/
def M3.app (m : M3) (h : H) : H :=
  ⟨m.a11 * h.x + m.a12 * h.y + m.a13 * h.w, m.a21 * h.x + m.a22 * h.y + m.a23 * h.w, m.a31 * h.x + m.a32 * h.y + m.a33 * h.w⟩

/-- one row of `np.hstack((points, np.ones((len(points), 1))))` = one column of
    `np.vstack((points.transpose(), np.ones((1, points.shape[0]))))`. -/
def toH (p : Pt) : H := ⟨p.x, p.y, 1⟩

/-- one row of `points[:, 0:2]` on an `(n, 3)` array = one column of `tmp[0:2, :]` on a `(3, n)` array. -/
def fromH (h : H) : Pt := ⟨h.x, h.y⟩

/-- `for x in xs: <body that may raise>` where the body produces one value per element (the element mutated in place,
    the value appended to a list, or the value stored back at the element's index): elements in order, the first
    exception ends the loop. -/
def forEach {α β : Type} (f : α → Res β) : List α → Res (List β)
  | [] => .ok []
  | x :: xs =>
    match f x with
    | .error e => .error e
    | .ok y =>
      match forEach f xs with
      | .error e => .error e
      | .ok ys => .ok (y :: ys)

theorem forEach_eq_mapR {α β : Type} (f : α → Res β) (l : List α) : forEach f l = mapR f l := by
  induction l with
  | nil => rfl
  | cons x xs ih =>
    simp only [forEach, mapR, ih]
    cases f x with
    | error e => rfl
    | ok y => cases mapR f xs <;> rfl

/-- `forEach` respects pointwise equality of the loop bodies. -/
theorem forEach_congr {α β : Type} (f g : α → Res β) (l : List α) (h : ∀ x, f x = g x) : forEach f l = forEach g l := by
  have : f = g := funext h
  rw [this]

/-- `for x in xs: <body that may raise>` where the body, besides producing one value per element (the element mutated in place),
    updates loop-carried state `σ` — the object heap (objects the elements hold by REFERENCE and mutate in place) and the local
    lists / sets of object references filled by the loop: elements in order, the state threaded from one iteration to the
    next, the first exception ends the loop. An object reference is an index into the heap; `a is b` on two references is
    equality of the indices (`id(a) == id(b)`), never of the values held. -/
def forEachS {α β σ : Type} (f : σ → α → Res (β × σ)) : σ → List α → Res (List β × σ)
  | s, [] => .ok ([], s)
  | s, x :: xs =>
    match f s x with
    | .error e => .error e
    | .ok (y, s') =>
      match forEachS f s' xs with
      | .error e => .error e
      | .ok (ys, s'') => .ok (y :: ys, s'')

/-- `a == b` on two GoalRegion objects: `GoalRegion.__eq__` (planning/goal.py) compares what the two objects HOLD (state lists,
    by value), whichever objects they are - two distinct objects may be equal (twins), and an object not yet moved may equal one
    that has been moved already.  Never the identity test `a is b` (equality of the references). -/
def goalEq (a b : List State) : Bool := reprStr a == reprStr b

/-- dynamic type tests of `State.translate_rotate` on the `position` attribute -/
def posIsSome : Pos → Bool | .none => false | _ => true          -- `hasattr(self, "position") and self.position is not None`
def posIsArray : Pos → Bool | .pt _ => true | _ => false          -- `isinstance(self.position, ValidTypes.ARRAY)`
def posIsShape : Pos → Bool | .region _ => true | _ => false      -- `isinstance(self.position, Shape)`
def posArray : Pos → Pt | .pt p => p | _ => ⟨0, 0⟩                -- the value of `self.position` where it is an array
def posShape : Pos → Shape | .region s => s | _ => .group []      -- the value of `self.position` where it is a Shape

/-- dynamic type tests of `State.translate_rotate` on the `orientation` attribute -/
def oriIsSome : Ori → Bool | .none => false | _ => true           -- `"orientation" in self.attributes and ... is not None`
def oriIsNum : Ori → Bool | .exact _ => true | _ => false         -- `isinstance(self.orientation, ValidTypes.NUMBERS)`
def oriIsIv : Ori → Bool | .iv _ => true | _ => false             -- `isinstance(self.orientation, AngleInterval)`
def oriNum : Ori → Rat | .exact θ => θ | _ => 0
def oriIv : Ori → CR.Iv.I | .iv i => i | _ => ⟨0, 0⟩

/-- `self._prediction is not None` on the model's prediction sum -/
def predIsSome : Pred → Bool | .none => false | _ => true

end CR.PyC05
