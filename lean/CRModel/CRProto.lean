/-
  CRModel.CRProto — executable model of the protobuf codec of commonroad-io:
    writer  commonroad/common/writer/file_writer_protobuf.py   (XxxMessage.create_message  ↦  enc…)
    reader  commonroad/common/reader/file_reader_protobuf.py   (XxxFactory.create_from_message ↦ dec…)
    format  commonroad/scenario_definition/protobuf_format/definition_files/*.proto

  * `PB` is a protobuf *message tree*: a message is the list of its SET fields (`HasField n` ⇔ the field is
    in the list with a non-`null` value), a repeated field is a list, an enum travels by member NAME.
    Reading an unset scalar yields the proto2 default (0, 0.0, "", false) exactly as the generated
    `*_pb2` classes do.  `SerializeToString` / `ParseFromString` are the identity on such trees (trusted).
  * A real number is a `Dbl`: the bit pattern of an IEEE double, written as Python's `float.hex()`.  The
    codec never computes with reals; it only moves them.
  * The Python-side values (`Scn`, `Lanelet`, `St`, …) are structural snapshots through the public
    accessors (harness/c02_snapshot.py produces exactly these structures as JSON).
  * Writer-side exceptions are modelled by `PB.err` leaves / range and enum checks collected by
    `PB.check` (`ValueError` for an integer outside uint32 / int32, for an enum member the .proto does
    not have; `AttributeError` for a state attribute without a field in message `State`).
  Core Lean only.
-/
import CRModel.Basic

namespace CR.PBF

/-- IEEE double as its `float.hex()` text (bit-identical transport is equality of these). -/
structure Dbl where
  hex : String
  deriving DecidableEq, Repr, Inhabited

def Dbl.zero : Dbl := ⟨"0x0.0p+0"⟩

/-- Protobuf message tree. -/
inductive PB where
  | null                                   -- field not set
  | u32 (i : Int)                          -- uint32 field
  | i32 (i : Int)                          -- int32 field
  | dbl (d : Dbl)
  | bool (b : Bool)
  | str (s : String)
  | enum (ty name : String)                -- enum type, member NAME
  | msg (fs : List (String × PB))          -- set fields of a (sub)message
  | rep (l : List PB)                      -- repeated field
  | err (e : Err)                          -- the writer raises here
  deriving Repr, Inhabited

namespace PB

/-- `msg.<field>` / `msg.HasField`: value of a field, `null` when it is not set. -/
def get (m : PB) (n : String) : PB :=
  match m with
  | .msg fs => (fs.lookup n).getD .null
  | _ => .null

def isSet : PB → Bool
  | .null => false
  | _ => true

def has (m : PB) (n : String) : Bool := (m.get n).isSet

/-- scalar reads with proto2 defaults -/
def int : PB → Int
  | .u32 i => i | .i32 i => i | _ => 0
def dblD : PB → Dbl
  | .dbl d => d | _ => Dbl.zero
def boolD : PB → Bool
  | .bool b => b | _ => false
def strD : PB → String
  | .str s => s | _ => ""
def enumD : PB → String
  | .enum _ n => n | .str s => s | _ => ""
def items : PB → List PB
  | .rep l => l | _ => []

def optInt (p : PB) : Option Int := if p.isSet then some p.int else none
def optBool (p : PB) : Option Bool := if p.isSet then some p.boolD else none
def optEnum (p : PB) : Option String := if p.isSet then some p.enumD else none

def ofOpt : Option PB → PB
  | some p => p | none => .null

end PB

open PB

/-! ## Python-side values (snapshots) -/

structure Pt where
  x : Dbl
  y : Dbl
  deriving Repr, Inhabited, DecidableEq

inductive Shape where
  | rect (l w : Dbl) (c : Pt) (o : Dbl)
  | circ (r : Dbl) (c : Pt)
  | poly (v : List Pt)
  | group (s : List Shape)
  deriving Repr, Inhabited

inductive IntEOI where
  | exact (i : Int)
  | interval (a b : Int)
  deriving Repr, Inhabited, DecidableEq

inductive FloatEOI where
  | exact (d : Dbl)
  | interval (a b : Dbl)
  deriving Repr, Inhabited, DecidableEq

inductive Pos where
  | point (p : Pt)
  | shape (s : Shape)
  deriving Repr, Inhabited

/-- A state: class name (informative), time step, position, populated float attributes. -/
structure St where
  cls : String
  t : IntEOI
  pos : Option Pos
  attrs : List (String × FloatEOI)
  deriving Repr, Inhabited

structure Sig where
  t : Option IntEOI
  horn : Option Bool
  indicator_left : Option Bool
  indicator_right : Option Bool
  braking_lights : Option Bool
  hazard_warning_lights : Option Bool
  flashing_blue_lights : Option Bool
  deriving Repr, Inhabited, DecidableEq

structure Occ where
  t : IntEOI
  shape : Shape
  deriving Repr, Inhabited

structure SetPred where
  t0 : Int
  occ : List Occ
  deriving Repr, Inhabited

inductive Pred where
  | traj (t0 : Int) (states : List St) (shape : Shape)
  | set (p : SetPred)
  deriving Repr, Inhabited

structure StaticObs where
  id : Int
  type : String
  shape : Shape
  init : St
  sig0 : Option Sig
  series : List Sig
  deriving Repr, Inhabited

structure DynObs where
  id : Int
  type : String
  shape : Shape
  init : St
  pred : Option Pred
  sig0 : Option Sig
  series : List Sig
  deriving Repr, Inhabited

structure EnvObs where
  id : Int
  type : String
  shape : Shape
  deriving Repr, Inhabited

structure Phantom where
  id : Int
  pred : Option SetPred
  deriving Repr, Inhabited

structure Goal where
  state : St
  lanelets : List Int
  deriving Repr, Inhabited

structure PP where
  id : Int
  init : St
  goals : List Goal
  deriving Repr, Inhabited

structure Stop where
  start : Pt
  «end» : Pt
  lm : String
  signs : List Int
  lights : List Int
  deriving Repr, Inhabited, DecidableEq

structure Lanelet where
  id : Int
  left : List Pt
  right : List Pt
  lm_left : Option String
  lm_right : Option String
  pred : List Int
  succ : List Int
  adj_left : Option Int
  adj_left_same : Option Bool
  adj_right : Option Int
  adj_right_same : Option Bool
  stop : Option Stop
  types : List String
  one_way : List String
  bidir : List String
  signs : List Int
  lights : List Int
  deriving Repr, Inhabited, DecidableEq

structure SignEl where
  country : String
  name : String
  values : List String
  deriving Repr, Inhabited, DecidableEq

structure Sign where
  id : Int
  elements : List SignEl
  first : List Int
  pos : Option Pt
  virtual : Option Bool
  deriving Repr, Inhabited, DecidableEq

structure CycEl where
  state : String
  dur : Int
  deriving Repr, Inhabited, DecidableEq

structure Light where
  id : Int
  cycle : List CycEl
  pos : Option Pt
  offset : Option Int
  direction : Option String
  active : Option Bool
  deriving Repr, Inhabited, DecidableEq

structure Incoming where
  id : Int
  lanelets : List Int
  right : List Int
  straight : List Int
  left : List Int
  left_of : Option Int
  deriving Repr, Inhabited, DecidableEq

structure Inter where
  id : Int
  incomings : List Incoming
  crossings : List Int
  deriving Repr, Inhabited, DecidableEq

structure Tm where
  h : Int
  m : Int
  day : Option Int
  month : Option Int
  year : Option Int
  deriving Repr, Inhabited, DecidableEq

structure Envr where
  time : Option Tm
  time_of_day : Option String
  weather : Option String
  underground : Option String
  deriving Repr, Inhabited, DecidableEq

structure Geo where
  ref : String
  x : Dbl
  y : Dbl
  rot : Dbl
  scaling : Dbl
  deriving Repr, Inhabited, DecidableEq

structure Loc where
  geo_name_id : Int
  lat : Dbl
  lon : Dbl
  geo : Option Geo
  env : Option Envr
  deriving Repr, Inhabited, DecidableEq

structure Info where
  version : String
  benchmark_id : String
  author : String
  affiliation : String
  source : String
  dt : Dbl
  deriving Repr, Inhabited, DecidableEq

structure Scn where
  info : Info
  tags : List String
  location : Loc
  lanelets : List Lanelet
  signs : List Sign
  lights : List Light
  intersections : List Inter
  static : List StaticObs
  dynamic : List DynObs
  env : List EnvObs
  phantom : List Phantom
  pps : List PP
  deriving Repr, Inhabited

/-! ## Tables read off the code -/

/-- Float-valued fields of message `State` in descriptor order (obstacle.proto:27-66). -/
def stateFields : List String :=
  ["orientation", "velocity", "steering_angle", "steering_angle_speed", "yaw_rate", "slip_angle", "roll_angle",
   "roll_rate", "pitch_angle", "pitch_rate", "velocity_y", "position_z", "velocity_z", "roll_angle_front",
   "roll_rate_front", "velocity_y_front", "position_z_front", "velocity_z_front", "roll_angle_rear",
   "roll_rate_rear", "velocity_y_rear", "position_z_rear", "velocity_z_rear", "front_wheel_angular_speed",
   "rear_wheel_angular_speed", "left_front_wheel_angular_speed", "right_front_wheel_angular_speed",
   "left_rear_wheel_angular_speed", "right_rear_wheel_angular_speed", "delta_y_f", "delta_y_r", "acceleration",
   "acceleration_y", "jerk", "curvature", "curvature_rate"]

/-- `SpecificStateClasses` with the dataclass attributes of each class (scenario/state.py:328-595, 714-727). -/
def stateClasses : List (String × List String) :=
  [("InitialState", ["time_step", "position", "orientation", "velocity", "acceleration", "yaw_rate", "slip_angle"]),
   ("PMState", ["time_step", "position", "velocity", "velocity_y"]),
   ("KSState", ["time_step", "position", "steering_angle", "velocity", "orientation"]),
   ("KSTState", ["time_step", "position", "steering_angle", "velocity", "orientation", "hitch_angle"]),
   ("STState", ["time_step", "position", "steering_angle", "velocity", "orientation", "slip_angle", "yaw_rate"]),
   ("STDState", ["time_step", "position", "steering_angle", "velocity", "orientation", "slip_angle", "yaw_rate",
                 "front_wheel_angular_speed", "rear_wheel_angular_speed"]),
   ("MBState", ["time_step", "position", "steering_angle", "velocity", "orientation", "yaw_rate", "roll_angle",
                "roll_rate", "pitch_angle", "pitch_rate", "velocity_y", "position_z", "velocity_z",
                "roll_angle_front", "roll_rate_front", "velocity_y_front", "position_z_front", "velocity_z_front",
                "roll_angle_rear", "roll_rate_rear", "velocity_y_rear", "position_z_rear", "velocity_z_rear",
                "left_front_wheel_angular_speed", "right_front_wheel_angular_speed",
                "left_rear_wheel_angular_speed", "right_rear_wheel_angular_speed", "delta_y_f", "delta_y_r"]),
   ("InputState", ["time_step", "steering_angle_speed", "acceleration"]),
   ("PMInputState", ["time_step", "acceleration", "acceleration_y"]),
   ("LateralState", ["time_step", "lateral_position", "orientation", "curvature", "curvature_rate"]),
   ("LongitudinalState", ["time_step", "longitudinal_position", "velocity", "acceleration", "jerk"]),
   ("ExtendedPMState", ["time_step", "position", "velocity", "orientation", "acceleration"])]

/-- Float attributes of `InitialState` in descriptor order (the order the snapshot lists them in). -/
def initFields : List String := ["orientation", "velocity", "yaw_rate", "slip_angle", "acceleration"]

/-! ## Writer: `XxxMessage.create_message` (file_writer_protobuf.py) -/

def encIds (l : List Int) : PB := .rep (l.map .u32)
def encEnums (ty : String) (l : List String) : PB := .rep (l.map (.enum ty))

/-- PointMessage (writer :850-858) -/
def encPt (p : Pt) : PB := .msg [("x", .dbl p.x), ("y", .dbl p.y)]

/-- ShapeMessage + Rectangle/Circle/Polygon/ShapeGroupMessage (writer :861-931). -/
def encShape : Shape → PB
  | .rect l w c o => .msg [("rectangle", .msg [("length", .dbl l), ("width", .dbl w), ("center", encPt c),
                                               ("orientation", .dbl o)])]
  | .circ r c => .msg [("circle", .msg [("radius", .dbl r), ("center", encPt c)])]
  | .poly v => .msg [("polygon", .msg [("vertices", .rep (v.map encPt))])]
  | .group s => .msg [("shape_group", .msg [("shapes", .rep (encShapes s))])]
where
  encShapes : List Shape → List PB
    | [] => []
    | s :: r => encShape s :: encShapes r

/-- IntegerExactOrIntervalMessage (writer :956-967) -/
def encIntEOI : IntEOI → PB
  | .exact i => .msg [("exact", .i32 i)]
  | .interval a b => .msg [("interval", .msg [("start", .i32 a), ("end", .i32 b)])]

/-- FloatExactOrIntervalMessage (writer :970-981) -/
def encFloatEOI : FloatEOI → PB
  | .exact d => .msg [("exact", .dbl d)]
  | .interval a b => .msg [("interval", .msg [("start", .dbl a), ("end", .dbl b)])]

def encPos : Option Pos → List (String × PB)
  | none => []
  | some (.point p) => [("point", encPt p)]
  | some (.shape s) => [("shape", encShape s)]

/-- one float attribute: `getattr(state_msg, attr)` raises AttributeError when message `State` has no such field
    (writer :653-654) -/
def encAttr (kv : String × FloatEOI) : String × PB :=
  (kv.1, if stateFields.contains kv.1 then encFloatEOI kv.2 else .err .attr)

/-- StateMessage (writer :635-656): only the populated attributes are written. -/
def encState (s : St) : PB :=
  .msg (encPos s.pos ++ (s.attrs.map encAttr ++ [("time_step", encIntEOI s.t)]))

def optB : Option Bool → PB
  | some b => .bool b | none => .null

/-- SignalStateMessage (writer :663-679) -/
def encSig (s : Sig) : PB :=
  .msg [("time_step", ofOpt (s.t.map encIntEOI)), ("horn", optB s.horn), ("indicator_left", optB s.indicator_left),
        ("indicator_right", optB s.indicator_right), ("braking_lights", optB s.braking_lights),
        ("hazard_warning_lights", optB s.hazard_warning_lights), ("flashing_blue_lights", optB s.flashing_blue_lights)]

/-- OccupancyMessage (writer :743-754) -/
def encOcc (o : Occ) : PB := .msg [("time_step", encIntEOI o.t), ("shape", encShape o.shape)]

/-- SetBasedPredictionMessage + OccupancySetMessage (writer :731-740, 771-781) -/
def encSetPred (p : SetPred) : PB :=
  .msg [("initial_time_step", .u32 p.t0), ("occupancy_set", .msg [("occupancies", .rep (p.occ.map encOcc))])]

/-- the `prediction` oneof of a dynamic obstacle (writer :698-703, 717-728, 757-768): at most one member is set -/
def encTrajPred : Option Pred → PB
  | some (.traj t0 states shape) =>
      .msg [("trajectory", .msg [("initial_time_step", .u32 t0), ("states", .rep (states.map encState))]),
            ("shape", encShape shape)]
  | _ => .null

def encSetPredOf : Option Pred → PB
  | some (.set p) => encSetPred p
  | _ => .null

/-- StaticObstacleMessage (writer :608-632, after the two `fix:` commits on signal states) -/
def encStatic (o : StaticObs) : PB :=
  .msg [("static_obstacle_id", .u32 o.id), ("obstacle_type", .enum "ObstacleType" o.type), ("shape", encShape o.shape),
        ("initial_state", encState o.init), ("initial_signal_state", ofOpt (o.sig0.map encSig)),
        ("signal_series", .rep (o.series.map encSig))]

/-- DynamicObstacleMessage (writer :682-714) -/
def encDynamic (o : DynObs) : PB :=
  .msg ([("dynamic_obstacle_id", .u32 o.id), ("obstacle_type", .enum "ObstacleType" o.type),
         ("shape", encShape o.shape), ("initial_state", encState o.init),
         ("initial_signal_state", ofOpt (o.sig0.map encSig)), ("signal_series", .rep (o.series.map encSig)),
         ("trajectory_prediction", encTrajPred o.pred), ("set_based_prediction", encSetPredOf o.pred)])

/-- EnvironmentObstacleMessage (writer :784-797) -/
def encEnvObs (o : EnvObs) : PB :=
  .msg [("environment_obstacle_id", .u32 o.id), ("obstacle_type", .enum "ObstacleType" o.type),
        ("obstacle_shape", encShape o.shape)]

/-- PhantomObstacleMessage (writer :800-811) -/
def encPhantom (o : Phantom) : PB :=
  .msg [("obstacle_id", .u32 o.id), ("prediction", ofOpt (o.pred.map encSetPred))]

/-- GoalStateMessage (writer :836-847) -/
def encGoal (g : Goal) : PB := .msg [("state", encState g.state), ("goal_position_lanelets", encIds g.lanelets)]

/-- PlanningProblemMessage (writer :814-833) -/
def encPP (p : PP) : PB :=
  .msg [("planning_problem_id", .u32 p.id), ("initial_state", encState p.init), ("goal_states", .rep (p.goals.map encGoal))]

/-- BoundMessage (writer :398-410) -/
def encBound (v : List Pt) (lm : Option String) : PB :=
  .msg [("points", .rep (v.map encPt)), ("line_marking", ofOpt (lm.map (.enum "LineMarking")))]

/-- StopLineMessage (writer :413-436) -/
def encStop (s : Stop) : PB :=
  .msg [("points", .rep [encPt s.start, encPt s.end]), ("line_marking", .enum "LineMarking" s.lm),
        ("traffic_sign_refs", encIds s.signs), ("traffic_light_refs", encIds s.lights)]

def encDir (b : Bool) : PB := .enum "DrivingDir" (if b then "SAME" else "OPPOSITE")

/-- LaneletMessage (writer :339-395) -/
def encLanelet (l : Lanelet) : PB :=
  .msg [("lanelet_id", .u32 l.id), ("left_bound", encBound l.left l.lm_left), ("right_bound", encBound l.right l.lm_right),
        ("predecessors", encIds l.pred), ("successors", encIds l.succ),
        ("adjacent_left", ofOpt (l.adj_left.map .u32)), ("adjacent_right", ofOpt (l.adj_right.map .u32)),
        ("adjacent_left_dir", ofOpt (l.adj_left_same.map encDir)), ("adjacent_right_dir", ofOpt (l.adj_right_same.map encDir)),
        ("stop_line", ofOpt (l.stop.map encStop)), ("lanelet_types", encEnums "LaneletType" l.types),
        ("user_one_way", encEnums "RoadUser" l.one_way), ("user_bidirectional", encEnums "RoadUser" l.bidir),
        ("traffic_sign_refs", encIds l.signs), ("traffic_light_refs", encIds l.lights)]

/-- oneof member carrying a traffic sign element id of the given Python enum class (writer :465-517: the `else`
    branch takes every class that is not one of the twelve named ones). -/
def signField (country : String) : String :=
  match country with
  | "TrafficSignIDGermany" => "germany_element_id"
  | "TrafficSignIDZamunda" => "zamunda_element_id"
  | "TrafficSignIDUsa" => "usa_element_id"
  | "TrafficSignIDChina" => "china_element_id"
  | "TrafficSignIDSpain" => "spain_element_id"
  | "TrafficSignIDRussia" => "russia_element_id"
  | "TrafficSignIDArgentina" => "argentina_element_id"
  | "TrafficSignIDBelgium" => "belgium_element_id"
  | "TrafficSignIDFrance" => "france_element_id"
  | "TrafficSignIDGreece" => "greece_element_id"
  | "TrafficSignIDCroatia" => "croatia_element_id"
  | "TrafficSignIDItaly" => "italy_element_id"
  | _ => "puerto_rico_element_id"

/-- enum type of a oneof member (traffic_sign.proto:614-630) -/
def signEnumOfField (f : String) : String :=
  match f with
  | "germany_element_id" => "TrafficSignIDGermany"
  | "zamunda_element_id" => "TrafficSignIDZamunda"
  | "usa_element_id" => "TrafficSignIDUsa"
  | "china_element_id" => "TrafficSignIDChina"
  | "spain_element_id" => "TrafficSignIDSpain"
  | "russia_element_id" => "TrafficSignIDRussia"
  | "argentina_element_id" => "TrafficSignIDArgentina"
  | "belgium_element_id" => "TrafficSignIDBelgium"
  | "france_element_id" => "TrafficSignIDFrance"
  | "greece_element_id" => "TrafficSignIDGreece"
  | "croatia_element_id" => "TrafficSignIDCroatia"
  | "italy_element_id" => "TrafficSignIDItaly"
  | _ => "TrafficSignIDPuertoRico"

def signCountries : List String :=
  ["TrafficSignIDGermany", "TrafficSignIDZamunda", "TrafficSignIDUsa", "TrafficSignIDChina", "TrafficSignIDSpain",
   "TrafficSignIDRussia", "TrafficSignIDArgentina", "TrafficSignIDBelgium", "TrafficSignIDFrance",
   "TrafficSignIDGreece", "TrafficSignIDCroatia", "TrafficSignIDItaly", "TrafficSignIDPuertoRico"]

/-- TrafficSignElementMessage (writer :460-522) -/
def encSignEl (e : SignEl) : PB :=
  .msg [(signField e.country, .enum (signEnumOfField (signField e.country)) e.name),
        ("additional_values", .rep (e.values.map .str))]

/-- TrafficSignMessage (writer :439-457, with first occurrences) -/
def encSign (s : Sign) : PB :=
  .msg [("traffic_sign_id", .u32 s.id), ("traffic_sign_elements", .rep (s.elements.map encSignEl)),
        ("first_occurrences", encIds s.first), ("position", ofOpt (s.pos.map encPt)), ("virtual", optB s.virtual)]

/-- CycleElementMessage (writer :554-564) -/
def encCycEl (e : CycEl) : PB := .msg [("duration", .u32 e.dur), ("color", .enum "TrafficLightState" e.state)]

/-- TrafficLightMessage (writer :525-551) -/
def encLight (t : Light) : PB :=
  .msg [("traffic_light_id", .u32 t.id), ("cycle_elements", .rep (t.cycle.map encCycEl)), ("position", ofOpt (t.pos.map encPt)),
        ("time_offset", ofOpt (t.offset.map .u32)),
        ("direction", ofOpt (t.direction.map (.enum "TrafficLightDirection"))), ("active", optB t.active)]

/-- IncomingMessage (writer :584-605) -/
def encIncoming (i : Incoming) : PB :=
  .msg [("incoming_id", .u32 i.id), ("incoming_lanelets", encIds i.lanelets), ("successors_right", encIds i.right),
        ("successors_straight", encIds i.straight), ("successors_left", encIds i.left),
        ("is_left_of", ofOpt (i.left_of.map .u32))]

/-- IntersectionMessage (writer :567-581) -/
def encInter (i : Inter) : PB :=
  .msg [("intersection_id", .u32 i.id), ("incomings", .rep (i.incomings.map encIncoming)),
        ("crossing_lanelets", encIds i.crossings)]

/-- TimeStampMessage for a `Time` (writer :1006-1021, with day/month/year) -/
def encTm (t : Tm) : PB :=
  .msg [("year", ofOpt (t.year.map .u32)), ("month", ofOpt (t.month.map .u32)), ("day", ofOpt (t.day.map .u32)),
        ("hour", .u32 t.h), ("minute", .u32 t.m)]

/-- EnvironmentMessage (writer :321-336) -/
def encEnvr (e : Envr) : PB :=
  .msg [("time", ofOpt (e.time.map encTm)), ("time_of_day", ofOpt (e.time_of_day.map (.enum "TimeOfDay"))),
        ("weather", ofOpt (e.weather.map (.enum "Weather"))), ("underground", ofOpt (e.underground.map (.enum "Underground")))]

/-- GeoTransformationMessage (writer :307-318) -/
def encGeo (g : Geo) : PB :=
  .msg [("geo_reference", .str g.ref), ("x_translation", .dbl g.x), ("y_translation", .dbl g.y), ("z_rotation", .dbl g.rot),
        ("scaling", .dbl g.scaling)]

/-- LocationMessage (writer :288-304) -/
def encLoc (l : Loc) : PB :=
  .msg [("geo_name_id", .i32 l.geo_name_id), ("gps_latitude", .dbl l.lat), ("gps_longitude", .dbl l.lon),
        ("geo_transformation", ofOpt (l.geo.map encGeo)), ("environment", ofOpt (l.env.map encEnvr))]

/-- ScenarioInformationMessage (writer :253-274); the date stamp (today) is not content and is left out. -/
def encInfo (i : Info) : PB :=
  .msg [("common_road_version", .str i.version), ("benchmark_id", .str i.benchmark_id), ("author", .str i.author),
        ("affiliation", .str i.affiliation), ("source", .str i.source), ("time_step_size", .dbl i.dt)]

/-- ProtobufFileWriter.write_to_file (writer :97-170, 185-212): the whole `CommonRoad` message. -/
def encScn (x : Scn) : PB :=
  .msg [("information", encInfo x.info), ("scenario_tags", .msg [("tags", encEnums "Tag" x.tags)]),
        ("location", encLoc x.location), ("lanelets", .rep (x.lanelets.map encLanelet)),
        ("traffic_signs", .rep (x.signs.map encSign)), ("traffic_lights", .rep (x.lights.map encLight)),
        ("intersections", .rep (x.intersections.map encInter)), ("static_obstacles", .rep (x.static.map encStatic)),
        ("dynamic_obstacles", .rep (x.dynamic.map encDynamic)), ("environment_obstacles", .rep (x.env.map encEnvObs)),
        ("phantom_obstacles", .rep (x.phantom.map encPhantom)), ("planning_problems", .rep (x.pps.map encPP))]

/-! ### the writer OBJECT: one `ProtobufFileWriter` used for several files

  The writer keeps the message it builds in `self._commonroad_msg`.  `_write_header` / `_add_all_objects_from_scenario` /
  `_add_all_planning_problems_from_planning_problem_set` `CopyFrom` into the singular fields and `append` to the repeated
  ones (writer :97-170).  `write_to_file` (:185-212) and `write_scenario_to_file` (:214-235) both start from a fresh
  `commonroad_pb2.CommonRoad()`; `fillScn` is what the three helpers do to WHATEVER message they are given, so that the
  effect of the reset is a theorem (`C02_fill_fresh`, `C02_writer_history`) and its absence a witness (`C02_witness_no_reset`). -/

/-- the three `_add…` helpers applied to message `m`; `withPps = false` is `write_scenario_to_file` (no planning problems) -/
def fillScn (m : PB) (x : Scn) (withPps : Bool) : PB :=
  .msg [("information", encInfo x.info), ("scenario_tags", .msg [("tags", encEnums "Tag" x.tags)]),
        ("location", encLoc x.location),
        ("lanelets", .rep ((m.get "lanelets").items ++ x.lanelets.map encLanelet)),
        ("traffic_signs", .rep ((m.get "traffic_signs").items ++ x.signs.map encSign)),
        ("traffic_lights", .rep ((m.get "traffic_lights").items ++ x.lights.map encLight)),
        ("intersections", .rep ((m.get "intersections").items ++ x.intersections.map encInter)),
        ("static_obstacles", .rep ((m.get "static_obstacles").items ++ x.static.map encStatic)),
        ("dynamic_obstacles", .rep ((m.get "dynamic_obstacles").items ++ x.dynamic.map encDynamic)),
        ("environment_obstacles", .rep ((m.get "environment_obstacles").items ++ x.env.map encEnvObs)),
        ("phantom_obstacles", .rep ((m.get "phantom_obstacles").items ++ x.phantom.map encPhantom)),
        ("planning_problems", .rep ((m.get "planning_problems").items ++ (if withPps then x.pps.map encPP else [])))]

/-- what a scenario-only file holds: the scenario, no planning problem -/
def Scn.only (x : Scn) (withPps : Bool) : Scn := if withPps then x else { x with pps := [] }

/-- a writer object: the message left behind by its last write -/
structure Wr where
  msg : PB

def Wr.new : Wr := ⟨.msg []⟩

/-- one `write_to_file` (`withPps`) / `write_scenario_to_file` call: the message is reset, filled, serialised and kept -/
def Wr.write (_w : Wr) (x : Scn) (withPps : Bool) : PB × Wr :=
  let m := fillScn (.msg []) x withPps
  (m, ⟨m⟩)

/-- a history of calls on one writer object; the files it produces, in order.  The writer holds a REFERENCE to its
    scenario, which may be edited between the calls: every call comes with the content the scenario has at that moment. -/
def Wr.run (w : Wr) : List (Scn × Bool) → List PB
  | [] => []
  | c :: r => (w.write c.1 c.2).1 :: Wr.run (w.write c.1 c.2).2 r

/-! ### what makes the writer raise -/

/-- enum tables of the shipped .proto files: enum type ↦ member names (sent by the harness from the `*_pb2` modules). -/
abbrev Tables := List (String × List String)

def enumOk (T : Tables) (ty name : String) : Bool :=
  match T.lookup ty with
  | some names => names.contains name
  | none => false

mutual
/-- First exception the generated protobuf classes raise while the writer fills the message: integer out of range
    (`ValueError`), enum member unknown to the .proto (`Enum.Value(name)` → `ValueError`), missing field (`AttributeError`). -/
def PB.check (T : Tables) : PB → Option Err
  | .u32 i => if 0 ≤ i ∧ i < 4294967296 then none else some .value
  | .i32 i => if -2147483648 ≤ i ∧ i < 2147483648 then none else some .value
  | .enum ty n => if enumOk T ty n then none else some .value
  | .err e => some e
  | .msg fs => PB.checkFields T fs
  | .rep l => PB.checkList T l
  | _ => none
def PB.checkFields (T : Tables) : List (String × PB) → Option Err
  | [] => none
  | f :: r => match PB.check T f.2 with
    | some e => some e
    | none => PB.checkFields T r
def PB.checkList (T : Tables) : List PB → Option Err
  | [] => none
  | p :: r => match PB.check T p with
    | some e => some e
    | none => PB.checkList T r
end

/-- `CommonRoadFileWriter(..., file_format=PROTOBUF).write_to_file`: the message tree, or the exception class. -/
def encodePb (T : Tables) (x : Scn) : Res PB :=
  match (encScn x).check T with
  | some e => .error e
  | none => .ok (encScn x)

/-- the same history with the writer's exceptions: a call whose scenario cannot be written raises (nothing is written) and
    the next call starts from a fresh message all the same -/
def Wr.runChecked (T : Tables) (w : Wr) (calls : List (Scn × Bool)) : List (Res PB) :=
  (w.run calls).map fun m => match m.check T with
    | some e => .error e
    | none => .ok m

/-! ## Reader: `XxxFactory.create_from_message` (file_reader_protobuf.py) -/

def decIds (p : PB) : List Int := p.items.map PB.int
def decEnums (p : PB) : List String := p.items.map PB.enumD

/-- PointFactory (reader :959-962) -/
def decPt (m : PB) : Pt := ⟨(m.get "x").dblD, (m.get "y").dblD⟩

/-- ShapeFactory + Rectangle/Circle/Polygon/ShapeGroupFactory (reader :965-1028).  The `fuel` bounds the nesting
    depth that is followed (a tree of depth d needs fuel > d; `decShape` uses the size of the tree). -/
def decShapeF : Nat → PB → Shape
  | 0, _ => .group []
  | fuel + 1, m =>
    if m.has "rectangle" then
      let r := m.get "rectangle"
      .rect (r.get "length").dblD (r.get "width").dblD
        (if r.has "center" then decPt (r.get "center") else ⟨Dbl.zero, Dbl.zero⟩)
        (if r.has "orientation" then (r.get "orientation").dblD else Dbl.zero)
    else if m.has "circle" then
      let c := m.get "circle"
      .circ (c.get "radius").dblD (if c.has "center" then decPt (c.get "center") else ⟨Dbl.zero, Dbl.zero⟩)
    else if m.has "polygon" then
      .poly (((m.get "polygon").get "vertices").items.map decPt)
    else
      .group ((((m.get "shape_group").get "shapes").items).map (decShapeF fuel))

mutual
/-- number of constructors of a tree: enough fuel to decode any shape in it -/
def PB.size : PB → Nat
  | .msg fs => 1 + PB.sizeFields fs
  | .rep l => 1 + PB.sizeList l
  | _ => 1
def PB.sizeFields : List (String × PB) → Nat
  | [] => 0
  | f :: r => PB.size f.2 + PB.sizeFields r
def PB.sizeList : List PB → Nat
  | [] => 0
  | p :: r => PB.size p + PB.sizeList r
end

def decShape (m : PB) : Shape := decShapeF m.size m

/-- IntegerExactOrIntervalFactory (reader :1047-1056) -/
def decIntEOI (m : PB) : IntEOI :=
  if m.has "exact" then .exact (m.get "exact").int
  else .interval (((m.get "interval").get "start").int) (((m.get "interval").get "end").int)

/-- FloatExactOrIntervalFactory (reader :1059-1068); an orientation interval becomes an `AngleInterval`, which has the
    same two end points. -/
def decFloatEOI (m : PB) : FloatEOI :=
  if m.has "exact" then .exact (m.get "exact").dblD
  else .interval (((m.get "interval").get "start").dblD) (((m.get "interval").get "end").dblD)

def decPos (m : PB) : Option Pos :=
  if m.has "point" then some (.point (decPt (m.get "point")))
  else if m.has "shape" then some (.shape (decShape (m.get "shape")))
  else none

/-- `used_fields` of StateFactory.create_from_message (reader :731-737), in descriptor order. -/
def usedFields (m : PB) : List String :=
  (if m.has "point" then ["position"] else []) ++ (if m.has "shape" then ["position"] else [])
    ++ stateFields.filter m.has ++ (if m.has "time_step" then ["time_step"] else [])

/-- does `_fill_state` (reader :766-795, after the two `fix:` commits) fill this attribute? -/
def fillsAttr (m : PB) (a : String) : Bool :=
  if a == "position" then m.has "point" || m.has "shape"
  else (a == "time_step" || stateFields.contains a) && m.has a

/-- the first class of `SpecificStateClasses` with as many attributes as there are used fields, all of them filled
    (reader :739-752) -/
def matchClass (m : PB) : Option String :=
  (stateClasses.find? fun c => c.2.length == (usedFields m).length && c.2.all (fillsAttr m)).map (·.1)

/-- the populated float attributes, in descriptor order -/
def decAttrs (m : PB) : List (String × FloatEOI) :=
  stateFields.filterMap fun n => if m.has n then some (n, decFloatEOI (m.get n)) else none

/-- StateFactory.create_from_message, `is_initial_state=False` (reader :726-761). -/
def decState (m : PB) : St :=
  { cls := (matchClass m).getD "CustomState", t := decIntEOI (m.get "time_step"), pos := decPos m, attrs := decAttrs m }

/-- StateFactory.create_from_message, `is_initial_state=True`: an `InitialState` whose unset attributes are filled with
    defaults (reader :744-748, state.py:303-315). -/
def decInitState (m : PB) : St :=
  { cls := "InitialState", t := decIntEOI (m.get "time_step"),
    pos := some ((decPos m).getD (.point ⟨Dbl.zero, Dbl.zero⟩)),
    attrs := initFields.map fun n => (n, if m.has n then decFloatEOI (m.get n) else .exact Dbl.zero) }

/-- at least one slot of the signal state is set (`kwargs` non-empty, reader :811) -/
def Sig.any (s : Sig) : Bool :=
  s.t.isSome || s.horn.isSome || s.indicator_left.isSome || s.indicator_right.isSome || s.braking_lights.isSome
    || s.hazard_warning_lights.isSome || s.flashing_blue_lights.isSome

/-- SignalStateFactory (reader :798-811); `none` when no slot is set. -/
def decSig (m : PB) : Option Sig :=
  let s : Sig := { t := if m.has "time_step" then some (decIntEOI (m.get "time_step")) else none,
                   horn := (m.get "horn").optBool, indicator_left := (m.get "indicator_left").optBool,
                   indicator_right := (m.get "indicator_right").optBool, braking_lights := (m.get "braking_lights").optBool,
                   hazard_warning_lights := (m.get "hazard_warning_lights").optBool,
                   flashing_blue_lights := (m.get "flashing_blue_lights").optBool }
  if s.any then some s else none

/-- a signal series entry: the reader appends whatever SignalStateFactory returns; an empty message (which yields Python
    `None`) is represented by the all-unset signal state. -/
def emptySig : Sig := ⟨none, none, none, none, none, none, none⟩
def decSigD (m : PB) : Sig := (decSig m).getD emptySig

/-- OccupancyFactory (reader :814-820) -/
def decOcc (m : PB) : Occ := ⟨decIntEOI (m.get "time_step"), decShape (m.get "shape")⟩

/-- SetBasedPredictionFactory + OccupancySetFactory (reader :823-831, 915-922) -/
def decSetPred (m : PB) : SetPred :=
  ⟨(m.get "initial_time_step").int, (((m.get "occupancy_set").get "occupancies").items).map decOcc⟩

def decPred (m : PB) : Option Pred :=
  if m.has "trajectory_prediction" then
    let p := m.get "trajectory_prediction"
    some (.traj ((p.get "trajectory").get "initial_time_step").int
      ((((p.get "trajectory").get "states").items).map decState) (decShape (p.get "shape")))
  else if m.has "set_based_prediction" then some (.set (decSetPred (m.get "set_based_prediction")))
  else none

def decSig0 (m : PB) : Option Sig :=
  if m.has "initial_signal_state" then decSig (m.get "initial_signal_state") else none

/-- StaticObstacleFactory (reader :589-629), `lanelet_assignment=False` -/
def decStatic (m : PB) : StaticObs :=
  { id := (m.get "static_obstacle_id").int, type := (m.get "obstacle_type").enumD, shape := decShape (m.get "shape"),
    init := decInitState (m.get "initial_state"), sig0 := decSig0 m, series := (m.get "signal_series").items.map decSigD }

/-- DynamicObstacleFactory (reader :632-693), `lanelet_assignment=False` -/
def decDynamic (m : PB) : DynObs :=
  { id := (m.get "dynamic_obstacle_id").int, type := (m.get "obstacle_type").enumD, shape := decShape (m.get "shape"),
    init := decInitState (m.get "initial_state"), pred := decPred m, sig0 := decSig0 m,
    series := (m.get "signal_series").items.map decSigD }

/-- EnvironmentObstacleFactory (reader :696-709) -/
def decEnvObs (m : PB) : EnvObs :=
  ⟨(m.get "environment_obstacle_id").int, (m.get "obstacle_type").enumD, decShape (m.get "obstacle_shape")⟩

/-- PhantomObstacleFactory (reader :712-723) -/
def decPhantom (m : PB) : Phantom :=
  ⟨(m.get "obstacle_id").int, if m.has "prediction" then some (decSetPred (m.get "prediction")) else none⟩

/-- GoalStateFactory (reader :947-956): an empty lanelet list and an absent one are the same thing. -/
def decGoal (m : PB) : Goal := ⟨decState (m.get "state"), decIds (m.get "goal_position_lanelets")⟩

/-- PlanningProblemFactory (reader :925-944) -/
def decPP (m : PB) : PP :=
  ⟨(m.get "planning_problem_id").int, decInitState (m.get "initial_state"), (m.get "goal_states").items.map decGoal⟩

/-- StopLineFactory (reader :379-401): `points[0]`, `points[1]` raise IndexError on fewer than two points. -/
def decStop (m : PB) : Res Stop :=
  match (m.get "points").items with
  | p0 :: p1 :: _ =>
    .ok { start := decPt p0, «end» := decPt p1, lm := (m.get "line_marking").enumD,
          signs := decIds (m.get "traffic_sign_refs"), lights := decIds (m.get "traffic_light_refs") }
  | _ => .error .index

def decDir (p : PB) : Option Bool := if p.isSet then some (p.enumD == "SAME") else none

/-- line marking of a bound: the constructor default NO_MARKING stays when the field is not set (reader :333-337) -/
def decLm (b : PB) : Option String := some (if b.has "line_marking" then (b.get "line_marking").enumD else "NO_MARKING")

/-- LaneletFactory + BoundFactory (reader :303-376) -/
def decLanelet (m : PB) : Res Lanelet := do
  let stop ← if m.has "stop_line" then (decStop (m.get "stop_line")).map some else pure none
  pure { id := (m.get "lanelet_id").int,
         left := ((m.get "left_bound").get "points").items.map decPt,
         right := ((m.get "right_bound").get "points").items.map decPt,
         lm_left := decLm (m.get "left_bound"), lm_right := decLm (m.get "right_bound"),
         pred := decIds (m.get "predecessors"), succ := decIds (m.get "successors"),
         adj_left := (m.get "adjacent_left").optInt, adj_left_same := decDir (m.get "adjacent_left_dir"),
         adj_right := (m.get "adjacent_right").optInt, adj_right_same := decDir (m.get "adjacent_right_dir"),
         stop := stop, types := decEnums (m.get "lanelet_types"), one_way := decEnums (m.get "user_one_way"),
         bidir := decEnums (m.get "user_bidirectional"), signs := decIds (m.get "traffic_sign_refs"),
         lights := decIds (m.get "traffic_light_refs") }

/-- the oneof member that is set, tested in the reader's order (reader :427-502; `else` = Puerto Rico) -/
def signFieldOf (m : PB) : String :=
  ((signCountries.map signField).find? m.has).getD "puerto_rico_element_id"

/-- TrafficSignElementFactory (reader :424-508) -/
def decSignEl (m : PB) : SignEl :=
  let f := signFieldOf m
  ⟨signEnumOfField f, (m.get f).enumD, (m.get "additional_values").items.map PB.strD⟩

/-- TrafficSignFactory (reader :404-421, with first occurrences): position of an unset `Point` reads as (0, 0),
    `virtual` keeps the constructor default False when not set. -/
def decSign (m : PB) : Sign :=
  { id := (m.get "traffic_sign_id").int, elements := (m.get "traffic_sign_elements").items.map decSignEl,
    first := decIds (m.get "first_occurrences"), pos := some (decPt (m.get "position")),
    virtual := some (if m.has "virtual" then (m.get "virtual").boolD else false) }

/-- CycleElementFactory (reader :546-553) -/
def decCycEl (m : PB) : CycEl := ⟨(m.get "color").enumD, (m.get "duration").int⟩

/-- TrafficLightFactory (reader :511-543): constructor defaults offset 0, direction ALL, active = (cycle non-empty). -/
def decLight (m : PB) : Light :=
  let cyc := (m.get "cycle_elements").items.map decCycEl
  { id := (m.get "traffic_light_id").int, cycle := cyc, pos := some (decPt (m.get "position")),
    offset := some (if m.has "time_offset" then (m.get "time_offset").int else 0),
    direction := some (if m.has "direction" then (m.get "direction").enumD else "ALL"),
    active := some (if m.has "active" then (m.get "active").boolD else !cyc.isEmpty) }

/-- IncomingFactory (reader :573-586) -/
def decIncoming (m : PB) : Incoming :=
  ⟨(m.get "incoming_id").int, decIds (m.get "incoming_lanelets"), decIds (m.get "successors_right"),
   decIds (m.get "successors_straight"), decIds (m.get "successors_left"), (m.get "is_left_of").optInt⟩

/-- IntersectionFactory (reader :556-570) -/
def decInter (m : PB) : Inter :=
  ⟨(m.get "intersection_id").int, (m.get "incomings").items.map decIncoming, decIds (m.get "crossing_lanelets")⟩

/-- TimeStampFactory, `cr_time=True` (reader :1083-1110, with day/month/year) -/
def decTm (m : PB) : Tm :=
  ⟨if m.has "hour" then (m.get "hour").int else 0, if m.has "minute" then (m.get "minute").int else 0,
   (m.get "day").optInt, (m.get "month").optInt, (m.get "year").optInt⟩

/-- EnvironmentFactory (reader :280-300) -/
def decEnvr (m : PB) : Envr :=
  ⟨if m.has "time" then some (decTm (m.get "time")) else none, (m.get "time_of_day").optEnum, (m.get "weather").optEnum,
   (m.get "underground").optEnum⟩

/-- GeoTransformationFactory (reader :257-277): `GeoTransformation()` defaults (geo_reference 0 — not a string, so
    outside the snapshot; translations and rotation 0, scaling 1) stay when a field is not set.  The writer sets all
    five, so only the set case is modelled precisely; unset reals read as the proto default here. -/
def decGeo (m : PB) : Geo :=
  ⟨(m.get "geo_reference").strD, (m.get "x_translation").dblD, (m.get "y_translation").dblD, (m.get "z_rotation").dblD,
   (m.get "scaling").dblD⟩

/-- LocationFactory (reader :237-254) -/
def decLoc (m : PB) : Loc :=
  ⟨(m.get "geo_name_id").int, (m.get "gps_latitude").dblD, (m.get "gps_longitude").dblD,
   if m.has "geo_transformation" then some (decGeo (m.get "geo_transformation")) else none,
   if m.has "environment" then some (decEnvr (m.get "environment")) else none⟩

/-- ScenarioInformationFactory (reader :212-223); `ScenarioID.from_benchmark_id` ∘ `str` is C13's round trip. -/
def decInfo (m : PB) : Info :=
  ⟨(m.get "common_road_version").strD, (m.get "benchmark_id").strD, (m.get "author").strD, (m.get "affiliation").strD,
   (m.get "source").strD, (m.get "time_step_size").dblD⟩

def mapRes {α β : Type} (f : α → Res β) : List α → Res (List β)
  | [] => .ok []
  | a :: r => do
    let b ← f a
    let bs ← mapRes f r
    pure (b :: bs)

/-- CommonRoadFactory.create_from_message (reader :140-209), `lanelet_assignment=False`. -/
def decodePb (m : PB) : Res Scn := do
  let lanelets ← mapRes decLanelet (m.get "lanelets").items
  pure { info := decInfo (m.get "information"), tags := decEnums ((m.get "scenario_tags").get "tags"),
         location := decLoc (m.get "location"), lanelets := lanelets,
         signs := (m.get "traffic_signs").items.map decSign, lights := (m.get "traffic_lights").items.map decLight,
         intersections := (m.get "intersections").items.map decInter,
         static := (m.get "static_obstacles").items.map decStatic,
         dynamic := (m.get "dynamic_obstacles").items.map decDynamic,
         env := (m.get "environment_obstacles").items.map decEnvObs,
         phantom := (m.get "phantom_obstacles").items.map decPhantom,
         pps := (m.get "planning_problems").items.map decPP }

/-! ## What a write → read is expected to return (`normPb`) -/

/-- an initial state reads back with its unset attributes at the reader's documented default 0 -/
def normInit (s : St) : St :=
  { cls := "InitialState", t := s.t, pos := some (s.pos.getD (.point ⟨Dbl.zero, Dbl.zero⟩)),
    attrs := initFields.map fun n => (n, (s.attrs.lookup n).getD (.exact Dbl.zero)) }

/-- any other state keeps time step, position and attributes; the class is re-derived from the populated attributes -/
def normState (s : St) : St := { s with cls := (matchClass (encState s)).getD "CustomState" }

def normPred : Pred → Pred
  | .traj t0 states shape => .traj t0 (states.map normState) shape
  | .set p => .set p

/-- a signal state object without any slot reads back as "no signal state" (reader :811) -/
def normSig0 (o : Option Sig) : Option Sig := o.bind fun s => if s.any then some s else none

def normStatic (o : StaticObs) : StaticObs := { o with init := normInit o.init, sig0 := normSig0 o.sig0 }
def normDynamic (o : DynObs) : DynObs :=
  { o with init := normInit o.init, pred := o.pred.map normPred, sig0 := normSig0 o.sig0 }
def normGoal (g : Goal) : Goal := { g with state := normState g.state }
def normPP (p : PP) : PP := { p with init := normInit p.init, goals := p.goals.map normGoal }

/-- constructor defaults the reader leaves in place when the writer did not set the field (the public accessors never
    return `None` for these, so on snapshots of real objects these four functions are the identity: `…_of_typed`) -/
def normLanelet (l : Lanelet) : Lanelet :=
  { l with lm_left := some (l.lm_left.getD "NO_MARKING"), lm_right := some (l.lm_right.getD "NO_MARKING") }

/-- a traffic sign element id of a class the format has no oneof member for is written into (and read back from) the
    Puerto Rico member -/
def normSignEl (e : SignEl) : SignEl := { e with country := signEnumOfField (signField e.country) }

def normSign (s : Sign) : Sign :=
  { s with elements := s.elements.map normSignEl, pos := some (s.pos.getD ⟨Dbl.zero, Dbl.zero⟩),
           virtual := some (s.virtual.getD false) }

def normLight (t : Light) : Light :=
  { t with pos := some (t.pos.getD ⟨Dbl.zero, Dbl.zero⟩), offset := some (t.offset.getD 0),
           direction := some (t.direction.getD "ALL"), active := some (t.active.getD (!t.cycle.isEmpty)) }

def normPb (x : Scn) : Scn :=
  { x with lanelets := x.lanelets.map normLanelet, signs := x.signs.map normSign, lights := x.lights.map normLight,
           static := x.static.map normStatic, dynamic := x.dynamic.map normDynamic, pps := x.pps.map normPP }

/-! ## Admissible snapshots -/

/-- the keys of `kvs` occur in `all`, in the same order (each at most once when `all` has no duplicates) -/
def subOrdered {β : Type} : List (String × β) → List String → Bool
  | [], _ => true
  | _ :: _, [] => false
  | kv :: r, a :: as => if kv.1 == a then subOrdered r as else subOrdered (kv :: r) as

/-- the populated float attributes of a state are fields of message `State`, listed in descriptor order
    (what `c02_snapshot.state` produces for every state whose attributes the format has a field for) -/
def St.wf (s : St) : Bool := subOrdered s.attrs stateFields

def Pred.wf : Pred → Bool
  | .traj _ states _ => states.all St.wf
  | .set _ => true

/-- admissible snapshot: every state's attributes are fields of message `State`, listed in descriptor order (a state's
    populated attributes form a MAP name ↦ value; the snapshot lists that map in the one canonical order) -/
def Scn.wf (x : Scn) : Bool :=
  x.static.all (fun o => o.init.wf) &&
  x.dynamic.all (fun o => o.init.wf && (match o.pred with | some p => p.wf | none => true)) &&
  x.pps.all (fun p => p.init.wf && p.goals.all (fun g => g.state.wf))

/-- the snapshot of real objects: the accessors of lanelets, signs and lights never return `None` for these -/
def Scn.typed (x : Scn) : Bool :=
  x.lanelets.all (fun l => l.lm_left.isSome && l.lm_right.isSome) &&
  x.signs.all (fun s => s.pos.isSome && s.virtual.isSome && s.elements.all (fun e => signCountries.contains e.country)) &&
  x.lights.all (fun t => t.pos.isSome && t.offset.isSome && t.direction.isSome && t.active.isSome)

/-! ## Which class a state reads back as — stated on the Python side (no encoder / decoder involved) -/

/-- The class a populated-attribute set denotes: the first class of `SpecificStateClasses` whose dataclass attributes are
    exactly `time_step`, `position` (iff the state has one) and the populated float attributes `keys` (as many attributes as
    populated ones, each of them populated); none = a custom state. -/
def specClassK (hasPos : Bool) (keys : List String) : Option String :=
  (stateClasses.find? fun c =>
      c.2.length == (if hasPos then 1 else 0) + keys.length + 1 &&
      c.2.all (fun a => if a == "position" then hasPos else if a == "time_step" then true else keys.contains a)).map (·.1)

def St.specClass (s : St) : String := (specClassK s.pos.isSome (s.attrs.map Prod.fst)).getD "CustomState"

/-- the float attributes of a class that message `State` has a field for, in descriptor order -/
def ownKeys (c : String × List String) : List String := stateFields.filter (fun n => c.2.contains n)

/-- every attribute of the class can be written: it is `time_step`, `position` or a field of message `State` -/
def writableClass (c : String × List String) : Bool :=
  c.2.all (fun a => a == "time_step" || a == "position" || stateFields.contains a)

/-! ## Canonical snapshots: the content the format can hold, in the form the reader returns it -/

/-- an initial state in the form the reader returns it: class `InitialState`, a position, exactly the five float attributes
    of `InitialState` (all populated) -/
def St.initFull (s : St) : Bool :=
  s.wf && s.cls == "InitialState" && s.pos.isSome && s.attrs.map Prod.fst == initFields

/-- an initial state the format can hold without loss: it has a position and populates nothing but attributes of
    `InitialState` (what `Obstacle.initial_state` enforces and `PlanningProblem.initial_state` is annotated with) -/
def St.initOk (s : St) : Bool := s.pos.isSome && s.attrs.all (fun kv => initFields.contains kv.1)

/-- a state whose class name is the one its populated attributes denote -/
def St.canon (s : St) : Bool := s.wf && s.cls == s.specClass

def sig0Canon : Option Sig → Bool
  | some s => s.any
  | none => true

def Pred.canon : Pred → Bool
  | .traj _ states _ => states.all St.canon
  | .set _ => true

/-- canonical snapshot: initial states fully populated, every other state carries the class its attributes denote, a
    present initial signal state has at least one slot -/
def Scn.canon (x : Scn) : Bool :=
  x.static.all (fun o => o.init.initFull && sig0Canon o.sig0) &&
  x.dynamic.all (fun o => o.init.initFull && sig0Canon o.sig0 && (match o.pred with | some p => p.canon | none => true)) &&
  x.pps.all (fun p => p.init.initFull && p.goals.all (fun g => g.state.canon))

end CR.PBF
