/-
  CRModel.PyExtC11 — fixed vocabulary of the C11 translator (harness/translate/src_c11.py → Gen.SrcC11).

  Part A (structural extraction).  From the `ast` of every mutating method of the cache-owning classes the translator
  emits its DIRECT effects on `self` in source order (`Method`, `Eff`, `Op`, `Guard` below): attribute assignments, `del`,
  item assignments / deletions, mutating calls on a held list / dict, calls of own methods, calls on held objects, loops
  over held objects.  Everything else in this file is hand-written and fixed:
    * `flatten`  resolves own-method calls, property setters, delegation to held objects (`holds`: which class an attribute
      holds — trusted typing of the attributes) into the primitive effects (`Prim`) a call of the method has, in order;
    * `fieldsOf` says which primary-data field of the model (`CR.Cache.Field`) a primitive write changes;
    * `derivedAct` reads off, per cache (`CR.Cache.Item`), which `Action` the primitive effects amount to (must-analysis:
      an invalidation under a guard that is not on the white list `Guard.benign` does not count; a write under any guard does).
  lean/CRProps/T11.lean proves the model's table (`CR.Cache.act`, `CR.Cache.writesOf`) equal to what these functions compute
  from the generated table, by `decide` (a finite table checked completely).

  Part B (functional translation).  Denotations used by the generated token-level definitions (`sliceFrom`, …).
  Core Lean only.
-/
import CRModel.Cache
namespace CR.PyC11
open CR.Cache

/-! ## Part A: effect tables -/

/-- The condition an effect stands under (one entry per enclosing `if`, early `return`s included). -/
inductive Guard where
  | param (name : String) (pos : Bool)      -- `if <parameter>:` (pos) / `if not <parameter>:` or the else branch (¬pos)
  | has (attr : String) (pos : Bool)        -- `hasattr(self, "attr")` / `"attr" in self.__dict__`
  | notNone (attr : String) (pos : Bool)    -- `self.attr is not None` / truthiness of `self.attr`
  | member (attr : String) (pos : Bool)     -- `<key> in self.attr` / `in self.attr.keys()`
  | other (text : String)                   -- any other test (source text)
  deriving DecidableEq, Repr, Inhabited

/-- One direct effect of a method on `self`. -/
inductive Op where
  | assign (attr : String) (isNone : Bool) (srcs : List String)  -- `self.attr = e`; `srcs`: the `self` attributes `e` reads
  | del (attr : String)                          -- `del self.attr`
  | setItem (attr : String)                      -- `self.attr[k] = v`
  | delItem (attr : String)                      -- `del self.attr[k]`
  | mutCall (attr meth : String)                 -- `self.attr.append(…)` and the other mutating methods of list / dict / set
  | call (meth : String) (consts : List (String × Bool))   -- `self.meth(…, kw=True/False)`: constant boolean keyword arguments
  | callOn (attr meth : String)                  -- `self.attr.meth(…)`, any other method: delegation to a held object
  | forEach (attr meth : String)                 -- `for x in self.attr[.values()]: x.meth(…)`
  deriving DecidableEq, Repr, Inhabited

structure Eff where
  guards : List Guard
  op : Op
  deriving DecidableEq, Repr, Inhabited

/-- `kind`: "method" | "setter" | "getter" | "cached_property". `reads`: the `self` attributes the body reads. -/
structure Method where
  cls : String
  name : String
  kind : String
  effs : List Eff
  reads : List String
  deriving DecidableEq, Repr, Inhabited

/-- The generated table: methods and the base classes of every class (from the `class C(B):` headers). -/
structure Table where
  methods : List Method
  bases : List (String × List String)
  deriving Repr, Inhabited

/-- A primitive effect after resolution: on an object of class `cls`, inside method `via`. -/
structure Prim where
  cls : String
  via : String
  guards : List Guard
  op : Op
  deriving DecidableEq, Repr, Inhabited

/-- Python attribute names `_x` / `x` (private field / its property) denote the same datum. -/
def bare (a : String) : String :=
  match a.toList with
  | '_' :: r => String.ofList r
  | _ => a

def Table.basesOf (t : Table) (c : String) : List String :=
  match t.bases.find? (fun p => p.1 == c) with
  | some p => p.2
  | none => []

/-- Method resolution: the class itself, then its bases, then theirs (depth 2 suffices for the anchored classes). -/
def Table.mro (t : Table) (c : String) : List String :=
  let b1 := t.basesOf c
  c :: b1 ++ b1.flatMap t.basesOf

def Table.find (t : Table) (c name : String) (setter : Bool) : Option Method :=
  (t.mro c).findSome? fun k =>
    t.methods.find? fun m => m.cls == k && m.name == name && (if setter then m.kind == "setter" else m.kind == "method")

/-- Which classes the objects an attribute holds (or the elements of the container it holds) belong to.
    Hand-written: the typing of the attributes (constructor annotations in the source). -/
def holds (cls attr : String) : List String :=
  match cls, bare attr with
  | "TrajectoryPrediction", "trajectory" => ["Trajectory"]
  | "DynamicObstacle", "prediction" => ["TrajectoryPrediction"]
  | "LaneletNetwork", "lanelets" => ["Lanelet"]
  | "Scenario", "lanelet_network" => ["LaneletNetwork"]
  | "Scenario", "obstacles" => ["DynamicObstacle", "StaticObstacle"]
  | _, _ => []

/-- A callee's effects under constant boolean arguments: effects whose guard contradicts a constant cannot happen,
    guards the constant satisfies are discharged. -/
def specialise (consts : List (String × Bool)) (ps : List Prim) : List Prim :=
  ps.filterMap fun p =>
    if p.guards.any (fun g => match g with | .param n pos => consts.contains (n, !pos) | _ => false) then none
    else some { p with guards := p.guards.filter fun g => match g with | .param n pos => !consts.contains (n, pos) | _ => true }

def under (g : List Guard) (ps : List Prim) : List Prim := ps.map fun p => { p with guards := g ++ p.guards }

/-- Primitive effects of calling `m` on an object of class `cls`, in source order; own calls, property setters and
    delegations are resolved up to depth `fuel`. -/
def flatten (t : Table) : Nat → String → Method → List Prim
  | 0, _, _ => []
  | fuel + 1, cls, m =>
    m.effs.flatMap fun e =>
      match e.op with
      | .assign a _ _ =>
        match t.find cls a true with
        | some s => under e.guards (flatten t fuel cls s)       -- `self.a = v` where `a` is a property with a setter
        | none => [⟨cls, m.name, e.guards, e.op⟩]
      | .call f consts =>
        match t.find cls f false with
        | some s => under e.guards (specialise consts (flatten t fuel cls s))
        | none => []
      | .callOn a f =>
        (holds cls a).flatMap fun c =>
          match t.find c f false with
          | some s => under e.guards (flatten t fuel c s)
          | none => []
      | .forEach a f =>
        (holds cls a).flatMap fun c =>
          match t.find c f false with
          | some s => under e.guards (flatten t fuel c s)
          | none => []
      | _ => [⟨cls, m.name, e.guards, e.op⟩]

def Table.prims (t : Table) (cls name : String) (setter : Bool) : List Prim :=
  match t.find cls name setter with
  | some m => flatten t 6 cls m
  | none => []

/-- The attribute a primitive effect changes. -/
def Op.target : Op → Option String
  | .assign a _ _ => some a
  | .del a => some a
  | .setItem a => some a
  | .delItem a => some a
  | .mutCall a _ => some a
  | _ => none

/-- A write that can only happen while the attribute does not exist yet (`if not hasattr(self, "_x"): self._x = …`):
    construction, not mutation. -/
def Prim.initOnly (p : Prim) : Bool :=
  match p.op.target with
  | some a => p.guards.any fun g => g == .has a false || g == .has (bare a) false
  | none => false

def isObstacle (c : String) : Bool := c == "Obstacle" || c == "StaticObstacle" || c == "DynamicObstacle"

/-- Which primary-data fields of the model a primitive write changes.  For the three vertex arrays of a lanelet the
    answer depends on the method: a rigid motion keeps the segment lengths (`lanIntrinsic`; C03/C06), dropping z keeps the
    x-y footprint (`lanFootprint`); a vertex setter may change everything. -/
def fieldsOf (p : Prim) : List Field :=
  if p.initOnly then [] else
  match p.op.target with
  | none => []
  | some a =>
    match p.cls, bare a with
    | "TrajectoryPrediction", "shape" => [.predShape]
    | "TrajectoryPrediction", "trajectory" => [.predTrajectory]
    | "TrajectoryPrediction", "wheelbase_lenghts" => [.predWheelbaseDead]     -- sic: the setter's own (misspelt) attribute
    | "TrajectoryPrediction", "shape_lanelet_assignment" => [.predAssignment]
    | "TrajectoryPrediction", "center_lanelet_assignment" => [.predAssignment]
    | "Trajectory", "state_list" => [.predTrajectory]
    | "Trajectory", "initial_time_step" => [.predTrajectory]
    | "LaneletNetwork", "lanelets" => [.netLaneletSet]
    | "TrafficLightCycle", "cycle_elements" => [.cycDurations, .cycStates]
    | "TrafficLightCycle", "time_offset" => [.cycOffset]
    | "TrafficLightCycle", "active" => [.cycActive]
    | "Lanelet", x =>
      if x == "center_vertices" || x == "left_vertices" || x == "right_vertices" then
        (if p.via == "translate_rotate" then [.lanVertices, .lanFootprint]
         else if p.via == "convert_to_2d" then [.lanVertices, .lanIntrinsic]
         else [.lanVertices, .lanIntrinsic, .lanFootprint])
      else []
    | c, x =>
      if isObstacle c then
        (if x == "initial_state" then [.obsInitialState]
         else if x == "obstacle_shape" then [.obsShape]
         else if x == "prediction" then [.obsPrediction, .predShape, .predTrajectory, .predAssignment]  -- another prediction object
         else if x == "history" || x == "signal_history" || x == "center_lanelet_ids_history"
                 || x == "shape_lanelet_ids_history" then [.obsHistory]
         else [])
      else []

def dedup (l : List Field) : List Field := l.foldl (fun acc f => if acc.contains f then acc else acc ++ [f]) []

def writesFrom (ps : List Prim) : List Field := dedup (ps.flatMap fieldsOf)

def sameSet (a b : List Field) : Bool := a.all b.contains && b.all a.contains

/-- White list of guards under which an invalidation still counts as happening (`tgt`: the attribute the effect is on):
    `rtree` (default True; the model treats `rtree=False` as its own case), "only if there is something cached"
    (`hasattr(self, a)` / `a in self.__dict__` around an effect on `a` itself), "only if there is an object to delegate to"
    (`is not None` on the prediction / stop line), "only if the key is there / not there" on `_lanelets`. -/
def Guard.benign (tgt : Option String) : Guard → Bool
  | .param n pos => n == "rtree" && pos
  | .has a pos => pos && (match tgt with | some b => bare a == bare b | none => false)
  | .notNone a pos => pos && (bare a == "prediction" || bare a == "stop_line")
  | .member a _ => bare a == "lanelets"
  | .other _ => false

def Prim.must (p : Prim) : Bool := p.guards.all (Guard.benign p.op.target)

/-- Where each cache lives: (is this the owner class?, attribute). -/
def cacheAttr : Item → (String → Bool) × String
  | .occupancySet => (fun c => c == "TrajectoryPrediction", "occupancy_set")
  | .initialOccupancy => (isObstacle, "initial_occupancy_shape")
  | .laneletPolygon => (fun c => c == "Lanelet", "polygon")
  | .laneletDistance => (fun c => c == "Lanelet", "distance")
  | .laneletInnerDistance => (fun c => c == "Lanelet", "inner_distance")
  | .networkIndex => (fun c => c == "LaneletNetwork", "buffered_polygons")
  | .cycleInit => (fun c => c == "TrafficLightCycle", "cycle_init_timesteps")

def Prim.hits (p : Prim) (i : Item) : Bool :=
  (cacheAttr i).1 p.cls && (match p.op.target with | some a => bare a == (cacheAttr i).2 | none => false)

/-- Does a later primitive effect overwrite one of the `self` attributes `srcs` (of an object of class `cls`)? -/
def overwrittenLater (cls : String → Bool) (srcs : List String) (later : List Prim) : Bool :=
  later.any fun q => cls q.cls && (match q.op.target with
    | some b => srcs.any (fun s => bare s == bare b)
    | none => false)

/-- An eager recomputation `self._cache = f(self.a, self.b, …)` is good if none of `a, b, …` is assigned afterwards
    (it would have been computed from the old value). -/
def goodRecompute (i : Item) (p : Prim) (later : List Prim) : Bool :=
  match p.op with
  | .assign _ false srcs => !(overwrittenLater (cacheAttr i).1 srcs later)
  | _ => false

/-- Suffixes: every primitive effect together with the ones after it. -/
def withLater : List Prim → List (Prim × List Prim)
  | [] => []
  | p :: r => (p, r) :: withLater r

/-- Replacing the object that owns the cache (`obstacle._prediction = …`): the old object's cache is gone with it. -/
def ownerReplaced (i : Item) (ps : List Prim) : Bool :=
  match i with
  | .occupancySet => ps.any fun p => p.must && isObstacle p.cls &&
      (match p.op with | .assign a _ _ => bare a == "prediction" | _ => false)
  | _ => false

/-- The action a sequence of primitive effects amounts to on cache `i`. -/
def derivedAct (i : Item) (ps : List Prim) : Action :=
  let touching := (withLater ps).filter fun x => x.1.hits i
  match i with
  | .networkIndex =>
    -- `_buffered_polygons` + `_strtee`: a wholesale reassignment from the lanelets, or item-wise patches that mirror the
    -- item-wise changes of `_lanelets`; either way followed by `_create_strtree()` (assigns `_strtee`)
    let treeAfter (later : List Prim) : Bool := later.any fun q =>
      q.must && q.cls == "LaneletNetwork" && (match q.op with | .assign a false _ => bare a == "strtee" | _ => false)
    let whole := touching.any fun x => x.1.must && treeAfter x.2 &&
      (match x.1.op with
       | .assign _ false srcs => srcs.any (fun s => bare s == "lanelets") &&
           !(x.2.any fun q => q.cls == "Lanelet" && (fieldsOf q != [] || q.hits .laneletPolygon))
       | _ => false)
    let kinds (attr : String) : List (Bool × List Guard) := ps.filterMap fun p =>
      if p.cls == "LaneletNetwork" then
        match p.op with
        | .setItem a => if bare a == attr then some (true, p.guards) else none
        | .delItem a => if bare a == attr then some (false, p.guards) else none
        | _ => none
      else none
    let patched := touching.any fun x => x.1.must && treeAfter x.2 &&
      (match x.1.op with | .setItem _ => true | .delItem _ => true | _ => false)
    if whole then .recompute
    else if patched && kinds "lanelets" == kinds "buffered_polygons" then .update
    else .keep
  | _ =>
    if ownerReplaced i ps then .drop else
    -- the last word counts: look at the effects on the cache attribute in order
    let musts := touching.filter fun x => x.1.must
    let mays := touching.filter fun x => !x.1.must
    match musts.getLast? with
    | none => .keep
    | some (p, later) =>
      -- every conditional effect after the last unconditional one has to be of the same kind
      let sameKind (q : Prim × List Prim) : Bool :=
        match p.op, q.1.op with
        | .assign _ true _, .assign _ true _ => true
        | .assign _ false _, .assign _ false _ => goodRecompute i q.1 q.2
        | .del _, .del _ => true
        | _, _ => false
      if !(mays.all sameKind) then .keep else
      match p.op with
      | .del _ => .drop
      | .assign _ true _ => .drop
      | .assign _ false _ => if goodRecompute i p later then .recompute else .keep
      | _ => .keep

/-- One row of the binding between the model's mutators and the methods of the code. -/
structure Binding where
  mutator : Mut
  cls : String
  name : String
  setter : Bool
  items : List Item     -- the caches this method can reach (a static obstacle has no prediction, …): the pairs the tie is stated for
  deriving Repr

/-! ## Part B: denotations for the functional translation -/

/-- Python `l[k:]`: from index `k`; a negative `k` counts from the end (and stops at the beginning). -/
def sliceFrom {α : Type} (l : List α) (k : Int) : List α :=
  if k < 0 then l.drop (l.length - (-k).toNat) else l.drop k.toNat

end CR.PyC11
