/-
  CRModel.TrafficLight — model of `TrafficLightCycle.cycle_init_timesteps` and
  `TrafficLightCycle.get_state_at_time_step` (commonroad/scenario/traffic_light.py:165-178)
  and of `TrafficLight.get_state_at_time_step` (:367-368).

  A cycle element is `(state, duration)`; states are opaque naturals (enum ordinals).
-/
import CRModel.Basic
namespace CR.TL

abbrev Elem := Nat × Int

def durations (es : List Elem) : List Int := es.map (·.2)

/-- `np.insert(np.cumsum(durations) + time_offset, 0, time_offset)` -/
def initSteps (es : List Elem) (off : Int) : List Int :=
  off :: (cumsum (durations es)).map (· + off)

def total (es : List Elem) : Int := sumInt (durations es)

/-- `get_state_at_time_step`, verbatim:
    `time_step_mod = ((t - off) % (init[-1] - off)) + off`
    `i_cycle = np.argmax(time_step_mod < init) - 1`
    `return cycle_elements[i_cycle].state`            -/
def stateAt (es : List Elem) (off t : Int) : Res Nat :=
  let init := initSteps es off
  match pyGet? init (-1) with
  | none => .error .index
  | some last =>
    let period := last - off
    if period = 0 then .error .zeroDiv else
    let tm := (t - off).fmod period + off      -- Python `%`: sign of the divisor
    let i : Int := (argmaxLt tm init : Int) - 1
    match pyGet? es i with
    | none => .error .index
    | some e => .ok e.1

/-- `TrafficLight.get_state_at_time_step` delegates to its cycle. -/
def lightStateAt (es : List Elem) (off t : Int) : Res Nat := stateAt es off t

/-- Specification: walk the element list, subtracting durations. -/
def specAt : List Elem → Int → Option Nat
  | [], _ => none
  | (s, d) :: rest, k => if k < d then some s else specAt rest (k - d)

/-- Admissible cycles: at least one element, every duration positive. -/
def Admissible (es : List Elem) : Prop := es ≠ [] ∧ ∀ e ∈ es, 0 < e.2

end CR.TL
