/-
  CRModel.Occupancy — which state / occupancy an obstacle reports at a time step.
    Trajectory.state_at_time_step                   (scenario/trajectory.py:133-143)
    Prediction.occupancy_at_time_step               (prediction/prediction.py:121-138)
    TrajectoryPrediction._create_occupancy_set      (prediction/prediction.py:389-404)
    Static/Dynamic/Phantom/EnvironmentObstacle.occupancy_at_time / state_at_time
                                                    (scenario/obstacle.py:419-435, 612-642, 797-818, 954-961)
    Scenario.occupancies_at_time_step / obstacle_states_at_time_step / obstacles_by_role_and_type /
    obstacles_by_position_intervals                 (scenario/scenario.py:1046-1201)

  The *placement* of a shape at a pose is symbolic here (`Occ.placed i` = "the obstacle's shape placed at
  the i-th trajectory state"); the geometry of placing is modelled in CRModel/Rigid.lean and checked by
  the oracle. States carry their own `time_step` because the code pairs occupancies with states through it.
-/
import CRModel.Basic
import CRModel.Interval
namespace CR.Occ

/-- Time stamp of a stored occupancy: an exact step or a closed interval of steps. -/
inductive TS where
  | step (t : Int)
  | ival (lo hi : Int)
  deriving DecidableEq, Repr

def TS.contains : TS → Int → Bool
  | .step s, t => s == t
  | .ival lo hi, t => lo ≤ t && t ≤ hi

/-- A prediction. `traj t0 ts`: trajectory with initial time step `t0` whose i-th state has time step `ts[i]`. -/
inductive Pred where
  | none
  | traj (t0 : Int) (ts : List Int)
  | setBased (occs : List TS)
  deriving Repr

/-- `prediction is not None` / `is None` and `type(prediction) is SetBasedPrediction` on the modelled prediction. -/
def Pred.isSome : Pred → Bool
  | .none => false
  | _ => true
def Pred.isNone (p : Pred) : Bool := !p.isSome
def Pred.isSetBased : Pred → Bool
  | .setBased _ => true
  | _ => false

/-- What an obstacle answers for its occupancy. -/
inductive Occ where
  | init            -- shape placed at the initial state
  | placed (i : Nat) -- shape placed at trajectory state number i
  | stored (i : Nat) -- the i-th stored occupancy of a set-based prediction
  | shape           -- the bare shape (environment obstacle)
  deriving DecidableEq, Repr

/-- Which state an obstacle answers. -/
inductive StRef where
  | init
  | traj (i : Nat)
  deriving DecidableEq, Repr

inductive Obst where
  | static (tInit : Int)
  | dynamic (tInit : Int) (p : Pred)
  | phantom (p : Option (List TS))
  | environment
  deriving Repr

/-- `Trajectory.state_at_time_step`: index arithmetic on the initial time step. -/
def trajStateAt (t0 : Int) (n : Nat) (t : Int) : Option Nat :=
  if t0 ≤ t ∧ t < t0 + n then some (t - t0).toNat else none

/-- First index whose entry satisfies `p` (the `for occ in occupancy_set: … return occ` scan). -/
def findIdx {α : Type} (p : α → Bool) : List α → Nat → Option Nat
  | [], _ => none
  | a :: as, i => if p a then some i else findIdx p as (i + 1)

/-- `Prediction.occupancy_at_time_step` for the two prediction kinds. For a trajectory prediction the
    occupancy set has one entry per state, stamped with that state's own time step. -/
def predOccAt : Pred → Int → Option Occ
  | .none, _ => none
  | .traj _ ts, t => (findIdx (fun s => s == t) ts 0).map Occ.placed
  | .setBased occs, t => (findIdx (fun o => o.contains t) occs 0).map Occ.stored

/-- `TrajectoryPrediction._create_occupancy_set` (prediction/prediction.py:389-411), seen through its time stamps: ONE occupancy
    per state of the trajectory, in the order of the state list, stamped with THAT state's own time step and holding the
    shape placed at THAT state (`Occ.placed i` for state number `i`). -/
def occSetFrom : List Int → Nat → List (TS × Occ)
  | [], _ => []
  | t :: r, i => (.step t, .placed i) :: occSetFrom r (i + 1)
def occSetOf (ts : List Int) : List (TS × Occ) := occSetFrom ts 0

/-- `Prediction.occupancy_at_time_step` (prediction/prediction.py:121-138) on an explicit occupancy list: the first entry
    whose time stamp contains `t`. -/
def lookupOcc (occs : List (TS × Occ)) (t : Int) : Option Occ :=
  ((findIdx (fun e : TS × Occ => e.1.contains t) occs 0).bind (occs[·]?)).map (·.2)

/-- `prediction.trajectory.state_at_time_step(t)` (only a trajectory prediction has a trajectory). -/
def Pred.trajStateAt : Pred → Int → Option StRef
  | .traj t0 ts, t => (CR.Occ.trajStateAt t0 ts.length t).map StRef.traj
  | _, _ => Option.none

def occupancyAt : Obst → Int → Option Occ
  | .static _, _ => some .init
  | .dynamic tInit p, t =>
    if t = tInit then some .init
    else if t > tInit then predOccAt p t else none
  | .phantom none, _ => none
  | .phantom (some occs), t => predOccAt (.setBased occs) t
  | .environment, _ => some .shape

def stateAt : Obst → Int → Option StRef
  | .static _, _ => some .init
  | .dynamic tInit p, t =>
    if t = tInit then some .init
    else match p with
      | .setBased _ => none
      | .traj t0 ts => if t > tInit then (trajStateAt t0 ts.length t).map StRef.traj else none
      | .none => none
  | .phantom _, _ => none
  | .environment, _ => none

/-! ### scenario-level queries (obstacles are identified by their position in the list) -/

inductive Role where
  | static | dynamic | phantom | environment
  deriving DecidableEq, Repr

def Obst.role : Obst → Role
  | .static _ => .static | .dynamic _ _ => .dynamic | .phantom _ => .phantom | .environment => .environment

/-- `Scenario.occupancies_at_time_step(t, role)`. -/
def occupanciesAt (obs : List (Nat × Obst)) (t : Int) (role : Option Role) : List (Nat × Occ) :=
  obs.filterMap fun (i, o) =>
    if role = none ∨ role = some o.role then (occupancyAt o t).map (fun oc => (i, oc)) else none

/-- `Scenario.obstacle_states_at_time_step(t)`: dynamic obstacles with a state at `t`, all static ones. -/
def statesAt (obs : List (Nat × Obst)) (t : Int) : List (Nat × StRef) :=
  obs.filterMap fun (i, o) =>
    match o with
    | .dynamic _ _ => (stateAt o t).map (fun s => (i, s))
    | .static _ => some (i, .init)
    | _ => none

/-- `Scenario.obstacles_by_role_and_type`; an obstacle's type is `none` for phantom obstacles (they have no
    `obstacle_type`), which therefore never match a type filter. -/
def byRoleType (obs : List (Nat × Obst × Option Nat)) (role : Option Role) (ty : Option Nat) : List Nat :=
  obs.filterMap fun (i, o, oty) =>
    if (role = none ∨ role = some o.role) ∧ (ty = none ∨ (ty.isSome ∧ ty = oty)) then some i else none

/-- `contained_in_interval` of `obstacles_by_position_intervals`, applied to what the obstacle offers as its centre
    (`none`: the shape has no `center` attribute — a `ShapeGroup` — and the obstacle is listed unconditionally). -/
def centreIn (ix iy : CR.Iv.I) : Option (Rat × Rat) → Bool
  | none => true
  | some c => CR.Iv.contains ix c.1 && CR.Iv.contains iy c.2

/-- One of the four loops of `obstacles_by_position_intervals`: the obstacles of role `r` (when `r` was requested), in
    scenario order; dynamic and phantom obstacles need an occupancy at `t`. -/
def posPass (obs : List (Nat × Obst)) (ctr : Nat → Option (Rat × Rat)) (ix iy : CR.Iv.I) (roles : List Role) (t : Int)
    (r : Role) : List Nat :=
  if r ∈ roles then
    obs.filterMap fun x =>
      if x.2.role = r ∧ ((r = .dynamic ∨ r = .phantom) → (occupancyAt x.2 t).isSome) ∧ centreIn ix iy (ctr x.1) then some x.1
      else none
  else []

/-- `Scenario.obstacles_by_position_intervals([ix, iy], roles, t)` (scenario/scenario.py:1131-1184).  `ctr i` is the centre
    obstacle `i` offers at `t`: of its occupancy's shape (dynamic, phantom), its initial position (static), of its
    shape (environment).  Four passes in this order: dynamic, phantom, static, environment. -/
def byPosition (obs : List (Nat × Obst)) (ctr : Nat → Option (Rat × Rat)) (ix iy : CR.Iv.I)
    (roles : List Role) (t : Int) : List Nat :=
  posPass obs ctr ix iy roles t .dynamic ++ posPass obs ctr ix iy roles t .phantom ++
    posPass obs ctr ix iy roles t .static ++ posPass obs ctr ix iy roles t .environment

/-- `Scenario.occupancies_at_time_step` / `obstacle_states_at_time_step` with their `is_natural_number(time_step)` assertion
    (scenario/scenario.py:1067-1072, 1205-1208): a negative time step is rejected, nothing is computed. -/
def occupanciesAtChk (obs : List (Nat × Obst)) (t : Int) (role : Option Role) : Res (List (Nat × Occ)) :=
  if t < 0 then .error .assert else .ok (occupanciesAt obs t role)

def statesAtChk (obs : List (Nat × Obst)) (t : Int) : Res (List (Nat × StRef)) :=
  if t < 0 then .error .assert else .ok (statesAt obs t)

/-! ### histories of ONE obstacle: the public mutators that can change its answers
  (scenario/obstacle.py:242-257 `initial_state` setter, 563-570 / 774-780 `prediction` setters, 668-728
  `update_initial_state` / `update_prediction`; prediction/prediction.py:185-197 `occupancy_set` setter, 306-329 `shape` /
  `trajectory` setters).  A replaced trajectory / occupancy list / prediction is `setPrediction` with the new content;
  everything else the public interface offers (optional attributes, the "immutable" setters that only warn, re-assigning
  the object a getter returned, a failed `update_initial_state`, read-only queries) is `keep`. -/
inductive Mut where
  | setInitial (t : Int)                    -- `o.initial_state = InitialState(time_step = t, …)` (static, dynamic)
  | setPrediction (p : Pred)                -- `o.prediction = p`, `o.update_prediction(p, …)`, setters of the held prediction
  | setPhantom (p : Option (List TS))       -- `phantom.prediction = p`, `phantom.prediction.occupancy_set = …`
  | updateInitial (t : Int)                 -- `o.update_initial_state(state of step t, …)`: prediction invalidated
  | keep
  deriving Repr

def Obst.apply : Obst → Mut → Obst
  | .static _, .setInitial t => .static t
  | .dynamic _ p, .setInitial t => .dynamic t p
  | .dynamic t _, .setPrediction p => .dynamic t p
  | .dynamic _ _, .updateInitial t => .dynamic t .none
  | .phantom _, .setPhantom p => .phantom p
  | o, _ => o

def Obst.run (o : Obst) (ms : List Mut) : Obst := ms.foldl Obst.apply o

/-! ### histories of a SCENARIO's obstacle population (scenario/scenario.py:687-766 `add_objects`, 849-895 `remove_obstacle`,
  665-676 `obstacles`, 1356-1367 `_mark_object_id_as_used`): four insertion-ordered dictionaries, one id pool. -/
structure Scn where
  st : List (Nat × Obst) := []
  dy : List (Nat × Obst) := []
  ph : List (Nat × Obst) := []
  en : List (Nat × Obst) := []
  used : List Nat := []          -- ids held by other scenario objects (lanelets, signs, …)
  deriving Repr

/-- `Scenario.obstacles`: static, dynamic, phantom, environment — each in insertion order. -/
def Scn.obstacles (s : Scn) : List (Nat × Obst) := s.st ++ s.dy ++ s.ph ++ s.en

def Scn.idUsed (s : Scn) (i : Nat) : Bool := s.used.contains i || s.obstacles.any (fun x => x.1 == i)

/-- `Scenario.obstacle_by_id(i)` (scenario/scenario.py:1086-1112): the four dictionaries are asked in the order static,
    dynamic, phantom, environment — the first obstacle of `Scenario.obstacles` carrying the id; `none` (and a warning) when
    no dictionary has it. -/
def Scn.byId (s : Scn) (i : Nat) : Option (Nat × Obst) := s.obstacles.find? (fun x => x.1 == i)

/-- `add_objects(obstacle)`: ValueError when the id is taken (nothing changes), else appended to the dictionary of its role. -/
def Scn.add (s : Scn) (i : Nat) (o : Obst) : Res Scn :=
  if s.idUsed i then .error .value else
    .ok (match o.role with
      | .static => { s with st := s.st ++ [(i, o)] }
      | .dynamic => { s with dy := s.dy ++ [(i, o)] }
      | .phantom => { s with ph := s.ph ++ [(i, o)] }
      | .environment => { s with en := s.en ++ [(i, o)] })

/-- `add_objects([o₁, o₂, …])`: element by element; the first failing element raises, the earlier ones stay added. -/
def Scn.addMany : Scn → List (Nat × Obst) → Scn × Bool
  | s, [] => (s, true)
  | s, (i, o) :: r =>
    match s.add i o with
    | .ok s' => Scn.addMany s' r
    | .error _ => (s, false)

/-- `remove_obstacle(x)`: the entry with `x.obstacle_id` leaves its dictionary and the id pool; an absent id only warns. -/
def Scn.remove (s : Scn) (i : Nat) : Scn :=
  { s with st := s.st.filter (fun x => x.1 != i), dy := s.dy.filter (fun x => x.1 != i),
           ph := s.ph.filter (fun x => x.1 != i), en := s.en.filter (fun x => x.1 != i) }

/-- a mutator applied to the obstacle with id `i` while it is part of the scenario (the scenario holds the object itself) -/
def Scn.mutate (s : Scn) (i : Nat) (m : Mut) : Scn :=
  let f := fun (x : Nat × Obst) => if x.1 == i then (x.1, x.2.apply m) else x
  { s with st := s.st.map f, dy := s.dy.map f, ph := s.ph.map f, en := s.en.map f }

end CR.Occ
