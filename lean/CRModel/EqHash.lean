/-
  CRModel.EqHash — executable model of the hand-written `__eq__` / `__hash__` pairs of commonroad-io
  (geometry/shape.py, common/util.py, scenario/state.py, trajectory.py, prediction/prediction.py, scenario/obstacle.py,
  common/common_lanelet.py, scenario/lanelet.py, traffic_sign.py, traffic_light.py, intersection.py, area.py,
  planning/goal.py, planning/planning_problem.py, scenario/scenario.py).

  Every `__eq__` in those files is a conjunction of per-attribute comparisons and every `__hash__` hashes a tuple of
  per-attribute keys.  The model therefore consists of
    * a universe `Val` of attribute values (as read through the public getters),
    * a small language `Kind` of *how* one attribute is compared (`==`, rounded to 10 decimals, as a list, as a set, ...),
    * one generic relation `rel T v k w` ("v and w agree under kind k", objects by the table `T` of their class),
    * per class a row (attribute, kind used by `__eq__`, kind used by `__hash__`): `classes`.
  `x == y` is `rel eqT x .eq y`; "the tuples hashed by `__hash__` are equal" is `rel hashT x .eq y`
  (Python's `hash` of a tuple / frozenset / str / number is a function of that value).
-/
import CRModel.Basic

namespace CR.EqHash

/-- Attribute values.  Lists, tuples, sets, dict item lists and numpy arrays are cons-chains. -/
inductive Val where
  | none                          -- Python `None`
  | num (r : Rat)                 -- int / bool / float (Python compares and hashes them as numbers: True == 1 == 1.0)
  | str (s : String)              -- str and enum members ("LineMarking.DASHED")
  | nil
  | cons (h t : Val)
  | obj (c : String) (f : Val)    -- object of class family `c` with its attribute values `f` (a chain, table order)
  deriving DecidableEq, Repr, Inhabited

/-- `SignalState`: a slot that was never assigned (`hasattr` is False). -/
def absent : Val := .str "<absent>"

/-- How an attribute is compared. The last five are the auxiliary modes of `rel` (never used in a class table). -/
inductive Kind where
  | skip                          -- not looked at
  | eq                            -- Python `==`: leaves by value, lists element-wise, objects by their class
  | r10                           -- like `eq`, numbers (also inside arrays) rounded to 10 decimals first
  | listOf (k : Kind)             -- list / tuple, elements under `k`
  | setOf (k : Kind)              -- set / frozenset / dict-by-key, elements under `k`; order and multiplicity irrelevant
  | consK (k kt : Kind)           -- first element under `k`, the remaining chain under `kt` (dict items `[key, value]`)
  | setNE                         -- `setOf eq`, where `None` is read as the empty set
  | setNA                         -- `setOf eq` over the elements other than `absent` (hash of SignalState)
  | fields (c : String) (i : Nat) -- aux: attribute chain of class `c` from attribute number `i` on
  | sub (k : Kind)                -- aux: every element of the left chain has a partner in the right chain
  | cover (k : Kind)              -- aux: some element of the left chain is a partner of the right value
  | subNA                         -- aux: `sub eq` ignoring `absent` elements on the left
  deriving DecidableEq, Repr, Inhabited

/-- Class tables: kind of attribute `i` of class `c`, and the kind under which the whole attribute chain of an object of
    class `c` is compared (`fields c 0` except for the value-set hash of SignalState). -/
structure Table where
  attr : String → Nat → Kind
  whole : String → Kind

/-- `round(x, 10)` / `np.around(x, 10)`: index of the 10-decimal bucket (nearest multiple of 10⁻¹⁰). -/
def round10 (r : Rat) : Int := (r * 10000000000 + 1 / 2).floor

def anyV (p : Val → Bool) : Val → Bool
  | .cons h t => p h || anyV p t
  | _ => false

/-- every element of the chain satisfies `p` (a value that is not a cons cell is the empty chain) -/
def allV (p : Val → Bool) : Val → Bool
  | .cons h t => p h && allV p t
  | _ => true

/-- The generic comparison.  Structural recursion on the left value. -/
def rel (T : Table) : Val → Kind → Val → Bool
  | _, .skip, _ => true
  -- auxiliary modes (a left value that is not a cons cell is the empty chain)
  | .cons h t, .sub k, w => anyV (fun y => rel T h k y) w && rel T t (.sub k) w
  | _, .sub _, _ => true
  | .cons h t, .subNA, w => (h == absent || anyV (fun y => rel T h .eq y) w) && rel T t .subNA w
  | _, .subNA, _ => true
  | .cons h t, .cover k, y => rel T h k y || rel T t (.cover k) y
  | _, .cover _, _ => false
  -- objects: same class family (the `isinstance` guard of every `__eq__`), then the class decides
  | .obj c f, _, .obj c' f' => c == c' && rel T f (T.whole c) f'
  | .obj _ _, _, _ => false
  -- chains
  | .cons h t, .eq, .cons h' t' => rel T h .eq h' && rel T t .eq t'
  | .cons h t, .r10, .cons h' t' => rel T h .r10 h' && rel T t .r10 t'
  | .cons h t, .listOf k, .cons h' t' => rel T h k h' && rel T t (.listOf k) t'
  | .cons h t, .consK k kt, .cons h' t' => rel T h k h' && rel T t kt t'
  | .cons h t, .fields c i, .cons h' t' => rel T h (T.attr c i) h' && rel T t (.fields c (i + 1)) t'
  | .cons h t, .setOf k, w =>
      (anyV (fun y => rel T h k y) w && rel T t (.sub k) w)
        && allV (fun y => rel T h k y || rel T t (.cover k) y) w
  | .cons h t, .setNE, w =>
      (anyV (fun y => rel T h .eq y) w && rel T t (.sub .eq) w)
        && allV (fun y => rel T h .eq y || rel T t (.cover .eq) y) w
  | .cons h t, .setNA, w =>
      ((h == absent || anyV (fun y => rel T h .eq y) w) && rel T t .subNA w)
        && allV (fun y => y == absent || (rel T h .eq y || rel T t (.cover .eq) y)) w
  | .cons _ _, _, _ => false
  -- the empty chain
  | .nil, .setNE, w => w == .nil || w == .none
  | .nil, .setNA, w => allV (fun y => y == absent) w
  | .nil, _, w => w == .nil
  -- leaves
  | .none, .setNE, w => w == .nil || w == .none
  | .none, _, w => w == .none
  | .num a, .r10, .num b => round10 a == round10 b
  | .num a, _, w => w == .num a
  | .str s, _, w => w == .str s

/-! ## Class tables -/

/-- one attribute: getter name, kind used by `__eq__`, kind used by `__hash__` -/
structure AttrRow where
  name : String
  eqK : Kind
  hashK : Kind
  deriving Repr

structure ClassRow where
  name : String
  attrs : List AttrRow
  /-- kinds of attributes beyond the listed ones (State: every further value; otherwise unused) -/
  restEq : Kind := .eq
  restHash : Kind := .eq
  /-- kind of the whole attribute chain under `__hash__` (`none`: attribute-wise) -/
  wholeHash : Option Kind := none
  deriving Repr

private def a (n : String) (e h : Kind) : AttrRow := ⟨n, e, h⟩
/-- attribute compared with `==` and hashed as it is -/
private def x (n : String) : AttrRow := ⟨n, .eq, .eq⟩
/-- coordinate array / real rounded to 10 decimals in both -/
private def r (n : String) : AttrRow := ⟨n, .r10, .r10⟩
/-- set of ids / enum members (or a list that is compared as a set) in both -/
private def s (n : String) : AttrRow := ⟨n, .setOf .eq, .setOf .eq⟩
/-- list compared element-wise by `__eq__`, hashed as a frozenset -/
private def ls (n : String) : AttrRow := ⟨n, .eq, .setOf .eq⟩

/-- `Dict[int, Set[int]]` (lanelet assignments): set of items `[key, set]`. -/
def dictOfSets : Kind := .setOf (.consK .eq (.listOf (.setOf .eq)))

/-- The table of every class family (state of the repaired tree; file:line of `__eq__` / `__hash__`). -/
def classes : List ClassRow := [
  -- geometry/shape.py:64-84  length, width, orientation exact; center rounded
  { name := "Rectangle", attrs := [x "length", x "width", r "center", x "orientation"] },
  -- shape.py:244-259
  { name := "Circle", attrs := [x "radius", r "center"] },
  -- shape.py:353-366  (vertices = the normalised, closed, clockwise ring)
  { name := "Polygon", attrs := [r "vertices"] },
  -- shape.py:469-477  list == list ; hash(frozenset(shapes))
  { name := "ShapeGroup", attrs := [ls "shapes"] },
  -- common/util.py:67-75 (AngleInterval inherits both)
  { name := "Interval", attrs := [x "start", x "end"] },
  -- util.py:263-279
  { name := "Time", attrs := [x "hours", x "minutes", x "day", x "month", x "year"] },
  -- scenario/state.py:131-172  attribute 0 = the set of attribute names (== only), then every value: floats and the
  -- position array rounded to 10 decimals, anything else with `!=`; hash: the same values in sorted attribute order
  { name := "State", attrs := [a "attributes" .eq .skip], restEq := .r10, restHash := .r10 },
  -- state.py:666-694  slot-wise == (absent ≠ None); hash(frozenset(values of the assigned slots))
  { name := "SignalState",
    attrs := [x "horn", x "indicator_left", x "indicator_right", x "braking_lights", x "hazard_warning_lights",
              x "flashing_blue_lights", x "time_step"],
    wholeHash := some .setNA },
  -- state.py MetaInformationState: four dicts (== ; json.dumps(sort_keys=True))
  { name := "MetaInformationState",
    attrs := [s "meta_data_str", s "meta_data_int", s "meta_data_float", s "meta_data_bool"] },
  -- scenario/trajectory.py:74-82
  { name := "Trajectory", attrs := [x "initial_time_step", x "state_list"] },
  -- prediction/prediction.py:40-48
  { name := "Occupancy", attrs := [x "time_step", x "shape"] },
  -- prediction.py:159-167
  { name := "SetBasedPrediction", attrs := [x "initial_time_step", ls "occupancy_set"] },
  -- prediction.py:247-281
  { name := "TrajectoryPrediction",
    attrs := [x "trajectory", x "shape", a "center_lanelet_assignment" dictOfSets dictOfSets,
              a "shape_lanelet_assignment" dictOfSets dictOfSets] },
  -- scenario/obstacle.py:114-162 (+391-399): None id sets are read as empty sets by both
  { name := "StaticObstacle",
    attrs := [x "obstacle_id", x "obstacle_type", x "obstacle_shape", x "initial_state",
              a "initial_center_lanelet_ids" .setNE .setNE, a "initial_shape_lanelet_ids" .setNE .setNE,
              x "initial_signal_state", x "signal_series"] },
  -- obstacle.py:513-554
  { name := "DynamicObstacle",
    attrs := [x "obstacle_id", x "obstacle_type", x "obstacle_shape", x "initial_state", x "prediction",
              a "initial_center_lanelet_ids" .setNE .setNE, a "initial_shape_lanelet_ids" .setNE .setNE,
              x "initial_signal_state", x "signal_series", x "initial_meta_information_state",
              x "meta_information_series", x "external_dataset_id", x "history", x "signal_history",
              a "center_lanelet_ids_history" (.listOf (.setOf .eq)) (.listOf (.setOf .eq)),
              a "shape_lanelet_ids_history" (.listOf (.setOf .eq)) (.listOf (.setOf .eq))] },
  -- obstacle.py:754-764
  { name := "PhantomObstacle", attrs := [x "obstacle_id", x "prediction"] },
  -- obstacle.py:864-879
  { name := "EnvironmentObstacle", attrs := [x "obstacle_id", x "obstacle_type", x "obstacle_shape"] },
  -- common/common_lanelet.py:91-121
  { name := "StopLine",
    attrs := [r "start", r "end", x "line_marking", s "traffic_sign_ref", s "traffic_light_ref"] },
  -- scenario/lanelet.py:196-266
  { name := "Lanelet",
    attrs := [r "left_vertices", r "center_vertices", r "right_vertices", x "lanelet_id", s "predecessor", s "successor",
              x "adj_left", x "adj_left_same_direction", x "adj_right", x "adj_right_same_direction",
              x "line_marking_left_vertices", x "line_marking_right_vertices", x "stop_line", s "lanelet_type",
              s "user_one_way", s "user_bidirectional", s "traffic_signs", s "traffic_lights", s "adjacent_areas"] },
  -- lanelet.py:1133-1175
  { name := "MapInformation",
    attrs := [x "commonroad_version", x "map_id", x "date", x "author", x "affiliation", x "source", x "licence_name",
              x "licence_text"] },
  -- lanelet.py:1317-1357  five dicts id -> element compared key-wise = as sets of elements
  { name := "LaneletNetwork",
    attrs := [x "information", s "lanelets", s "intersections", s "traffic_signs", s "traffic_lights", s "areas"] },
  -- scenario/traffic_sign.py:801-814
  { name := "TrafficSignElement", attrs := [x "traffic_sign_element_id", s "additional_values"] },
  -- traffic_sign.py:870-914  elements compared through a dict keyed by element id / hashed as a frozenset
  { name := "TrafficSign",
    attrs := [x "traffic_sign_id", s "traffic_sign_elements", s "first_occurrence", r "position", x "virtual"] },
  -- scenario/traffic_light.py:61-69
  { name := "TrafficLightCycleElement", attrs := [x "state", x "duration"] },
  -- traffic_light.py:112-124
  { name := "TrafficLightCycle", attrs := [ls "cycle_elements", x "time_offset", x "active"] },
  -- traffic_light.py:216-246
  { name := "TrafficLight",
    attrs := [x "traffic_light_id", r "position", x "traffic_light_cycle", ls "color", x "active", x "direction",
              x "shape"] },
  -- scenario/intersection.py:43-70
  { name := "IntersectionIncomingElement",
    attrs := [x "incoming_id", s "incoming_lanelets", s "successors_right", s "successors_straight", s "successors_left",
              x "left_of"] },
  -- intersection.py:204-228  incomings through a dict keyed by incoming id / frozenset
  { name := "Intersection", attrs := [x "intersection_id", s "incomings", s "crossings"] },
  -- scenario/area.py:96-118
  { name := "AreaBorder", attrs := [x "area_border_id", r "border_vertices", x "adjacent", x "line_marking"] },
  -- area.py:177-190  area_types: == on sets; hash reads None as the empty set
  { name := "Area", attrs := [x "area_id", x "border", a "area_types" (.setOf .eq) .setNE] },
  -- planning/goal.py:40-60  lanelets_of_goal_position: dict items `[index, [ids]]`
  { name := "GoalRegion", attrs := [x "state_list", s "lanelets_of_goal_position"] },
  -- planning/planning_problem.py:25-37
  { name := "PlanningProblem", attrs := [x "planning_problem_id", x "initial_state", x "goal"] },
  -- planning_problem.py:122-131  dict id -> problem
  { name := "PlanningProblemSet", attrs := [s "planning_problem_dict"] },
  -- scenario/scenario.py:150-164
  { name := "GeoTransformation",
    attrs := [x "geo_reference", x "x_translation", x "y_translation", x "z_rotation", x "scaling"] },
  -- scenario.py:227-240
  { name := "Environment", attrs := [x "time", x "time_of_day", x "weather", x "underground"] },
  -- scenario.py:302-318
  { name := "Location",
    attrs := [x "geo_name_id", x "gps_latitude", x "gps_longitude", x "geo_transformation", x "environment"] },
  -- scenario.py:427-458
  { name := "ScenarioID",
    attrs := [x "cooperative", x "country_id", x "map_name", x "map_id", x "configuration_id", x "obstacle_behavior",
              x "prediction_id", x "scenario_version"] },
  -- scenario.py:597-636  dt through str(dt); the obstacle lists in insertion order
  { name := "Scenario",
    attrs := [x "dt", x "scenario_id", x "author", s "tags", x "affiliation", x "source", x "location", x "lanelet_network",
              x "static_obstacles", x "dynamic_obstacles", x "environment_obstacle", x "phantom_obstacle"] }
]

def findClass (c : String) : Option ClassRow := classes.find? (fun row => row.name == c)

/-- kinds of attribute `i` of class `c` as (eq kind, hash kind); an unknown class is compared attribute-wise with `==` -/
def kinds (c : String) (i : Nat) : Kind × Kind :=
  match findClass c with
  | some row => match row.attrs[i]? with
    | some ar => (ar.eqK, ar.hashK)
    | none => (row.restEq, row.restHash)
  | none => (.eq, .eq)

def wholeHashKind (c : String) : Kind :=
  match findClass c with
  | some row => row.wholeHash.getD (.fields c 0)
  | none => .fields c 0

/-- the table read by `__eq__` -/
def eqT : Table := { attr := fun c i => (kinds c i).1, whole := fun c => .fields c 0 }
/-- the table read by `__hash__` -/
def hashT : Table := { attr := fun c i => (kinds c i).2, whole := wholeHashKind }

/-- `x == y` -/
def eqv (x y : Val) : Bool := rel eqT x .eq y
/-- the values hashed by `x.__hash__()` and `y.__hash__()` are equal -/
def hashEqv (x y : Val) : Bool := rel hashT x .eq y

end CR.EqHash
