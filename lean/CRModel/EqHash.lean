/-
  CRModel.EqHash — executable model of the hand-written `__eq__` / `__hash__` pairs of commonroad-io
  (geometry/shape.py, common/util.py, scenario/state.py, trajectory.py, prediction/prediction.py, scenario/obstacle.py,
  common/common_lanelet.py, scenario/lanelet.py, traffic_sign.py, traffic_light.py, intersection.py, area.py,
  planning/goal.py, planning/planning_problem.py, scenario/scenario.py).

  Every `__eq__` in those files is a conjunction of per-attribute comparisons and every `__hash__` hashes a tuple of
  per-attribute keys.  The model therefore consists of
    * a universe `Val` of attribute values (as read through the public getters),
    * a small language `Kind` of *how* one attribute is compared (`==`, rounded to 10 decimals, as a list, as a set, ...),
    * one generic relation `rel T v k w` ("v and w agree under kind k", objects by the table `T` of their class),
    * per class a row (attribute, kind used by `__eq__`, kind used by `__hash__`): `classes`.
  `x == y` is `rel eqT x .eq y`; "the tuples hashed by `__hash__` are equal" is `rel hashT x .eq y`
  (Python's `hash` of a tuple / frozenset / str / number is a function of that value).
-/
import CRModel.Basic

namespace CR.EqHash

/-- The class families with a hand-written `__eq__` / `__hash__` pair (AngleInterval inherits Interval's, every state class
    State's).  "For every class" in the theorems means: for every constructor of this type. -/
inductive Cls where
  | Rectangle | Circle | Polygon | ShapeGroup | Interval | Time
  | State | SignalState | MetaInformationState | Trajectory | Occupancy | SetBasedPrediction
  | TrajectoryPrediction | StaticObstacle | DynamicObstacle | PhantomObstacle | EnvironmentObstacle | StopLine
  | Lanelet | MapInformation | LaneletNetwork | TrafficSignElement | TrafficSign | TrafficLightCycleElement
  | TrafficLightCycle | TrafficLight | IntersectionIncomingElement | Intersection | AreaBorder | Area
  | GoalRegion | PlanningProblem | PlanningProblemSet | GeoTransformation | Environment | Location
  | ScenarioID | Scenario
  deriving DecidableEq, Repr, Inhabited

def Cls.all : List Cls := [.Rectangle, .Circle, .Polygon, .ShapeGroup, .Interval, .Time, .State, .SignalState,
  .MetaInformationState, .Trajectory, .Occupancy, .SetBasedPrediction, .TrajectoryPrediction, .StaticObstacle, .DynamicObstacle, .PhantomObstacle,
  .EnvironmentObstacle, .StopLine, .Lanelet, .MapInformation, .LaneletNetwork, .TrafficSignElement, .TrafficSign, .TrafficLightCycleElement,
  .TrafficLightCycle, .TrafficLight, .IntersectionIncomingElement, .Intersection, .AreaBorder, .Area, .GoalRegion, .PlanningProblem,
  .PlanningProblemSet, .GeoTransformation, .Environment, .Location, .ScenarioID, .Scenario]

def Cls.name : Cls → String
  | .Rectangle => "Rectangle"
  | .Circle => "Circle"
  | .Polygon => "Polygon"
  | .ShapeGroup => "ShapeGroup"
  | .Interval => "Interval"
  | .Time => "Time"
  | .State => "State"
  | .SignalState => "SignalState"
  | .MetaInformationState => "MetaInformationState"
  | .Trajectory => "Trajectory"
  | .Occupancy => "Occupancy"
  | .SetBasedPrediction => "SetBasedPrediction"
  | .TrajectoryPrediction => "TrajectoryPrediction"
  | .StaticObstacle => "StaticObstacle"
  | .DynamicObstacle => "DynamicObstacle"
  | .PhantomObstacle => "PhantomObstacle"
  | .EnvironmentObstacle => "EnvironmentObstacle"
  | .StopLine => "StopLine"
  | .Lanelet => "Lanelet"
  | .MapInformation => "MapInformation"
  | .LaneletNetwork => "LaneletNetwork"
  | .TrafficSignElement => "TrafficSignElement"
  | .TrafficSign => "TrafficSign"
  | .TrafficLightCycleElement => "TrafficLightCycleElement"
  | .TrafficLightCycle => "TrafficLightCycle"
  | .TrafficLight => "TrafficLight"
  | .IntersectionIncomingElement => "IntersectionIncomingElement"
  | .Intersection => "Intersection"
  | .AreaBorder => "AreaBorder"
  | .Area => "Area"
  | .GoalRegion => "GoalRegion"
  | .PlanningProblem => "PlanningProblem"
  | .PlanningProblemSet => "PlanningProblemSet"
  | .GeoTransformation => "GeoTransformation"
  | .Environment => "Environment"
  | .Location => "Location"
  | .ScenarioID => "ScenarioID"
  | .Scenario => "Scenario"

/-- class family of a name; `none` for a name that is not in the list (the driver reports that as an error) -/
def Cls.ofName? (s : String) : Option Cls := Cls.all.find? (fun c => c.name == s)

/-- Attribute values.  Lists, tuples, sets, dict item lists and numpy arrays are cons-chains. -/
inductive Val where
  | none                          -- Python `None`
  | num (r : Rat)                 -- int / bool / float (Python compares and hashes them as numbers: True == 1 == 1.0)
  | str (s : String)              -- str and enum members ("LineMarking.DASHED")
  | nil
  | cons (h t : Val)
  | obj (c : Cls) (f : Val)       -- object of class family `c` with its attribute values `f` (a chain, table order)
  deriving DecidableEq, Repr, Inhabited

/-- `SignalState`: a slot that was never assigned (`hasattr` is False). -/
def absent : Val := .str "<absent>"

/-- How an attribute is compared. The last five are the auxiliary modes of `rel` (never used in a class table). -/
inductive Kind where
  | skip                          -- not looked at
  | eq                            -- Python `==`: leaves by value, lists element-wise, objects by their class
  | r10                           -- like `eq`, numbers (also inside arrays) rounded to 10 decimals first
  | listOf (k : Kind)             -- list / tuple, elements under `k`
  | setOf (k : Kind)              -- set / frozenset / dict-by-key, elements under `k`; order and multiplicity irrelevant
  | consK (k kt : Kind)           -- first element under `k`, the remaining chain under `kt` (dict items `[key, value]`)
  | setNE                         -- `setOf eq`, where `None` is read as the empty set
  | setNA                         -- `setOf eq` over the elements other than `absent` (hash of SignalState)
  | fields (c : Cls) (i : Nat)    -- aux: attribute chain of class `c` from attribute number `i` on
  | sub (k : Kind)                -- aux: every element of the left chain has a partner in the right chain
  | cover (k : Kind)              -- aux: some element of the left chain is a partner of the right value
  | subNA                         -- aux: `sub eq` ignoring `absent` elements on the left
  deriving DecidableEq, Repr, Inhabited

/-- Class tables: kind of attribute `i` of class `c`, and the kind under which the whole attribute chain of an object of
    class `c` is compared (`fields c 0` except for the value-set hash of SignalState). -/
structure Table where
  attr : Cls → Nat → Kind
  whole : Cls → Kind

/-- `round(x, 10)` / `np.around(x, 10)`: index of the 10-decimal bucket (nearest multiple of 10⁻¹⁰). -/
def round10 (r : Rat) : Int := (r * 10000000000 + 1 / 2).floor

def anyV (p : Val → Bool) : Val → Bool
  | .cons h t => p h || anyV p t
  | _ => false

/-- every element of the chain satisfies `p` (a value that is not a cons cell is the empty chain) -/
def allV (p : Val → Bool) : Val → Bool
  | .cons h t => p h && allV p t
  | _ => true

/-- The generic comparison.  Structural recursion on the left value. -/
def rel (T : Table) : Val → Kind → Val → Bool
  | _, .skip, _ => true
  -- auxiliary modes (a left value that is not a cons cell is the empty chain)
  | .cons h t, .sub k, w => anyV (fun y => rel T h k y) w && rel T t (.sub k) w
  | _, .sub _, _ => true
  | .cons h t, .subNA, w => (h == absent || anyV (fun y => rel T h .eq y) w) && rel T t .subNA w
  | _, .subNA, _ => true
  | .cons h t, .cover k, y => rel T h k y || rel T t (.cover k) y
  | _, .cover _, _ => false
  -- objects: same class family (the `isinstance` guard of every `__eq__`), then the class decides
  | .obj c f, _, .obj c' f' => c == c' && rel T f (T.whole c) f'
  | .obj _ _, _, _ => false
  -- chains
  | .cons h t, .eq, .cons h' t' => rel T h .eq h' && rel T t .eq t'
  | .cons h t, .r10, .cons h' t' => rel T h .r10 h' && rel T t .r10 t'
  | .cons h t, .listOf k, .cons h' t' => rel T h k h' && rel T t (.listOf k) t'
  | .cons h t, .consK k kt, .cons h' t' => rel T h k h' && rel T t kt t'
  | .cons h t, .fields c i, .cons h' t' => rel T h (T.attr c i) h' && rel T t (.fields c (i + 1)) t'
  | .cons h t, .setOf k, w =>
      (anyV (fun y => rel T h k y) w && rel T t (.sub k) w)
        && allV (fun y => rel T h k y || rel T t (.cover k) y) w
  | .cons h t, .setNE, w =>
      (anyV (fun y => rel T h .eq y) w && rel T t (.sub .eq) w)
        && allV (fun y => rel T h .eq y || rel T t (.cover .eq) y) w
  | .cons h t, .setNA, w =>
      ((h == absent || anyV (fun y => rel T h .eq y) w) && rel T t .subNA w)
        && allV (fun y => y == absent || (rel T h .eq y || rel T t (.cover .eq) y)) w
  | .cons _ _, _, _ => false
  -- the empty chain
  | .nil, .setNE, w => w == .nil || w == .none
  | .nil, .setNA, w => allV (fun y => y == absent) w
  | .nil, _, w => w == .nil
  -- leaves
  | .none, .setNE, w => w == .nil || w == .none
  | .none, _, w => w == .none
  | .num a, .r10, .num b => round10 a == round10 b
  | .num a, _, w => w == .num a
  | .str s, _, w => w == .str s

/-! ## Class tables -/

/-- one attribute: getter name, kind used by `__eq__`, kind used by `__hash__` -/
structure AttrRow where
  name : String
  eqK : Kind
  hashK : Kind
  deriving Repr

structure ClassRow where
  attrs : List AttrRow
  /-- the object carries further, dynamically named attributes after the listed ones (State: one value per attribute
      name, in sorted name order), compared under `restEq` / hashed under `restHash` -/
  dynamic : Bool := false
  /-- kinds of the values beyond the listed attributes -/
  restEq : Kind := .eq
  restHash : Kind := .eq
  /-- kind of the whole attribute chain under `__hash__` (`none`: attribute-wise) -/
  wholeHash : Option Kind := none
  deriving Repr

private def a (n : String) (e h : Kind) : AttrRow := ⟨n, e, h⟩
/-- attribute compared with `==` and hashed as it is -/
private def x (n : String) : AttrRow := ⟨n, .eq, .eq⟩
/-- coordinate array / real rounded to 10 decimals in both -/
private def r (n : String) : AttrRow := ⟨n, .r10, .r10⟩
/-- set of ids / enum members (or a list that is compared as a set) in both -/
private def s (n : String) : AttrRow := ⟨n, .setOf .eq, .setOf .eq⟩
/-- list compared element-wise by `__eq__`, hashed as a frozenset -/
private def ls (n : String) : AttrRow := ⟨n, .eq, .setOf .eq⟩

/-- `Dict[int, Set[int]]` (lanelet assignments): set of items `[key, set]`. -/
def dictOfSets : Kind := .setOf (.consK .eq (.listOf (.setOf .eq)))

/-- The table of every class family (state of the repaired tree; file:line of `__eq__` / `__hash__`). -/
def row : Cls → ClassRow
  -- geometry/shape.py:64-84  length, width, orientation exact; center rounded
  | .Rectangle => { attrs := [x "length", x "width", r "center", x "orientation"] }
  -- shape.py:244-259
  | .Circle => { attrs := [x "radius", r "center"] }
  -- shape.py:353-366  (vertices = the normalised, closed, clockwise ring)
  | .Polygon => { attrs := [r "vertices"] }
  -- shape.py:469-477  list == list ; hash(frozenset(shapes))
  | .ShapeGroup => { attrs := [ls "shapes"] }
  -- common/util.py:67-75 (AngleInterval inherits both)
  | .Interval => { attrs := [x "start", x "end"] }
  -- util.py:263-279
  | .Time => { attrs := [x "hours", x "minutes", x "day", x "month", x "year"] }
  -- scenario/state.py:131-172  attribute 0 = the set of attribute names (== only), then every value: floats and the
  -- position array rounded to 10 decimals, anything else with `!=`; hash: the same values in sorted attribute order
  | .State => { attrs := [a "attributes" .eq .skip], dynamic := true, restEq := .r10, restHash := .r10 }
  -- state.py:666-694  slot-wise == (absent ≠ None); hash(frozenset(values of the assigned slots))
  | .SignalState => { attrs := [x "horn", x "indicator_left", x "indicator_right", x "braking_lights", x "hazard_warning_lights",
                                        x "flashing_blue_lights", x "time_step"],
                                        wholeHash := some .setNA }
  -- state.py MetaInformationState: four dicts (== ; json.dumps(sort_keys=True))
  | .MetaInformationState => { attrs := [s "meta_data_str", s "meta_data_int", s "meta_data_float", s "meta_data_bool"] }
  -- scenario/trajectory.py:74-82
  | .Trajectory => { attrs := [x "initial_time_step", x "state_list"] }
  -- prediction/prediction.py:40-48
  | .Occupancy => { attrs := [x "time_step", x "shape"] }
  -- prediction.py:159-167
  | .SetBasedPrediction => { attrs := [x "initial_time_step", ls "occupancy_set"] }
  -- prediction.py:247-281
  | .TrajectoryPrediction => { attrs := [x "trajectory", x "shape", a "center_lanelet_assignment" dictOfSets dictOfSets,
                                        a "shape_lanelet_assignment" dictOfSets dictOfSets] }
  -- scenario/obstacle.py:114-162 (+391-399): None id sets are read as empty sets by both
  | .StaticObstacle => { attrs := [x "obstacle_id", x "obstacle_type", x "obstacle_shape", x "initial_state",
                                        a "initial_center_lanelet_ids" .setNE .setNE, a "initial_shape_lanelet_ids" .setNE .setNE,
                                        x "initial_signal_state", x "signal_series"] }
  -- obstacle.py:513-554
  | .DynamicObstacle => { attrs := [x "obstacle_id", x "obstacle_type", x "obstacle_shape", x "initial_state", x "prediction",
                                        a "initial_center_lanelet_ids" .setNE .setNE, a "initial_shape_lanelet_ids" .setNE .setNE,
                                        x "initial_signal_state", x "signal_series", x "initial_meta_information_state",
                                        x "meta_information_series", x "external_dataset_id", x "history", x "signal_history",
                                        a "center_lanelet_ids_history" (.listOf (.setOf .eq)) (.listOf (.setOf .eq)),
                                        a "shape_lanelet_ids_history" (.listOf (.setOf .eq)) (.listOf (.setOf .eq))] }
  -- obstacle.py:754-764
  | .PhantomObstacle => { attrs := [x "obstacle_id", x "prediction"] }
  -- obstacle.py:864-879
  | .EnvironmentObstacle => { attrs := [x "obstacle_id", x "obstacle_type", x "obstacle_shape"] }
  -- common/common_lanelet.py:91-121
  | .StopLine => { attrs := [r "start", r "end", x "line_marking", s "traffic_sign_ref", s "traffic_light_ref"] }
  -- scenario/lanelet.py:196-266
  | .Lanelet => { attrs := [r "left_vertices", r "center_vertices", r "right_vertices", x "lanelet_id", s "predecessor", s "successor",
                                        x "adj_left", x "adj_left_same_direction", x "adj_right", x "adj_right_same_direction",
                                        x "line_marking_left_vertices", x "line_marking_right_vertices", x "stop_line", s "lanelet_type",
                                        s "user_one_way", s "user_bidirectional", s "traffic_signs", s "traffic_lights", s "adjacent_areas"] }
  -- lanelet.py:1133-1175
  | .MapInformation => { attrs := [x "commonroad_version", x "map_id", x "date", x "author", x "affiliation", x "source", x "licence_name",
                                        x "licence_text"] }
  -- lanelet.py:1317-1357  five dicts id -> element compared key-wise = as sets of elements
  | .LaneletNetwork => { attrs := [x "information", s "lanelets", s "intersections", s "traffic_signs", s "traffic_lights", s "areas"] }
  -- scenario/traffic_sign.py:801-814
  | .TrafficSignElement => { attrs := [x "traffic_sign_element_id", s "additional_values"] }
  -- traffic_sign.py:870-914  elements compared through a dict keyed by element id / hashed as a frozenset
  | .TrafficSign => { attrs := [x "traffic_sign_id", s "traffic_sign_elements", s "first_occurrence", r "position", x "virtual"] }
  -- scenario/traffic_light.py:61-69
  | .TrafficLightCycleElement => { attrs := [x "state", x "duration"] }
  -- traffic_light.py:112-124
  | .TrafficLightCycle => { attrs := [ls "cycle_elements", x "time_offset", x "active"] }
  -- traffic_light.py:216-246
  | .TrafficLight => { attrs := [x "traffic_light_id", r "position", x "traffic_light_cycle", ls "color", x "active", x "direction",
                                        x "shape"] }
  -- scenario/intersection.py:43-70
  | .IntersectionIncomingElement => { attrs := [x "incoming_id", s "incoming_lanelets", s "successors_right", s "successors_straight", s "successors_left",
                                        x "left_of"] }
  -- intersection.py:204-228  incomings through a dict keyed by incoming id / frozenset
  | .Intersection => { attrs := [x "intersection_id", s "incomings", s "crossings"] }
  -- scenario/area.py:96-118
  | .AreaBorder => { attrs := [x "area_border_id", r "border_vertices", x "adjacent", x "line_marking"] }
  -- area.py:177-190  area_types: == on sets; hash reads None as the empty set
  | .Area => { attrs := [x "area_id", x "border", a "area_types" (.setOf .eq) .setNE] }
  -- planning/goal.py:40-60  lanelets_of_goal_position: dict items `[index, [ids]]`
  | .GoalRegion => { attrs := [x "state_list", s "lanelets_of_goal_position"] }
  -- planning/planning_problem.py:25-37
  | .PlanningProblem => { attrs := [x "planning_problem_id", x "initial_state", x "goal"] }
  -- planning_problem.py:122-131  dict id -> problem
  | .PlanningProblemSet => { attrs := [s "planning_problem_dict"] }
  -- scenario/scenario.py:150-164
  | .GeoTransformation => { attrs := [x "geo_reference", x "x_translation", x "y_translation", x "z_rotation", x "scaling"] }
  -- scenario.py:227-240
  | .Environment => { attrs := [x "time", x "time_of_day", x "weather", x "underground"] }
  -- scenario.py:302-318
  | .Location => { attrs := [x "geo_name_id", x "gps_latitude", x "gps_longitude", x "geo_transformation", x "environment"] }
  -- scenario.py:427-458
  | .ScenarioID => { attrs := [x "cooperative", x "country_id", x "map_name", x "map_id", x "configuration_id", x "obstacle_behavior",
                                        x "prediction_id", x "scenario_version"] }
  -- scenario.py:597-636  dt through str(dt); the obstacle lists in insertion order
  | .Scenario => { attrs := [x "dt", x "scenario_id", x "author", s "tags", x "affiliation", x "source", x "location", x "lanelet_network",
                                        x "static_obstacles", x "dynamic_obstacles", x "environment_obstacle", x "phantom_obstacle"] }

/-- kinds of attribute `i` of class `c` as (eq kind, hash kind) -/
def kinds (c : Cls) (i : Nat) : Kind × Kind :=
  match (row c).attrs[i]? with
  | some ar => (ar.eqK, ar.hashK)
  | none => ((row c).restEq, (row c).restHash)

def wholeHashKind (c : Cls) : Kind := (row c).wholeHash.getD (.fields c 0)

/-! ## Constructor signatures -/

/-- one public constructor: Python class, class family whose `__eq__`/`__hash__` it uses, and for every constructor
    parameter (in signature order, without `self` / `**kwargs`) the attribute (getter) it is stored in.  State classes:
    the dataclass fields; SignalState: its `__slots__`; CustomState takes only keyword attributes (dynamic).
    The harness compares this list with `inspect.signature` of the working tree on every run. -/
structure CtorRow where
  cls : String
  family : Cls
  params : List (String × String)
  deriving Repr

def ctors : List CtorRow := [
  ⟨"Rectangle", .Rectangle, [("length", "length"), ("width", "width"), ("center", "center"), ("orientation",
     "orientation")]⟩,
  ⟨"Circle", .Circle, [("radius", "radius"), ("center", "center")]⟩,
  ⟨"Polygon", .Polygon, [("vertices", "vertices")]⟩,
  ⟨"ShapeGroup", .ShapeGroup, [("shapes", "shapes")]⟩,
  ⟨"Interval", .Interval, [("start", "start"), ("end", "end")]⟩,
  ⟨"AngleInterval", .Interval, [("start", "start"), ("end", "end")]⟩,
  ⟨"Time", .Time, [("hours", "hours"), ("minutes", "minutes"), ("day", "day"), ("month", "month"), ("year",
     "year")]⟩,
  ⟨"InitialState", .State, [("time_step", "time_step"), ("position", "position"), ("orientation", "orientation"),
     ("velocity", "velocity"), ("acceleration", "acceleration"), ("yaw_rate", "yaw_rate"), ("slip_angle",
     "slip_angle")]⟩,
  ⟨"PMState", .State, [("time_step", "time_step"), ("position", "position"), ("velocity", "velocity"),
     ("velocity_y", "velocity_y")]⟩,
  ⟨"ExtendedPMState", .State, [("time_step", "time_step"), ("position", "position"), ("velocity", "velocity"),
     ("orientation", "orientation"), ("acceleration", "acceleration")]⟩,
  ⟨"KSState", .State, [("time_step", "time_step"), ("position", "position"), ("steering_angle", "steering_angle"),
     ("velocity", "velocity"), ("orientation", "orientation")]⟩,
  ⟨"KSTState", .State, [("time_step", "time_step"), ("position", "position"), ("steering_angle", "steering_angle"),
     ("velocity", "velocity"), ("orientation", "orientation"), ("hitch_angle", "hitch_angle")]⟩,
  ⟨"STState", .State, [("time_step", "time_step"), ("position", "position"), ("steering_angle", "steering_angle"),
     ("velocity", "velocity"), ("orientation", "orientation"), ("slip_angle", "slip_angle"), ("yaw_rate",
     "yaw_rate")]⟩,
  ⟨"STDState", .State, [("time_step", "time_step"), ("position", "position"), ("steering_angle", "steering_angle"),
     ("velocity", "velocity"), ("orientation", "orientation"), ("slip_angle", "slip_angle"), ("yaw_rate",
     "yaw_rate"), ("front_wheel_angular_speed", "front_wheel_angular_speed"), ("rear_wheel_angular_speed",
     "rear_wheel_angular_speed")]⟩,
  ⟨"MBState", .State, [("time_step", "time_step"), ("position", "position"), ("steering_angle", "steering_angle"),
     ("velocity", "velocity"), ("orientation", "orientation"), ("yaw_rate", "yaw_rate"), ("roll_angle",
     "roll_angle"), ("roll_rate", "roll_rate"), ("pitch_angle", "pitch_angle"), ("pitch_rate", "pitch_rate"),
     ("velocity_y", "velocity_y"), ("position_z", "position_z"), ("velocity_z", "velocity_z"), ("roll_angle_front",
     "roll_angle_front"), ("roll_rate_front", "roll_rate_front"), ("velocity_y_front", "velocity_y_front"),
     ("position_z_front", "position_z_front"), ("velocity_z_front", "velocity_z_front"), ("roll_angle_rear",
     "roll_angle_rear"), ("roll_rate_rear", "roll_rate_rear"), ("velocity_y_rear", "velocity_y_rear"),
     ("position_z_rear", "position_z_rear"), ("velocity_z_rear", "velocity_z_rear"),
     ("left_front_wheel_angular_speed", "left_front_wheel_angular_speed"), ("right_front_wheel_angular_speed",
     "right_front_wheel_angular_speed"), ("left_rear_wheel_angular_speed", "left_rear_wheel_angular_speed"),
     ("right_rear_wheel_angular_speed", "right_rear_wheel_angular_speed"), ("delta_y_f", "delta_y_f"), ("delta_y_r",
     "delta_y_r")]⟩,
  ⟨"LongitudinalState", .State, [("time_step", "time_step"), ("longitudinal_position", "longitudinal_position"),
     ("velocity", "velocity"), ("acceleration", "acceleration"), ("jerk", "jerk")]⟩,
  ⟨"LateralState", .State, [("time_step", "time_step"), ("lateral_position", "lateral_position"), ("orientation",
     "orientation"), ("curvature", "curvature"), ("curvature_rate", "curvature_rate")]⟩,
  ⟨"InputState", .State, [("time_step", "time_step"), ("steering_angle_speed", "steering_angle_speed"),
     ("acceleration", "acceleration")]⟩,
  ⟨"PMInputState", .State, [("time_step", "time_step"), ("acceleration", "acceleration"), ("acceleration_y",
     "acceleration_y")]⟩,
  ⟨"LKSInputState", .State, [("time_step", "time_step"), ("jerk_dot", "jerk_dot"), ("kappa_dot_dot",
     "kappa_dot_dot")]⟩,
  ⟨"CustomState", .State, []⟩,
  ⟨"SignalState", .SignalState, [("horn", "horn"), ("indicator_left", "indicator_left"), ("indicator_right",
     "indicator_right"), ("braking_lights", "braking_lights"), ("hazard_warning_lights", "hazard_warning_lights"),
     ("flashing_blue_lights", "flashing_blue_lights"), ("time_step", "time_step")]⟩,
  ⟨"MetaInformationState", .MetaInformationState, [("meta_data_str", "meta_data_str"), ("meta_data_int",
     "meta_data_int"), ("meta_data_float", "meta_data_float"), ("meta_data_bool", "meta_data_bool")]⟩,
  ⟨"Trajectory", .Trajectory, [("initial_time_step", "initial_time_step"), ("state_list", "state_list")]⟩,
  ⟨"Occupancy", .Occupancy, [("time_step", "time_step"), ("shape", "shape")]⟩,
  ⟨"SetBasedPrediction", .SetBasedPrediction, [("initial_time_step", "initial_time_step"), ("occupancy_set",
     "occupancy_set")]⟩,
  ⟨"TrajectoryPrediction", .TrajectoryPrediction, [("trajectory", "trajectory"), ("shape", "shape"),
     ("center_lanelet_assignment", "center_lanelet_assignment"), ("shape_lanelet_assignment",
     "shape_lanelet_assignment")]⟩,
  ⟨"StaticObstacle", .StaticObstacle, [("obstacle_id", "obstacle_id"), ("obstacle_type", "obstacle_type"),
     ("obstacle_shape", "obstacle_shape"), ("initial_state", "initial_state"), ("initial_center_lanelet_ids",
     "initial_center_lanelet_ids"), ("initial_shape_lanelet_ids", "initial_shape_lanelet_ids"),
     ("initial_signal_state", "initial_signal_state"), ("signal_series", "signal_series")]⟩,
  ⟨"DynamicObstacle", .DynamicObstacle, [("obstacle_id", "obstacle_id"), ("obstacle_type", "obstacle_type"),
     ("obstacle_shape", "obstacle_shape"), ("initial_state", "initial_state"), ("prediction", "prediction"),
     ("initial_center_lanelet_ids", "initial_center_lanelet_ids"), ("initial_shape_lanelet_ids",
     "initial_shape_lanelet_ids"), ("initial_signal_state", "initial_signal_state"), ("signal_series",
     "signal_series"), ("initial_meta_information_state", "initial_meta_information_state"),
     ("meta_information_series", "meta_information_series"), ("external_dataset_id", "external_dataset_id"),
     ("history", "history"), ("signal_history", "signal_history"), ("center_lanelet_ids_history",
     "center_lanelet_ids_history"), ("shape_lanelet_ids_history", "shape_lanelet_ids_history")]⟩,
  ⟨"PhantomObstacle", .PhantomObstacle, [("obstacle_id", "obstacle_id"), ("prediction", "prediction")]⟩,
  ⟨"EnvironmentObstacle", .EnvironmentObstacle, [("obstacle_id", "obstacle_id"), ("obstacle_type", "obstacle_type"),
     ("obstacle_shape", "obstacle_shape")]⟩,
  ⟨"StopLine", .StopLine, [("start", "start"), ("end", "end"), ("line_marking", "line_marking"),
     ("traffic_sign_ref", "traffic_sign_ref"), ("traffic_light_ref", "traffic_light_ref")]⟩,
  ⟨"Lanelet", .Lanelet, [("left_vertices", "left_vertices"), ("center_vertices", "center_vertices"),
     ("right_vertices", "right_vertices"), ("lanelet_id", "lanelet_id"), ("predecessor", "predecessor"),
     ("successor", "successor"), ("adjacent_left", "adj_left"), ("adjacent_left_same_direction",
     "adj_left_same_direction"), ("adjacent_right", "adj_right"), ("adjacent_right_same_direction",
     "adj_right_same_direction"), ("line_marking_left_vertices", "line_marking_left_vertices"),
     ("line_marking_right_vertices", "line_marking_right_vertices"), ("stop_line", "stop_line"), ("lanelet_type",
     "lanelet_type"), ("user_one_way", "user_one_way"), ("user_bidirectional", "user_bidirectional"),
     ("traffic_signs", "traffic_signs"), ("traffic_lights", "traffic_lights"), ("adjacent_areas",
     "adjacent_areas")]⟩,
  ⟨"MapInformation", .MapInformation, [("commonroad_version", "commonroad_version"), ("map_id", "map_id"), ("date",
     "date"), ("author", "author"), ("affiliation", "affiliation"), ("source", "source"), ("licence_name",
     "licence_name"), ("licence_text", "licence_text")]⟩,
  ⟨"TrafficSignElement", .TrafficSignElement, [("traffic_sign_element_id", "traffic_sign_element_id"),
     ("additional_values", "additional_values")]⟩,
  ⟨"TrafficSign", .TrafficSign, [("traffic_sign_id", "traffic_sign_id"), ("traffic_sign_elements",
     "traffic_sign_elements"), ("first_occurrence", "first_occurrence"), ("position", "position"), ("virtual",
     "virtual")]⟩,
  ⟨"TrafficLightCycleElement", .TrafficLightCycleElement, [("state", "state"), ("duration", "duration")]⟩,
  ⟨"TrafficLightCycle", .TrafficLightCycle, [("cycle_elements", "cycle_elements"), ("time_offset", "time_offset"),
     ("active", "active")]⟩,
  ⟨"TrafficLight", .TrafficLight, [("traffic_light_id", "traffic_light_id"), ("position", "position"),
     ("traffic_light_cycle", "traffic_light_cycle"), ("color", "color"), ("active", "active"), ("direction",
     "direction"), ("shape", "shape")]⟩,
  ⟨"IntersectionIncomingElement", .IntersectionIncomingElement, [("incoming_id", "incoming_id"),
     ("incoming_lanelets", "incoming_lanelets"), ("successors_right", "successors_right"), ("successors_straight",
     "successors_straight"), ("successors_left", "successors_left"), ("left_of", "left_of")]⟩,
  ⟨"Intersection", .Intersection, [("intersection_id", "intersection_id"), ("incomings", "incomings"), ("crossings",
     "crossings")]⟩,
  ⟨"AreaBorder", .AreaBorder, [("area_border_id", "area_border_id"), ("border_vertices", "border_vertices"),
     ("adjacent", "adjacent"), ("line_marking", "line_marking")]⟩,
  ⟨"Area", .Area, [("area_id", "area_id"), ("border", "border"), ("area_types", "area_types")]⟩,
  ⟨"LaneletNetwork", .LaneletNetwork, [("information", "information")]⟩,
  ⟨"GoalRegion", .GoalRegion, [("state_list", "state_list"), ("lanelets_of_goal_position",
     "lanelets_of_goal_position")]⟩,
  ⟨"PlanningProblem", .PlanningProblem, [("planning_problem_id", "planning_problem_id"), ("initial_state",
     "initial_state"), ("goal_region", "goal")]⟩,
  ⟨"PlanningProblemSet", .PlanningProblemSet, [("planning_problem_list", "planning_problem_dict")]⟩,
  ⟨"GeoTransformation", .GeoTransformation, [("geo_reference", "geo_reference"), ("x_translation", "x_translation"),
     ("y_translation", "y_translation"), ("z_rotation", "z_rotation"), ("scaling", "scaling")]⟩,
  ⟨"Environment", .Environment, [("time", "time"), ("time_of_day", "time_of_day"), ("weather", "weather"),
     ("underground", "underground")]⟩,
  ⟨"Location", .Location, [("geo_name_id", "geo_name_id"), ("gps_latitude", "gps_latitude"), ("gps_longitude",
     "gps_longitude"), ("geo_transformation", "geo_transformation"), ("environment", "environment")]⟩,
  ⟨"ScenarioID", .ScenarioID, [("cooperative", "cooperative"), ("country_id", "country_id"), ("map_name",
     "map_name"), ("map_id", "map_id"), ("configuration_id", "configuration_id"), ("obstacle_behavior",
     "obstacle_behavior"), ("prediction_id", "prediction_id"), ("scenario_version", "scenario_version")]⟩,
  ⟨"Scenario", .Scenario, [("dt", "dt"), ("scenario_id", "scenario_id"), ("author", "author"), ("tags", "tags"),
     ("affiliation", "affiliation"), ("source", "source"), ("location", "location")]⟩
]

/-- the attributes of `LaneletNetwork` and `Scenario` that are filled through `add_*` / `add_objects`, not the constructor -/
def contentAttrs : Cls → List String
  | .LaneletNetwork => ["lanelets", "intersections", "traffic_signs", "traffic_lights", "areas"]
  | .Scenario => ["lanelet_network", "static_obstacles", "dynamic_obstacles", "environment_obstacle", "phantom_obstacle"]
  | _ => []

/-- kind under which `__eq__` of family `c` compares the attribute named `a`: the listed row, or `restEq` for the
    dynamically named attributes of a dynamic family; `none` if `__eq__` does not know the attribute -/
def eqKindOfAttr (c : Cls) (a : String) : Option Kind :=
  match (row c).attrs.find? (fun ar => ar.name == a) with
  | some ar => some ar.eqK
  | none => if (row c).dynamic then some (row c).restEq else none

/-- the table read by `__eq__` -/
def eqT : Table := { attr := fun c i => (kinds c i).1, whole := fun c => .fields c 0 }
/-- the table read by `__hash__` -/
def hashT : Table := { attr := fun c i => (kinds c i).2, whole := wholeHashKind }

/-- `x == y` -/
def eqv (x y : Val) : Bool := rel eqT x .eq y
/-- the values hashed by `x.__hash__()` and `y.__hash__()` are equal -/
def hashEqv (x y : Val) : Bool := rel hashT x .eq y

end CR.EqHash
