/-
  CRModel.XsdModel — a small executable model of XML Schema validation, as far as the shipped
  CommonRoad 2020a XSD (commonroad/scenario_definition/xml_definition_files/XML_commonRoad_XSD.xsd) uses it:

    * simple types: xs:decimal / xs:integer (+ nonNegativeInteger, positiveInteger) / xs:boolean / xs:string /
      xs:time / xs:date with their lexical grammars, whitespace collapse, and the facets enumeration,
      minExclusive, minInclusive, maxInclusive;
    * complex types: required / optional attributes, and a content model that is a sequence / choice / all
      group with an occurrence range whose items are elements (with occurrence ranges) or ONE further level of
      sequence / choice of elements (the XSD nests no deeper; the translator refuses anything else);
    * the identity constraints xs:key (selector = child paths of the root, field = an attribute) and
      xs:keyref (selector .//*, field = an attribute).

  The schema term itself is not written here: harness/translate/xsd.py regenerates it from the XSD on every run
  into Gen/XsdScenario.lean (committed copy: CRModel/Src/XsdScenario.lean).
  The validator is compared with lxml.etree.XMLSchema in both directions by harness/c03.py (real writer output
  and mutated documents).  Core Lean only.
-/
import CRModel.Basic

namespace CR.Xsd

abbrev Str := List Char

/-! ## Lexical grammars (on `List Char`, so that the theorems can talk about them) -/

def isWs (c : Char) : Bool := c == ' ' || c == '\t' || c == '\n' || c == '\r'

/-- `whiteSpace = collapse` as far as it matters for the atomic types used: strip leading / trailing white space. -/
def strip (s : Str) : Str := ((s.dropWhile isWs).reverse.dropWhile isWs).reverse

def allDigits (s : Str) : Bool := s.all Char.isDigit

/-- after at least one integer digit: `d* ('.' d*)?` -/
def decAfterInt : Str → Bool
  | [] => true
  | c :: cs => if c.isDigit then decAfterInt cs else if c == '.' then allDigits cs else false

/-- unsigned xs:decimal: `d+ ('.' d*)? | '.' d+` -/
def decBody : Str → Bool
  | [] => false
  | c :: cs => if c.isDigit then decAfterInt cs else if c == '.' then (!cs.isEmpty && allDigits cs) else false

def dropSign : Str → Str
  | '+' :: r => r
  | '-' :: r => r
  | r => r

/-- lexical space of xs:decimal: `(+|-)? (d+ (. d*)? | . d+)` — no exponent, no `nan` / `inf`, at most one dot. -/
def isDecimal (s : Str) : Bool := decBody (dropSign s)

/-- lexical space of xs:integer: `(+|-)? d+`. -/
def isInteger (s : Str) : Bool := let b := dropSign s; !b.isEmpty && allDigits b

def digitVal : Char → Nat
  | '0' => 0 | '1' => 1 | '2' => 2 | '3' => 3 | '4' => 4 | '5' => 5 | '6' => 6 | '7' => 7 | '8' => 8 | '9' => 9
  | _ => 0

/-- value of the digits of `s` read as one number (non-digits skipped: the decimal point). -/
def digitsVal (s : Str) : Nat := s.foldl (fun acc c => if c.isDigit then 10 * acc + digitVal c else acc) 0

def isNeg : Str → Bool
  | '-' :: _ => true
  | _ => false

/-- number of fraction digits of a decimal literal. -/
def scaleOf (s : Str) : Nat := ((s.dropWhile (· != '.')).drop 1).length

/-- numerator of a decimal literal over `10 ^ scaleOf s`. -/
def numer (s : Str) : Int := if isNeg s then - (digitsVal s : Int) else (digitsVal s : Int)

/-- `value(s) > b`, `value(s) ≥ b`, `value(s) ≤ b` for a decimal literal `s` and an integer bound. -/
def decGt (s : Str) (b : Int) : Bool := decide (numer s > b * (10 : Int) ^ scaleOf s)
def decGe (s : Str) (b : Int) : Bool := decide (numer s ≥ b * (10 : Int) ^ scaleOf s)
def decLe (s : Str) (b : Int) : Bool := decide (numer s ≤ b * (10 : Int) ^ scaleOf s)

def isBoolean (s : Str) : Bool := s == "true".toList || s == "false".toList || s == "1".toList || s == "0".toList

def num2 (a b : Char) : Nat := 10 * digitVal a + digitVal b

/-- optional time zone: `Z | (+|-)hh:mm` with hh:mm ≤ 14:00 -/
def isZone : Str → Bool
  | [] => true
  | ['Z'] => true
  | [sg, h1, h2, ':', m1, m2] =>
    (sg == '+' || sg == '-') && allDigits [h1, h2, m1, m2] &&
      (num2 h1 h2 < 14 && num2 m1 m2 < 60 || num2 h1 h2 == 14 && num2 m1 m2 == 0)
  | _ => false

/-- `hh:mm:ss(.s+)?(zone)?` (24:00:00 allowed). -/
def isTime : Str → Bool
  | h1 :: h2 :: ':' :: m1 :: m2 :: ':' :: s1 :: s2 :: rest =>
    allDigits [h1, h2, m1, m2, s1, s2] &&
    (let (frac, zone) := match rest with
        | '.' :: r => (some (r.takeWhile Char.isDigit), r.dropWhile Char.isDigit)
        | r => (none, r)
     let fracOk := match frac with | some f => !f.isEmpty | none => true
     let fracZero := match frac with | some f => f.all (· == '0') | none => true
     fracOk && isZone zone &&
      (num2 h1 h2 < 24 && num2 m1 m2 < 60 && num2 s1 s2 < 60 ||
       num2 h1 h2 == 24 && num2 m1 m2 == 0 && num2 s1 s2 == 0 && fracZero))
  | _ => false

def daysIn (y m : Nat) : Nat :=
  if m == 2 then (if y % 4 == 0 && (y % 100 != 0 || y % 400 == 0) then 29 else 28)
  else if m == 4 || m == 6 || m == 9 || m == 11 then 30 else 31

/-- `-?yyyy+-mm-dd(zone)?`; year 0000 is not allowed, more than four year digits must not start with 0. -/
def isDate (s : Str) : Bool :=
  let b := match s with | '-' :: r => r | r => r
  let yr := b.takeWhile Char.isDigit
  match b.dropWhile Char.isDigit with
  | '-' :: m1 :: m2 :: '-' :: d1 :: d2 :: zone =>
    yr.length ≥ 4 && (yr.length == 4 || yr.head? != some '0') && digitsVal yr != 0 &&
    allDigits [m1, m2, d1, d2] && 1 ≤ num2 m1 m2 && num2 m1 m2 ≤ 12 &&
    1 ≤ num2 d1 d2 && num2 d1 d2 ≤ daysIn (digitsVal yr) (num2 m1 m2) && isZone zone
  | _ => false

/-! ## Schema terms -/

inductive Base where
  | decimal | integer | boolean | string | time | date
  deriving DecidableEq, Repr, Inhabited

/-- A simple type: built-in base + facets (an empty `enum` list means "no enumeration facet"). -/
structure Simple where
  base : Base
  enum : List String := []
  minExcl : Option Int := none
  minIncl : Option Int := none
  maxIncl : Option Int := none
  deriving DecidableEq, Repr, Inhabited

def Simple.accepts (t : Simple) (raw : Str) : Bool :=
  -- libxml2 (the validator the model is compared with) does not collapse white space around xs:time / xs:date
  let s := if t.base == .string || t.base == .time || t.base == .date then raw else strip raw
  (match t.base with
    | .decimal => isDecimal s
    | .integer => isInteger s
    | .boolean => isBoolean s
    | .string => true
    | .time => isTime s
    | .date => isDate s) &&
  (t.enum.isEmpty || t.enum.any (fun v => v.toList == s)) &&
  (match t.minExcl with | some b => decGt s b | none => true) &&
  (match t.minIncl with | some b => decGe s b | none => true) &&
  (match t.maxIncl with | some b => decLe s b | none => true)

/-- element particle: name, name of its type definition, occurrence range (`max = none`: unbounded). -/
structure ElemP where
  name : String
  type : String
  min : Nat := 1
  max : Option Nat := some 1
  deriving DecidableEq, Repr, Inhabited

inductive Item where
  | elem (e : ElemP)
  | seq (es : List ElemP) (min : Nat) (max : Option Nat)
  | choice (es : List ElemP) (min : Nat) (max : Option Nat)
  deriving DecidableEq, Repr, Inhabited

inductive Group where
  | empty
  | seq (items : List Item) (min : Nat) (max : Option Nat)
  | choice (items : List Item) (min : Nat) (max : Option Nat)
  | all (es : List ElemP)
  deriving DecidableEq, Repr, Inhabited

structure AttrP where
  name : String
  type : String
  required : Bool
  deriving DecidableEq, Repr, Inhabited

inductive TypeDef where
  | simple (s : Simple)
  | complex (attrs : List AttrP) (mixed : Bool) (content : Group)
  deriving DecidableEq, Repr, Inhabited

structure Schema where
  types : List (String × TypeDef)
  rootName : String
  rootType : String
  /-- xs:key selector: child paths below the root element, e.g. `["lanelet"]`, `["intersection", "incoming"]` -/
  keyPaths : List (List String)
  keyField : String
  /-- xs:keyref (selector `.//*`) field -/
  refField : String
  deriving DecidableEq, Repr, Inhabited

def Schema.lookup (S : Schema) (n : String) : Option TypeDef := S.types.lookup n

/-- content model of a named complex type (`empty` for simple / unknown types). -/
def Schema.content (S : Schema) (n : String) : Group :=
  match S.lookup n with
  | some (.complex _ _ g) => g
  | _ => .empty

/-- the element particles of a group whose items are all elements -/
def elemsOf : Group → List ElemP
  | .seq items _ _ => items.filterMap (fun | .elem e => some e | _ => none)
  | .choice items _ _ => items.filterMap (fun | .elem e => some e | _ => none)
  | .all es => es
  | .empty => []

/-! ## Content-model matching (greedy, deterministic — XSD content models obey "unique particle attribution") -/

/-- result of matching a prefix: the type names assigned to the consumed children, and the remaining names -/
abbrev M := Option (List String × List String)

def countPrefix (n : String) : List String → Nat
  | [] => 0
  | x :: xs => if x = n then countPrefix n xs + 1 else 0

def capMax (k : Nat) : Option Nat → Nat
  | none => k
  | some m => min k m

def matchElem (e : ElemP) (ns : List String) : M :=
  let k := capMax (countPrefix e.name ns) e.max
  if k < e.min then none else some (List.replicate k e.type, ns.drop k)

/-- a sequence of element particles, once -/
def matchElems : List ElemP → List String → M
  | [], ns => some ([], ns)
  | e :: es, ns =>
    match matchElem e ns with
    | none => none
    | some (ts, rest) =>
      match matchElems es rest with
      | none => none
      | some (ts', rest') => some (ts ++ ts', rest')

/-- a choice of element particles, once: the alternative named like the next child (else an emptiable one) -/
def matchChoiceE (es : List ElemP) (ns : List String) : M :=
  match ns with
  | [] => if es.any (·.min == 0) then some ([], []) else none
  | n :: _ =>
    match es.find? (·.name == n) with
    | some e => matchElem e ns
    | none => if es.any (·.min == 0) then some ([], ns) else none

def atMax (cnt : Nat) : Option Nat → Bool
  | none => false
  | some m => decide (m ≤ cnt)

/-- `one{min,max}`, greedy; `fuel` bounds the number of iterations (each consumes at least one name). -/
def rep (one : List String → M) (min : Nat) (max : Option Nat) : Nat → Nat → List String → M
  | 0, cnt, ns => if min ≤ cnt then some ([], ns) else none
  | fuel + 1, cnt, ns =>
    if atMax cnt max then (if min ≤ cnt then some ([], ns) else none)
    else match one ns with
      | none => if min ≤ cnt then some ([], ns) else none
      | some (ts, rest) =>
        if rest.length < ns.length then
          match rep one min max fuel (cnt + 1) rest with
          | none => none
          | some (ts', rest') => some (ts ++ ts', rest')
        else some ([], ns)   -- the body matches the empty sequence: every remaining occurrence is empty

def matchItem (it : Item) (ns : List String) : M :=
  match it with
  | .elem e => matchElem e ns
  | .seq es mn mx => rep (matchElems es) mn mx (ns.length + 1) 0 ns
  | .choice es mn mx => rep (matchChoiceE es) mn mx (ns.length + 1) 0 ns

def matchItems : List Item → List String → M
  | [], ns => some ([], ns)
  | it :: its, ns =>
    match matchItem it ns with
    | none => none
    | some (ts, rest) =>
      match matchItems its rest with
      | none => none
      | some (ts', rest') => some (ts ++ ts', rest')

/-- first alternative that consumes something; else the empty match if some alternative is emptiable -/
def matchChoiceI : List Item → List String → M
  | [], _ => none
  | it :: its, ns =>
    match matchItem it ns with
    | some (ts, rest) =>
      if rest.length < ns.length then some (ts, rest)
      else (match matchChoiceI its ns with
            | some r => some r
            | none => some ([], ns))
    | none => matchChoiceI its ns

def countName (n : String) (ns : List String) : Nat := ns.countP (· == n)

/-- xs:all: every child is one of the elements, each element occurs within its range; order is free -/
def matchAll (es : List ElemP) (ns : List String) : Option (List String) :=
  if es.all (fun e => decide (e.min ≤ countName e.name ns) && !(atMax (countName e.name ns) (e.max.map (· + 1)))) &&
     ns.all (fun n => es.any (·.name == n)) then
    some (ns.map (fun n => match es.find? (·.name == n) with | some e => e.type | none => ""))
  else none

/-- the whole child-name sequence against a content model: `some types` (one per child) or `none`. -/
def matchGroup (g : Group) (ns : List String) : Option (List String) :=
  match g with
  | .empty => if ns.isEmpty then some [] else none
  | .all es => matchAll es ns
  | .seq items mn mx =>
    match rep (matchItems items) mn mx (ns.length + 1) 0 ns with
    | some (ts, []) => some ts
    | _ => none
  | .choice items mn mx =>
    match rep (matchChoiceI items) mn mx (ns.length + 1) 0 ns with
    | some (ts, []) => some ts
    | _ => none

/-! ## Documents -/

/-- Element tree.  `text` is the character data directly inside the element (the harness passes "" for
    white-space-only character data of elements that have children). -/
inductive Xml where
  | node (name : String) (attrs : List (String × String)) (text : Str) (kids : List Xml)
  deriving Repr, Inhabited

def Xml.name : Xml → String | .node n _ _ _ => n
def Xml.attrs : Xml → List (String × String) | .node _ a _ _ => a
def Xml.text : Xml → Str | .node _ _ t _ => t
def Xml.kids : Xml → List Xml | .node _ _ _ k => k
def Xml.kidNames (x : Xml) : List String := x.kids.map Xml.name

def simpleOf (S : Schema) (n : String) : Option Simple :=
  match S.lookup n with
  | some (.simple s) => some s
  | _ => none

/-- attributes: every present one is declared and lexically valid, every required one is present -/
def attrsOk (S : Schema) (decl : List AttrP) (attrs : List (String × String)) : Bool :=
  attrs.all (fun (k, v) =>
    match decl.find? (·.name == k) with
    | none => false
    | some a => match simpleOf S a.type with
      | some st => st.accepts v.toList
      | none => false) &&
  decl.all (fun a => !a.required || attrs.any (fun (k, _) => k == a.name))

/-- everything about one element except its children's own validity: attributes, character data, and
    the children's names against the content model (`some types`), or the simple type's lexical check. -/
def shallow (S : Schema) (tn : String) (x : Xml) : Option (List String) :=
  match S.lookup tn with
  | none => none
  | some (.simple st) => if x.attrs.isEmpty && x.kids.isEmpty && st.accepts x.text then some [] else none
  | some (.complex decl mixed g) =>
    -- element-only content admits white space between the children; empty content admits no character data at all
    let textOk := mixed || (match g with | .empty => x.text.isEmpty | _ => x.text.all isWs)
    if attrsOk S decl x.attrs && textOk then matchGroup g x.kidNames else none

mutual
  /-- `x` is valid against the type named `tn`. -/
  def validNode (S : Schema) (tn : String) : Xml → Bool
    | .node n a t kids =>
      match shallow S tn (.node n a t kids) with
      | none => false
      | some ts => validKids S ts kids
  def validKids (S : Schema) : List String → List Xml → Bool
    | [], [] => true
    | t :: ts, k :: ks => validNode S t k && validKids S ts ks
    | _, _ => false
end

/-! ## Identity constraints -/

def attrOf (x : Xml) (k : String) : Option String := (x.attrs.find? (·.1 == k)).map (·.2)

/-- value space of xs:integer (ids are compared as numbers: "07" = "7") -/
def intValue (s : Str) : Option Int :=
  let t := strip s
  if isInteger t then some (numer t) else none

def selectPath : List String → List Xml → List Xml
  | [], xs => xs
  | [n], xs => xs.filter (·.name == n)
  | n :: p, xs => selectPath p ((xs.filter (·.name == n)).flatMap Xml.kids)

/-- nodes selected by the key selector, in path order -/
def keyNodes (S : Schema) (root : Xml) : List Xml := S.keyPaths.flatMap (fun p => selectPath p root.kids)

def keyValues (S : Schema) (root : Xml) : List (Option Int) :=
  (keyNodes S root).map (fun x => (attrOf x S.keyField).bind (fun v => intValue v.toList))

mutual
  /-- all values of attribute `k` in the subtree (document order) -/
  def refsOf (k : String) : Xml → List String
    | .node _ a _ kids => ((a.find? (·.1 == k)).map (·.2)).toList ++ refsOfList k kids
  def refsOfList (k : String) : List Xml → List String
    | [] => []
    | x :: xs => refsOf k x ++ refsOfList k xs
end

def nodupInt : List Int → Bool
  | [] => true
  | x :: xs => !xs.contains x && nodupInt xs

/-- xs:key: every selected element has the field and the values are pairwise different;
    a path selected twice (the XSD lists ./trafficSign twice) selects a node set, so paths are de-duplicated. -/
def keysOk (S : Schema) (root : Xml) : Bool :=
  let S' := { S with keyPaths := S.keyPaths.eraseDups }
  let vs := keyValues S' root
  vs.all Option.isSome && nodupInt (vs.filterMap id)

/-- xs:keyref: every `@ref` below the root resolves to a key value -/
def refsOk (S : Schema) (root : Xml) : Bool :=
  let S' := { S with keyPaths := S.keyPaths.eraseDups }
  let keys := (keyValues S' root).filterMap id
  (refsOfList S.refField root.kids).all (fun v =>
    match intValue v.toList with
    | some i => keys.contains i
    | none => false)

/-- the document is valid against the schema -/
def validDoc (S : Schema) (root : Xml) : Bool :=
  root.name == S.rootName && validNode S S.rootType root && keysOk S root && refsOk S root

/-! ## Diagnostics (driver only): path of the first element that is not shallow-valid -/

mutual
  def diagNode (S : Schema) (tn : String) (path : String) : Xml → List String
    | .node n a t kids =>
      match shallow S tn (.node n a t kids) with
      | none => [path ++ "/" ++ n ++ " : " ++ tn]
      | some ts => diagKids S (path ++ "/" ++ n) ts kids
  def diagKids (S : Schema) (path : String) : List String → List Xml → List String
    | t :: ts, k :: ks => diagNode S t path k ++ diagKids S path ts ks
    | _, _ => []
end

end CR.Xsd
