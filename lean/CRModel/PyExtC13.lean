/-
  CRModel.PyExtC13 — the fixed vocabulary harness/translate/src_c13.py maps the Python string / list / regex / enum
  operations of `ScenarioID` (scenario/scenario.py) and of the solution benchmark id (common/solution.py) to.
  Hand-written, core Lean only.  Everything here is *trusted to denote* the Python operation named in its comment;
  strings are `List Char` (`CR.BenchId.Str`), the exception classes are `CR.Err`.

  Dynamically typed values: `prediction_id` is `None`, an `int` or a `list`, and `__str__` builds a list of mixed
  `str` / `int` / `None` parts.  `Sc` is the scalar universe (None | int | str), `PV` adds lists of scalars; a value
  outside these (a nested list) is `PV.other`, on which every partial operation raises (`Err.type`).
-/
import CRModel.Basic
import CRModel.BenchId
namespace CR.PyC13
open CR CR.BenchId

/-- Python scalar: `None`, an `int`, a `str`. -/
inductive Sc where
  | none | int (n : Int) | str (s : Str)
  deriving DecidableEq, Repr, Inhabited

/-- `None` / `int` / `str` / a `list` of scalars / something else. -/
inductive PV where
  | sc (a : Sc) | list (l : List Sc) | other
  deriving DecidableEq, Repr, Inhabited

/-- an `Optional[int]` / `Optional[str]` value as a scalar -/
def Sc.ofOptInt : Option Int → Sc
  | .none => .none
  | .some n => .int n
def Sc.ofOptStr : Option Str → Sc
  | .none => .none
  | .some s => .str s

/-- `x is None` -/
def Sc.isNone : Sc → Bool
  | .none => true
  | _ => false

/-- `str(x)`: `"None"`, the decimal digits of an int, the string itself. -/
def Sc.pyStr : Sc → Str
  | .none => ['N', 'o', 'n', 'e']
  | .int n => intRepr n
  | .str s => s

/-- truth value of a scalar (`bool(x)`): `None`, `0`, `""` are false. -/
def Sc.truthy : Sc → Bool
  | .none => false
  | .int n => n != 0
  | .str s => !s.isEmpty

/-- `a > n` for an int `n`: `TypeError` unless `a` is an int. -/
def Sc.gt (a : Sc) (n : Int) : Res Bool :=
  match a with
  | .int m => .ok (decide (m > n))
  | _ => .error .type

/-- `a > n` for an `Optional[int]` `a`: `None > n` is a `TypeError`. -/
def optGt (a : Option Int) (n : Int) : Res Bool :=
  match a with
  | some m => .ok (decide (m > n))
  | none => .error .type

/-- `x is None` -/
def PV.isNone : PV → Bool
  | .sc a => a.isNone
  | _ => false

/-- `isinstance(x, list)` -/
def PV.isList : PV → Bool
  | .list _ => true
  | _ => false

/-- `bool(x)`: an empty list is false. -/
def PV.truthy : PV → Bool
  | .sc a => a.truthy
  | .list l => !l.isEmpty
  | .other => true

/-- `x or y` -/
def PV.orElse (x y : PV) : PV := if x.truthy then x else y

/-- the list display `[x]`; a list inside a list is outside the universe. -/
def PV.list1 : PV → PV
  | .sc a => .list [a]
  | _ => .other

/-- `for p in x` / `[... for p in x]`: the elements of a list; iterating `None` or an `int` is a `TypeError`
    (a `str` would be iterable: outside the fragment, reported as `TypeError` too — no tied function iterates one). -/
def PV.iter : PV → Res (List Sc)
  | .list l => .ok l
  | _ => .error .type

/-- `a or d` for an `Optional[int]` `a` and an int `d`. -/
def optIntOr (a : Option Int) (d : Int) : Int :=
  match a with
  | some n => if n != 0 then n else d
  | none => d

/-- `all(f(p) for p in l)` with a partial predicate: stops at the first false / the first exception. -/
def allM {α : Type} (f : α → Res Bool) : List α → Res Bool
  | [] => .ok true
  | a :: t =>
    match f a with
    | .ok true => allM f t
    | .ok false => .ok false
    | .error e => .error e

/-- `sep.join(l)` -/
def joinS (sep : Str) : List Str → Str
  | [] => []
  | [a] => a
  | a :: b :: t => a ++ sep ++ joinS sep (b :: t)

/-- `s.split(c)` for a one-character separator -/
def split (s : Str) (c : Char) : List Str := splitOn c s

/-- `s.replace(c, "")` for a one-character `c` -/
def removeChar (c : Char) (s : Str) : Str := s.filter fun x => x != c

/-- membership in a regex character class given as ranges (`a-z` ↦ `('a','z')`, a single `c` ↦ `(c,c)`) -/
def inClass (rs : List (Char × Char)) (c : Char) : Bool := rs.any fun r => r.1.val ≤ c.val && c.val ≤ r.2.val

/-- `re.sub("[...]", "", s)` (`neg = false`) / `re.sub("[^...]", "", s)` (`neg = true`): delete the characters the class matches -/
def delClass (neg : Bool) (rs : List (Char × Char)) (s : Str) : Str :=
  s.filter fun c => if neg then inClass rs c else !inClass rs c

/-- `int(s)` for a regex group `[1-9][0-9]*` / `[0-9]+` (ASCII digits only; nothing else reaches these calls) -/
def intOfDigits (s : Str) : Int := (digitsToNat s : Int)

/-- `int(s)` for an ASCII string without sign, blank or underscore characters: `ValueError` unless it is a non-empty
    digit string (Python also accepts signs, surrounding blanks, `_` and non-ASCII digits: outside the fragment). -/
def pyInt (s : Str) : Res Int :=
  if s ≠ [] ∧ s.all Char.isDigit then .ok (digitsToNat s : Int) else .error .value

/-- `E[name]` for an Enum class with members `all`: `KeyError` for an unknown name. -/
def enumByName {α : Type} (all : List α) (name : α → Str) (x : Str) : Res α :=
  match all.find? (fun m => name m = x) with
  | some m => .ok m
  | none => .error .key

/-- `E(value)` for an Enum class with integer values: `ValueError` for an unknown value. -/
def enumByValue {α : Type} (all : List α) (value : α → Int) (x : Int) : Res α :=
  match all.find? (fun m => value m = x) with
  | some m => .ok m
  | none => .error .value

/-- `prediction_id` of the model as a Python value -/
def predToPV : Pred → PV
  | .none => .sc .none
  | .one n => .sc (.int n)
  | .many l => .list (l.map Sc.int)

/-- the attributes of a `ScenarioID` object as the translated constructor leaves them (`prediction_id` dynamically typed) -/
structure SId where
  coop : Bool
  country : Str
  mapName : Str
  mapId : Int
  config : Option Int
  beh : Option Str
  pred : PV
  version : Str
  deriving DecidableEq, Repr, Inhabited

def idToS (i : Id) : SId :=
  { coop := i.coop, country := i.country, mapName := i.mapName, mapId := i.mapId, config := i.config, beh := i.beh,
    pred := predToPV i.pred, version := i.version }

/-- the eight constructor arguments of `ScenarioID(...)` as Python values -/
structure Args where
  coop : Bool
  country : Option Str
  mapName : Str
  mapId : Int
  config : Option Int
  beh : Option Str
  pred : PV
  version : Str
  deriving DecidableEq, Repr, Inhabited

def rawToArgs (r : Raw) : Args :=
  { coop := r.coop, country := r.country, mapName := r.mapName, mapId := r.mapId, config := r.config, beh := r.beh,
    pred := predToPV r.pred, version := r.version }

/-! ## regular expressions as extracted from the pattern text -/

/-- syntax of the `re` fragment the extractor reads: character classes (ranges), literal characters, sequence,
    `?` (`alt a eps`), `*`, `+` (`seq a (star a)`), `{n}` (n copies), groups (named: `(?P<name>…)`, unnamed: name `""`). -/
inductive RX where
  | cls (rs : List (Char × Char)) | chr (c : Char) | eps | seq (a b : RX) | alt (a b : RX) | star (a : RX)
  | group (name : String) (a : RX)
  deriving DecidableEq, Repr, Inhabited

/-- the language: groups are transparent, a class is its membership test -/
def RX.toRE : RX → RE
  | .cls rs => .cls (inClass rs)
  | .chr c => .chr c
  | .eps => .eps
  | .seq a b => .seq a.toRE b.toRE
  | .alt a b => .alt a.toRE b.toRE
  | .star a => .star a.toRE
  | .group _ a => a.toRE

/-- the named groups in order of their opening parenthesis -/
def RX.names : RX → List String
  | .seq a b => a.names ++ b.names
  | .alt a b => a.names ++ b.names
  | .star a => a.names
  | .group n a => (if n = "" then [] else [n]) ++ a.names
  | _ => []

end CR.PyC13
