/-
  CRModel.Frame — the read-only operations of commonroad-io as state transformers `step : Op → St → St × Res Out` over
  (observable state) + (hidden caches they touch), for a selectable variant of the code (`Sem`: the tree as it is, the
  pinned tree before the three `fix:` commits, two seeded changes).

  An operation's model reads and writes through the same records the observation `St.obs` reads: the occupancy computation
  is a transformer of the trajectory's state list whose result is stored back, goal checks run on an object store whose
  slot 0 is written back, the writers thread the goal-lanelet tables, the registry and merge queries write the lanelet's
  registries back.  That these come back unchanged is proved for `Sem.repaired` (CRProofs/Frame.lean) and refuted for the
  other variants (CRProps/C18.lean).

  Modelled code (commonroad-io; line numbers of the repaired tree at the time of writing):
    prediction/prediction.py:122-140   Prediction.occupancy_at_time_step           → `Pred.occAt`, `findOcc`
    prediction/prediction.py:291-299   TrajectoryPrediction.occupancy_set (functools.cached_property) → `Pred.occSet`
    prediction/prediction.py:390-410   TrajectoryPrediction._create_occupancy_set   → `createOccLoop` / `createOccSet`, `createOccs`
    scenario/obstacle.py:419-435, 612-642, 797-820, 954-961   occupancy_at_time / state_at_time of the four obstacle classes
    scenario/trajectory.py:133-143     Trajectory.state_at_time_step
    scenario/scenario.py:1046-1071, 1131-1181, 1183-1201   occupancies_at_time_step, obstacles_by_position_intervals, obstacle_states_at_time_step
    scenario/lanelet.py                 __getstate__/__setstate__/__deepcopy__, _create_strtree, find_lanelet_by_position, find_lanelet_by_shape,
                                        get_obstacles, map_obstacles_to_lanelets, dynamic_obstacle_by_time_step, _merge_*_obstacles_on_lanelet,
                                        merge_lanelets, all_lanelets_by_merging_{successors,predecessors}_from_lanelet
    scenario/traffic_light.py:165-185  cycle_init_timesteps (lazy `_cycle_init_timesteps`) / get_state_at_time_step (C11's / C17's model function)
    planning/goal.py:89-123, 196-228   GoalRegion.is_reached, _harmonize_state_types;  planning/planning_problem.py:86-96 goal_reached
    visualization/mp_renderer.py:454-720, visualization/util.py:129-155, visualization/traffic_sign.py:509-515   which occupancy and
                                        traffic-light queries draw_scenario + render issue
    common/writer/file_writer_xml.py, file_writer_protobuf.py   goal lanelets of a planning problem (`in`, then index); states are
                                        written from `used_attributes`; what else is read is in `Extra`

  Values are opaque integer tokens (the harness interns every attribute value, shape and point); geometry and goal decisions
  are parameters.  Core Lean only.
-/
import CRModel.Basic
import CRModel.TrafficLight
import CRModel.Cache
namespace CR.Frame

/-- Which variant of the code runs.  Every flag names one place where the code writes (or once wrote, or — in a seeded
    change — would write) into an object the caller owns.  `repaired` (all flags off) is the code as it is; it is the
    default instance, so the driver and every theorem that does not say otherwise are about it.  The other variants exist
    so that the frame theorem is a statement that CAN fail: for each flag there is a theorem exhibiting the family of
    states on which that variant changes the observable state. -/
class Sem where
  /-- before `fix: … no longer adds an orientation attribute`: `_create_occupancy_set` set `state.orientation` on the
      trajectory's own state instead of on a copy (prediction.py:393-395 of the pinned tree) -/
  occWritesOrientation : Bool
  /-- before `fix: protobuf writer reads the goal lanelets … only if the table has an entry`: `table[i]` for every goal
      index whenever the table is not None -/
  pbIndexesTable : Bool
  /-- before `fix: Lanelet.merge_lanelets no longer adds …`: the ids of the second lanelet were added to the registries of
      the first one, which the merged lanelet then shared -/
  mergeInPlace : Bool
  /-- seeded: `_harmonize_state_types` with `state_new = state` instead of a deep copy -/
  harmonizeNoCopy : Bool
  /-- seeded: `dynamic_obstacle_by_time_step` as `dict.setdefault(t, set())` -/
  dynByTimeInserts : Bool
  deriving DecidableEq, Repr

@[reducible] def Sem.repaired : Sem := ⟨false, false, false, false, false⟩
/-- the pinned tree before the three `fix:` commits -/
@[reducible] def Sem.legacy : Sem := ⟨true, true, true, false, false⟩
/-- the two seeded changes -/
@[reducible] def Sem.seeded : Sem := ⟨false, false, false, true, true⟩

instance instSem : Sem := Sem.repaired

/-- further observable attributes of an object: attribute name ↦ content token -/
abbrev Attrs := List (String × Int)

/-- Everything observable that no modelled operation looks into, one content token per public attribute (the harness interns
    the reflective snapshot of the attribute's value): the scenario's own attributes (dt, scenario_id, author, tags,
    affiliation, source, location); per obstacle its type, shape, signal states and series, meta information, history,
    lanelet assignments, prediction extras; per lanelet its three vertex arrays, adjacency, line markings, types, users,
    stop line, sign references, adjacent areas; the traffic signs; per traffic light position, direction, colour, shape,
    `cycle.active`; the intersections; the network's information and areas.  The writers read all of it. -/
structure Extra where
  scenario : Attrs := []
  network : Attrs := []
  obstacles : List (Nat × Attrs) := []
  lanelets : List (Nat × Attrs) := []
  signs : List (Nat × Attrs) := []
  lights : List (Nat × Attrs) := []
  intersections : List (Nat × Attrs) := []
  deriving DecidableEq, Repr, Inhabited

/-! ## States -/

/-- A trace state as the operations see it: its time step, whether its class offers a computed `orientation`
    property (PMState, state.py:363-372), and the instance `__dict__` without `time_step`
    (attribute name ↦ value token, `none` = the attribute exists and is `None`), in insertion order. -/
structure TState where
  t : Int
  oriProp : Bool
  attrs : List (String × Option Int)
  deriving DecidableEq, Repr, Inhabited

/-- `hasattr(state, a)` -/
def TState.hasattr (s : TState) (a : String) : Bool :=
  (a == "orientation" && s.oriProp) || s.attrs.any (·.1 == a)

/-- `getattr(state, a)` for an instance attribute: AttributeError when absent; a `None` value is a TypeError at its
    first arithmetic use (math.atan2 / rotate_translate_local). -/
def TState.getattr (s : TState) (a : String) : Res Int :=
  match s.attrs.lookup a with
  | some (some v) => .ok v
  | some none => .error .type
  | none => .error .attr

/-- `state.used_attributes` without `time_step`: the populated attributes (state.py:209-220). -/
def TState.used (s : TState) : List (String × Int) :=
  s.attrs.filterMap fun (n, v) => v.map fun x => (n, x)

/-- A heading: a stored value, or `math.atan2(velocity_y, velocity)` of two stored values. -/
inductive Ori where
  | tok (v : Int)
  | atan2 (vy v : Int)
  deriving DecidableEq, Repr, Inhabited

/-- An occupied region: the obstacle shape placed at a position with a heading
    (`shape.rotate_translate_local(position, orientation)`), or a shape used as it is. -/
inductive Region where
  | placed (shape pos : Int) (ori : Ori)
  | fixed (shape : Int)
  deriving DecidableEq, Repr, Inhabited

/-- `Occupancy(time_step, shape)`; `lo = hi` for a single time step, otherwise the time interval. -/
structure Occ where
  lo : Int
  hi : Int
  region : Region
  deriving DecidableEq, Repr, Inhabited

/-- Heading used for the occupied region of one state (prediction.py:392-397, repaired: a local value). -/
def stateOri (s : TState) : Res Ori :=
  if s.hasattr "orientation" then
    if s.oriProp then do          -- PMState.orientation = atan2(velocity_y, velocity)
      let vy ← s.getattr "velocity_y"
      let v ← s.getattr "velocity"
      pure (.atan2 vy v)
    else .tok <$> s.getattr "orientation"
  else do
    let vy ← s.getattr "velocity_y"   -- getattr(state, "velocity_y"): AttributeError when there is none
    let v ← s.getattr "velocity"
    pure (.atan2 vy v)

def occOfState (shape : Int) (s : TState) : Res Occ := do
  let o ← stateOri s
  let p ← s.getattr "position"
  pure ⟨s.t, s.t, .placed shape p o⟩

/-- the occupancies `_create_occupancy_set` computes, as a function of the states (used to state the cache invariant) -/
def createOccs (shape : Int) (states : List TState) : Res (List Occ) :=
  states.mapM (occOfState shape)

/-- `_create_occupancy_set` (prediction.py:390-410) as a transformer of the trajectory's state list: (the states afterwards,
    the occupancies).  For a state without `orientation` the heading is computed and stored in an `orientation` attribute —
    of a `copy.copy` of the state (now), of the state itself (`occWritesOrientation`).  The stored value is a computed
    one; it is represented by the token `-1 - (index of the state)`. -/
def createOccLoop [sem : Sem] (shape : Int) : List TState → Nat → List TState × Res (List Occ)
  | [], _ => ([], .ok [])
  | s :: rest, i =>
    if s.hasattr "orientation" then
      match occOfState shape s with
      | .error e => (s :: rest, .error e)
      | .ok o => (s :: (createOccLoop shape rest (i + 1)).1, (o :: ·) <$> (createOccLoop shape rest (i + 1)).2)
    else
      match stateOri s with
      | .error e => (s :: rest, .error e)
      | .ok ori =>
        -- the object that carries the computed heading, and what the trajectory's list holds afterwards
        let withOri : TState := { s with attrs := s.attrs ++ [("orientation", some (-1 - (i : Int)))] }
        let kept := if sem.occWritesOrientation then withOri else s
        match s.getattr "position" with
        | .error e => (kept :: rest, .error e)
        | .ok p =>
          (kept :: (createOccLoop shape rest (i + 1)).1,
           ((⟨s.t, s.t, .placed shape p ori⟩ : Occ) :: ·) <$> (createOccLoop shape rest (i + 1)).2)

def createOccSet [sem : Sem] (shape : Int) (states : List TState) : List TState × Res (List Occ) :=
  createOccLoop shape states 0

/-! ## Goal checks: a small object store, because what matters here is which object gets written -/

/-- The objects a goal check handles: slot 0 is the caller's state, further slots are the objects the check creates. -/
abbrev Heap := List TState

/-- `setattr(state, a, v)`: overwrite an existing attribute, append a new one -/
def TState.setattr (s : TState) (a : String) (v : Option Int) : TState :=
  if s.attrs.any (·.1 == a) then { s with attrs := s.attrs.map fun (n, x) => if n == a then (n, v) else (n, x) }
  else { s with attrs := s.attrs ++ [(a, v)] }

/-- `state.used_attributes` without `time_step`, names only -/
def TState.fields (s : TState) : List String := s.used.map (·.1)

def goalNeedsHarmonize (stateFields goalFields : List String) : Bool :=
  stateFields.contains "velocity" && stateFields.contains "velocity_y"
    && (goalFields.contains "orientation" || goalFields.contains "velocity")
    && !(goalFields.contains "velocity" && goalFields.contains "velocity_y")

/-- `GoalRegion._harmonize_state_types` (goal.py:196-228).  `r` is the slot of the state that is checked.
    `state_new = copy.deepcopy(state)` allocates slot `h.length`; a point-mass state (no `orientation` among its fields) is
    rebuilt as a new `CustomState` in a further slot, otherwise the speed is written into the COPY.  `vTok`, `oTok` stand for
    the computed speed `norm(vx, vy)` and heading `atan2(vy, vx)`.  Returns (store, slot of `state_new`, state fields). -/
def harmonize (h : Heap) (r : Nat) (stateFields goalFields : List String) (vTok oTok : Int) : Heap × Nat × List String :=
  let c := h.length
  let h1 := h ++ [h.getD r default]
  if goalNeedsHarmonize stateFields goalFields then
    if !stateFields.contains "orientation" then
      let sn := h1.getD c default
      let st' : TState :=
        (({ t := sn.t, oriProp := false, attrs := sn.attrs.filter (fun a => a.1 != "velocity_y") } : TState).setattr
          "orientation" (some oTok)).setattr "velocity" (some vTok)
      (h1 ++ [st'], c + 1, ("orientation" :: stateFields).filter (· != "velocity_y"))
    else (h1.modify c (·.setattr "velocity" (some vTok)), c, stateFields.filter (· != "velocity_y"))
  else (h1, c, stateFields)

/-- the seeded variant `state_new = state` (no copy): the speed is written into the caller's state -/
def harmonizeNoCopy (h : Heap) (r : Nat) (stateFields goalFields : List String) (vTok oTok : Int) : Heap × Nat × List String :=
  if goalNeedsHarmonize stateFields goalFields then
    if !stateFields.contains "orientation" then
      let sn := h.getD r default
      let st' : TState :=
        (({ t := sn.t, oriProp := false, attrs := sn.attrs.filter (fun a => a.1 != "velocity_y") } : TState).setattr
          "orientation" (some oTok)).setattr "velocity" (some vTok)
      (h ++ [st'], h.length, ("orientation" :: stateFields).filter (· != "velocity_y"))
    else (h.modify r (·.setattr "velocity" (some vTok)), r, stateFields.filter (· != "velocity_y"))
  else (h, r, stateFields)

/-- the loop of `GoalRegion.is_reached` (goal.py:89-123) over the goal states (each given by its populated attributes).
    `goal_state_tmp = copy.deepcopy(goal_state)` is a fresh object that is only passed through; the decision whether the
    harmonised state lies in goal state `i` is C08's subject and enters as `dec[i]` (a Boolean, or the exception the
    comparison raises, e.g. for a state whose position is a region).  A goal attribute the state lacks is a ValueError.
    Returns the store and `np.any(is_reached_list)`. -/
def reachedLoop (harm : Heap → Nat → List String → List String → Int → Int → Heap × Nat × List String)
    (h : Heap) (r : Nat) : List (List String) → List (Res Bool) → Heap × Res Bool
  | [], _ => (h, .ok false)
  | g :: gs, dec =>
    let hr := harm h r (h.getD r default).fields g (-1) (-2)
    if !(g.all hr.2.2.contains) then (hr.1, .error .value)
    else
      match dec.headD (.ok false) with
      | .error e => (hr.1, .error e)
      | .ok d => ((reachedLoop harm hr.1 r gs dec.tail).1, (fun b => d || b) <$> (reachedLoop harm hr.1 r gs dec.tail).2)

/-- `GoalRegion.is_reached(state)`: (the caller's state afterwards, the answer) -/
def harmonizeOf [sem : Sem] : Heap → Nat → List String → List String → Int → Int → Heap × Nat × List String :=
  if sem.harmonizeNoCopy then harmonizeNoCopy else harmonize

def isReached [sem : Sem] (goals : List (List String)) (st : TState) (dec : List (Res Bool)) : TState × Res Bool :=
  (((reachedLoop harmonizeOf [st] 0 goals dec).1).getD 0 default, (reachedLoop harmonizeOf [st] 0 goals dec).2)

/-- pair every state with its decision list (missing lists are empty) -/
def zipDec : List TState → List (List (Res Bool)) → List (TState × List (Res Bool))
  | [], _ => []
  | s :: ss, [] => (s, []) :: zipDec ss []
  | s :: ss, d :: ds => (s, d) :: zipDec ss ds

/-- `PlanningProblem.goal_reached` (planning_problem.py:86-96): the states from the last to the first, the first hit wins.
    The list comes in reversed; the answer is the index in the original order. -/
def grLoop [sem : Sem] (goals : List (List String)) : List (TState × List (Res Bool)) → List TState × Res (Option Nat)
  | [] => ([], .ok none)
  | (st, dec) :: rest =>
    match (isReached goals st dec).2 with
    | .error e => ((isReached goals st dec).1 :: rest.map (·.1), .error e)
    | .ok true => ((isReached goals st dec).1 :: rest.map (·.1), .ok (some rest.length))
    | .ok false => ((isReached goals st dec).1 :: (grLoop goals rest).1, (grLoop goals rest).2)

/-- (the trajectory states afterwards, `(True, i)` as `some i` / `(False, -1)` as `none`) -/
def goalReachedStates [sem : Sem] (goals : List (List String)) (states : List TState) (decs : List (List (Res Bool))) :
    List TState × Res (Option Nat) :=
  ((grLoop goals (zipDec states decs).reverse).1.reverse, (grLoop goals (zipDec states decs).reverse).2)

/-! ## Predictions -/

/-- An occupancy of a set-based prediction. -/
structure SOcc where
  lo : Int
  hi : Int
  shape : Int
  deriving DecidableEq, Repr, Inhabited

inductive Pred where
  | absent
  | setBased (occs : List SOcc)
  /-- trajectory prediction; `cache` is the hidden `functools.cached_property` slot of `occupancy_set` -/
  | traj (t1 : Int) (states : List TState) (shape : Int) (cache : Option (List Occ))
  deriving DecidableEq, Repr, Inhabited

def SOcc.toOcc (o : SOcc) : Occ := ⟨o.lo, o.hi, .fixed o.shape⟩

/-- `prediction.occupancy_set`: the computation runs over the trajectory's own state list; what it leaves there is what the
    prediction holds afterwards -/
def Pred.occSet [sem : Sem] : Pred → Pred × Res (List Occ)
  | .absent => (.absent, .error .attr)                   -- `None.occupancy_set`
  | .setBased occs => (.setBased occs, .ok (occs.map SOcc.toOcc))
  | .traj t1 ss sh (some c) => (.traj t1 ss sh (some c), .ok c)
  | .traj t1 ss sh none =>
    match (createOccSet sh ss).2 with
    | .ok c => (.traj t1 (createOccSet sh ss).1 sh (some c), .ok c)          -- cached_property stores the value
    | .error e => (.traj t1 (createOccSet sh ss).1 sh none, .error e)        -- nothing is stored when the computation raises

/-- first occupancy whose time step (or interval) matches (prediction.py:128-135) -/
def findOcc (t : Int) : List Occ → Option Occ
  | [] => none
  | o :: rest => if o.lo ≤ t ∧ t ≤ o.hi then some o else findOcc t rest

/-- `prediction.occupancy_at_time_step(t)` -/
def Pred.occAt [sem : Sem] (p : Pred) (t : Int) : Pred × Res (Option Occ) :=
  (p.occSet.1, (findOcc t) <$> p.occSet.2)

/-- `prediction.trajectory.state_at_time_step(t)` as an index into the state list (trajectory.py:140-142) -/
def trajIndex (t1 : Int) (n : Nat) (t : Int) : Option Nat :=
  if t1 ≤ t ∧ t < t1 + n then some (t - t1).toNat else none

/-! ## Obstacles -/

inductive Role where
  | static | dynamic | phantom | environment
  deriving DecidableEq, Repr, Inhabited

inductive Obstacle where
  /-- `initOcc` is `_initial_occupancy_shape`, computed once by the `initial_state` setter (obstacle.py:248-255) -/
  | static (id : Nat) (init : TState) (initOcc : Region)
  | dynamic (id : Nat) (init : TState) (initOcc : Region) (pred : Pred)
  | phantom (id : Nat) (pred : Pred)
  | environment (id : Nat) (shape : Int)
  deriving DecidableEq, Repr, Inhabited

def Obstacle.id : Obstacle → Nat
  | .static i _ _ | .dynamic i _ _ _ | .phantom i _ | .environment i _ => i

def Obstacle.role : Obstacle → Role
  | .static .. => .static | .dynamic .. => .dynamic | .phantom .. => .phantom | .environment .. => .environment

/-- `obstacle.occupancy_at_time(t)` -/
def Obstacle.occAt [sem : Sem] (o : Obstacle) (t : Int) : Obstacle × Res (Option Occ) :=
  match o with
  | .static _ _ r => (o, .ok (some ⟨t, t, r⟩))
  | .environment _ sh => (o, .ok (some ⟨t, t, .fixed sh⟩))
  | .dynamic i init r p =>
    if t = init.t then (o, .ok (some ⟨t, t, r⟩))
    else if t > init.t ∧ p ≠ .absent then (.dynamic i init r (p.occAt t).1, (p.occAt t).2)
    else (o, .ok none)
  | .phantom i p =>
    if p = .absent then (o, .ok none) else
    -- `self._prediction.occupancy_at_time_step(t) is not None` and then the same call again
    match (p.occAt t).2 with
    | .error e => (.phantom i (p.occAt t).1, .error e)
    | .ok none => (.phantom i (p.occAt t).1, .ok none)
    | .ok (some _) => (.phantom i ((p.occAt t).1.occAt t).1, ((p.occAt t).1.occAt t).2)

/-- answer of `state_at_time`: nothing, the initial state object, or the i-th state of the trajectory -/
inductive StOut where
  | none | init | traj (i : Nat)
  deriving DecidableEq, Repr, Inhabited

/-- `obstacle.state_at_time(t)`; PhantomObstacle.state_at_time is a static method without parameters (TypeError when
    called with a time step), EnvironmentObstacle has none (AttributeError). -/
def Obstacle.stateAt (o : Obstacle) (t : Int) : Res StOut :=
  match o with
  | .static .. => .ok .init
  | .environment .. => .error .attr
  | .phantom .. => .error .type
  | .dynamic _ init _ p =>
    if t = init.t then .ok .init else
    match p with
    | .setBased _ => .ok .none
    | .absent => .ok .none
    | .traj t1 ss _ _ =>
      if t > init.t then
        match trajIndex t1 ss.length t with
        | some i => .ok (.traj i)
        | none => .ok .none
      else .ok .none

/-- apply a query to the obstacle with the given id (`Scenario.obstacle_by_id`, then the call; a missing id gives
    `None.<method>`: AttributeError) -/
def withObstacle {α : Type} (os : List Obstacle) (oid : Nat) (f : Obstacle → Obstacle × Res α) : List Obstacle × Res α :=
  match os with
  | [] => ([], .error .attr)
  | o :: rest =>
    if o.id = oid then ((f o).1 :: rest, (f o).2)
    else (o :: (withObstacle rest oid f).1, (withObstacle rest oid f).2)

/-- `Scenario.occupancies_at_time_step` loop: for every obstacle of the role, `occupancy_at_time(t)` is evaluated for its
    truth value and, when there is one, once more for the list. -/
def occsLoop [sem : Sem] (t : Int) (role : Option Role) : List Obstacle → List Obstacle × Res (List Occ)
  | [] => ([], .ok [])
  | o :: rest =>
    if role = none ∨ role = some o.role then
      match (o.occAt t).2 with
      | .error e => ((o.occAt t).1 :: rest, .error e)
      | .ok none => ((o.occAt t).1 :: (occsLoop t role rest).1, (occsLoop t role rest).2)
      | .ok (some _) =>
        match ((o.occAt t).1.occAt t).2 with
        | .error e => (((o.occAt t).1.occAt t).1 :: rest, .error e)
        | .ok x => (((o.occAt t).1.occAt t).1 :: (occsLoop t role rest).1, (fun l => x.toList ++ l) <$> (occsLoop t role rest).2)
    else (o :: (occsLoop t role rest).1, (occsLoop t role rest).2)

/-- first loop of `Scenario.obstacle_states_at_time_step`: ids of the dynamic obstacles that have a state at `t` -/
def dynStates (t : Int) : List Obstacle → Res (List Nat)
  | [] => .ok []
  | o :: rest =>
    if o.role = .dynamic then
      match o.stateAt t with
      | .error e => .error e
      | .ok s =>
        match dynStates t rest with
        | .error e => .error e
        | .ok r => .ok (if s = .none then r else o.id :: r)
    else dynStates t rest

/-- `Scenario.obstacle_states_at_time_step`: the keys of the answer: dynamic obstacles with a state at `t`, then all static ones -/
def statesAtIds (t : Int) (os : List Obstacle) : Res (List Nat) :=
  match dynStates t os with
  | .error e => .error e
  | .ok dyn => .ok (dyn ++ (os.filter (fun o => o.role == .static)).map (·.id))

/-! ## Lanelet network, traffic lights, planning problems -/

structure Lanelet where
  id : Nat
  cells : List Int          -- tokens of the query points / query shapes the (buffered) polygon contains / intersects
  succ : List Nat := []
  pred : List Nat := []
  /-- `static_obstacles_on_lanelet` (a set; kept as a list without duplicates) -/
  staticObs : List Nat := []
  /-- `dynamic_obstacles_on_lanelet` (dict time step ↦ set of obstacle ids, insertion order) -/
  dynObs : List (Int × List Nat) := []
  /-- `traffic_lights`: ids of the traffic lights that are valid for the lanelet -/
  lights : List Nat := []
  deriving DecidableEq, Repr, Inhabited

structure Net where
  lanelets : List Lanelet
  /-- hidden: the STRtree over `_buffered_polygons` together with `_lanelet_id_index_by_id` (lanelet.py:1278-1281) -/
  index : Option (List Lanelet)
  deriving DecidableEq, Repr, Inhabited

/-- `_create_strtree` -/
def Net.rebuild (n : Net) : Net := { n with index := some n.lanelets }

/-- `find_lanelet_by_position`: `self._strtee.query` on a missing index is an AttributeError -/
def Net.findPos (n : Net) (pts : List Int) : Res (List (List Nat)) :=
  match n.index with
  | none => .error .attr
  | some ix => .ok (pts.map fun p => (ix.filter (·.cells.contains p)).map (·.id))

/-- `find_lanelet_by_shape`: index query, then an exact intersection test per candidate (lanelet.py:1999-2014) -/
def Net.findShape (n : Net) (shape : Int) : Res (List Nat) :=
  match n.index with
  | none => .error .attr
  | some ix => .ok ((ix.filter (·.cells.contains shape)).map (·.id))

/-- `Lanelet.dynamic_obstacle_by_time_step(t)` (lanelet.py:1040-1050): two `dict.get`, nothing is stored -/
def Lanelet.dynByTime (l : Lanelet) (t : Int) : Lanelet × List Nat :=
  match l.dynObs.lookup t with
  | some ids => (l, ids)
  | none => (l, [])

/-- the seeded variant `return self.dynamic_obstacles_on_lanelet.setdefault(t, set())`: a query that inserts keys -/
def Lanelet.dynByTimeSetdefault (l : Lanelet) (t : Int) : Lanelet × List Nat :=
  match l.dynObs.lookup t with
  | some ids => (l, ids)
  | none => ({ l with dynObs := l.dynObs ++ [(t, [])] }, [])

/-- the two obstacle registries of a lanelet -/
structure Regs where
  staticObs : List Nat
  dynObs : List (Int × List Nat)
  deriving DecidableEq, Repr, Inhabited

def Lanelet.dynByTimeOf [sem : Sem] (l : Lanelet) (t : Int) : Lanelet × List Nat :=
  if sem.dynByTimeInserts then l.dynByTimeSetdefault t else l.dynByTime t

def Lanelet.regs (l : Lanelet) : Regs := ⟨l.staticObs, l.dynObs⟩

def unionIds (a b : List Nat) : List Nat := a ++ b.filter (fun x => !a.contains x)

/-- `_merge_dynamic_obstacles_on_lanelet` on the merged copy: add the ids of one time step -/
def mergeDynStep (acc : List (Int × List Nat)) (t : Int) (ids : List Nat) : List (Int × List Nat) :=
  if ids.isEmpty then acc else
  match acc.lookup t with
  | some _ => acc.map fun (t', x) => if t' == t then (t', unionIds x ids) else (t', x)
  | none => acc ++ [(t, ids)]

def mergeDyn (a b : List (Int × List Nat)) : List (Int × List Nat) :=
  b.foldl (fun acc (t, ids) => mergeDynStep acc t ids) a

/-- `Lanelet.merge_lanelets(l1, l2)` as far as the registries go, after the repair (lanelet.py:744-784): the registries of
    the two arguments are copied, the merged ones are new objects.  Returns (registries of l1 afterwards, merged registries). -/
def mergeRegs (a b : Regs) : Regs × Regs :=
  (a, ⟨unionIds a.staticObs b.staticObs, mergeDyn a.dynObs b.dynObs⟩)

/-- BEFORE the repair the ids of `l2` were added to the set / dict of `l1` itself, which the merged lanelet then shared -/
def mergeRegsOld (a b : Regs) : Regs × Regs :=
  (⟨unionIds a.staticObs b.staticObs, mergeDyn a.dynObs b.dynObs⟩, ⟨unionIds a.staticObs b.staticObs, mergeDyn a.dynObs b.dynObs⟩)

def mergeRegsOf [sem : Sem] : Regs → Regs → Regs × Regs :=
  if sem.mergeInPlace then mergeRegsOld else mergeRegs

def findLanelet (ls : List Lanelet) (lid : Nat) : Option Lanelet := ls.find? (·.id == lid)

/-- one path of `all_lanelets_by_merging_successors_from_lanelet` (lanelet.py:866-880): `pred = path[0]`, then
    `pred = merge_lanelets(pred, lanelet)` along the path.  `cur` are the registries of `pred`, `first` those of the
    network's own first lanelet (the only network object that is ever the first argument of a merge).
    Returns (registries of the first lanelet afterwards, merged registries); a lanelet id that is not in the network gives
    `None.lanelet_id`: AttributeError. -/
def mergePath (merge : Regs → Regs → Regs × Regs) (ls : List Lanelet) (first cur : Regs) (isFirst : Bool) : List Nat → Regs × Res Regs
  | [] => (first, .ok cur)
  | lid :: rest =>
    match findLanelet ls lid with
    | none => (first, .error .attr)
    | some l =>
      let r := merge cur l.regs
      -- only in the first merge of a path the first argument is the network's lanelet
      mergePath merge ls (if isFirst then r.1 else first) r.2 false rest

/-- write registries back into the network's lanelet `lid` (the first with that id, as `findLanelet`) -/
def setRegs : List Lanelet → Nat → Regs → List Lanelet
  | [], _, _ => []
  | l :: rest, lid, r =>
    if l.id == lid then { l with staticObs := r.staticObs, dynObs := r.dynObs } :: rest else l :: setRegs rest lid r

/-- all paths, one after the other (each starts from the network's lanelet `lid` again) -/
def mergePaths (merge : Regs → Regs → Regs × Regs) (lid : Nat) : List (List Nat) → List Lanelet → List Lanelet × Res (List Regs)
  | [], ls => (ls, .ok [])
  | path :: rest, ls =>
    match findLanelet ls lid with
    | none => (ls, .error .attr)
    | some l =>
      let r := mergePath merge ls l.regs l.regs true path
      let ls' := setRegs ls lid r.1
      match r.2 with
      | .error e => (ls', .error e)
      | .ok m => ((mergePaths merge lid rest ls').1, (m :: ·) <$> (mergePaths merge lid rest ls').2)

/-- `LaneletNetwork.__deepcopy__`: (self afterwards, the copy).  `self._strtee = None`, attribute-wise deep copy,
    `result._create_strtree()`, `self._create_strtree()`. -/
def Net.deepcopy (n : Net) : Net × Net :=
  let dropped := { n with index := none }
  let result := Net.rebuild dropped
  (Net.rebuild dropped, result)

/-- pickle round trip: `__getstate__` copies `__dict__` without the index (self untouched), `__setstate__` rebuilds. -/
def Net.pickle (n : Net) : Net × Net := (n, Net.rebuild { n with index := none })

structure Light where
  id : Nat
  es : List TL.Elem
  off : Int
  /-- hidden: `_cycle_init_timesteps` -/
  cache : Option (List Int)
  /-- `TrafficLight.active` (the renderer asks only active lights for their state) -/
  active : Bool := true
  deriving DecidableEq, Repr, Inhabited

/-- `get_state_at_time_step` reading a given `_cycle_init_timesteps` array: C11's model function (Python `%` as `Int.fmod`);
    on the array of a fresh cycle it is C17's `TL.stateAt` (`CR.Cache.stateAtWith (TL.initSteps es off) es off t = TL.stateAt es off t` by `rfl`) -/
abbrev stateWith := CR.Cache.stateAtWith

def Light.stateAt (l : Light) (t : Int) : Light × Res Nat :=
  let init := l.cache.getD (TL.initSteps l.es l.off)
  ({ l with cache := some init }, stateWith init l.es l.off t)

def withLight (ls : List Light) (lid : Nat) (t : Int) : List Light × Res Nat :=
  match ls with
  | [] => ([], .error .attr)          -- find_traffic_light_by_id returns None: `None.get_state_at_time_step`
  | l :: rest =>
    if l.id = lid then ((l.stateAt t).1 :: rest, (l.stateAt t).2)
    else (l :: (withLight rest lid t).1, (withLight rest lid t).2)

inductive TblKind where
  | plain | dflt            -- `dict` | `collections.defaultdict(list)`
  deriving DecidableEq, Repr, Inhabited

/-- `GoalRegion.lanelets_of_goal_position` when it is not None -/
structure Tbl where
  kind : TblKind
  items : List (Nat × List Nat)
  deriving DecidableEq, Repr, Inhabited

/-- `k in table` -/
def Tbl.contains (t : Tbl) (k : Nat) : Bool := t.items.any (·.1 == k)

/-- `table[k]`: a `defaultdict(list)` inserts `k ↦ []` on a miss, a `dict` raises KeyError -/
def Tbl.getItem (t : Tbl) (k : Nat) : Tbl × Res (List Nat) :=
  match t.items.lookup k with
  | some v => (t, .ok v)
  | none =>
    match t.kind with
    | .plain => (t, .error .key)
    | .dflt => ({ t with items := t.items ++ [(k, [])] }, .ok [])

/-- goal lanelets of goal state `i` as both writers read them (XML always; protobuf after the repair) -/
def goalLanelets (tbl : Option Tbl) (i : Nat) : Option Tbl × Res (List Nat) :=
  match tbl with
  | none => (none, .ok [])
  | some t => if t.contains i then let (t', r) := t.getItem i; (some t', r) else (some t, .ok [])

/-- the protobuf writer BEFORE the repair: `lanelets_of_goal_position[i]` whenever the table is not None -/
def goalLaneletsOld (tbl : Option Tbl) (i : Nat) : Option Tbl × Res (List Nat) :=
  match tbl with
  | none => (none, .ok [])
  | some t => let (t', r) := t.getItem i; (some t', r)

/-- the protobuf writer's lookup in the variant that runs -/
def pbLook [sem : Sem] : Option Tbl → Nat → Option Tbl × Res (List Nat) :=
  if sem.pbIndexesTable then goalLaneletsOld else goalLanelets

structure Problem where
  id : Nat
  /-- `PlanningProblem.initial_state` -/
  init : TState := default
  /-- one entry per goal state: its populated attributes (`used_attributes`, `time_step` included) with their content
      tokens.  The XML writer puts the lanelet references inside the `position` element (file_writer_xml.py:893-897), the
      protobuf writer always writes them. -/
  goals : List Attrs
  tbl : Option Tbl
  deriving DecidableEq, Repr, Inhabited

/-- per goal state the names of its populated attributes, `time_step` left out (every state has one) -/
def Problem.goalFields (p : Problem) : List (List String) := p.goals.map fun g => (g.map (·.1)).filter (· != "time_step")

def Problem.hasPos (p : Problem) : List Bool := p.goalFields.map (·.contains "position")

/-- all goal states of one problem, in order (`for i, state in enumerate(goal.state_list)`); `posOnly` = XML -/
def goalLoop (look : Option Tbl → Nat → Option Tbl × Res (List Nat)) (posOnly : Bool) (tbl : Option Tbl) :
    List Bool → Nat → Option Tbl × Res (List (List Nat))
  | [], _ => (tbl, .ok [])
  | hasPos :: rest, i =>
    let (tbl1, r) := look tbl i
    match r with
    | .error e => (tbl1, .error e)
    | .ok ids =>
      let (tbl2, rs) := goalLoop look posOnly tbl1 rest (i + 1)
      (tbl2, ((if posOnly && !hasPos then [] else ids) :: ·) <$> rs)

/-- what a writer puts into the file for one planning problem -/
structure ProbFile where
  id : Nat
  init : List (String × Int)          -- populated attributes of the initial state
  goals : List Attrs                  -- the goal states
  goalLanelets : List (List Nat)      -- per goal state the lanelet references
  deriving DecidableEq, Repr, Inhabited

def Problem.write (look : Option Tbl → Nat → Option Tbl × Res (List Nat)) (posOnly : Bool) (p : Problem) :
    Problem × Res ProbFile :=
  let (tbl', r) := goalLoop look posOnly p.tbl p.hasPos 0
  ({ p with tbl := tbl' }, (fun l => (⟨p.id, p.init.used, p.goals, l⟩ : ProbFile)) <$> r)

def problemsWrite (look : Option Tbl → Nat → Option Tbl × Res (List Nat)) (posOnly : Bool) :
    List Problem → List Problem × Res (List ProbFile)
  | [] => ([], .ok [])
  | p :: rest =>
    let (p', r) := p.write look posOnly
    match r with
    | .error e => (p' :: rest, .error e)
    | .ok x => let (rest', rs) := problemsWrite look posOnly rest; (p' :: rest', (x :: ·) <$> rs)

/-! ## The whole state, its observable part, the operations -/

structure St where
  obstacles : List Obstacle       -- in the order of `Scenario.obstacles`: static, dynamic, phantom, environment
  net : Net
  lights : List Light
  problems : List Problem
  extra : Extra := {}
  deriving DecidableEq, Repr, Inhabited

def Pred.obs : Pred → Pred
  | .traj t1 ss sh _ => .traj t1 ss sh none
  | p => p

def Obstacle.obs : Obstacle → Obstacle
  | .dynamic i init r p => .dynamic i init r p.obs
  | .phantom i p => .phantom i p.obs
  | o => o

def Light.obs (l : Light) : Light := { l with cache := none }

/-- The observable part: everything except the three kinds of hidden cache (which are blanked). -/
def St.obs (s : St) : St :=
  { obstacles := s.obstacles.map Obstacle.obs
    net := { s.net with index := none }
    lights := s.lights.map Light.obs
    problems := s.problems
    extra := s.extra }

/-- What a writer puts into the file, abstractly: per obstacle its id, the populated attributes of its initial state and of
    every trajectory state (or the occupancies of a set-based prediction); per planning problem the goal lanelets of every
    goal state. -/
structure ObsFile where
  id : Nat
  init : List (String × Int)
  states : List (Int × List (String × Int))
  occs : List SOcc
  deriving DecidableEq, Repr, Inhabited

/-- lanelet as a writer reads it: id, successors, predecessors, traffic-light references (its other attributes are in
    `Extra.lanelets`; the obstacle registries are not written) -/
structure LaneletFile where
  id : Nat
  succ : List Nat
  pred : List Nat
  lights : List Nat
  deriving DecidableEq, Repr, Inhabited

structure LightFile where
  id : Nat
  es : List TL.Elem
  off : Int
  active : Bool
  deriving DecidableEq, Repr, Inhabited

def Lanelet.file (l : Lanelet) : LaneletFile := ⟨l.id, l.succ, l.pred, l.lights⟩
def Light.file (l : Light) : LightFile := ⟨l.id, l.es, l.off, l.active⟩

structure FileAbs where
  obstacles : List ObsFile
  problems : List ProbFile
  lanelets : List LaneletFile
  lights : List LightFile
  extra : Extra
  deriving DecidableEq, Repr, Inhabited

def Pred.fileStates : Pred → List (Int × List (String × Int))
  | .traj _ ss _ _ => ss.map fun s => (s.t, s.used)
  | _ => []

def Pred.fileOccs : Pred → List SOcc
  | .setBased occs => occs
  | _ => []

def Obstacle.file : Obstacle → ObsFile
  | .static i init _ => ⟨i, init.used, [], []⟩
  | .dynamic i init _ p => ⟨i, init.used, p.fileStates, p.fileOccs⟩
  | .phantom i p => ⟨i, [], [], p.fileOccs⟩
  | .environment i _ => ⟨i, [], [], []⟩

/-- `write_to_file` (with planning problems) / `write_scenario_to_file` (without) -/
def St.write (look : Option Tbl → Nat → Option Tbl × Res (List Nat)) (posOnly : Bool) (withProblems : Bool) (s : St) :
    St × Res FileAbs :=
  if withProblems then
    let (ps, r) := problemsWrite look posOnly s.problems
    ({ s with problems := ps },
     (fun l => ⟨s.obstacles.map Obstacle.file, l, s.net.lanelets.map Lanelet.file, s.lights.map Light.file, s.extra⟩) <$> r)
  else (s, .ok ⟨s.obstacles.map Obstacle.file, [], s.net.lanelets.map Lanelet.file, s.lights.map Light.file, s.extra⟩)

/-! ## Operations that read occupancies: the queries they issue, as a function of the observable state -/

/-- one step of such an operation: an occupancy query (`must`: the code dereferences the answer, `None` is an
    AttributeError) or a failure the code runs into at this point -/
inductive Q where
  | occ (oid : Nat) (t : Int) (must : Bool)
  | fail (e : Err)
  deriving DecidableEq, Repr, Inhabited

/-- run the queries in order, stop at the first exception -/
def occQueries [sem : Sem] : List Q → List Obstacle → List Obstacle × Res (List (Option Occ))
  | [], os => (os, .ok [])
  | .fail e :: _, os => (os, .error e)
  | .occ oid t must :: rest, os =>
    match (withObstacle os oid (fun o => o.occAt t)).2 with
    | .error e => ((withObstacle os oid (fun o => o.occAt t)).1, .error e)
    | .ok a =>
      if must && a.isNone then ((withObstacle os oid (fun o => o.occAt t)).1, .error .attr)
      else ((occQueries rest (withObstacle os oid (fun o => o.occAt t)).1).1,
            (a :: ·) <$> (occQueries rest (withObstacle os oid (fun o => o.occAt t)).1).2)

def Pred.isTraj : Pred → Bool
  | .traj .. => true
  | _ => false

def Pred.isAbsent : Pred → Bool
  | .absent => true
  | _ => false

def Pred.isSet : Pred → Bool
  | .setBased _ => true
  | _ => false

/-- `prediction.final_time_step`: the time step of the last trajectory state; for a set-based prediction the largest end of
    its occupancies (an approximation of `max` over a mix of ints and Intervals — it only decides whether a set-based
    obstacle is drawn, which touches no hidden state) -/
def Pred.finalT : Pred → Option Int
  | .absent => none
  | .setBased occs => (occs.map (·.hi)).max?
  | .traj _ ss _ _ => ss.getLast?.map (·.t)

def rangeInt (a b : Int) : List Int := (List.range (b - a).toNat).map (fun (i : Nat) => a + (i : Int))

/-- parameters of one draw + render -/
structure DrawP where
  scenario : Bool          -- `scenario.draw(renderer)` is part of the call (else only the planning problems are drawn)
  tb : Int                 -- time_begin
  te : Int                 -- time_end
  drawOcc : Bool           -- occupancy.draw_occupancies (dynamic and phantom obstacles)
  drawIcon : Bool          -- dynamic_obstacle.draw_icon
  iconIds : List Nat       -- obstacles whose type has an icon and whose shape has `length` and `width`
  history : Nat            -- 0: history.draw_history off; else history.steps (step_size 1)
  deriving DecidableEq, Repr, Inhabited

/-- `MPRenderer.draw_dynamic_obstacle` (mp_renderer.py:505-643): the occupancy queries, in order -/
def dynDrawQs (p : DrawP) (oid : Nat) (init : TState) (pr : Pred) : List Q :=
  if (pr.isAbsent ∧ init.t < p.tb) ∨ init.t > p.te then [] else
  if (!pr.isAbsent ∧ pr.finalT.getD init.t < p.tb) ∨ init.t > p.te then [] else
  let hist := if pr.isTraj then (List.range p.history).reverse.map (fun (i : Nat) => Q.occ oid (p.tb - ((i : Int) + 1)) false) else []
  let icon := p.drawIcon && p.iconIds.contains oid && pr.isTraj
  -- the icon is placed with the position and orientation of the state at time_begin
  let iconFail : List Q :=
    if icon && p.tb != init.t then
      match pr with
      | .traj t1 ss _ _ =>
        match trajIndex t1 ss.length p.tb with
        | some i => if (ss.getD i default).hasattr "orientation" then [] else [Q.fail .attr]
        | none => []
      | _ => []
    else []
  let shape := !icon
  hist ++ iconFail ++ (if shape then [Q.occ oid p.tb false] else []) ++ [Q.occ oid p.tb false]     -- shape, then signals
    ++ (if p.drawOcc || pr.isSet then (rangeInt (if shape then p.tb + 1 else p.tb) p.te).map (fun t => Q.occ oid t false) else [])

/-- `draw_scenario`: all obstacles in the order of `Scenario.obstacles` (mp_renderer.py:454-472, 474-489, 645-700) -/
def drawQs (p : DrawP) : List Obstacle → List Q
  | [] => []
  | .static i _ _ :: rest => Q.occ i p.tb false :: drawQs p rest
  | .dynamic i init _ pr :: rest => dynDrawQs p i init pr ++ drawQs p rest
  | .phantom i _ :: rest =>
    (Q.occ i p.tb false :: (if p.drawOcc then (rangeInt (p.tb + 1) p.te).map (fun t => Q.occ i t false) else [])) ++ drawQs p rest
  | .environment i _ :: rest => Q.occ i p.tb true :: drawQs p rest

/-- `render()`: every active traffic light that was drawn is asked for its state at time_begin (traffic_sign.py:509-515) -/
def renderLights (tb : Int) : List Light → List Light
  | [] => []
  | l :: rest => (if l.active then (l.stateAt tb).1 else l) :: renderLights tb rest

/-- `obstacles_by_position_intervals(intervals, time_step = t)` with the default roles (scenario.py:1131-1181): one query
    per dynamic obstacle.  `inside` lists the obstacles for which the geometric test holds (no `center`, or centre in the
    intervals; for static obstacles: initial position in the intervals). -/
def byIntervalsQs (t : Int) (os : List Obstacle) : List Q :=
  (os.filter (·.role == .dynamic)).map (fun o => Q.occ o.id t false)

def pickByAnswers : List Nat → List (Option Occ) → List Nat → List Nat
  | i :: is, a :: as, inside => (if a.isSome && inside.contains i then [i] else []) ++ pickByAnswers is as inside
  | _, _, _ => []

/-- `LaneletNetwork.map_obstacles_to_lanelets(obstacles)` / `Lanelet.get_obstacles(obstacles, t)` (lanelet.py:706-742,
    2074-2091): for every lanelet, for every given obstacle, `o.occupancy_at_time(t).shape`. -/
def lanesObstaclesQs (lids : List Nat) (oids : List Nat) (t : Int) : List Q :=
  lids.flatMap fun _ => oids.map fun o => Q.occ o t true

/-- the state a goal check is applied to: one that is passed in from outside, or one the scenario owns -/
inductive StLoc where
  | foreign (st : TState)
  | obsInit (oid : Nat)                  -- obstacle.initial_state
  | obsTraj (oid : Nat) (i : Nat)        -- obstacle.prediction.trajectory.state_list[i]
  | probInit                             -- the planning problem's own initial_state
  deriving DecidableEq, Repr, Inhabited

inductive TrajSrc where
  | foreign (states : List TState)
  | own (oid : Nat)                      -- obstacle.prediction.trajectory
  deriving DecidableEq, Repr, Inhabited

inductive Target where
  | scenario | problems | net
  | obstacle (oid : Nat)
  | problem (pid : Nat)
  deriving DecidableEq, Repr, Inhabited

inductive Op where
  | occ (oid : Nat) (t : Int)                      -- obstacle.occupancy_at_time
  | state (oid : Nat) (t : Int)                    -- obstacle.state_at_time
  | occs (t : Int) (role : Option Role)            -- scenario.occupancies_at_time_step
  | statesAt (t : Int)                             -- scenario.obstacle_states_at_time_step
  | occSet (oid : Nat)                             -- obstacle.prediction.occupancy_set
  | findPos (pts : List Int)                       -- lanelet_network.find_lanelet_by_position
  | light (lid : Nat) (t : Int)                    -- traffic_light.get_state_at_time_step
  /-- what is left without an explicit model: `str`/`repr`, `obstacles_by_role_and_type`, `signal_state_at_time_step`,
      `prediction.final_time_step`, `Trajectory.states_in_time_interval`, geometric lanelet queries (`contains_points`,
      `interpolate_position`, `orientation_by_position`, `polygon`, `distance`, `find_lanelet_successors_in_range`, …),
      `lanelets_in_proximity`, `find_most_likely_lanelet_by_state`, the copying constructors
      `LaneletNetwork.create_from_lanelet_network / _list`.  They read only; should one of them evaluate
      `prediction.occupancy_set` or `cycle_init_timesteps`, the obstacles / lights concerned are recorded from the run. -/
  | reads (occSets : List Nat) (lightIds : List Nat)
  | reached (pid : Nat) (loc : StLoc) (dec : List (Res Bool))               -- GoalRegion.is_reached(state)
  | goalReached (pid : Nat) (src : TrajSrc) (decs : List (List (Res Bool))) -- PlanningProblem.goal_reached(trajectory)
  | eq (tgt : Target)                                                 -- x == x, x == twin, twin == x
  | hash (tgt : Target)                                               -- hash(x)
  | shallowCopy (tgt : Target)                                        -- copy.copy(x)
  | byIntervals (t : Int) (inside : List Nat)                         -- scenario.obstacles_by_position_intervals
  | findShape (shape : Int)                                           -- lanelet_network.find_lanelet_by_shape
  | mapObstacles (oids : List Nat) (rel : List (Nat × Nat))           -- lanelet_network.map_obstacles_to_lanelets
  | getObstacles (lid : Nat) (oids : List Nat) (t : Int) (rel : List (Nat × Nat))   -- lanelet.get_obstacles
  | dynByTime (lid : Nat) (t : Int)                                   -- lanelet.dynamic_obstacle_by_time_step
  | mergeFrom (lid : Nat) (paths : List (List Nat))                   -- Lanelet.all_lanelets_by_merging_{successors,predecessors}_from_lanelet
  | draw (p : DrawP)                                                  -- scenario.draw / planning_problem_set.draw, renderer.render
  | deepcopy                                       -- copy.deepcopy(scenario)
  | pickle                                         -- pickle.loads(pickle.dumps(scenario))
  | writeXml (withProblems : Bool)
  | writePb (withProblems : Bool)
  deriving DecidableEq, Repr, Inhabited

inductive Out where
  | unit
  | occ (o : Option Occ)
  | occs (l : List Occ)
  | state (s : StOut)
  | ids (l : List Nat)
  | idss (l : List (List Nat))
  | nat (n : Nat)
  | file (f : FileAbs)
  | copy (s : St)
  | bool (b : Bool)
  | reach (i : Option Nat)
  | mapping (m : List (Nat × List Nat))
  | regs (l : List Regs)
  deriving DecidableEq, Repr, Inhabited

/-- evaluate `obstacle.prediction.occupancy_set` and drop the answer -/
def touchOccSet [sem : Sem] (o : Obstacle) : Obstacle × Res Unit :=
  match o with
  | .dynamic i init reg p => (.dynamic i init reg p.occSet.1, .ok ())
  | .phantom i p => (.phantom i p.occSet.1, .ok ())
  | o => (o, .ok ())

def runOccQs [sem : Sem] : List Nat → List Obstacle → List Obstacle
  | [], os => os
  | oid :: rest, os => runOccQs rest (withObstacle os oid touchOccSet).1

def runLightQsAt (t : Int) : List Nat → List Light → List Light
  | [], ls => ls
  | lid :: rest, ls => runLightQsAt t rest (withLight ls lid t).1

def runLightQs : List Nat → List Light → List Light := runLightQsAt 0

/-- `obstacle.prediction.occupancy_set` (static and environment obstacles have no `prediction`: AttributeError) -/
def Obstacle.occSet [sem : Sem] (o : Obstacle) : Obstacle × Res (List Occ) :=
  match o with
  | .dynamic i init reg p => (.dynamic i init reg p.occSet.1, p.occSet.2)
  | .phantom i p => (.phantom i p.occSet.1, p.occSet.2)
  | o => (o, .error .attr)

/-- goal check on a state the obstacle owns: (obstacle afterwards — its state is written back from the store —, answer) -/
def Obstacle.reach [sem : Sem] (goals : List (List String)) (ix : Option Nat) (dec : List (Res Bool)) (o : Obstacle) : Obstacle × Res Bool :=
  match o, ix with
  | .static i init r, none => (.static i (isReached goals init dec).1 r, (isReached goals init dec).2)
  | .dynamic i init r p, none => (.dynamic i (isReached goals init dec).1 r p, (isReached goals init dec).2)
  | .dynamic i init r (.traj t1 ss sh c), some k =>
    match ss[k]? with
    | none => (o, .error .attr)            -- `state_at_time` gave None: `None.used_attributes`
    | some st => (.dynamic i init r (.traj t1 (ss.set k (isReached goals st dec).1) sh c), (isReached goals st dec).2)
  | o, _ => (o, .error .attr)

def Obstacle.goalReach [sem : Sem] (goals : List (List String)) (decs : List (List (Res Bool))) (o : Obstacle) : Obstacle × Res (Option Nat) :=
  match o with
  | .dynamic i init r (.traj t1 ss sh c) =>
    (.dynamic i init r (.traj t1 (goalReachedStates goals ss decs).1 sh c), (goalReachedStates goals ss decs).2)
  | o => (o, .error .attr)

def findProblem (ps : List Problem) (pid : Nat) : Option Problem := ps.find? (·.id == pid)

/-- apply `f` to the planning problem `pid` (`planning_problem_dict[pid]`: KeyError when missing) -/
def withProblem {α : Type} (ps : List Problem) (pid : Nat) (f : Problem → Problem × Res α) : List Problem × Res α :=
  match ps with
  | [] => ([], .error .key)
  | p :: rest =>
    if p.id = pid then ((f p).1 :: rest, (f p).2)
    else (p :: (withProblem rest pid f).1, (withProblem rest pid f).2)

/-- goal check on the planning problem's own initial state -/
def Problem.reachInit [sem : Sem] (dec : List (Res Bool)) (q : Problem) : Problem × Res Bool :=
  ({ q with init := (isReached q.goalFields q.init dec).1 }, (isReached q.goalFields q.init dec).2)

def mappingOf (rel : List (Nat × Nat)) (lids oids : List Nat) : List (Nat × List Nat) :=
  (lids.map fun l => (l, oids.filter fun o => rel.contains (l, o))).filter (fun x => !x.2.isEmpty)

/-- One read-only operation. -/
def step [sem : Sem] (op : Op) (s : St) : St × Res Out :=
  match op with
  | .occ oid t =>
    ({ s with obstacles := (withObstacle s.obstacles oid (fun o => o.occAt t)).1 },
     Out.occ <$> (withObstacle s.obstacles oid (fun o => o.occAt t)).2)
  | .state oid t =>
    ({ s with obstacles := (withObstacle s.obstacles oid (fun o => (o, o.stateAt t))).1 },
     Out.state <$> (withObstacle s.obstacles oid (fun o => (o, o.stateAt t))).2)
  | .occs t role =>
    if t < 0 then (s, .error .assert) else          -- assert is_natural_number(time_step)
    ({ s with obstacles := (occsLoop t role s.obstacles).1 }, Out.occs <$> (occsLoop t role s.obstacles).2)
  | .statesAt t =>
    if t < 0 then (s, .error .assert) else
    (s, Out.ids <$> statesAtIds t s.obstacles)
  | .occSet oid =>
    ({ s with obstacles := (withObstacle s.obstacles oid Obstacle.occSet).1 },
     Out.occs <$> (withObstacle s.obstacles oid Obstacle.occSet).2)
  | .findPos pts => (s, Out.idss <$> s.net.findPos pts)
  | .light lid t => ({ s with lights := (withLight s.lights lid t).1 }, Out.nat <$> (withLight s.lights lid t).2)
  | .reads oq lq => ({ s with obstacles := runOccQs oq s.obstacles, lights := runLightQs lq s.lights }, .ok .unit)
  | .deepcopy => ({ s with net := s.net.deepcopy.1 }, .ok (.copy { s with net := s.net.deepcopy.2 }))
  | .pickle => ({ s with net := s.net.pickle.1 }, .ok (.copy { s with net := s.net.pickle.2 }))
  | .writeXml wp => ((s.write goalLanelets true wp).1, Out.file <$> (s.write goalLanelets true wp).2)
  | .writePb wp => ((s.write pbLook false wp).1, Out.file <$> (s.write pbLook false wp).2)
  | .reached pid loc dec =>
    match findProblem s.problems pid with
    | none => (s, .error .key)
    | some pr =>
      match loc with
      | .foreign st => (s, Out.bool <$> (isReached pr.goalFields st dec).2)
      | .obsInit oid =>
        ({ s with obstacles := (withObstacle s.obstacles oid (Obstacle.reach pr.goalFields none dec)).1 },
         Out.bool <$> (withObstacle s.obstacles oid (Obstacle.reach pr.goalFields none dec)).2)
      | .obsTraj oid i =>
        ({ s with obstacles := (withObstacle s.obstacles oid (Obstacle.reach pr.goalFields (some i) dec)).1 },
         Out.bool <$> (withObstacle s.obstacles oid (Obstacle.reach pr.goalFields (some i) dec)).2)
      | .probInit =>
        ({ s with problems := (withProblem s.problems pid (Problem.reachInit dec)).1 },
         Out.bool <$> (withProblem s.problems pid (Problem.reachInit dec)).2)
  | .goalReached pid src decs =>
    match findProblem s.problems pid with
    | none => (s, .error .key)
    | some pr =>
      match src with
      | .foreign states => (s, Out.reach <$> (goalReachedStates pr.goalFields states decs).2)
      | .own oid =>
        ({ s with obstacles := (withObstacle s.obstacles oid (Obstacle.goalReach pr.goalFields decs)).1 },
         Out.reach <$> (withObstacle s.obstacles oid (Obstacle.goalReach pr.goalFields decs)).2)
  -- `__eq__` compares the attribute tables of the target (with itself and with an equal twin): pure reads
  | .eq _ => (s, .ok (.bool true))
  -- `__hash__` hashes the same attribute tables: pure reads
  | .hash _ => (s, .ok .unit)
  -- `copy.copy`: a new top-level object that shares every child, hidden caches included; a LaneletNetwork goes through
  -- `__getstate__` / `__setstate__`, so the copy gets an index of its own
  | .shallowCopy tgt => (s, .ok (.copy (if tgt = .net then { s with net := s.net.pickle.2 } else s)))
  | .byIntervals t inside =>
    ({ s with obstacles := (occQueries (byIntervalsQs t s.obstacles) s.obstacles).1 },
     (fun ans => Out.ids (pickByAnswers ((s.obstacles.filter (·.role == .dynamic)).map (·.id)) ans inside
        ++ ((s.obstacles.filter (·.role == .static)).map (·.id)).filter inside.contains))
       <$> (occQueries (byIntervalsQs t s.obstacles) s.obstacles).2)
  | .findShape sh => (s, Out.ids <$> s.net.findShape sh)
  | .mapObstacles oids rel =>
    ({ s with obstacles := (occQueries (lanesObstaclesQs (s.net.lanelets.map (·.id)) oids 0) s.obstacles).1 },
     (fun _ => Out.mapping (mappingOf rel (s.net.lanelets.map (·.id)) oids))
       <$> (occQueries (lanesObstaclesQs (s.net.lanelets.map (·.id)) oids 0) s.obstacles).2)
  | .getObstacles lid oids t rel =>
    ({ s with obstacles := (occQueries (lanesObstaclesQs [lid] oids t) s.obstacles).1 },
     (fun _ => Out.ids (oids.filter fun o => rel.contains (lid, o))) <$> (occQueries (lanesObstaclesQs [lid] oids t) s.obstacles).2)
  | .dynByTime lid t =>
    match findLanelet s.net.lanelets lid with
    | none => (s, .error .attr)
    | some l => ({ s with net := { s.net with lanelets := setRegs s.net.lanelets lid (l.dynByTimeOf t).1.regs } }, .ok (.ids (l.dynByTimeOf t).2))
  | .mergeFrom lid paths =>
    ({ s with net := { s.net with lanelets := (mergePaths mergeRegsOf lid paths s.net.lanelets).1 } },
     Out.regs <$> (mergePaths mergeRegsOf lid paths s.net.lanelets).2)
  | .draw p =>
    -- the planning problems are drawn from their own attributes; nothing hidden is touched
    if !p.scenario then (s, .ok .unit) else
    -- the lanelet network comes first: the centre line of a lanelet is coloured by the state of its traffic lights at
    -- time_begin (visualization/util.py:129-155); then the obstacles; `render()` asks the active lights again
    match (occQueries (drawQs p s.obstacles) s.obstacles).2 with
    | .error e =>
      ({ s with obstacles := (occQueries (drawQs p s.obstacles) s.obstacles).1,
                lights := runLightQsAt p.tb (s.net.lanelets.flatMap (·.lights)) s.lights }, .error e)
    | .ok _ =>
      ({ s with obstacles := (occQueries (drawQs p s.obstacles) s.obstacles).1,
                lights := renderLights p.tb (runLightQsAt p.tb (s.net.lanelets.flatMap (·.lights)) s.lights) }, .ok .unit)

/-- A sequence of read-only operations (answers dropped). -/
def run [sem : Sem] : List Op → St → St
  | [], s => s
  | op :: rest, s => run rest (step op s).1

/-- the same, keeping every intermediate state and answer (used by the driver) -/
def trace [sem : Sem] : List Op → St → List (St × Res Out)
  | [], _ => []
  | op :: rest, s => let r := step op s; r :: trace rest r.1

/-- The hidden caches are consistent: an occupancy cache holds what `_create_occupancy_set` computes from the states, the
    index is over the lanelets, a light cache holds the init steps of its cycle. -/
def Pred.Inv : Pred → Prop
  | .traj _ ss sh (some c) => createOccs sh ss = .ok c
  | _ => True

def Obstacle.Inv : Obstacle → Prop
  | .dynamic _ _ _ p => p.Inv
  | .phantom _ p => p.Inv
  | _ => True

def Light.Inv (l : Light) : Prop := l.cache = none ∨ l.cache = some (TL.initSteps l.es l.off)

structure St.Inv (s : St) : Prop where
  obstacles : ∀ o ∈ s.obstacles, o.Inv
  net : s.net.index = none ∨ s.net.index = some s.net.lanelets
  lights : ∀ l ∈ s.lights, l.Inv

end CR.Frame
