/-
  CRModel.Frame — the read-only operations of commonroad-io as state transformers `St → St × Res Out` over
  (observable state) + (hidden caches they touch).

  Modelled code (commonroad-io, repaired tree; line numbers of that tree):
    prediction/prediction.py:122-140   Prediction.occupancy_at_time_step           → `Pred.occAt`, `findOcc`
    prediction/prediction.py:291-299   TrajectoryPrediction.occupancy_set (functools.cached_property) → `Pred.occSet`
    prediction/prediction.py:390-410   TrajectoryPrediction._create_occupancy_set   → `createOccSet`  (`createOccSetOld` = before the repair)
    scenario/obstacle.py:419-435       StaticObstacle.occupancy_at_time / state_at_time
    scenario/obstacle.py:612-642       DynamicObstacle.occupancy_at_time / state_at_time
    scenario/obstacle.py:797-820       PhantomObstacle.occupancy_at_time / state_at_time
    scenario/obstacle.py:954-961       EnvironmentObstacle.occupancy_at_time
    scenario/trajectory.py:133-143     Trajectory.state_at_time_step
    scenario/scenario.py:1046-1071     Scenario.occupancies_at_time_step
    scenario/scenario.py:1183-1201     Scenario.obstacle_states_at_time_step
    scenario/lanelet.py:1296-1319      LaneletNetwork.__getstate__/__setstate__/__deepcopy__ (index dropped and rebuilt)
    scenario/lanelet.py:1569-1599      LaneletNetwork._create_strtree
    scenario/lanelet.py:1975-1997      LaneletNetwork.find_lanelet_by_position
    scenario/traffic_light.py:165-178  TrafficLightCycle.cycle_init_timesteps (lazy `_cycle_init_timesteps`) / get_state_at_time_step
    common/writer/file_writer_xml.py:981-1011         goal lanelets of a planning problem (`in`, then index)   → `goalLanelets`
    common/writer/file_writer_xml.py:845-897          lanelet references are written inside the goal state's `position` element
    common/writer/file_writer_protobuf.py:814-836     the same lookup after the repair; `goalLaneletsOld` = before (index only)
    common/writer/file_writer_xml.py:938-962, file_writer_protobuf.py:635-656   states are written from `used_attributes`

  Values are opaque integer tokens (the harness interns every attribute value, shape and point); geometry is a parameter:
  a lanelet carries the list of point tokens its polygon contains.  Core Lean only.
-/
import CRModel.Basic
import CRModel.TrafficLight
namespace CR.Frame

/-! ## States -/

/-- A trace state as the operations see it: its time step, whether its class offers a computed `orientation`
    property (PMState, state.py:363-372), and the instance `__dict__` without `time_step`
    (attribute name ↦ value token, `none` = the attribute exists and is `None`), in insertion order. -/
structure TState where
  t : Int
  oriProp : Bool
  attrs : List (String × Option Int)
  deriving DecidableEq, Repr, Inhabited

/-- `hasattr(state, a)` -/
def TState.hasattr (s : TState) (a : String) : Bool :=
  (a == "orientation" && s.oriProp) || s.attrs.any (·.1 == a)

/-- `getattr(state, a)` for an instance attribute: AttributeError when absent; a `None` value is a TypeError at its
    first arithmetic use (math.atan2 / rotate_translate_local). -/
def TState.getattr (s : TState) (a : String) : Res Int :=
  match s.attrs.lookup a with
  | some (some v) => .ok v
  | some none => .error .type
  | none => .error .attr

/-- `state.used_attributes` without `time_step`: the populated attributes (state.py:209-220). -/
def TState.used (s : TState) : List (String × Int) :=
  s.attrs.filterMap fun (n, v) => v.map fun x => (n, x)

/-- A heading: a stored value, or `math.atan2(velocity_y, velocity)` of two stored values. -/
inductive Ori where
  | tok (v : Int)
  | atan2 (vy v : Int)
  deriving DecidableEq, Repr, Inhabited

/-- An occupied region: the obstacle shape placed at a position with a heading
    (`shape.rotate_translate_local(position, orientation)`), or a shape used as it is. -/
inductive Region where
  | placed (shape pos : Int) (ori : Ori)
  | fixed (shape : Int)
  deriving DecidableEq, Repr, Inhabited

/-- `Occupancy(time_step, shape)`; `lo = hi` for a single time step, otherwise the time interval. -/
structure Occ where
  lo : Int
  hi : Int
  region : Region
  deriving DecidableEq, Repr, Inhabited

/-- Heading used for the occupied region of one state (prediction.py:392-397, repaired: a local value). -/
def stateOri (s : TState) : Res Ori :=
  if s.hasattr "orientation" then
    if s.oriProp then do          -- PMState.orientation = atan2(velocity_y, velocity)
      let vy ← s.getattr "velocity_y"
      let v ← s.getattr "velocity"
      pure (.atan2 vy v)
    else .tok <$> s.getattr "orientation"
  else do
    let vy ← s.getattr "velocity_y"   -- getattr(state, "velocity_y"): AttributeError when there is none
    let v ← s.getattr "velocity"
    pure (.atan2 vy v)

def occOfState (shape : Int) (s : TState) : Res Occ := do
  let o ← stateOri s
  let p ← s.getattr "position"
  pure ⟨s.t, s.t, .placed shape p o⟩

/-- `_create_occupancy_set` after the repair: the states are only read. -/
def createOccSet (shape : Int) (states : List TState) : Res (List Occ) :=
  states.mapM (occOfState shape)

/-- `_create_occupancy_set` BEFORE the repair (prediction.py:393-395 of the pinned tree):
    `if not hasattr(state, "orientation"): state.orientation = atan2(...)` writes into the state.  The new value is a
    computed one; it is represented by the token `-1 - (index of the state)`.  Kept to state the defect as a theorem. -/
def createOccSetOld (shape : Int) : List TState → Nat → List TState × Res (List Occ)
  | [], _ => ([], .ok [])
  | s :: rest, i =>
    if s.hasattr "orientation" then
      match occOfState shape s with
      | .error e => (s :: rest, .error e)
      | .ok o => let (rest', r) := createOccSetOld shape rest (i + 1); (s :: rest', (o :: ·) <$> r)
    else
      match stateOri s with
      | .error e => (s :: rest, .error e)
      | .ok _ =>
        let s' := { s with attrs := s.attrs ++ [("orientation", some (-1 - (i : Int)))] }
        match occOfState shape s' with
        | .error e => (s' :: rest, .error e)
        | .ok o => let (rest', r) := createOccSetOld shape rest (i + 1); (s' :: rest', (o :: ·) <$> r)

/-! ## Predictions -/

/-- An occupancy of a set-based prediction. -/
structure SOcc where
  lo : Int
  hi : Int
  shape : Int
  deriving DecidableEq, Repr, Inhabited

inductive Pred where
  | absent
  | setBased (occs : List SOcc)
  /-- trajectory prediction; `cache` is the hidden `functools.cached_property` slot of `occupancy_set` -/
  | traj (t1 : Int) (states : List TState) (shape : Int) (cache : Option (List Occ))
  deriving DecidableEq, Repr, Inhabited

def SOcc.toOcc (o : SOcc) : Occ := ⟨o.lo, o.hi, .fixed o.shape⟩

/-- `prediction.occupancy_set` -/
def Pred.occSet : Pred → Pred × Res (List Occ)
  | .absent => (.absent, .error .attr)                   -- `None.occupancy_set`
  | .setBased occs => (.setBased occs, .ok (occs.map SOcc.toOcc))
  | .traj t1 ss sh (some c) => (.traj t1 ss sh (some c), .ok c)
  | .traj t1 ss sh none =>
    match createOccSet sh ss with
    | .ok c => (.traj t1 ss sh (some c), .ok c)          -- cached_property stores the value
    | .error e => (.traj t1 ss sh none, .error e)        -- nothing is stored when the computation raises

/-- first occupancy whose time step (or interval) matches (prediction.py:128-135) -/
def findOcc (t : Int) : List Occ → Option Occ
  | [] => none
  | o :: rest => if o.lo ≤ t ∧ t ≤ o.hi then some o else findOcc t rest

/-- `prediction.occupancy_at_time_step(t)` -/
def Pred.occAt (p : Pred) (t : Int) : Pred × Res (Option Occ) :=
  (p.occSet.1, (findOcc t) <$> p.occSet.2)

/-- `prediction.trajectory.state_at_time_step(t)` as an index into the state list (trajectory.py:140-142) -/
def trajIndex (t1 : Int) (n : Nat) (t : Int) : Option Nat :=
  if t1 ≤ t ∧ t < t1 + n then some (t - t1).toNat else none

/-! ## Obstacles -/

inductive Role where
  | static | dynamic | phantom | environment
  deriving DecidableEq, Repr, Inhabited

inductive Obstacle where
  /-- `initOcc` is `_initial_occupancy_shape`, computed once by the `initial_state` setter (obstacle.py:248-255) -/
  | static (id : Nat) (init : TState) (initOcc : Region)
  | dynamic (id : Nat) (init : TState) (initOcc : Region) (pred : Pred)
  | phantom (id : Nat) (pred : Pred)
  | environment (id : Nat) (shape : Int)
  deriving DecidableEq, Repr, Inhabited

def Obstacle.id : Obstacle → Nat
  | .static i _ _ | .dynamic i _ _ _ | .phantom i _ | .environment i _ => i

def Obstacle.role : Obstacle → Role
  | .static .. => .static | .dynamic .. => .dynamic | .phantom .. => .phantom | .environment .. => .environment

/-- `obstacle.occupancy_at_time(t)` -/
def Obstacle.occAt (o : Obstacle) (t : Int) : Obstacle × Res (Option Occ) :=
  match o with
  | .static _ _ r => (o, .ok (some ⟨t, t, r⟩))
  | .environment _ sh => (o, .ok (some ⟨t, t, .fixed sh⟩))
  | .dynamic i init r p =>
    if t = init.t then (o, .ok (some ⟨t, t, r⟩))
    else if t > init.t ∧ p ≠ .absent then (.dynamic i init r (p.occAt t).1, (p.occAt t).2)
    else (o, .ok none)
  | .phantom i p =>
    if p = .absent then (o, .ok none) else
    -- `self._prediction.occupancy_at_time_step(t) is not None` and then the same call again
    match (p.occAt t).2 with
    | .error e => (.phantom i (p.occAt t).1, .error e)
    | .ok none => (.phantom i (p.occAt t).1, .ok none)
    | .ok (some _) => (.phantom i ((p.occAt t).1.occAt t).1, ((p.occAt t).1.occAt t).2)

/-- answer of `state_at_time`: nothing, the initial state object, or the i-th state of the trajectory -/
inductive StOut where
  | none | init | traj (i : Nat)
  deriving DecidableEq, Repr, Inhabited

/-- `obstacle.state_at_time(t)`; PhantomObstacle.state_at_time is a static method without parameters (TypeError when
    called with a time step), EnvironmentObstacle has none (AttributeError). -/
def Obstacle.stateAt (o : Obstacle) (t : Int) : Res StOut :=
  match o with
  | .static .. => .ok .init
  | .environment .. => .error .attr
  | .phantom .. => .error .type
  | .dynamic _ init _ p =>
    if t = init.t then .ok .init else
    match p with
    | .setBased _ => .ok .none
    | .absent => .ok .none
    | .traj t1 ss _ _ =>
      if t > init.t then
        match trajIndex t1 ss.length t with
        | some i => .ok (.traj i)
        | none => .ok .none
      else .ok .none

/-- apply a query to the obstacle with the given id (`Scenario.obstacle_by_id`, then the call; a missing id gives
    `None.<method>`: AttributeError) -/
def withObstacle {α : Type} (os : List Obstacle) (oid : Nat) (f : Obstacle → Obstacle × Res α) : List Obstacle × Res α :=
  match os with
  | [] => ([], .error .attr)
  | o :: rest =>
    if o.id = oid then ((f o).1 :: rest, (f o).2)
    else (o :: (withObstacle rest oid f).1, (withObstacle rest oid f).2)

/-- `Scenario.occupancies_at_time_step` loop: for every obstacle of the role, `occupancy_at_time(t)` is evaluated for its
    truth value and, when there is one, once more for the list. -/
def occsLoop (t : Int) (role : Option Role) : List Obstacle → List Obstacle × Res (List Occ)
  | [] => ([], .ok [])
  | o :: rest =>
    if role = none ∨ role = some o.role then
      match (o.occAt t).2 with
      | .error e => ((o.occAt t).1 :: rest, .error e)
      | .ok none => ((o.occAt t).1 :: (occsLoop t role rest).1, (occsLoop t role rest).2)
      | .ok (some _) =>
        match ((o.occAt t).1.occAt t).2 with
        | .error e => (((o.occAt t).1.occAt t).1 :: rest, .error e)
        | .ok x => (((o.occAt t).1.occAt t).1 :: (occsLoop t role rest).1, (fun l => x.toList ++ l) <$> (occsLoop t role rest).2)
    else (o :: (occsLoop t role rest).1, (occsLoop t role rest).2)

/-- first loop of `Scenario.obstacle_states_at_time_step`: ids of the dynamic obstacles that have a state at `t` -/
def dynStates (t : Int) : List Obstacle → Res (List Nat)
  | [] => .ok []
  | o :: rest =>
    if o.role = .dynamic then
      match o.stateAt t with
      | .error e => .error e
      | .ok s =>
        match dynStates t rest with
        | .error e => .error e
        | .ok r => .ok (if s = .none then r else o.id :: r)
    else dynStates t rest

/-- `Scenario.obstacle_states_at_time_step`: the keys of the answer: dynamic obstacles with a state at `t`, then all static ones -/
def statesAtIds (t : Int) (os : List Obstacle) : Res (List Nat) :=
  match dynStates t os with
  | .error e => .error e
  | .ok dyn => .ok (dyn ++ (os.filter (fun o => o.role == .static)).map (·.id))

/-! ## Lanelet network, traffic lights, planning problems -/

structure Lanelet where
  id : Nat
  cells : List Int          -- tokens of the query points inside the (buffered) polygon
  deriving DecidableEq, Repr, Inhabited

structure Net where
  lanelets : List Lanelet
  /-- hidden: the STRtree over `_buffered_polygons` together with `_lanelet_id_index_by_id` (lanelet.py:1278-1281) -/
  index : Option (List Lanelet)
  deriving DecidableEq, Repr, Inhabited

/-- `_create_strtree` -/
def Net.rebuild (n : Net) : Net := { n with index := some n.lanelets }

/-- `find_lanelet_by_position`: `self._strtee.query` on a missing index is an AttributeError -/
def Net.findPos (n : Net) (pts : List Int) : Res (List (List Nat)) :=
  match n.index with
  | none => .error .attr
  | some ix => .ok (pts.map fun p => (ix.filter (·.cells.contains p)).map (·.id))

/-- `LaneletNetwork.__deepcopy__`: (self afterwards, the copy).  `self._strtee = None`, attribute-wise deep copy,
    `result._create_strtree()`, `self._create_strtree()`. -/
def Net.deepcopy (n : Net) : Net × Net :=
  let dropped := { n with index := none }
  let result := Net.rebuild dropped
  (Net.rebuild dropped, result)

/-- pickle round trip: `__getstate__` copies `__dict__` without the index (self untouched), `__setstate__` rebuilds. -/
def Net.pickle (n : Net) : Net × Net := (n, Net.rebuild { n with index := none })

structure Light where
  id : Nat
  es : List TL.Elem
  off : Int
  /-- hidden: `_cycle_init_timesteps` -/
  cache : Option (List Int)
  deriving DecidableEq, Repr, Inhabited

/-- `get_state_at_time_step` with the init steps it reads through `cycle_init_timesteps` -/
def stateWith (init : List Int) (es : List TL.Elem) (off t : Int) : Res Nat :=
  match pyGet? init (-1) with
  | none => .error .index
  | some last =>
    let period := last - off
    if period = 0 then .error .zeroDiv else
    let tm := (t - off) % period + off
    let i : Int := (argmaxLt tm init : Int) - 1
    match pyGet? es i with
    | none => .error .index
    | some e => .ok e.1

def Light.stateAt (l : Light) (t : Int) : Light × Res Nat :=
  let init := l.cache.getD (TL.initSteps l.es l.off)
  ({ l with cache := some init }, stateWith init l.es l.off t)

def withLight (ls : List Light) (lid : Nat) (t : Int) : List Light × Res Nat :=
  match ls with
  | [] => ([], .error .attr)          -- find_traffic_light_by_id returns None: `None.get_state_at_time_step`
  | l :: rest =>
    if l.id = lid then ((l.stateAt t).1 :: rest, (l.stateAt t).2)
    else (l :: (withLight rest lid t).1, (withLight rest lid t).2)

inductive TblKind where
  | plain | dflt            -- `dict` | `collections.defaultdict(list)`
  deriving DecidableEq, Repr, Inhabited

/-- `GoalRegion.lanelets_of_goal_position` when it is not None -/
structure Tbl where
  kind : TblKind
  items : List (Nat × List Nat)
  deriving DecidableEq, Repr, Inhabited

/-- `k in table` -/
def Tbl.contains (t : Tbl) (k : Nat) : Bool := t.items.any (·.1 == k)

/-- `table[k]`: a `defaultdict(list)` inserts `k ↦ []` on a miss, a `dict` raises KeyError -/
def Tbl.getItem (t : Tbl) (k : Nat) : Tbl × Res (List Nat) :=
  match t.items.lookup k with
  | some v => (t, .ok v)
  | none =>
    match t.kind with
    | .plain => (t, .error .key)
    | .dflt => ({ t with items := t.items ++ [(k, [])] }, .ok [])

/-- goal lanelets of goal state `i` as both writers read them (XML always; protobuf after the repair) -/
def goalLanelets (tbl : Option Tbl) (i : Nat) : Option Tbl × Res (List Nat) :=
  match tbl with
  | none => (none, .ok [])
  | some t => if t.contains i then let (t', r) := t.getItem i; (some t', r) else (some t, .ok [])

/-- the protobuf writer BEFORE the repair: `lanelets_of_goal_position[i]` whenever the table is not None -/
def goalLaneletsOld (tbl : Option Tbl) (i : Nat) : Option Tbl × Res (List Nat) :=
  match tbl with
  | none => (none, .ok [])
  | some t => let (t', r) := t.getItem i; (some t', r)

structure Problem where
  id : Nat
  /-- one entry per goal state: does it populate `position`?  (the XML writer puts the lanelet references inside the
      `position` element, file_writer_xml.py:893-897; the protobuf writer always writes them) -/
  goals : List Bool
  tbl : Option Tbl
  deriving DecidableEq, Repr, Inhabited

/-- all goal states of one problem, in order (`for i, state in enumerate(goal.state_list)`); `posOnly` = XML -/
def goalLoop (look : Option Tbl → Nat → Option Tbl × Res (List Nat)) (posOnly : Bool) (tbl : Option Tbl) :
    List Bool → Nat → Option Tbl × Res (List (List Nat))
  | [], _ => (tbl, .ok [])
  | hasPos :: rest, i =>
    let (tbl1, r) := look tbl i
    match r with
    | .error e => (tbl1, .error e)
    | .ok ids =>
      let (tbl2, rs) := goalLoop look posOnly tbl1 rest (i + 1)
      (tbl2, ((if posOnly && !hasPos then [] else ids) :: ·) <$> rs)

def Problem.write (look : Option Tbl → Nat → Option Tbl × Res (List Nat)) (posOnly : Bool) (p : Problem) :
    Problem × Res (Nat × List (List Nat)) :=
  let (tbl', r) := goalLoop look posOnly p.tbl p.goals 0
  ({ p with tbl := tbl' }, (fun l => (p.id, l)) <$> r)

def problemsWrite (look : Option Tbl → Nat → Option Tbl × Res (List Nat)) (posOnly : Bool) :
    List Problem → List Problem × Res (List (Nat × List (List Nat)))
  | [] => ([], .ok [])
  | p :: rest =>
    let (p', r) := p.write look posOnly
    match r with
    | .error e => (p' :: rest, .error e)
    | .ok x => let (rest', rs) := problemsWrite look posOnly rest; (p' :: rest', (x :: ·) <$> rs)

/-! ## The whole state, its observable part, the operations -/

structure St where
  obstacles : List Obstacle       -- in the order of `Scenario.obstacles`: static, dynamic, phantom, environment
  net : Net
  lights : List Light
  problems : List Problem
  deriving DecidableEq, Repr, Inhabited

def Pred.obs : Pred → Pred
  | .traj t1 ss sh _ => .traj t1 ss sh none
  | p => p

def Obstacle.obs : Obstacle → Obstacle
  | .dynamic i init r p => .dynamic i init r p.obs
  | .phantom i p => .phantom i p.obs
  | o => o

def Light.obs (l : Light) : Light := { l with cache := none }

/-- The observable part: everything except the three kinds of hidden cache (which are blanked). -/
def St.obs (s : St) : St :=
  { obstacles := s.obstacles.map Obstacle.obs
    net := { s.net with index := none }
    lights := s.lights.map Light.obs
    problems := s.problems }

/-- What a writer puts into the file, abstractly: per obstacle its id, the populated attributes of its initial state and of
    every trajectory state (or the occupancies of a set-based prediction); per planning problem the goal lanelets of every
    goal state. -/
structure ObsFile where
  id : Nat
  init : List (String × Int)
  states : List (Int × List (String × Int))
  occs : List SOcc
  deriving DecidableEq, Repr, Inhabited

structure FileAbs where
  obstacles : List ObsFile
  problems : List (Nat × List (List Nat))
  deriving DecidableEq, Repr, Inhabited

def Pred.fileStates : Pred → List (Int × List (String × Int))
  | .traj _ ss _ _ => ss.map fun s => (s.t, s.used)
  | _ => []

def Pred.fileOccs : Pred → List SOcc
  | .setBased occs => occs
  | _ => []

def Obstacle.file : Obstacle → ObsFile
  | .static i init _ => ⟨i, init.used, [], []⟩
  | .dynamic i init _ p => ⟨i, init.used, p.fileStates, p.fileOccs⟩
  | .phantom i p => ⟨i, [], [], p.fileOccs⟩
  | .environment i _ => ⟨i, [], [], []⟩

/-- `write_to_file` (with planning problems) / `write_scenario_to_file` (without) -/
def St.write (look : Option Tbl → Nat → Option Tbl × Res (List Nat)) (posOnly : Bool) (withProblems : Bool) (s : St) :
    St × Res FileAbs :=
  if withProblems then
    let (ps, r) := problemsWrite look posOnly s.problems
    ({ s with problems := ps }, (fun l => ⟨s.obstacles.map Obstacle.file, l⟩) <$> r)
  else (s, .ok ⟨s.obstacles.map Obstacle.file, []⟩)

inductive Op where
  | occ (oid : Nat) (t : Int)                      -- obstacle.occupancy_at_time
  | state (oid : Nat) (t : Int)                    -- obstacle.state_at_time
  | occs (t : Int) (role : Option Role)            -- scenario.occupancies_at_time_step
  | statesAt (t : Int)                             -- scenario.obstacle_states_at_time_step
  | occSet (oid : Nat)                             -- obstacle.prediction.occupancy_set
  | findPos (pts : List Int)                       -- lanelet_network.find_lanelet_by_position
  | light (lid : Nat) (t : Int)                    -- traffic_light.get_state_at_time_step
  /-- operations that only read the objects or work on deep copies and, while doing so, evaluate `prediction.occupancy_set`
      of the listed obstacles and `cycle_init_timesteps` of the listed traffic lights (GoalRegion.is_reached, goal_reached,
      ==, hash, copy.copy, str, obstacles_by_position_intervals, Lanelet.get_obstacles, draw + render, …; which caches an
      operation touches is recorded from the run) -/
  | reads (occSets : List Nat) (lightIds : List Nat)
  | deepcopy                                       -- copy.deepcopy(scenario)
  | pickle                                         -- pickle.loads(pickle.dumps(scenario))
  | writeXml (withProblems : Bool)
  | writePb (withProblems : Bool)
  deriving DecidableEq, Repr, Inhabited

inductive Out where
  | unit
  | occ (o : Option Occ)
  | occs (l : List Occ)
  | state (s : StOut)
  | ids (l : List Nat)
  | idss (l : List (List Nat))
  | nat (n : Nat)
  | file (f : FileAbs)
  | copy (s : St)
  deriving DecidableEq, Repr, Inhabited

/-- evaluate `obstacle.prediction.occupancy_set` and drop the answer -/
def touchOccSet (o : Obstacle) : Obstacle × Res Unit :=
  match o with
  | .dynamic i init reg p => (.dynamic i init reg p.occSet.1, .ok ())
  | .phantom i p => (.phantom i p.occSet.1, .ok ())
  | o => (o, .ok ())

def runOccQs : List Nat → List Obstacle → List Obstacle
  | [], os => os
  | oid :: rest, os => runOccQs rest (withObstacle os oid touchOccSet).1

def runLightQs : List Nat → List Light → List Light
  | [], ls => ls
  | lid :: rest, ls => runLightQs rest (withLight ls lid 0).1

/-- `obstacle.prediction.occupancy_set` (static and environment obstacles have no `prediction`: AttributeError) -/
def Obstacle.occSet (o : Obstacle) : Obstacle × Res (List Occ) :=
  match o with
  | .dynamic i init reg p => (.dynamic i init reg p.occSet.1, p.occSet.2)
  | .phantom i p => (.phantom i p.occSet.1, p.occSet.2)
  | o => (o, .error .attr)

/-- One read-only operation. -/
def step (op : Op) (s : St) : St × Res Out :=
  match op with
  | .occ oid t =>
    ({ s with obstacles := (withObstacle s.obstacles oid (fun o => o.occAt t)).1 },
     Out.occ <$> (withObstacle s.obstacles oid (fun o => o.occAt t)).2)
  | .state oid t =>
    ({ s with obstacles := (withObstacle s.obstacles oid (fun o => (o, o.stateAt t))).1 },
     Out.state <$> (withObstacle s.obstacles oid (fun o => (o, o.stateAt t))).2)
  | .occs t role =>
    if t < 0 then (s, .error .assert) else          -- assert is_natural_number(time_step)
    ({ s with obstacles := (occsLoop t role s.obstacles).1 }, Out.occs <$> (occsLoop t role s.obstacles).2)
  | .statesAt t =>
    if t < 0 then (s, .error .assert) else
    (s, Out.ids <$> statesAtIds t s.obstacles)
  | .occSet oid =>
    ({ s with obstacles := (withObstacle s.obstacles oid Obstacle.occSet).1 },
     Out.occs <$> (withObstacle s.obstacles oid Obstacle.occSet).2)
  | .findPos pts => (s, Out.idss <$> s.net.findPos pts)
  | .light lid t => ({ s with lights := (withLight s.lights lid t).1 }, Out.nat <$> (withLight s.lights lid t).2)
  | .reads oq lq => ({ s with obstacles := runOccQs oq s.obstacles, lights := runLightQs lq s.lights }, .ok .unit)
  | .deepcopy => ({ s with net := s.net.deepcopy.1 }, .ok (.copy { s with net := s.net.deepcopy.2 }))
  | .pickle => ({ s with net := s.net.pickle.1 }, .ok (.copy { s with net := s.net.pickle.2 }))
  | .writeXml wp => ((s.write goalLanelets true wp).1, Out.file <$> (s.write goalLanelets true wp).2)
  | .writePb wp => ((s.write goalLanelets false wp).1, Out.file <$> (s.write goalLanelets false wp).2)

/-- A sequence of read-only operations (answers dropped). -/
def run : List Op → St → St
  | [], s => s
  | op :: rest, s => run rest (step op s).1

/-- the same, keeping every intermediate state and answer (used by the driver) -/
def trace : List Op → St → List (St × Res Out)
  | [], _ => []
  | op :: rest, s => let r := step op s; r :: trace rest r.1

/-- The hidden caches are consistent: an occupancy cache holds what `_create_occupancy_set` computes from the states, the
    index is over the lanelets, a light cache holds the init steps of its cycle. -/
def Pred.Inv : Pred → Prop
  | .traj _ ss sh (some c) => createOccSet sh ss = .ok c
  | _ => True

def Obstacle.Inv : Obstacle → Prop
  | .dynamic _ _ _ p => p.Inv
  | .phantom _ p => p.Inv
  | _ => True

def Light.Inv (l : Light) : Prop := l.cache = none ∨ l.cache = some (TL.initSteps l.es l.off)

structure St.Inv (s : St) : Prop where
  obstacles : ∀ o ∈ s.obstacles, o.Inv
  net : s.net.index = none ∨ s.net.index = some s.net.lanelets
  lights : ∀ l ∈ s.lights, l.Inv

/-! ## The unrepaired protobuf writer and occupancy computation (for the defect theorems) -/

def stepPbOld (wp : Bool) (s : St) : St × Res Out :=
  ((s.write goalLaneletsOld false wp).1, Out.file <$> (s.write goalLaneletsOld false wp).2)

end CR.Frame
