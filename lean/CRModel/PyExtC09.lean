/-
  CRModel.PyExtC09 — the fixed vocabulary the C09 translator (harness/translate/src_c09.py) maps the Python
  operations of `Scenario`'s id bookkeeping (scenario/scenario.py) to.  Hand-written, core Lean only.  Everything
  here is *trusted to denote* the Python operation on the reduced objects of `CRModel.IdPool` (objects are ids,
  a lanelet carries its sign / light references, an intersection its incoming ids; Python `set` / `dict` are
  lists: membership and, for dicts, insertion order — the element order of a `set` is not observable).
  The control-flow combinators (`tryE`, `forE`) are generic; the tie module proves that at `σ = St` they are the
  model's `andThen` / `forEach`.
-/
import CRModel.IdPool
namespace CR.PyC09
open CR CR.IdPool

/-! ### control flow of statements that may raise -/

/-- `stmt; rest` where `stmt` is a call that may raise: `k` is the rest of the block, `h` what the enclosing
    construct does with an exception (outcome other than `ok`) and the state at the moment it was raised. -/
def tryE {σ τ : Type} (r : σ × Out) (k : σ → τ) (h : σ → Out → τ) : τ :=
  match r with
  | (x, .ok) => k x
  | (x, o) => h x o

/-- `for a in as: body` where the body may raise (`σ`: everything the body may change — the scenario state and / or
    the local variables it assigns): stop at the first outcome that is not `ok`. -/
def forE {σ α : Type} (f : σ → α → σ × Out) : σ → List α → σ × Out
  | x, [] => (x, .ok)
  | x, a :: as => tryE (f x a) (fun x1 => forE f x1 as) (fun x1 o => (x1, o))

/-- `for lanelet in self.lanelet_network.lanelets: body` when the body changes the scenario: the loop runs over a
    copy of the list (here: the keys) but every iteration sees the *current* lanelet object with that key (its sign /
    light references may have been cleaned up by earlier iterations).  A key that is no longer present cannot occur
    while dict keys are unique; it is given the outcome KeyError like in the model. -/
def withLanelet (s : St) (k : Nat) (body : Lanelet → St × Out) : St × Out :=
  match s.net.lanelets.find? (fun l => l.id = k) with
  | some l => body l
  | none => (s, .err .key)

/-- using an `Optional[int]` attribute as a number: `None` in arithmetic / `max` is a TypeError. -/
def withNum {σ : Type} (x : σ) (o : Option Nat) (k : Nat → σ × Out) : σ × Out :=
  match o with
  | some c => k c
  | none => (x, .err .type)

/-! ### set / dict / list operations -/

/-- `s.add(k)` on a set of ints (a new element goes to the front; the order is not observable). -/
def setAdd (l : List Nat) (k : Nat) : List Nat := if k ∈ l then l else k :: l

/-- `s.remove(k)` guarded by the caller (`KeyError` is produced by `idSetRemove`); also `del d[k]` on dict keys. -/
def setDel (l : List Nat) (k : Nat) : List Nat := l.filter (· ≠ k)

/-- `s.difference_update(ks)` -/
def setDiffUpdate (l ks : List Nat) : List Nat := l.filter (fun k => k ∉ ks)

/-- `a - b` on sets -/
def setDiff (a b : List Nat) : List Nat := a.filter (fun k => k ∉ b)

/-- `set().union(*ls)` -/
def unionAll (ls : List (List Nat)) : List Nat := ls.flatMap id

/-- `max(s)` of a non-empty set of ints (the callers guard with `len(s) > 0`; 0 for the empty set). -/
def setMax (l : List Nat) : Nat := listMax l

/-- `self._id_set.remove(k)`: KeyError if `k` is not in the set. -/
def idSetRemove (s : St) (k : Nat) : St × Out :=
  if k ∈ s.idSet then ({ s with idSet := setDel s.idSet k }, .ok) else (s, .err .key)

/-- `del self._static_obstacles[k]` etc.: KeyError for a missing key. -/
def delStat (s : St) (k : Nat) : St × Out :=
  if k ∈ s.stat then ({ s with stat := setDel s.stat k }, .ok) else (s, .err .key)
def delDyn (s : St) (k : Nat) : St × Out :=
  if k ∈ s.dyn then ({ s with dyn := setDel s.dyn k }, .ok) else (s, .err .key)
def delEnv (s : St) (k : Nat) : St × Out :=
  if k ∈ s.env then ({ s with env := setDel s.env k }, .ok) else (s, .err .key)
def delPhan (s : St) (k : Nat) : St × Out :=
  if k ∈ s.phan then ({ s with phan := setDel s.phan k }, .ok) else (s, .err .key)

/-- a list of `Optional[object]` handed on where a list of objects is expected: the `None`s are dropped (they cannot
    occur where the translator uses this: the elements come from `find_*_by_id` of ids read off the same dict). -/
def somes {α : Type} (l : List (Option α)) : List α := l.filterMap id

/-! ### LaneletNetwork look-ups (lanelet.py `find_*_by_id`: `dict.get`, `None` if absent) -/

def findLanelet (n : Net) (k : Nat) : Option Lanelet := n.lanelets.find? (fun l => l.id = k)
def findSign (n : Net) (k : Nat) : Option Nat := if k ∈ n.signs then some k else none
def findLight (n : Net) (k : Nat) : Option Nat := if k ∈ n.lights then some k else none
def findInter (n : Net) (k : Nat) : Option Inter := n.inters.find? (fun j => j.id = k)

/-- `find_lanelet_by_id(k).<registry attribute>`: AttributeError on `None`; the registries themselves
    (`static_obstacles_on_lanelet`, `dynamic_obstacles_on_lanelet`) are not part of the id model (property C07). -/
def requireLanelet {σ : Type} (x : σ) (n : Net) (k : Nat) (rest : σ × Out) : σ × Out :=
  match findLanelet n k with
  | some _ => rest
  | none => (x, .err .attr)

/-! ### what `isinstance` and attribute reads mean on the reduced objects `Obj` handed to `add_objects` -/

inductive Cls where
  | list | staticObstacle | dynamicObstacle | environmentObstacle | phantomObstacle | obstacle
  | laneletNetwork | lanelet | trafficSign | trafficLight | intersection
  deriving DecidableEq, Repr

def roleOf : Obj → Option Role
  | .obstacle r _ => some r
  | .obstacleOn r _ _ => some r
  | _ => none

/-- `isinstance(o, C)`; `Obstacle` is the base class of StaticObstacle and DynamicObstacle only (obstacle.py);
    `Obj.invalid` is an object of none of the classes; a list is never an `Obj` (list forms are separate targets). -/
def isinst (o : Obj) : Cls → Bool
  | .list => false
  | .staticObstacle => roleOf o == some .stat
  | .dynamicObstacle => roleOf o == some .dyn
  | .environmentObstacle => roleOf o == some .env
  | .phantomObstacle => roleOf o == some .phan
  | .obstacle => roleOf o == some .stat || roleOf o == some .dyn
  | .laneletNetwork => match o with | .network _ => true | _ => false
  | .lanelet => match o with | .lanelet _ => true | _ => false
  | .trafficSign => match o with | .sign _ => true | _ => false
  | .trafficLight => match o with | .light _ => true | _ => false
  | .intersection => match o with | .inter _ => true | _ => false

/-- `o.obstacle_id` / `o.traffic_sign_id` / `o.traffic_light_id` (an object of another class has no such attribute;
    the translated code reads it only behind the matching `isinstance`) -/
def objId : Obj → Nat
  | .obstacle _ k => k
  | .obstacleOn _ k _ => k
  | .sign k => k
  | .light k => k
  | .lanelet l => l.id
  | .inter i => i.id
  | _ => 0

/-- the object itself seen as a Lanelet / Intersection / LaneletNetwork -/
def asLanelet : Obj → Lanelet
  | .lanelet l => l
  | _ => default
def asInter : Obj → Inter
  | .inter i => i
  | _ => default
def asNet : Obj → Net
  | .network n => n
  | _ => {}

/-- `o.initial_shape_lanelet_ids` (None for an obstacle without assignment) -/
def shapeLaneletIds : Obj → Option (List Nat)
  | .obstacleOn _ _ on => some on
  | _ => none

/-- `Out` of a call that returned normally / of `_mark_object_id_as_used` in the model's `St × Option Err` form -/
def ofMark (r : St × Option Err) : St × Out :=
  match r with
  | (s, none) => (s, .ok)
  | (s, some e) => (s, .err e)

end CR.PyC09
