/-
  CRModel.Geom — exact planar predicates over `Rat` for the shapes of `commonroad/geometry/shape.py`.

    Circle.contains_point      (:314-326)  `radius >= norm(point - center)`
    Rectangle.contains_point   (:190-200)  shapely polygon of `vertices` (:140-148, :202-213) intersects the point
    Polygon.contains_point     (:428-447)  bounding box of the vertices, then shapely polygon intersects the point
    ShapeGroup.contains_point  (:543-556)  any member
    *.shapely_object           (:157, :281, :387)  the exported planar geometry

  Reals are `Rat` (every IEEE double is a rational).  `cos θ`, `sin θ` of a rectangle's orientation are the
  parameters `(c, s)` (DESIGN §3.2); the theorems need only `c² + s² = 1`.  What GEOS answers for
  "polygon intersects point / polygon" is modelled by the exact closed-set predicates below (`inRing`:
  on the boundary, or an odd number of boundary crossings of the ray towards +x); agreement of GEOS
  with them is compared by the harness on exact-grid inputs, not proved.
-/
import CRModel.Basic
namespace CR.Geom

structure Pt where
  x : Rat
  y : Rat
  deriving DecidableEq, Repr, Inhabited

def Pt.add (p t : Pt) : Pt := ⟨p.x + t.x, p.y + t.y⟩

/-- Squared Euclidean distance. -/
def d2 (p q : Pt) : Rat := (p.x - q.x) * (p.x - q.x) + (p.y - q.y) * (p.y - q.y)

/-- `Circle.contains_point`: `radius >= ‖p - c‖`, in squared form (a negative radius contains nothing). -/
def inDisc (c : Pt) (r : Rat) (p : Pt) : Bool := decide (0 ≤ r) && decide (d2 p c ≤ r * r)

/-- `(b - a) × (p - a)`. -/
def cross (a b p : Pt) : Rat := (b.x - a.x) * (p.y - a.y) - (b.y - a.y) * (p.x - a.x)

/-- `p` lies on the closed segment `ab`. -/
def onSeg (a b p : Pt) : Bool :=
  decide (cross a b p = 0) && decide (min a.x b.x ≤ p.x) && decide (p.x ≤ max a.x b.x)
    && decide (min a.y b.y ≤ p.y) && decide (p.y ≤ max a.y b.y)

/-- The edge `ab` is crossed by the horizontal ray from `p` towards `+x` (half-open rule on `y`):
    `(a.y > p.y) ≠ (b.y > p.y)` and `p.x < a.x + (p.y - a.y)·(b.x - a.x)/(b.y - a.y)`, written without division. -/
def rayCross (a b p : Pt) : Bool :=
  (decide (p.y < a.y) != decide (p.y < b.y)) &&
    (if a.y < b.y then decide ((p.x - a.x) * (b.y - a.y) < (p.y - a.y) * (b.x - a.x))
     else decide ((p.y - a.y) * (b.x - a.x) < (p.x - a.x) * (b.y - a.y)))

/-- Edges of the closed ring through `vs` (last vertex joined to the first). -/
def edges : List Pt → List (Pt × Pt)
  | [] => []
  | v :: vs => (v :: vs).zip (vs ++ [v])

/-- Number of ring edges crossed by the ray from `p`. -/
def crossings (vs : List Pt) (p : Pt) : Nat := ((edges vs).filter (fun e => rayCross e.1 e.2 p)).length

/-- Closed point-in-ring test: on the boundary, or crossing number odd. -/
def inRing (vs : List Pt) (p : Pt) : Bool :=
  (edges vs).any (fun e => onSeg e.1 e.2 p) || crossings vs p % 2 == 1

/-- `all(min ≤ p) and all(p ≤ max)` with `min/max = np.min/np.max(vertices, axis=0)` (shape.py:346-347, :441-445):
    `min_x ≤ p.x` iff some vertex has `x ≤ p.x`, etc. -/
def inBBox (vs : List Pt) (p : Pt) : Bool :=
  vs.any (fun v => decide (v.x ≤ p.x)) && vs.any (fun v => decide (p.x ≤ v.x))
    && vs.any (fun v => decide (v.y ≤ p.y)) && vs.any (fun v => decide (p.y ≤ v.y))

/-- `Polygon.contains_point`. -/
def polyContains (vs : List Pt) (p : Pt) : Bool := inBBox vs p && inRing vs p

/-- `rotate_translate(v, center, θ)` of a local point with `(c, s) = (cos θ, sin θ)` (geometry/transform.py:25-40). -/
def place (ctr : Pt) (c s : Rat) (v : Pt) : Pt := ⟨ctr.x + (c * v.x - s * v.y), ctr.y + (s * v.x + c * v.y)⟩

/-- `Rectangle._compute_vertices` (shape.py:202-213): five vertices, clockwise, first = last. -/
def rectVerts (l w : Rat) (ctr : Pt) (c s : Rat) : List Pt :=
  [place ctr c s ⟨-(l / 2), -(w / 2)⟩, place ctr c s ⟨-(l / 2), w / 2⟩, place ctr c s ⟨l / 2, w / 2⟩,
   place ctr c s ⟨l / 2, -(w / 2)⟩, place ctr c s ⟨-(l / 2), -(w / 2)⟩]

/-- `Rectangle.contains_point`: the exported polygon intersects the point. -/
def rectContains (l w : Rat) (ctr : Pt) (c s : Rat) (p : Pt) : Bool := inRing (rectVerts l w ctr c s) p

/-- The set a rectangle denotes: the `l`-by-`w` box at its pose, tested in the local frame. -/
def inBox (l w : Rat) (ctr : Pt) (c s : Rat) (p : Pt) : Bool :=
  let u := c * (p.x - ctr.x) + s * (p.y - ctr.y)
  let v := -(s * (p.x - ctr.x)) + c * (p.y - ctr.y)
  decide (-(l / 2) ≤ u) && decide (u ≤ l / 2) && decide (-(w / 2) ≤ v) && decide (v ≤ w / 2)

/-- Inside the convex quadrilateral with clockwise vertices `q0 q1 q2 q3` (every edge has `p` on its right or on it). -/
def inQuadCW (q0 q1 q2 q3 p : Pt) : Bool :=
  decide (cross q0 q1 p ≤ 0) && decide (cross q1 q2 p ≤ 0) && decide (cross q2 q3 p ≤ 0) && decide (cross q3 q0 p ≤ 0)

/-- Primitive shapes. -/
inductive Prim where
  | rect (l w : Rat) (ctr : Pt) (c s : Rat)
  | circ (r : Rat) (ctr : Pt)
  | poly (vs : List Pt)
  deriving DecidableEq, Repr

/-- A shape: a primitive or a `ShapeGroup` of primitives (groups of groups are not modelled: `Lanelet.get_obstacles`
    and every writer handle one level only). -/
inductive Shape where
  | prim (s : Prim)
  | group (ss : List Prim)
  deriving DecidableEq, Repr

def Prim.contains : Prim → Pt → Bool
  | .rect l w ctr c s, p => rectContains l w ctr c s p
  | .circ r ctr, p => inDisc ctr r p
  | .poly vs, p => polyContains vs p

/-- `Shape.contains_point`; a group: the loop `for s in shapes: if s.contains_point(p): return True`. -/
def Shape.contains : Shape → Pt → Bool
  | .prim s, p => s.contains p
  | .group ss, p => ss.any (fun s => s.contains p)

def Prim.translate (t : Pt) : Prim → Prim
  | .rect l w ctr c s => .rect l w (ctr.add t) c s
  | .circ r ctr => .circ r (ctr.add t)
  | .poly vs => .poly (vs.map (fun v => v.add t))

def Shape.translate (t : Pt) : Shape → Shape
  | .prim s => .prim (s.translate t)
  | .group ss => .group (ss.map (Prim.translate t))

/-! ### Exact closed-set intersection predicates (the exact logic behind GEOS's `intersects` / `dwithin` on
    polygons, segments and discs; division free) -/

/-- Closed segments `ab` and `cd` share a point: they cross properly (the end points of each lie strictly on
    different sides of the other), or an end point of one lies on the other. -/
def segMeet (a b c d : Pt) : Bool :=
  (decide (cross a b c * cross a b d < 0) && decide (cross c d a * cross c d b < 0))
    || onSeg a b c || onSeg a b d || onSeg c d a || onSeg c d b

/-- The squared distance from `p` to the closed segment `ab` is at most `r2`: with `t = (p - a)·(b - a)` and
    `n = |b - a|²`, the nearest point is `a` (`t ≤ 0`), `b` (`n ≤ t`) or the foot of the perpendicular, whose squared
    distance is `cross² / n`. -/
def segNear (a b p : Pt) (r2 : Rat) : Bool :=
  let dx := b.x - a.x
  let dy := b.y - a.y
  let n := dx * dx + dy * dy
  let t := (p.x - a.x) * dx + (p.y - a.y) * dy
  if t ≤ 0 then decide (d2 p a ≤ r2)
  else if n ≤ t then decide (d2 p b ≤ r2)
  else decide (cross a b p * cross a b p ≤ r2 * n)

/-- Two closed polygons (simple rings) share a point: two edges meet, or a vertex of one lies in the other. -/
def ringsMeet (A B : List Pt) : Bool :=
  (edges A).any (fun e => (edges B).any (fun f => segMeet e.1 e.2 f.1 f.2))
    || A.any (fun a => inRing B a) || B.any (fun b => inRing A b)

/-- The closed disc of radius `r` around `ctr` meets the closed polygon: the centre lies in it, or an edge comes
    within `r` of the centre. -/
def discMeetsRing (ctr : Pt) (r : Rat) (A : List Pt) : Bool :=
  decide (0 ≤ r) && (inRing A ctr || (edges A).any (fun e => segNear e.1 e.2 ctr (r * r)))

/-- Distance of `p` to the polygon is at most `tol` (`dwithin`). -/
def withinTol (tol : Rat) (A : List Pt) (p : Pt) : Bool :=
  inRing A p || (edges A).any (fun e => segNear e.1 e.2 p (tol * tol))

/-- `Circle.__init__` (shape.py:240-242): `Point(center).buffer(radius / 2)` — the exported geometry of a circle is
    (GEOS's 64-gon inscribed in) the disc of HALF the radius.  Known finding C06/shapely_object/wrong/circ: the
    repair (`buffer(radius)`) contradicts two tests of the pinned suite, so the code is modelled as it is. -/
def exportedRadius (r : Rat) : Rat := r / 2

/-- Point membership in the geometry a primitive exports (`shapely_object`). -/
def Prim.exported : Prim → Pt → Bool
  | .rect l w ctr c s, p => inRing (rectVerts l w ctr c s) p
  | .circ r ctr, p => inDisc ctr (exportedRadius r) p
  | .poly vs, p => inRing vs p

/-- The set a primitive denotes (property text): the box at its pose, the disc of radius `r`, the vertex ring. -/
def Prim.denotes : Prim → Pt → Bool
  | .rect l w ctr c s, p => inBox l w ctr c s p
  | .circ r ctr, p => inDisc ctr r p
  | .poly vs, p => inRing vs p

/-- Reference `polygon.intersects(shape.shapely_object)`: the polygon ring meets the exported geometry. -/
def ringMeets (A : List Pt) : Prim → Bool
  | .rect l w ctr c s => ringsMeet A (rectVerts l w ctr c s)
  | .circ r ctr => discMeetsRing ctr (exportedRadius r) A
  | .poly vs => ringsMeet A vs

/-! ### The envelope prefilter of `STRtree.query`

  The tree returns the geometries whose envelope (bounding box) meets the envelope of the query (expanded by the
  distance for `dwithin`); the code then applies the exact predicate.  Envelopes are written without `min` / `max`:
  `min_x(A) ≤ max_x(B)` iff some vertex of `A` has `x ≤` that of some vertex of `B`. -/

/-- The bounding boxes of two vertex lists overlap. -/
def envOverlap (A B : List Pt) : Bool :=
  A.any (fun a => B.any (fun b => decide (a.x ≤ b.x))) && B.any (fun b => A.any (fun a => decide (b.x ≤ a.x)))
    && A.any (fun a => B.any (fun b => decide (a.y ≤ b.y))) && B.any (fun b => A.any (fun a => decide (b.y ≤ a.y)))

/-- The bounding box of `A` meets the square `[c - ρ, c + ρ]²` (envelope of a disc / of a point expanded by `ρ`). -/
def discEnvOverlap (ctr : Pt) (ρ : Rat) (A : List Pt) : Bool :=
  A.any (fun a => decide (a.x ≤ ctr.x + ρ)) && A.any (fun a => decide (ctr.x - ρ ≤ a.x))
    && A.any (fun a => decide (a.y ≤ ctr.y + ρ)) && A.any (fun a => decide (ctr.y - ρ ≤ a.y))

/-- Envelope test of the tree for a primitive query shape (its exported geometry). -/
def primEnvOverlap (A : List Pt) : Prim → Bool
  | .rect l w ctr c s => envOverlap A (rectVerts l w ctr c s)
  | .circ r ctr => discEnvOverlap ctr (exportedRadius r) A
  | .poly vs => envOverlap A vs

/-- What `find_lanelet_by_shape` evaluates per lanelet polygon: the tree's envelope test, then `intersects`. -/
def treeMeets (A : List Pt) (s : Prim) : Bool := primEnvOverlap A s && ringMeets A s

/-- What `find_lanelet_by_position` evaluates per lanelet polygon and point: the tree's envelope test for
    `dwithin(·, tol)`, then the distance predicate. -/
def treeWithin (tol : Rat) (A : List Pt) (p : Pt) : Bool := discEnvOverlap p tol A && withinTol tol A p

end CR.Geom
