/-
  CRModel.Goal — model of `GoalRegion.is_reached` / `_harmonize_state_types`
  (commonroad/planning/goal.py:88-121, 196-226) and `PlanningProblem.goal_reached`
  (commonroad/planning/planning_problem.py:83-94).

  The position test is `CR.Geom.Shape.contains` (the model of `Shape.contains_point`, CRModel/Geom.lean; C06 proves it
  denotes the closed shape). `hypot` and `atan2` are FUNCTION parameters `F.hyp`, `F.at2` (transcendental; any functions):
  what the model fixes is WHICH arguments they are applied to — speed is `hyp vx vy`, heading is `at2 vy vx`.
-/
import CRModel.Interval
import CRModel.Geom
namespace CR.Goal
open CR.Iv

/-- The two transcendental functions the check uses, as parameters. -/
structure Fns where
  hyp : Rat → Rat → Rat        -- np.linalg.norm([vx, vy])
  at2 : Rat → Rat → Rat        -- math.atan2(y, x)

/-- A goal state: mandatory time interval, optional position / orientation / velocity constraints. -/
structure GState where
  time : I
  pos : Option CR.Geom.Shape
  ori : Option I
  vel : Option I
  deriving Repr

/-- The state under test (exact values). -/
structure St where
  t : Rat
  pos : Option CR.Geom.Pt
  ori : Option Rat      -- stored `orientation` attribute, if the state class has one and it is set
  vel : Option Rat      -- `velocity`
  velY : Option Rat     -- `velocity_y`
  deriving Repr

def GState.hasPos (g : GState) : Bool := g.pos.isSome
def St.hasPos (s : St) : Bool := s.pos.isSome

/-- `_harmonize_state_types` fires: the state has `velocity` and `velocity_y`, the goal constrains
    orientation or velocity (a goal state can never carry `velocity_y`). -/
def harmonized (g : GState) (s : St) : Bool :=
  s.vel.isSome && s.velY.isSome && (g.ori.isSome || g.vel.isSome)

/-- `goal_state_fields.issubset(state_fields)` after harmonisation (time_step is mandatory on both). -/
def fieldsOk (g : GState) (s : St) : Bool :=
  (!g.hasPos || s.hasPos) &&
  (!g.ori.isSome || (s.ori.isSome || harmonized g s)) &&
  (!g.vel.isSome || s.vel.isSome)

/-- `state_new.velocity` after harmonisation: `np.linalg.norm([velocity, velocity_y])`. -/
def velOf (F : Fns) (g : GState) (s : St) : Option Rat :=
  if harmonized g s then some (F.hyp (s.vel.getD 0) (s.velY.getD 0)) else s.vel

/-- `state_new.orientation` after harmonisation: the stored attribute, else the heading of (vx, vy). -/
def oriOf (F : Fns) (g : GState) (s : St) : Option Rat :=
  match s.ori with
  | some θ => some θ
  | none => if harmonized g s then some (F.at2 (s.velY.getD 0) (s.vel.getD 0)) else none

/-- One iteration of the loop in `is_reached`. -/
def reachedOne (F : Fns) (τ ε : Rat) (g : GState) (s : St) : Res Bool :=
  if ¬ fieldsOk g s then .error .value else
  let r1 := contains g.time s.t
  let r2 := match g.pos, s.pos with
    | some sh, some p => sh.contains p
    | _, _ => true
  let r3 := match g.ori, oriOf F g s with
    | some iv, some θ => containsAngle τ ε iv θ
    | _, _ => true
  let r4 := match g.vel, velOf F g s with
    | some iv, some v => contains iv v
    | _, _ => true
  .ok (r1 && r2 && r3 && r4)

/-- The loop over goal states (`np.any` of the per-goal results; a `ValueError` aborts the loop). -/
def isReached (F : Fns) (τ ε : Rat) : List GState → St → Res Bool
  | [], _ => .ok false
  | g :: rest, s =>
    match reachedOne F τ ε g s with
    | .error e => .error e
    | .ok b =>
      match isReached F τ ε rest s with
      | .error e => .error e
      | .ok b' => .ok (b || b')

/-! ### `GoalRegion.translate_rotate(t, 0)` (goal.py:123-131 → `State.translate_rotate`, state.py:259-301)

  A pure translation (angle 0: `cos = 1.0`, `sin = 0.0`, exact) moves every goal position by `t` and leaves the time,
  orientation (`AngleInterval + 0`) and velocity intervals as they are; a state is carried along by moving its position.
  The rotation part belongs to C05 (CRModel/Rigid.lean). -/

/-- A goal state after `translate_rotate(t, 0)`. -/
def GState.translate (t : CR.Geom.Pt) (g : GState) : GState := { g with pos := g.pos.map (·.translate t) }

/-- The checked state carried along by the same translation. -/
def St.translate (t : CR.Geom.Pt) (s : St) : St := { s with pos := s.pos.map (·.add t) }

/-- `is_reached` on the goal region after `translate_rotate(t, 0)`. -/
def isReachedMoved (F : Fns) (τ ε : Rat) (t : CR.Geom.Pt) (goals : List GState) (s : St) : Res Bool :=
  isReached F τ ε (goals.map (GState.translate t)) s

/-! ### goal shapes edited through their own setters (known finding C08/GoalRegion.is_reached/stale-after/…)

  `Rectangle` computes its vertices and its polygon on first use and keeps them (shape.py:146-160, 45-49 `_shapely_polygon`);
  the setters `length`, `width`, `center`, `orientation` (shape.py:102-145) store the new parameter and leave both in place.
  `Polygon.vertices = …` (shape.py:375-379) replaces the vertices and the bounding box, not the polygon built by `__init__`.
  `contains_point` reads the kept data, so a goal position edited after a first `is_reached` is answered for the OLD shape. -/

/-- A `Rectangle` object: parameters plus the lazily computed vertex ring (`None` until first use). -/
structure RectObj where
  l : Rat
  w : Rat
  ctr : CR.Geom.Pt
  c : Rat
  s : Rat
  cache : Option (List CR.Geom.Pt)
  deriving Repr

def RectObj.new (l w : Rat) (ctr : CR.Geom.Pt) (c s : Rat) : RectObj := ⟨l, w, ctr, c, s, none⟩

/-- `Rectangle.contains_point`: the polygon of the (cached) vertices intersects the point; fills the cache. -/
def RectObj.containsPoint (r : RectObj) (p : CR.Geom.Pt) : Bool × RectObj :=
  let vs := r.cache.getD (CR.Geom.rectVerts r.l r.w r.ctr r.c r.s)
  (CR.Geom.inRing vs p, { r with cache := some vs })

/-- the setters as shipped: the cache is kept. -/
def RectObj.setLength (r : RectObj) (l : Rat) : RectObj := { r with l := l }
def RectObj.setWidth (r : RectObj) (w : Rat) : RectObj := { r with w := w }
def RectObj.setCenter (r : RectObj) (ctr : CR.Geom.Pt) : RectObj := { r with ctr := ctr }
def RectObj.setOrientation (r : RectObj) (c s : Rat) : RectObj := { r with c := c, s := s }

/-- the setters as repaired (proposed_fixes/C08_shape_setters_refresh_cache.patch): the cache is dropped. -/
def RectObj.setLengthR (r : RectObj) (l : Rat) : RectObj := { r with l := l, cache := none }
def RectObj.setWidthR (r : RectObj) (w : Rat) : RectObj := { r with w := w, cache := none }
def RectObj.setCenterR (r : RectObj) (ctr : CR.Geom.Pt) : RectObj := { r with ctr := ctr, cache := none }
def RectObj.setOrientationR (r : RectObj) (c s : Rat) : RectObj := { r with c := c, s := s, cache := none }

/-! In-place edits.  `Rectangle.center` (getter) hands out the stored array itself (shape.py `return self._center`), so
  `c = rect.center; c[0] = x` - and the first half of `rect.center += d` - change the parameter the object shows WITHOUT any
  setter running: the vertex cache is kept (`writeCenter`).  The caller then tells the object by assigning that same array object
  back (`rect.center = c`, the second half of `+=`): the setter receives a value equal to the one already stored
  (`reassignCenterR`), and must still drop the cache. -/
def RectObj.writeCenter (r : RectObj) (ctr : CR.Geom.Pt) : RectObj := { r with ctr := ctr }
def RectObj.reassignCenterR (r : RectObj) : RectObj := r.setCenterR r.ctr
/-- A centre setter that returns early when the assigned value equals the stored one (seeded change C08_13): after an in-place
    write the comparison is between the array and itself, so the cache survives. -/
def RectObj.setCenterSkipEqual (r : RectObj) (ctr : CR.Geom.Pt) : RectObj := if ctr = r.ctr then r else r.setCenterR ctr

/-- A `Polygon` object: the vertices shown (they also give the bounding box) and the ring of the shapely polygon. -/
structure PolyObj where
  vs : List CR.Geom.Pt
  ring : List CR.Geom.Pt
  deriving Repr

def PolyObj.new (vs : List CR.Geom.Pt) : PolyObj := ⟨vs, vs⟩
/-- `Polygon.contains_point`: bounding box of the vertices, then the polygon. -/
def PolyObj.containsPoint (q : PolyObj) (p : CR.Geom.Pt) : Bool := CR.Geom.inBBox q.vs p && CR.Geom.inRing q.ring p
/-- `vertices` setter as shipped / as repaired. -/
def PolyObj.setVertices (q : PolyObj) (vs : List CR.Geom.Pt) : PolyObj := { q with vs := vs }
def PolyObj.setVerticesR (_q : PolyObj) (vs : List CR.Geom.Pt) : PolyObj := ⟨vs, vs⟩

/-- `PlanningProblem.goal_reached`: scan the per-state answers from the last to the first. -/
def goalReachedRev : List (Nat × Res Bool) → Res (Bool × Int)
  | [] => .ok (false, -1)
  | (i, r) :: rest =>
    match r with
    | .error e => .error e
    | .ok true => .ok (true, i)
    | .ok false => goalReachedRev rest

def enumFrom {α : Type} : Nat → List α → List (Nat × α)
  | _, [] => []
  | n, a :: as => (n, a) :: enumFrom (n + 1) as

def goalReached (answers : List (Res Bool)) : Res (Bool × Int) :=
  goalReachedRev (enumFrom 0 answers).reverse

end CR.Goal
