/-
  CRModel.Goal — model of `GoalRegion.is_reached` / `_harmonize_state_types`
  (commonroad/planning/goal.py:88-121, 196-226) and `PlanningProblem.goal_reached`
  (commonroad/planning/planning_problem.py:83-94).

  The position test is `CR.Geom.Shape.contains` (the model of `Shape.contains_point`, CRModel/Geom.lean; C06 proves it
  denotes the closed shape). `hypot` and `atan2` are FUNCTION parameters `F.hyp`, `F.at2` (transcendental; any functions):
  what the model fixes is WHICH arguments they are applied to — speed is `hyp vx vy`, heading is `at2 vy vx`.
-/
import CRModel.Interval
import CRModel.Geom
namespace CR.Goal
open CR.Iv

/-- The two transcendental functions the check uses, as parameters. -/
structure Fns where
  hyp : Rat → Rat → Rat        -- np.linalg.norm([vx, vy])
  at2 : Rat → Rat → Rat        -- math.atan2(y, x)

/-- A goal state: mandatory time interval, optional position / orientation / velocity constraints. -/
structure GState where
  time : I
  pos : Option CR.Geom.Shape
  ori : Option I
  vel : Option I
  deriving Repr

/-- The state under test (exact values). -/
structure St where
  t : Rat
  pos : Option CR.Geom.Pt
  ori : Option Rat      -- stored `orientation` attribute, if the state class has one and it is set
  vel : Option Rat      -- `velocity`
  velY : Option Rat     -- `velocity_y`
  deriving Repr

def GState.hasPos (g : GState) : Bool := g.pos.isSome
def St.hasPos (s : St) : Bool := s.pos.isSome

/-- `_harmonize_state_types` fires: the state has `velocity` and `velocity_y`, the goal constrains
    orientation or velocity (a goal state can never carry `velocity_y`). -/
def harmonized (g : GState) (s : St) : Bool :=
  s.vel.isSome && s.velY.isSome && (g.ori.isSome || g.vel.isSome)

/-- `goal_state_fields.issubset(state_fields)` after harmonisation (time_step is mandatory on both). -/
def fieldsOk (g : GState) (s : St) : Bool :=
  (!g.hasPos || s.hasPos) &&
  (!g.ori.isSome || (s.ori.isSome || harmonized g s)) &&
  (!g.vel.isSome || s.vel.isSome)

/-- `state_new.velocity` after harmonisation: `np.linalg.norm([velocity, velocity_y])`. -/
def velOf (F : Fns) (g : GState) (s : St) : Option Rat :=
  if harmonized g s then some (F.hyp (s.vel.getD 0) (s.velY.getD 0)) else s.vel

/-- `state_new.orientation` after harmonisation: the stored attribute, else the heading of (vx, vy). -/
def oriOf (F : Fns) (g : GState) (s : St) : Option Rat :=
  match s.ori with
  | some θ => some θ
  | none => if harmonized g s then some (F.at2 (s.velY.getD 0) (s.vel.getD 0)) else none

/-- One iteration of the loop in `is_reached`. -/
def reachedOne (F : Fns) (τ ε : Rat) (g : GState) (s : St) : Res Bool :=
  if ¬ fieldsOk g s then .error .value else
  let r1 := contains g.time s.t
  let r2 := match g.pos, s.pos with
    | some sh, some p => sh.contains p
    | _, _ => true
  let r3 := match g.ori, oriOf F g s with
    | some iv, some θ => containsAngle τ ε iv θ
    | _, _ => true
  let r4 := match g.vel, velOf F g s with
    | some iv, some v => contains iv v
    | _, _ => true
  .ok (r1 && r2 && r3 && r4)

/-- The loop over goal states (`np.any` of the per-goal results; a `ValueError` aborts the loop). -/
def isReached (F : Fns) (τ ε : Rat) : List GState → St → Res Bool
  | [], _ => .ok false
  | g :: rest, s =>
    match reachedOne F τ ε g s with
    | .error e => .error e
    | .ok b =>
      match isReached F τ ε rest s with
      | .error e => .error e
      | .ok b' => .ok (b || b')

/-- `PlanningProblem.goal_reached`: scan the per-state answers from the last to the first. -/
def goalReachedRev : List (Nat × Res Bool) → Res (Bool × Int)
  | [] => .ok (false, -1)
  | (i, r) :: rest =>
    match r with
    | .error e => .error e
    | .ok true => .ok (true, i)
    | .ok false => goalReachedRev rest

def enumFrom {α : Type} : Nat → List α → List (Nat × α)
  | _, [] => []
  | n, a :: as => (n, a) :: enumFrom (n + 1) as

def goalReached (answers : List (Res Bool)) : Res (Bool × Int) :=
  goalReachedRev (enumFrom 0 answers).reverse

end CR.Goal
