/-
  CRModel.Goal — model of `GoalRegion.is_reached` / `_harmonize_state_types`
  (commonroad/planning/goal.py:88-121, 196-226) and `PlanningProblem.goal_reached`
  (commonroad/planning/planning_problem.py:83-94).

  The position test is `CR.Geom.Shape.contains` (the model of `Shape.contains_point`, CRModel/Geom.lean; C06 proves it
  denotes the closed shape). `hypot` and `atan2` are FUNCTION parameters `F.hyp`, `F.at2` (transcendental; any functions):
  what the model fixes is WHICH arguments they are applied to — speed is `hyp vx vy`, heading is `at2 vy vx`.
-/
import CRModel.Interval
import CRModel.Geom
namespace CR.Goal
open CR.Iv

/-- The two transcendental functions the check uses, as parameters. -/
structure Fns where
  hyp : Rat → Rat → Rat        -- np.linalg.norm([vx, vy])
  at2 : Rat → Rat → Rat        -- math.atan2(y, x)

/-- A goal state: mandatory time interval, optional position / orientation / velocity constraints. -/
structure GState where
  time : I
  pos : Option CR.Geom.Shape
  ori : Option I
  vel : Option I
  deriving Repr

/-- The state under test (exact values). -/
structure St where
  t : Rat
  pos : Option CR.Geom.Pt
  ori : Option Rat      -- stored `orientation` attribute, if the state class has one and it is set
  vel : Option Rat      -- `velocity`
  velY : Option Rat     -- `velocity_y`
  deriving Repr, DecidableEq

def GState.hasPos (g : GState) : Bool := g.pos.isSome
def St.hasPos (s : St) : Bool := s.pos.isSome

/-- `_harmonize_state_types` fires: the state has `velocity` and `velocity_y`, the goal constrains
    orientation or velocity (a goal state can never carry `velocity_y`). -/
def harmonized (g : GState) (s : St) : Bool :=
  s.vel.isSome && s.velY.isSome && (g.ori.isSome || g.vel.isSome)

/-- `goal_state_fields.issubset(state_fields)` after harmonisation (time_step is mandatory on both). -/
def fieldsOk (g : GState) (s : St) : Bool :=
  (!g.hasPos || s.hasPos) &&
  (!g.ori.isSome || (s.ori.isSome || harmonized g s)) &&
  (!g.vel.isSome || s.vel.isSome)

/-- `state_new.velocity` after harmonisation: `np.linalg.norm([velocity, velocity_y])`. -/
def velOf (F : Fns) (g : GState) (s : St) : Option Rat :=
  if harmonized g s then some (F.hyp (s.vel.getD 0) (s.velY.getD 0)) else s.vel

/-- `state_new.orientation` after harmonisation: the stored attribute, else the heading of (vx, vy). -/
def oriOf (F : Fns) (g : GState) (s : St) : Option Rat :=
  match s.ori with
  | some θ => some θ
  | none => if harmonized g s then some (F.at2 (s.velY.getD 0) (s.vel.getD 0)) else none

/-- One iteration of the loop in `is_reached`. -/
def reachedOne (F : Fns) (τ ε : Rat) (g : GState) (s : St) : Res Bool :=
  if ¬ fieldsOk g s then .error .value else
  let r1 := contains g.time s.t
  let r2 := match g.pos, s.pos with
    | some sh, some p => sh.contains p
    | _, _ => true
  let r3 := match g.ori, oriOf F g s with
    | some iv, some θ => containsAngle τ ε iv θ
    | _, _ => true
  let r4 := match g.vel, velOf F g s with
    | some iv, some v => contains iv v
    | _, _ => true
  .ok (r1 && r2 && r3 && r4)

/-- The loop over goal states (`np.any` of the per-goal results; a `ValueError` aborts the loop). -/
def isReached (F : Fns) (τ ε : Rat) : List GState → St → Res Bool
  | [], _ => .ok false
  | g :: rest, s =>
    match reachedOne F τ ε g s with
    | .error e => .error e
    | .ok b =>
      match isReached F τ ε rest s with
      | .error e => .error e
      | .ok b' => .ok (b || b')

/-! ### the code path of `is_reached` step by step (goal.py:99-124, 136-155, 199-227) — tied to the source by translation (CRProps/T08)

  `is_reached` does not compute `fieldsOk` / `oriOf` / `velOf` outright: it builds the two SETS of attribute names
  (`used_attributes`), lets `_harmonize_state_types` rewrite the state and its set, tests `issubset`, and then reads the
  rewritten state. The definitions below follow that path; `C08_harmonize_spec` / `C08_isReachedSteps_eq` (CRProps/C08.lean)
  prove it is `reachedOne` / `isReached`. -/

/-- Attribute names the check looks at (all other state attributes are `other`: they pass through untouched). -/
inductive Fld where
  | time_step | position | orientation | velocity | velocity_y | other (name : String)
  deriving DecidableEq, Repr

/-- `set(goal_state.used_attributes)`: `time_step` is mandatory, the others as far as they are set. -/
def GState.usedAttrs (g : GState) : List Fld :=
  [Fld.time_step] ++ (if g.pos.isSome then [Fld.position] else []) ++ (if g.ori.isSome then [Fld.orientation] else []) ++
    (if g.vel.isSome then [Fld.velocity] else [])

/-- `set(state.used_attributes)` restricted to the five attributes the check can look at. -/
def St.usedAttrs (s : St) : List Fld :=
  [Fld.time_step] ++ (if s.pos.isSome then [Fld.position] else []) ++ (if s.ori.isSome then [Fld.orientation] else []) ++
    (if s.vel.isSome then [Fld.velocity] else []) ++ (if s.velY.isSome then [Fld.velocity_y] else [])

/-- `a.issubset(b)` on attribute-name sets. -/
def subsetF (a b : List Fld) : Bool := a.all (fun f => b.contains f)

/-- The guard of `_harmonize_state_types` (goal.py:210-214) on the two name sets. -/
def harmCond (sf gf : List Fld) : Bool :=
  (sf.contains Fld.velocity && sf.contains Fld.velocity_y) &&
  (gf.contains Fld.orientation || gf.contains Fld.velocity) &&
  !(gf.contains Fld.velocity && gf.contains Fld.velocity_y)

/-- `_harmonize_state_types(state, goal_state, state_fields, goal_state_fields)`: the rewritten state and its name set
    (goal state and goal name set are returned unchanged). For name sets that do not describe the state (never passed by
    `is_reached`) `np.array([None, …])` / `atan2(None, …)` raise `TypeError`. -/
def harmonize (F : Fns) (s : St) (sf gf : List Fld) : Res (St × List Fld) :=
  if harmCond sf gf then
    match s.vel, s.velY with
    | some vx, some vy =>
      if sf.contains Fld.orientation then
        -- `state_new.velocity = velocity`; the stored orientation and `velocity_y` stay
        .ok ({ s with vel := some (F.hyp vx vy) }, sf.filter (· != Fld.velocity_y))
      else
        -- point-mass state: a new CustomState without `velocity_y`, heading `atan2(vy, vx)`, speed `hypot(vx, vy)`
        .ok ({ s with ori := some (F.at2 vy vx), vel := some (F.hyp vx vy), velY := none },
             (sf ++ [Fld.orientation]).filter (· != Fld.velocity_y))
    | _, _ => .error .type
  else .ok (s, sf)

/-- What `_check_value_in_interval` is given as `desired_interval`. -/
inductive Desired where
  | interval (i : I)       -- an `Interval`
  | angle (i : I)          -- an `AngleInterval`
  | other                  -- anything else (an exact value, `None`, …)
  deriving Repr

/-- `_check_value_in_interval(value, desired_interval)` (goal.py:136-155): membership by the interval's own `contains`;
    `ValueError` for anything that is not an interval. -/
def checkValue (τ ε : Rat) (x : Rat) : Desired → Res Bool
  | .interval i => .ok (contains i x)
  | .angle i => .ok (containsAngle τ ε i x)
  | .other => .error .value

/-- One iteration of the loop in `is_reached`, along the code path: name sets, harmonisation, subset test, four guarded checks. -/
def reachedOneSteps (F : Fns) (τ ε : Rat) (g : GState) (s : St) : Res Bool :=
  match harmonize F s s.usedAttrs g.usedAttrs with
  | .error e => .error e
  | .ok (s', sf') =>
    if ¬ subsetF g.usedAttrs sf' then .error .value else
    let r1 := contains g.time s'.t
    let r2 := match g.pos, s'.pos with
      | some sh, some p => sh.contains p
      | _, _ => true
    let r3 := match g.ori, s'.ori with
      | some iv, some θ => containsAngle τ ε iv θ
      | _, _ => true
    let r4 := match g.vel, s'.vel with
      | some iv, some v => contains iv v
      | _, _ => true
    .ok (r1 && r2 && r3 && r4)

/-! ### what `GoalRegion(state_list)` accepts as a goal state (`_validate_goal_state`, goal.py:157-197; `state_list` setter, 67-71) -/

/-- The class of an attribute value, as far as `_validate_goal_state` distinguishes (`AngleInterval` is a subclass of `Interval`). -/
inductive Cls where
  | interval | angleInterval | shape | other
  deriving DecidableEq, Repr

/-- A state as handed to `GoalRegion`: attribute name ↦ `None` or the class of the value (absent names: `AttributeError`). -/
abbrev RawG := List (Fld × Option Cls)

/-- `isinstance(v, C)` for a value of class `c` (`None` is an instance of none of them). -/
def isInst : Option Cls → Cls → Bool
  | some .angleInterval, .interval => true
  | some c, d => c == d
  | none, _ => false

/-- `state.used_attributes`: the names whose value is not `None`, in attribute order. -/
def RawG.used (st : RawG) : List Fld := st.filterMap (fun x => if x.2.isSome then some x.1 else none)

/-- `valid_fields` (goal.py:171). -/
def validFields : List Fld := [Fld.time_step, Fld.position, Fld.velocity, Fld.orientation]

/-- the class `_validate_goal_state` requires of attribute `f`. -/
def requiredCls : Fld → Cls
  | .position => .shape
  | .orientation => .angleInterval
  | _ => .interval

/-- the loop over `used_attributes` (first offending attribute raises `ValueError`). -/
def validateLoop (st : RawG) : List Fld → Res Unit
  | [] => .ok ()
  | f :: rest =>
    if !validFields.contains f then .error .value else
    match st.lookup f with
    | none => .error .attr
    | some c => if isInst c (requiredCls f) then validateLoop st rest else .error .value

/-- `_validate_goal_state(state)`. -/
def validateGoalState (st : RawG) : Res Unit :=
  match st.lookup Fld.time_step with
  | none => .error .attr
  | some none => .error .value
  | some (some _) => validateLoop st st.used

/-- the loop of the `state_list` setter: every state is validated in order (the first failure is raised). -/
def validateAll : List RawG → Res Unit
  | [] => .ok ()
  | st :: rest =>
    match validateGoalState st with
    | .error e => .error e
    | .ok () => validateAll rest

/-- `GoalRegion.state_list = l`: validate all, then store the list. -/
def setStateList (l : List RawG) : Res (List RawG) := (validateAll l).map (fun _ => l)

/-! ### `GoalRegion.translate_rotate(t, 0)` (goal.py:123-131 → `State.translate_rotate`, state.py:259-301)

  A pure translation (angle 0: `cos = 1.0`, `sin = 0.0`, exact) moves every goal position by `t` and leaves the time,
  orientation (`AngleInterval + 0`) and velocity intervals as they are; a state is carried along by moving its position.
  The rotation part belongs to C05 (CRModel/Rigid.lean). -/

/-- A goal state after `translate_rotate(t, 0)`. -/
def GState.translate (t : CR.Geom.Pt) (g : GState) : GState := { g with pos := g.pos.map (·.translate t) }

/-- The checked state carried along by the same translation. -/
def St.translate (t : CR.Geom.Pt) (s : St) : St := { s with pos := s.pos.map (·.add t) }

/-- `is_reached` on the goal region after `translate_rotate(t, 0)`. -/
def isReachedMoved (F : Fns) (τ ε : Rat) (t : CR.Geom.Pt) (goals : List GState) (s : St) : Res Bool :=
  isReached F τ ε (goals.map (GState.translate t)) s

/-! ### goal shapes edited through their own setters (known finding C08/GoalRegion.is_reached/stale-after/…)

  `Rectangle` computes its vertices and its polygon on first use and keeps them (shape.py:146-160, 45-49 `_shapely_polygon`);
  the setters `length`, `width`, `center`, `orientation` (shape.py:102-145) store the new parameter and leave both in place.
  `Polygon.vertices = …` (shape.py:375-379) replaces the vertices and the bounding box, not the polygon built by `__init__`.
  `contains_point` reads the kept data, so a goal position edited after a first `is_reached` is answered for the OLD shape. -/

/-- A `Rectangle` object: parameters plus the lazily computed vertex ring (`None` until first use). -/
structure RectObj where
  l : Rat
  w : Rat
  ctr : CR.Geom.Pt
  c : Rat
  s : Rat
  cache : Option (List CR.Geom.Pt)
  deriving Repr

def RectObj.new (l w : Rat) (ctr : CR.Geom.Pt) (c s : Rat) : RectObj := ⟨l, w, ctr, c, s, none⟩

/-- `Rectangle.contains_point`: the polygon of the (cached) vertices intersects the point; fills the cache. -/
def RectObj.containsPoint (r : RectObj) (p : CR.Geom.Pt) : Bool × RectObj :=
  let vs := r.cache.getD (CR.Geom.rectVerts r.l r.w r.ctr r.c r.s)
  (CR.Geom.inRing vs p, { r with cache := some vs })

/-- the setters as shipped: the cache is kept. -/
def RectObj.setLength (r : RectObj) (l : Rat) : RectObj := { r with l := l }
def RectObj.setWidth (r : RectObj) (w : Rat) : RectObj := { r with w := w }
def RectObj.setCenter (r : RectObj) (ctr : CR.Geom.Pt) : RectObj := { r with ctr := ctr }
def RectObj.setOrientation (r : RectObj) (c s : Rat) : RectObj := { r with c := c, s := s }

/-- the setters as repaired (proposed_fixes/C08_shape_setters_refresh_cache.patch): the cache is dropped. -/
def RectObj.setLengthR (r : RectObj) (l : Rat) : RectObj := { r with l := l, cache := none }
def RectObj.setWidthR (r : RectObj) (w : Rat) : RectObj := { r with w := w, cache := none }
def RectObj.setCenterR (r : RectObj) (ctr : CR.Geom.Pt) : RectObj := { r with ctr := ctr, cache := none }
def RectObj.setOrientationR (r : RectObj) (c s : Rat) : RectObj := { r with c := c, s := s, cache := none }

/-! In-place edits.  `Rectangle.center` (getter) hands out the stored array itself (shape.py `return self._center`), so
  `c = rect.center; c[0] = x` - and the first half of `rect.center += d` - change the parameter the object shows WITHOUT any
  setter running: the vertex cache is kept (`writeCenter`).  The caller then tells the object by assigning that same array object
  back (`rect.center = c`, the second half of `+=`): the setter receives a value equal to the one already stored
  (`reassignCenterR`), and must still drop the cache. -/
def RectObj.writeCenter (r : RectObj) (ctr : CR.Geom.Pt) : RectObj := { r with ctr := ctr }
def RectObj.reassignCenterR (r : RectObj) : RectObj := r.setCenterR r.ctr
/-- A centre setter that returns early when the assigned value equals the stored one (seeded change C08_13): after an in-place
    write the comparison is between the array and itself, so the cache survives. -/
def RectObj.setCenterSkipEqual (r : RectObj) (ctr : CR.Geom.Pt) : RectObj := if ctr = r.ctr then r else r.setCenterR ctr

/-- A `Polygon` object: the vertices shown (they also give the bounding box) and the ring of the shapely polygon. -/
structure PolyObj where
  vs : List CR.Geom.Pt
  ring : List CR.Geom.Pt
  deriving Repr

def PolyObj.new (vs : List CR.Geom.Pt) : PolyObj := ⟨vs, vs⟩
/-- `Polygon.contains_point`: bounding box of the vertices, then the polygon. -/
def PolyObj.containsPoint (q : PolyObj) (p : CR.Geom.Pt) : Bool := CR.Geom.inBBox q.vs p && CR.Geom.inRing q.ring p
/-- `vertices` setter as shipped / as repaired. -/
def PolyObj.setVertices (q : PolyObj) (vs : List CR.Geom.Pt) : PolyObj := { q with vs := vs }
def PolyObj.setVerticesR (_q : PolyObj) (vs : List CR.Geom.Pt) : PolyObj := ⟨vs, vs⟩

/-! ### which parts the `translate_rotate` methods move (goal.py:126-134, planning_problem.py:96-105, 187-195)

  Read off the source as a table (moved part, arguments, enclosing loop, where the result is stored; loop variables named v0, v1, …
  in order of appearance) and compared with these tables on every run (CRProps/T08, `decide`: a finite table checked completely).
  `GState.translate` / `isReachedMoved` above are what the first table denotes for angle 0: EVERY goal state `i` of the list is
  replaced by its own moved copy, with the caller's translation and angle. -/
abbrev MoveRow := String × String × String × String
def goalRegionMoves : List MoveRow := [("v1", "translation, angle", "enumerate(self.state_list)", "self.state_list[v0]")]
def goalRegionMoveStmts : String := "For Assign"
/-- the planning problem moves its initial state (stored back) and its goal region (in place), nothing else. -/
def planningProblemMoves : List MoveRow :=
  [("self.initial_state", "translation, angle", "", "self.initial_state"), ("self.goal", "translation, angle", "", "")]
def planningProblemMoveStmts : String := "Assign Expr"
/-- the set moves every planning problem of its dictionary; a problem whose goal-region OBJECT was already moved with an
    earlier problem of the set (fix b7334b4: a shared goal region is moved once) has only its initial state moved. -/
def planningProblemSetMoves : List MoveRow :=
  [("v0.initial_state", "translation, angle",
    "self._planning_problem_dict.values() | any((v0.goal is goal_region for goal_region in moved_goal_regions))", "v0.initial_state"),
   ("v0", "translation, angle",
    "self._planning_problem_dict.values() | any((v0.goal is goal_region for goal_region in moved_goal_regions))", "")]
def planningProblemSetMoveStmts : String := "Assign For If Assign Expr Expr"

/-- `PlanningProblem.goal_reached`: scan the per-state answers from the last to the first. -/
def goalReachedRev : List (Nat × Res Bool) → Res (Bool × Int)
  | [] => .ok (false, -1)
  | (i, r) :: rest =>
    match r with
    | .error e => .error e
    | .ok true => .ok (true, i)
    | .ok false => goalReachedRev rest

def enumFrom {α : Type} : Nat → List α → List (Nat × α)
  | _, [] => []
  | n, a :: as => (n, a) :: enumFrom (n + 1) as

def goalReached (answers : List (Res Bool)) : Res (Bool × Int) :=
  goalReachedRev (enumFrom 0 answers).reverse

end CR.Goal
