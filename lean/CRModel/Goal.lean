/-
  CRModel.Goal — model of `GoalRegion.is_reached` / `_harmonize_state_types`
  (commonroad/planning/goal.py:88-121, 196-226) and `PlanningProblem.goal_reached`
  (commonroad/planning/planning_problem.py:83-94).

  Parameters supplied per (goal state, state) pair, not computed here:
    * `inPos`   – the answer of `goal_state.position.contains_point(state.position)` (shapes: C06),
    * `speed`   – `hypot(vx, vy)`, `heading` – `atan2(vy, vx)` of the state (transcendental).
-/
import CRModel.Interval
namespace CR.Goal
open CR.Iv

/-- A goal state: mandatory time interval, optional position / orientation / velocity constraints. -/
structure GState where
  time : I
  hasPos : Bool
  ori : Option I
  vel : Option I
  deriving Repr

/-- The state under test (exact values). -/
structure St where
  t : Rat
  hasPos : Bool
  ori : Option Rat      -- stored `orientation` attribute, if the state class has one and it is set
  vel : Option Rat      -- `velocity`
  velY : Option Rat     -- `velocity_y`
  speed : Rat           -- parameter: hypot(velocity, velocity_y)
  heading : Rat         -- parameter: atan2(velocity_y, velocity)
  deriving Repr

/-- `_harmonize_state_types` fires: the state has `velocity` and `velocity_y`, the goal constrains
    orientation or velocity (a goal state can never carry `velocity_y`). -/
def harmonized (g : GState) (s : St) : Bool :=
  s.vel.isSome && s.velY.isSome && (g.ori.isSome || g.vel.isSome)

/-- `goal_state_fields.issubset(state_fields)` after harmonisation (time_step is mandatory on both). -/
def fieldsOk (g : GState) (s : St) : Bool :=
  (!g.hasPos || s.hasPos) &&
  (!g.ori.isSome || (s.ori.isSome || harmonized g s)) &&
  (!g.vel.isSome || s.vel.isSome)

/-- `state_new.velocity` after harmonisation. -/
def velOf (g : GState) (s : St) : Option Rat := if harmonized g s then some s.speed else s.vel

/-- `state_new.orientation` after harmonisation: the stored attribute, else the heading of (vx, vy). -/
def oriOf (g : GState) (s : St) : Option Rat :=
  match s.ori with
  | some θ => some θ
  | none => if harmonized g s then some s.heading else none

/-- One iteration of the loop in `is_reached`. -/
def reachedOne (τ ε : Rat) (g : GState) (s : St) (inPos : Bool) : Res Bool :=
  if ¬ fieldsOk g s then .error .value else
  let r1 := contains g.time s.t
  let r2 := if g.hasPos && s.hasPos then inPos else true
  let r3 := match g.ori, oriOf g s with
    | some iv, some θ => containsAngle τ ε iv θ
    | _, _ => true
  let r4 := match g.vel, velOf g s with
    | some iv, some v => contains iv v
    | _, _ => true
  .ok (r1 && r2 && r3 && r4)

/-- The loop over goal states (`np.any` of the per-goal results; a `ValueError` aborts the loop). -/
def isReached (τ ε : Rat) : List (GState × Bool) → St → Res Bool
  | [], _ => .ok false
  | (g, inPos) :: rest, s =>
    match reachedOne τ ε g s inPos with
    | .error e => .error e
    | .ok b =>
      match isReached τ ε rest s with
      | .error e => .error e
      | .ok b' => .ok (b || b')

/-- `PlanningProblem.goal_reached`: scan the per-state answers from the last to the first. -/
def goalReachedRev : List (Nat × Res Bool) → Res (Bool × Int)
  | [] => .ok (false, -1)
  | (i, r) :: rest =>
    match r with
    | .error e => .error e
    | .ok true => .ok (true, i)
    | .ok false => goalReachedRev rest

def enumFrom {α : Type} : Nat → List α → List (Nat × α)
  | _, [] => []
  | n, a :: as => (n, a) :: enumFrom (n + 1) as

def goalReached (answers : List (Res Bool)) : Res (Bool × Int) :=
  goalReachedRev (enumFrom 0 answers).reverse

end CR.Goal
