/-
  CRModel.DecVal — the number a decimal text denotes (what `float(text)` rounds to a double; the exact value before that
  rounding).  Plain decimals `[-]digits[.digits]` and exponent notation `mantissa e [+-]digits` (the two shapes `str(float)`
  produces).  Core Lean only (the driver evaluates `realVal` so that the harness can compare it with Python's exact value).
-/
import CRModel.Codec

namespace CR.X

/-- value of a digit string (most significant first) -/
def natOf : List Char → Nat → Nat
  | [], acc => acc
  | c :: cs, acc => natOf cs (10 * acc + (c.toNat - 48))

/-- value of `0.fp` -/
def fracValR (fp : List Char) : Rat := (natOf fp 0 : Rat) / ((10 ^ fp.length : Nat) : Rat)

/-- `ip` or `ip.fp` -/
def unsignedVal (s : List Char) : Rat :=
  match splitDot s with
  | ip :: fp :: _ => (natOf ip 0 : Rat) + fracValR fp
  | [ip] => (natOf ip 0 : Rat)
  | [] => 0

/-- a plain decimal with optional sign -/
def decValChars : List Char → Rat
  | '-' :: r => - unsignedVal r
  | r => unsignedVal r

/-- split at the first `e` / `E` -/
def splitE : List Char → List Char × Option (List Char)
  | [] => ([], none)
  | c :: cs =>
    if c = 'e' ∨ c = 'E' then ([], some cs)
    else
      match splitE cs with
      | (m, e) => (c :: m, e)

def intOfChars : List Char → Int
  | '-' :: r => - (natOf r 0 : Int)
  | '+' :: r => (natOf r 0 : Int)
  | r => (natOf r 0 : Int)

/-- `v · 10^e` -/
def scale10 (v : Rat) (e : Int) : Rat :=
  if 0 ≤ e then v * ((10 ^ e.toNat : Nat) : Rat) else v / ((10 ^ (-e).toNat : Nat) : Rat)

def realValChars (s : List Char) : Rat :=
  match splitE s with
  | (m, none) => decValChars m
  | (m, some e) => scale10 (decValChars m) (intOfChars e)

/-- the exact value of a float repr / of a written decimal -/
def realVal (s : String) : Rat := realValChars s.toList

end CR.X
