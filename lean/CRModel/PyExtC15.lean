/-
  CRModel.PyExtC15 — the fixed vocabulary the C15 translator (harness/translate/src_c15.py) maps the Python of the
  file writers to.  Hand-written, core Lean only.  Everything here is *trusted to denote* the Python operation named
  in its comment, on the state of CRModel.WriterSM (`St`: global precision, files, writer objects).

  A method body becomes a program in `M σ`: it may change the state and then raise — the changes made before the
  exception stay (that is what makes an XML tree that keeps growing, or a global that is not restored, visible).
-/
import CRModel.WriterSM
namespace CR.PyW
open CR.Writer

/-- A Python method body on the process state `σ`: new state, and a value or the exception raised. -/
def M (σ α : Type) : Type := σ → σ × Except Err α

namespace M
variable {σ α β : Type}
/-- `return a` / an expression without effect -/
def pure (a : α) : M σ α := fun s => (s, .ok a)
/-- `x = m; …` — an exception of `m` ends the body, the state `m` left stays -/
def bind (m : M σ α) (f : α → M σ β) : M σ β := fun s =>
  match m s with
  | (s', .ok a) => f a s'
  | (s', .error e) => (s', .error e)
/-- `raise …` -/
def raise (e : Err) : M σ α := fun s => (s, .error e)
/-- `try: body finally: fin` — `fin` runs on the state `body` left, whether or not it raised -/
def tryFinally (body : M σ α) (fin : M σ Unit) : M σ α := fun s =>
  match body s with
  | (s1, r) =>
    match fin s1 with
    | (s2, .ok _) => (s2, r)
    | (s2, .error e) => (s2, .error e)
end M

instance {σ : Type} : Monad (M σ) where
  pure := M.pure
  bind := M.bind

section
variable {Input Item Node Bytes Date Content : Type}

/-- `self`: the writer object number `i` of the process. -/
def self_ (i : Nat) : M (St Input Node Bytes Date) (Writer Input Node Date) := fun st =>
  match st.ws[i]? with
  | some w => (st, .ok w)
  | none => (st, .error .index)

/-- `str(self.scenario.scenario_id)` -/
def scenarioIdStr (c : Codec Input Item Node Bytes Date Content) (i : Nat) : M (St Input Node Bytes Date) String :=
  fun st => match st.ws[i]? with
  | some w => (st, .ok (c.benchId w.inp))
  | none => (st, .error .index)

/-- `self.m()` for a method `m` without effect that the two subclasses define: the class of `self` decides. -/
def virtual {α : Type} (i : Nat) (xml pb : α) : M (St Input Node Bytes Date) α :=
  fun st => match st.ws[i]? with
  | some w => (st, .ok (match w.fmt with | .xml => xml | .pb => pb))
  | none => (st, .error .index)

/-- `self._file_writer.m(…)` of the facade: the format writer it holds runs its own `m`. -/
def dispatch {α : Type} (i : Nat) (xml pb : M (St Input Node Bytes Date) α) : M (St Input Node Bytes Date) α :=
  fun st => match st.ws[i]? with
  | some w => (match w.fmt with | .xml => xml st | .pb => pb st)
  | none => (st, .error .index)

/-- `x if x is not None else d` / `if x is None: x = d` (the default is only evaluated when needed) -/
def orElse {σ α : Type} (x : Option α) (d : M σ α) : M σ α :=
  match x with
  | some v => M.pure v
  | none => d

/-- `pathlib.Path(name).is_file()` — `Path("")` is the directory ".": not a file -/
def isFile (name : String) : M (St Input Node Bytes Date) Bool :=
  fun st => (st, .ok (name ≠ "" && (st.fs name).isSome))

/-- `input(prompt)`: the user types "n", types `other` (anything else), or there is no terminal (EOFError) -/
def input {σ : Type} (a : Answer) (other : String) : M σ String :=
  match a with
  | .n => M.pure "n"
  | .other => M.pure other
  | .eof => M.raise .other

/-- `print(…)`, `logger.warning(…)`, `pass`, `self.check_validity_of_commonroad_file(self._dump())` (a pure function of
    the document, result discarded): nothing of the modelled state changes -/
def noop {σ : Type} : M σ Unit := M.pure ()

/-- `self._root_node = etree.Element("commonRoad")` / `self._commonroad_msg = commonroad_pb2.CommonRoad()` -/
def newDocument (i : Nat) : M (St Input Node Bytes Date) Unit := fun st => (freshDocument st i, .ok ())

/-- reading `precision.decimals` -/
def getDecimals : M (St Input Node Bytes Date) Nat := fun st => (st, .ok st.gprec)

/-- `precision.decimals = n` -/
def setDecimals (n : Nat) : M (St Input Node Bytes Date) Unit := fun st => ({ st with gprec := n }, .ok ())

/-- reading `self._decimal_precision` -/
def ownDecimalPrecision (i : Nat) : M (St Input Node Bytes Date) Nat :=
  fun st => match st.ws[i]? with
  | some w => (st, .ok w.prec)
  | none => (st, .error .index)

/-- a model step that reports an exception as `some e` -/
def ofStep {σ : Type} (f : σ → σ × Option Err) : M σ Unit := fun st =>
  match f st with
  | (s, none) => (s, .ok ())
  | (s, some e) => (s, .error e)

/-- … and back -/
def toStep {σ : Type} (m : M σ Unit) : σ → σ × Option Err := fun st =>
  match m st with
  | (s, .ok _) => (s, none)
  | (s, .error e) => (s, some e)

/-- `self._write_header()`: the attributes / the information message are set (overwritten) from the writer's own
    inputs — and the date from the clock (`date`: what `datetime.datetime.today()` shows during this call) -/
def writeHeader (i : Nat) (date : Date) : M (St Input Node Bytes Date) Unit :=
  fun st => (Writer.writeHeader st i date, .ok ())

/-- `self._add_all_objects_from_scenario()`: one node / message per object of the writer's own scenario, appended to
    the writer's own document, each creator running in the state its predecessor left -/
def addScenarioObjects (c : Codec Input Item Node Bytes Date Content) (i : Nat) : M (St Input Node Bytes Date) Unit :=
  fun st => match st.ws[i]? with
  | some w => ofStep (fun s => appendItems c s i (c.scItems w.inp)) st
  | none => (st, .error .index)

/-- `self._add_all_planning_problems_from_planning_problem_set()` -/
def addPlanningProblems (c : Codec Input Item Node Bytes Date Content) (i : Nat) : M (St Input Node Bytes Date) Unit :=
  fun st => match st.ws[i]? with
  | some w => ofStep (fun s => appendItems c s i (c.ppItems w.inp)) st
  | none => (st, .error .index)

/-- `etree.ElementTree(self._root_node)`: a handle on the document of writer `i` (no copy) -/
def elementTree {σ : Type} (i : Nat) : M σ Nat := M.pure i

/-- `tree.write(name, …)` / `with open(name, "wb") as f: f.write(self._commonroad_msg.SerializeToString())`:
    the document of writer `i` AS IT IS NOW is serialised into the file; `""` and a name in a directory that does
    not exist raise.  The value is the (name, content) written. -/
def treeWrite (c : Codec Input Item Node Bytes Date Content) (i : Nat) (name : String) :
    M (St Input Node Bytes Date) (String × Bytes) := fun st =>
  if name = "" || st.unwritable name then (st, .error .other) else
  match st.ws[i]? with
  | none => (st, .error .index)
  | some w =>
    let b := dump c w.fmt w.inp w.date w.root
    ({ st with fs := setFile st.fs name b }, .ok (name, b))

/-- What a write method did, as the harness sees it: raised / returned without writing a file / wrote `p` with `b`
    (the value of a translated write method is the last file write it performed, if any). -/
def toOutcome : St Input Node Bytes Date × Except Err (Option (String × Bytes)) →
    St Input Node Bytes Date × Outcome Bytes
  | (s, .error e) => (s, .failed e)
  | (s, .ok none) => (s, .skipped)
  | (s, .ok (some (p, b))) => (s, .wrote p b)

end

/-! ### Tables the structural extraction is compared with -/

/-- One state access of a method, in source order: `(kind, target, what)`. -/
abbrev Access := String × String × String

end CR.PyW
