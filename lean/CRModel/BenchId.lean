/-
  CRModel.BenchId — character-level model of

    * `ScenarioID.__init__`               (commonroad/scenario/scenario.py:367-425)   → `mk`
    * `ScenarioID.__str__`                (scenario.py:459-473)                        → `print`
    * `ScenarioID.benchmark_id_pattern`   (scenario.py:361-365)                        → `matchId`
    * `ScenarioID.from_benchmark_id`      (scenario.py:510-547)                        → `parse`
    * `PlanningProblemSolution.vehicle_id / cost_id`, `Solution.benchmark_id`
                                          (commonroad/common/solution.py:444-467, 506-536) → `vehicleId`, `benchmarkId`
    * `CommonRoadSolutionReader._parse_benchmark_id / _parse_vehicle_id` and the id part of
      `_parse_solution / _parse_planning_problem_solution`
                                          (solution.py:666-675, 700-709, 762-788)      → `parseBenchmarkId`, `parseVehicleId`,
                                                                                          `readSolutionIds`

    * keyword construction with defaults (`Kw.fill`), attribute histories (`Op`, `applyOp`, `runOps`; the `map_name` /
      `country_id` setters scenario.py:476-497), `PlanningProblemSolution` guards and setters (solution.py:343-435 →
      `Pps.check`, `Pps.apply`), the Solution's dict and its history (solution.py:499-505 → `solutionPps`, `SolState`, `stepSol`)

  Strings are `List Char`; numbers are printed / read digit by digit (`natToDigits`, `digitsToNat`), so the
  theorems in CRProps/C13.lean speak about the real strings, not about opaque tokens.
  The ISO-3166 alpha-3 table (`iso3166.countries_by_alpha3`) is a parameter `cs : List Str`.
  Guards and error branches of the code are mirrored (`Res` = value or exception class).
-/
import CRModel.Basic
namespace CR.BenchId

abbrev Str := List Char

/-! ## decimal digits (`str(int)`, `int(str)`) -/

def digitChar : Nat → Char
  | 0 => '0' | 1 => '1' | 2 => '2' | 3 => '3' | 4 => '4'
  | 5 => '5' | 6 => '6' | 7 => '7' | 8 => '8' | _ => '9'

def digitVal (c : Char) : Nat := c.toNat - 48

/-- `str(n)` for a natural number, with fuel (`natToDigits` supplies enough). -/
def natToDigitsF : Nat → Nat → Str
  | 0, n => [digitChar (n % 10)]
  | f + 1, n => if n < 10 then [digitChar n] else natToDigitsF f (n / 10) ++ [digitChar (n % 10)]

def natToDigits (n : Nat) : Str := natToDigitsF n n

/-- `int(s)` for a string of ASCII digits. -/
def digitsToNat (s : Str) : Nat := s.foldl (fun a c => a * 10 + digitVal c) 0

/-- `str(i)` for a Python int. -/
def intRepr (i : Int) : Str := if i < 0 then '-' :: natToDigits i.natAbs else natToDigits i.toNat

/-! ## small string functions (`str.join`, `str.split`, `re.sub`) -/

/-- `sep.join(parts)` for a one-character separator. -/
def join (sep : Char) : List Str → Str
  | [] => []
  | [a] => a
  | a :: b :: t => a ++ sep :: join sep (b :: t)

/-- first segment and remaining segments of `s.split(c)` -/
def splitOn' (c : Char) : Str → Str × List Str
  | [] => ([], [])
  | x :: xs =>
    let r := splitOn' c xs
    if x = c then ([], r.1 :: r.2) else (x :: r.1, r.2)

/-- `s.split(c)` (never empty; `"".split(c) = [""]`). -/
def splitOn (c : Char) (s : Str) : List Str := (splitOn' c s).1 :: (splitOn' c s).2

/-- longest prefix of characters satisfying `p`, and the rest -/
def span (p : Char → Bool) : Str → Str × Str
  | [] => ([], [])
  | c :: t => if p c then ((c :: (span p t).1), (span p t).2) else ([], c :: t)

def isDigit19 (c : Char) : Bool := c.isDigit && c != '0'

/-! ## ScenarioID -/

/-- `prediction_id`: `None`, an `int`, or a `list` of ints. `one 1` and `many [1]` are different Python values. -/
inductive Pred where
  | none | one (n : Int) | many (l : List Int)
  deriving DecidableEq, Repr, Inhabited

/-- constructor arguments of `ScenarioID(...)` -/
structure Raw where
  coop : Bool
  country : Option Str        -- `None` → "ZAM"
  mapName : Str
  mapId : Int
  config : Option Int
  beh : Option Str
  pred : Pred
  version : Str
  deriving DecidableEq, Repr, Inhabited

/-- the attributes of a constructed `ScenarioID`; `__eq__` compares exactly these eight (scenario.py:432-441) -/
structure Id where
  coop : Bool
  country : Str
  mapName : Str
  mapId : Int
  config : Option Int
  beh : Option Str
  pred : Pred
  version : Str
  deriving DecidableEq, Repr, Inhabited

def ZAM : Str := ['Z', 'A', 'M']
/-- `SUPPORTED_COMMONROAD_VERSIONS` (commonroad/__init__.py:4) -/
def supported : List Str := [['2', '0', '1', '8', 'b'], ['2', '0', '2', '0', 'a']]
/-- `SCENARIO_VERSION` (commonroad/__init__.py:3) -/
def defaultVersion : Str := ['2', '0', '2', '0', 'a']
def behaviours : List Str := [['S'], ['T'], ['P'], ['I']]

/-- `country_id.setter` (scenario.py:489-496) -/
def setCountry (cs : List Str) : Option Str → Res Str
  | none => .ok ZAM
  | some c => if c ∈ cs ∨ c = ZAM then .ok c else .error .value

/-- `prediction_id or 1` -/
def Pred.orOne : Pred → Pred
  | .none => .one 1
  | .one n => if n = 0 then .one 1 else .one n
  | .many l => if l = [] then .one 1 else .many l

/-- `configuration_id or 1` -/
def cfgOrOne : Option Int → Int
  | none => 1
  | some c => if c = 0 then 1 else c

/-- `all(p > 0 for p in (prediction_id if list else [prediction_id]))`; only evaluated when a prediction exists,
    where `prediction_id` is never `None` any more. -/
def Pred.allPos : Pred → Bool
  | .none => false
  | .one n => decide (0 < n)
  | .many l => l.all fun n => decide (0 < n)

/-- `obstacle_behavior in [None, "S", "T", "P", "I"]` -/
def behOk : Option Str → Bool
  | none => true
  | some b => behaviours.contains b

/-- `ScenarioID.__init__` -/
def mk (cs : List Str) (r : Raw) : Res Id :=
  if r.version ∉ supported then .error .assert else          -- :392
  match setCountry cs r.country with                          -- :399
  | .error e => .error e
  | .ok country =>
  let name := r.mapName.filter Char.isAlphanum                -- :400, 479-483
  let isMap := r.config.isNone && r.beh.isNone && (r.pred == .none)        -- :402
  let hasPred := r.beh.isSome || (r.pred != .none)                        -- :403
  if (r.pred != .none) && r.beh.isNone then .error .assert else           -- :407
  let pred := if !isMap && hasPred then r.pred.orOne else r.pred          -- :410-412
  let config := if !isMap then some (cfgOrOne r.config) else r.config     -- :413
  if !(behOk r.beh) then .error .assert else                              -- :419
  if !(0 < r.mapId) then .error .assert else                              -- :422
  if !(isMap || decide (0 < config.getD 0)) then .error .assert else      -- :423
  if hasPred && !pred.allPos then .error .assert else                     -- :424-425
  .ok { coop := r.coop, country := country, mapName := name, mapId := r.mapId, config := config,
        beh := r.beh, pred := pred, version := r.version }

def Pred.strs : Pred → List Str
  | .none => [['N', 'o', 'n', 'e']]       -- `str(None)`; unreachable through the constructor
  | .one n => [intRepr n]
  | .many l => l.map intRepr

/-- `ScenarioID.__str__` -/
def print (i : Id) : Str :=
  let prediction : Option Str := i.beh.map fun b => join '-' (b :: i.pred.strs)     -- :460-466
  let map_ : Str := i.mapName ++ '-' :: intRepr i.mapId                             -- :467
  let parts : List (Option Str) := [some i.country, some map_, i.config.map intRepr, prediction]
  let s := join '_' (parts.filterMap id)                                             -- :468-469
  if i.coop then 'C' :: '-' :: s else s                                             -- :470-471

/-- named groups of `benchmark_id_pattern` -/
structure Groups where
  coop : Bool
  country : Str
  mapName : Str
  mapId : Str
  config : Option Str
  predType : Option Char
  predIds : Option Str          -- the whole group `(-[1-9][0-9]*)+`, e.g. "-1-2"
  deriving DecidableEq, Repr

/-- `(?P<cooperative>C-)?` -/
def stripCoop (s : Str) : Bool × Str :=
  match s with
  | c1 :: c2 :: t => if c1 = 'C' ∧ c2 = '-' then (true, t) else (false, s)
  | _ => (false, s)

/-- `[1-9][0-9]*` at the head of `s` (greedy), and the rest -/
def takeNum (s : Str) : Option (Str × Str) :=
  match s with
  | c :: t => if isDigit19 c then some (c :: (span Char.isDigit t).1, (span Char.isDigit t).2) else none
  | [] => none

inductive PState where | dash | first | digits

/-- `(-([1-9][0-9]*))+` up to the end of the string.
    `dash`: expect '-', `first`: expect [1-9], `digits`: inside a number -/
def predIdsOk : PState → Str → Bool
  | .dash, c :: t => c = '-' && predIdsOk .first t
  | .first, c :: t => isDigit19 c && predIdsOk .digits t
  | .digits, [] => true
  | .digits, c :: t => if c.isDigit then predIdsOk .digits t else c = '-' && predIdsOk .first t
  | .dash, [] => false
  | .first, [] => false

def isSTPI (c : Char) : Bool := c = 'S' || c = 'T' || c = 'P' || c = 'I'

/-- what follows the map id: `(_(config)(_([STPI])(-num)+)?)?` up to the end -/
def matchTail (s : Str) : Option (Option Str × Option Char × Option Str) :=
  match s with
  | [] => some (none, none, none)
  | u :: s6 =>
    if u ≠ '_' then none else
    match takeNum s6 with
    | none => none
    | some (cfg, s7) =>
      match s7 with
      | [] => some (some cfg, none, none)
      | [_] => none
      | u2 :: t :: s8 =>
        if u2 = '_' ∧ isSTPI t = true ∧ predIdsOk .dash s8 = true then some (some cfg, some t, some s8) else none

/-- `benchmark_id_pattern.fullmatch` -/
def matchId (s : Str) : Option Groups :=
  match (stripCoop s).2 with
  | a :: b :: c :: u :: s2 =>
    if !(a.isUpper && b.isUpper && c.isUpper && u = '_') then none else
    let name := (span Char.isAlphanum s2).1
    if name = [] then none else
    match (span Char.isAlphanum s2).2 with
    | d :: s4 =>
      if d ≠ '-' then none else
      match takeNum s4 with
      | none => none
      | some (mapId, s5) =>
        match matchTail s5 with
        | none => none
        | some (cfg, pt, pids) =>
          some { coop := (stripCoop s).1, country := [a, b, c], mapName := name, mapId := mapId, config := cfg,
                 predType := pt, predIds := pids }
    | [] => none
  | _ => none

/-- `[int(pid) for pid in prediction_id.split("-")[1:]]`, a single id unwrapped (scenario.py:533-536) -/
def predOfGroup : Option Str → Pred
  | none => .none
  | some raw =>
    match (splitOn '-' raw).tail.map (fun d => (digitsToNat d : Int)) with
    | [n] => .one n
    | l => .many l

/-- `ScenarioID.from_benchmark_id` -/
def parse (cs : List Str) (s : Str) (version : Str) : Res Id :=
  match matchId s with
  | none =>                                                                           -- :519-521
    mk cs { coop := false, country := some ZAM, mapName := s, mapId := 1, config := none, beh := none,
            pred := .none, version := defaultVersion }
  | some g =>
    mk cs { coop := g.coop, country := some g.country, mapName := g.mapName,
            mapId := (digitsToNat g.mapId : Int),
            config := g.config.map fun d => (digitsToNat d : Int),
            beh := g.predType.map fun t => [t],
            pred := predOfGroup g.predIds, version := version }

/-! ## the id grammar as a regular expression (denotational), for the membership theorem -/

inductive RE where
  | cls (p : Char → Bool) | chr (c : Char) | eps | seq (a b : RE) | alt (a b : RE) | star (a : RE)

inductive Matches : RE → Str → Prop where
  | cls {p : Char → Bool} {c : Char} : p c = true → Matches (.cls p) [c]
  | chr {c : Char} : Matches (.chr c) [c]
  | eps : Matches .eps []
  | seq {a b : RE} {s t : Str} : Matches a s → Matches b t → Matches (.seq a b) (s ++ t)
  | altL {a b : RE} {s : Str} : Matches a s → Matches (.alt a b) s
  | altR {a b : RE} {s : Str} : Matches b s → Matches (.alt a b) s
  | starNil {a : RE} : Matches (.star a) []
  | starCons {a : RE} {s t : Str} : Matches a s → Matches (.star a) t → Matches (.star a) (s ++ t)

def RE.opt (a : RE) : RE := .alt a .eps
def RE.plus (a : RE) : RE := .seq a (.star a)

/-- `[1-9][0-9]*` -/
def numRE : RE := .seq (.cls isDigit19) (.star (.cls Char.isDigit))

/-- The CommonRoad benchmark-id grammar
    `[C-]COUNTRY_MAPNAME-MAPID[_CONFIG[_TYPE(-PRED)+]]`, COUNTRY = three upper-case letters, MAPNAME alphanumeric,
    numbers positive decimal without leading zero, TYPE ∈ {S,T,P,I}. -/
def idRE : RE :=
  .seq (RE.opt (.seq (.chr 'C') (.chr '-')))
  (.seq (.cls Char.isUpper) (.seq (.cls Char.isUpper) (.seq (.cls Char.isUpper) (.seq (.chr '_')
  (.seq (RE.plus (.cls Char.isAlphanum)) (.seq (.chr '-') (.seq numRE
  (RE.opt (.seq (.chr '_') (.seq numRE
    (RE.opt (.seq (.chr '_') (.seq (.cls isSTPI) (RE.plus (.seq (.chr '-') numRE)))))))))))))))

/-! ## Solution benchmark ids -/

inductive VModel where | PM | ST | KS | MB | KST
  deriving DecidableEq, Repr, Inhabited
inductive VType where | FORD_ESCORT | BMW_320i | VW_VANAGON | TRUCK
  deriving DecidableEq, Repr, Inhabited
inductive Cost where | JB1 | SA1 | WX1 | SM1 | SM2 | SM3 | MW1 | TR1
  deriving DecidableEq, Repr, Inhabited

def VModel.name : VModel → Str
  | .PM => ['P', 'M'] | .ST => ['S', 'T'] | .KS => ['K', 'S'] | .MB => ['M', 'B'] | .KST => ['K', 'S', 'T']
def VModel.all : List VModel := [.PM, .ST, .KS, .MB, .KST]
def VType.value : VType → Nat
  | .FORD_ESCORT => 1 | .BMW_320i => 2 | .VW_VANAGON => 3 | .TRUCK => 4
def VType.all : List VType := [.FORD_ESCORT, .BMW_320i, .VW_VANAGON, .TRUCK]
def Cost.name : Cost → Str
  | .JB1 => ['J', 'B', '1'] | .SA1 => ['S', 'A', '1'] | .WX1 => ['W', 'X', '1'] | .SM1 => ['S', 'M', '1']
  | .SM2 => ['S', 'M', '2'] | .SM3 => ['S', 'M', '3'] | .MW1 => ['M', 'W', '1'] | .TR1 => ['T', 'R', '1']
def Cost.all : List Cost := [.JB1, .SA1, .WX1, .SM1, .SM2, .SM3, .MW1, .TR1]

/-- `PlanningProblemSolution.vehicle_id` = `vehicle_model.name + str(vehicle_type.value)` (solution.py:454) -/
def vehicleId (v : VModel × VType) : Str := v.1.name ++ natToDigits v.2.value

/-- `ids[0] if len(ids) == 1 else "[%s]" % ",".join(ids)` (solution.py:534-535) -/
def bracket : List Str → Str
  | [a] => a
  | l => '[' :: join ',' l ++ [']']

/-- `Solution.benchmark_id` (solution.py:532-536) -/
def benchmarkId (vs : List (VModel × VType)) (costs : List Cost) (i : Id) : Str :=
  bracket (vs.map vehicleId) ++ ':' :: bracket (costs.map Cost.name) ++ ':' :: print i ++ ':' :: i.version

def notBracket (c : Char) : Bool := c != '[' && c != ']'

/-- `_parse_benchmark_id` (solution.py:762-774); `SolutionReaderException` is class `other` -/
def parseBenchmarkId (cs : List Str) (s : Str) : Res (List Str × List Str × Id) :=
  match splitOn ':' (s.filter fun c => c != ' ') with
  | [a, b, c, d] =>
    match parse cs c d with
    | .error e => .error e
    | .ok i => .ok (splitOn ',' (a.filter notBracket), splitOn ',' (b.filter notBracket), i)
  | _ => .error .other

/-- `_parse_vehicle_id` (solution.py:776-788); `int(vehicle_id[-1])` raises `ValueError` on a non-digit
    (ASCII input assumed: Python's `int` also accepts non-ASCII decimal digits) -/
def parseVehicleId (v : Str) : Res (VModel × VType) :=
  if v.length ≠ 3 ∧ v.length ≠ 4 then .error .other else
  match VModel.all.find? (fun m => m.name = v.dropLast) with
  | none => .error .other
  | some m =>
    match v.getLast? with
    | none => .error .index
    | some c =>
      if !c.isDigit then .error .value else
      match VType.all.find? (fun t => t.value = digitVal c) with
      | none => .error .other
      | some t => .ok (m, t)

/-- `cost_id not in [cfunc.name ...]` → SolutionReaderException; else `CostFunction[cost_id]` (solution.py:707-709) -/
def parseCostId (c : Str) : Res Cost :=
  match Cost.all.find? (fun k => k.name = c) with
  | none => .error .other
  | some k => .ok k

/-- the `(vehicle_ids[idx], cost_ids[idx])` part of `_parse_solution` for `idx = 0 .. n-1`
    (`n` = number of trajectory nodes); a short id list is an `IndexError` -/
def readPps : Nat → List Str → List Str → Res (List (VModel × VType × Cost))
  | 0, _, _ => .ok []
  | _ + 1, [], _ => .error .index
  | _ + 1, _ :: _, [] => .error .index
  | n + 1, v :: vs, c :: costs =>
    match parseVehicleId v with
    | .error e => .error e
    | .ok (m, t) =>
      match parseCostId c with
      | .error e => .error e
      | .ok k =>
        match readPps n vs costs with
        | .error e => .error e
        | .ok rest => .ok ((m, t, k) :: rest)

/-- what `CommonRoadSolutionReader` recovers from the benchmark id of a solution file with `n` trajectories -/
def readSolutionIds (cs : List Str) (s : Str) (n : Nat) : Res (List (VModel × VType × Cost) × Id) :=
  match parseBenchmarkId cs s with
  | .error e => .error e
  | .ok (vids, cids, i) =>
    match readPps n vids cids with
    | .error e => .error e
    | .ok pps => .ok (pps, i)

/-! ## keyword construction: every argument given or left at its default (scenario.py:367-377) -/

/-- default of `map_name` (scenario.py:371) -/
def defaultName : Str := ['T', 'e', 's', 't']

/-- `ScenarioID(**kw)`: outer `none` = argument omitted (the signature's default applies); for the arguments that
    accept `None`, `some none` (`some Pred.none`) = an explicit `None`. -/
structure Kw where
  coop : Option Bool := none
  country : Option (Option Str) := none
  mapName : Option Str := none
  mapId : Option Int := none
  config : Option (Option Int) := none
  beh : Option (Option Str) := none
  pred : Option Pred := none
  version : Option Str := none
  deriving DecidableEq, Repr, Inhabited

/-- the signature's defaults: `cooperative=False, country_id="ZAM", map_name="Test", map_id=1, configuration_id=None,
    obstacle_behavior=None, prediction_id=None, scenario_version=SCENARIO_VERSION` -/
def Kw.fill (k : Kw) : Raw :=
  { coop := k.coop.getD false, country := k.country.getD (some ZAM), mapName := k.mapName.getD defaultName,
    mapId := k.mapId.getD 1, config := k.config.getD none, beh := k.beh.getD none, pred := k.pred.getD .none,
    version := k.version.getD defaultVersion }

/-! ## attribute histories: fields re-assigned after construction (plain attributes and the two property setters) -/

inductive Op where
  | coop (b : Bool) | country (c : Option Str) | mapName (s : Str) | mapId (n : Int) | config (c : Option Int)
  | beh (b : Option Str) | pred (p : Pred) | version (v : Str)
  deriving DecidableEq, Repr, Inhabited

/-- `setattr(id, field, value)`: six plain attributes take any value unchecked; `map_name` is cleaned by its setter
    (scenario.py:480-484); `country_id` is validated by its setter and raises `ValueError` (scenario.py:490-497). -/
def applyOp (cs : List Str) (i : Id) : Op → Res Id
  | .coop b => .ok { i with coop := b }
  | .country c =>
    match setCountry cs c with
    | .ok c' => .ok { i with country := c' }
    | .error e => .error e
  | .mapName s => .ok { i with mapName := s.filter Char.isAlphanum }
  | .mapId n => .ok { i with mapId := n }
  | .config c => .ok { i with config := c }
  | .beh b => .ok { i with beh := b }
  | .pred p => .ok { i with pred := p }
  | .version v => .ok { i with version := v }

/-- a history of assignments; a failing one (the country setter raising) leaves the object as it was -/
def runOps (cs : List Str) : Id → List Op → Id
  | i, [] => i
  | i, op :: t =>
    match applyOp cs i op with
    | .ok j => runOps cs j t
    | .error _ => runOps cs i t

/-- the attribute values of an id, read as constructor arguments -/
def Id.toRaw (i : Id) : Raw :=
  { coop := i.coop, country := some i.country, mapName := i.mapName, mapId := i.mapId, config := i.config,
    beh := i.beh, pred := i.pred, version := i.version }

/-! ## planning problem solutions and their setters (solution.py:343-468), the Solution's dict (solution.py:499-505) -/

/-- kind of the trajectory a `PlanningProblemSolution` holds (`TrajectoryType`): input vector, PM input vector, or the
    state trajectory of a vehicle model -/
inductive Traj where | input | pmInput | state (m : VModel)
  deriving DecidableEq, Repr, Inhabited

/-- `TrajectoryType.valid_vehicle_model` (solution.py:315-328) -/
def Traj.validFor : Traj → VModel → Bool
  | .input, m => m = .KS || m = .ST || m = .MB
  | .pmInput, m => m = .PM
  | .state x, m => x = m

/-- `SupportedCostFunctions` (solution.py:331-340) -/
def supportedCosts : VModel → List Cost
  | .PM => [.JB1, .WX1, .MW1]
  | _ => Cost.all

structure Pps where
  pid : Int
  model : VModel
  vtype : VType
  cost : Cost
  traj : Traj
  deriving DecidableEq, Repr, Inhabited

/-- `PlanningProblemSolution.__init__` guards (solution.py:369-370); `SolutionException` is class `other` -/
def Pps.check (p : Pps) : Res Pps :=
  if !p.traj.validFor p.model then .error .other else
  if !(supportedCosts p.model).contains p.cost then .error .other else .ok p

inductive POp where | model (m : VModel) | vtype (t : VType) | cost (c : Cost) | traj (t : Traj)
  deriving DecidableEq, Repr, Inhabited

/-- the setters `vehicle_model` (solution.py:407-412), `cost_function` (:419-422), `trajectory` (:429-435) and the plain
    attribute `vehicle_type`; a rejected value raises and leaves the object unchanged -/
def Pps.apply (p : Pps) : POp → Res Pps
  | .model m => Pps.check { p with model := m }
  | .vtype t => .ok { p with vtype := t }
  | .cost c => Pps.check { p with cost := c }
  | .traj t => if t.validFor p.model then .ok { p with traj := t } else .error .other

/-- `{s.planning_problem_id: s for s in l}`: a repeated key keeps its first position and takes the last value -/
def insertPps (d : List Pps) (p : Pps) : List Pps :=
  if d.any (fun q => q.pid = p.pid) then d.map (fun q => if q.pid = p.pid then p else q) else d ++ [p]

/-- `Solution.planning_problem_solutions` after the setter was given `l` -/
def solutionPps (l : List Pps) : List Pps := l.foldl insertPps []

/-- `Solution.benchmark_id` from the solution's current planning problem solutions and scenario id -/
def solutionBenchmarkId (l : List Pps) (i : Id) : Str :=
  benchmarkId ((solutionPps l).map fun p => (p.model, p.vtype)) ((solutionPps l).map Pps.cost) i

/-! ## a Solution with a history (aliasing: the Solution's dict holds the client's objects) -/

/-- `objs`: the `PlanningProblemSolution` objects the client created (addressed by position);
    `held`: the Solution's dict as positions into `objs`, in dict order (keyed by the planning problem id each
    object had when the list was assigned); `sid`: the `ScenarioID` object the Solution refers to. -/
structure SolState where
  objs : List Pps
  held : List Nat
  sid : Id
  deriving Repr, Inhabited

def pidAt (objs : List Pps) (j : Nat) : Int := (objs.getD j default).pid

/-- one step of `{s.planning_problem_id: s for s in l}` on positions -/
def insertIdx (objs : List Pps) (d : List Nat) (i : Nat) : List Nat :=
  if d.any (fun j => pidAt objs j = pidAt objs i) then d.map (fun j => if pidAt objs j = pidAt objs i then i else j)
  else d ++ [i]

inductive SOp where
  | pps (idx : Nat) (op : POp)        -- a setter of one of the client's objects
  | setList (idxs : List Nat)         -- `solution.planning_problem_solutions = [objs[i] for i in idxs]`
  | same                              -- `solution.planning_problem_solutions = solution.planning_problem_solutions`
  | rev                               -- … = the reversed getter result
  | sid (i : Id)                      -- `solution.scenario_id = <another id>`
  | sidOp (op : Op)                   -- `setattr(solution.scenario_id, …)` in place
  | query                             -- `solution.benchmark_id` / `vehicle_ids` / … (read only)
  deriving Repr, Inhabited

/-- one operation; `none` = the operation raised and left everything as it was -/
def stepSol (cs : List Str) (s : SolState) : SOp → Option SolState
  | .pps idx op =>
    match s.objs[idx]? with
    | none => none
    | some p =>
      match p.apply op with
      | .ok q => some { s with objs := s.objs.set idx q }
      | .error _ => none
  | .setList idxs => some { s with held := idxs.foldl (insertIdx s.objs) [] }
  | .same => some { s with held := s.held.foldl (insertIdx s.objs) [] }
  | .rev => some { s with held := s.held.reverse.foldl (insertIdx s.objs) [] }
  | .sid i => some { s with sid := i }
  | .sidOp op =>
    match applyOp cs s.sid op with
    | .ok j => some { s with sid := j }
    | .error _ => none
  | .query => some s

/-- the planning problem solutions the Solution currently holds -/
def SolState.pps (s : SolState) : List Pps := s.held.map fun j => s.objs.getD j default

/-- `Solution.benchmark_id` in this state -/
def SolState.benchmarkId (s : SolState) : Str :=
  CR.BenchId.benchmarkId (s.pps.map fun p => (p.model, p.vtype)) (s.pps.map Pps.cost) s.sid

end CR.BenchId
