/-
  CRModel.XmlNum — the number formatters of the XML writer, on decimal strings.

    float_to_str     commonroad/common/writer/file_writer_xml.py:62-74   (coordinates, state values, intervals)
    decimal_to_str   commonroad/common/writer/file_writer_xml.py:77-86   (lengths, radii, orientation of shapes, gps,
                     geo transformation, time step size — written with str() before the C03 repair)

  Parameters supplied by the harness (DESIGN §3.2): `repr` = str(np.float64 x) and the exact value sign/num/den of the
  float.  `format(x, ".pf")` is modelled from the exact value (correct rounding, half to even);
  `np.format_float_positional(x, trim="0")` is modelled as the digits of the shortest repr shifted by its exponent.
-/
import CRModel.XsdModel

namespace CR.XmlNum
open CR.Xsd

def natStr (n : Nat) : Str := Nat.toDigits 10 n

def zeros (k : Nat) : Str := List.replicate k '0'

def padLeft (k : Nat) (s : Str) : Str := zeros (k - s.length) ++ s

/-- round half to even of `num / den` (`den > 0`) -/
def roundHalfEven (num den : Nat) : Nat :=
  let q := num / den
  let r := num % den
  if 2 * r < den then q else if den < 2 * r then q + 1 else if q % 2 = 0 then q else q + 1

/-- `format(x, ".pf")` for the finite float `x = (-1)^neg * num / den` -/
def fixedFmt (neg : Bool) (num den p : Nat) : Str :=
  let n := roundHalfEven (num * 10 ^ p) den
  let ip := natStr (n / 10 ^ p)
  let body := if p = 0 then ip else ip ++ '.' :: padLeft p (natStr (n % 10 ^ p))
  if neg then '-' :: body else body

/-- `s.split(".")[0]` -/
def beforeDot (s : Str) : Str := s.takeWhile (· != '.')

/-- `s.split(".")[1]` if there is a dot -/
def afterDot (s : Str) : Option Str :=
  match s.dropWhile (· != '.') with
  | [] => none
  | _ :: r => some (r.takeWhile (· != '.'))

/-- float_to_str (file_writer_xml.py:62-74) with `precision.decimals = p` -/
def floatToStr (repr : Str) (neg : Bool) (num den p : Nat) : Str :=
  if repr.contains 'e' then fixedFmt neg num den p
  else match afterDot repr with
    | some fr => beforeDot repr ++ '.' :: fr.take p
    | none => beforeDot repr

def isE (c : Char) : Bool := c == 'e' || c == 'E'

/-- exponent of a repr in scientific notation (text after the `e`) -/
def expOf (s : Str) : Int :=
  let ex := (s.dropWhile (fun c => !isE c)).drop 1
  if isNeg ex then - (digitsVal ex : Int) else (digitsVal ex : Int)

def mantissa (s : Str) : Str := (dropSign s).takeWhile (fun c => !isE c)

def trimZerosRight (s : Str) : Str := (s.reverse.dropWhile (· == '0')).reverse

/-- digits `ip.fp × 10^e` in positional notation with at least one digit on either side of the point and no
    superfluous trailing zeros (`trim="0"`) -/
def positional (neg : Bool) (ip fp : Str) (e : Int) : Str :=
  let d := ip ++ fp
  let pos : Int := (ip.length : Int) + e
  let (i, f) :=
    if pos ≤ 0 then (['0'], zeros (-pos).toNat ++ d)
    else if d.length ≤ pos.toNat then (d ++ zeros (pos.toNat - d.length), [])
    else (d.take pos.toNat, d.drop pos.toNat)
  let f' := trimZerosRight f
  let body := i ++ '.' :: (if f'.isEmpty then ['0'] else f')
  if neg then '-' :: body else body

/-- np.format_float_positional(x, trim="0") from the shortest repr of x in scientific notation -/
def positionalOfRepr (s : Str) : Str :=
  let m := mantissa s
  positional (isNeg s) (m.takeWhile (· != '.')) ((m.dropWhile (· != '.')).drop 1) (expOf s)

/-- decimal_to_str (file_writer_xml.py:77-86, the C03 repair) -/
def decimalToStr (repr : Str) : Str :=
  if repr.any isE then positionalOfRepr repr else repr

/-! ### the reprs Python produces for finite floats (contract of `str(float)`, trusted; sampled by the harness) -/

/-- `d+(.d+)?` -/
def unsignedPlain (b : Str) : Bool :=
  match b.dropWhile Char.isDigit with
  | [] => !(b.takeWhile Char.isDigit).isEmpty
  | '.' :: fr => !(b.takeWhile Char.isDigit).isEmpty && !fr.isEmpty && allDigits fr
  | _ => false

/-- `-?d+(.d+)?` : repr of a finite float (or int) without exponent -/
def isPlainRepr (s : Str) : Bool :=
  match s with
  | '-' :: r => unsignedPlain r
  | r => unsignedPlain r

/-- `-?d+(.d+)?e[+-]?d+` : repr of a finite float in scientific notation -/
def isSciRepr (s : Str) : Bool :=
  unsignedPlain (mantissa s) &&
  (match (dropSign s).dropWhile (fun c => !isE c) with
   | _ :: ex => isInteger ex
   | [] => false) &&
  (match s with | '+' :: _ => false | _ => true)

/-- a digit other than `0` -/
def nz (c : Char) : Bool := digitVal c != 0

end CR.XmlNum
