/-
  CRModel.AssignNet — histories in which the LANELET NETWORK changes too (property C07, "removing an obstacle that is in the
  scenario never fails" for every history):

    Scenario.remove_lanelet(lanelet)                 scenario.py:950-977   the lanelet object and with it its registries vanish
                                                     (KeyError for an id that is not in the network); obstacles keep their
                                                     recorded sets, which may now name a missing lanelet
    Scenario.add_objects(Lanelet)                    scenario.py:731-733   `_mark_object_id_as_used` (ValueError for a used id),
                                                     a fresh lanelet object with empty registries
    obstacles constructed with preset `initial_center_lanelet_ids` / `initial_shape_lanelet_ids` /
      `TrajectoryPrediction(center_lanelet_assignment=…, shape_lanelet_assignment=…)`   (`preset`)

  The set of present lanelets is part of the state.  Every obstacle operation is the operation of CRModel/Assign.lean run
  with the environment restricted to the present lanelets (`Env.on`): the id guards see the present lanelets, and the two
  lookups — scans of the current network — answer with the present ones among the lanelets they would name on the full
  universe of lanelets of the case (the geometry of a lanelet id is fixed).
-/
import CRModel.Assign

namespace CR.Assign

/-- the environment as the code sees it while exactly the lanelets `P` are in the network -/
def Env.on (E : Env) (P : List Id) : Env :=
  { E with lanelets := P,
           cen := fun o t => (E.cen o t).filter (· ∈ P),
           shp := fun o t => (E.shp o t).filter (· ∈ P) }

structure NSt where
  present : List Id      -- keys of `LaneletNetwork._lanelets`
  st : St

/-- the scenario with the lanelets `P0`, no obstacle added yet, the obstacle objects as constructed (`preset`) -/
def NSt.init (P0 : List Id) (preset : Id → Fwd) : NSt :=
  { present := P0, st := { St.init with fwd := preset } }

inductive NOp where
  | op (o : Op)
  | removeLanelet (l : Id)
  | addLanelet (l : Id)
  /-- `lanelet.static_obstacles_on_lanelet = set()`, `lanelet.dynamic_obstacles_on_lanelet = {}` (the public setters,
      lanelet.py:463-485) on a lanelet of the network -/
  | clearLanelet (l : Id)
  /-- the public setters of the assignment attributes on an obstacle object, in or outside the scenario
      (`obstacle.initial_center_lanelet_ids = …`, `obstacle.initial_shape_lanelet_ids = …`,
      `prediction.center_lanelet_assignment = …`, `prediction.shape_lanelet_assignment = …`; obstacle.py:257-293,
      prediction.py:330-360): the registries are not touched -/
  | setFwd (o : Id) (f : Fwd)
  /-- any read-only query (`occupancy_at_time`, `find_lanelet_by_*`, `Lanelet.get_obstacles`, `obstacle_by_id`, …) -/
  | query

/-- the registries of lanelet `l` are gone (removed object) resp. empty (fresh object) -/
def St.dropLanelet (s : St) (l : Id) : St :=
  { s with sreg := fun l' => if l' = l then [] else s.sreg l',
           dreg := fun l' t => if l' = l then none else s.dreg l' t }

def nstep (E : Env) (legacy : Bool) (n : NSt) : NOp → Res NSt
  | .op (.remove o) =>
    -- `legacy = true`: `_remove_dynamic_obstacle_from_lanelets` before d431666
    (if legacy then removeLegacy (E.on n.present) n.st o else remove (E.on n.present) n.st o).map
      (fun s => { n with st := s })
  | .op o => (step (E.on n.present) n.st o).map (fun s => { n with st := s })
  | .removeLanelet l =>
    if l ∈ n.present then .ok { present := n.present.filter (· ≠ l), st := n.st.dropLanelet l }
    else .error .key                                   -- `raise KeyError(la.lanelet_id)`
  | .addLanelet l =>
    if l ∈ n.present ∨ l ∈ n.st.statics ∨ l ∈ n.st.dynamics then .error .value      -- "ID … is already used."
    else .ok { present := n.present ++ [l], st := n.st.dropLanelet l }
  | .clearLanelet l =>
    if l ∈ n.present then .ok { n with st := n.st.dropLanelet l } else .error .attr    -- `find_lanelet_by_id(l)` is `None`
  | .setFwd o f => .ok { n with st := n.st.setFwd o f }
  | .query => .ok n

def nrun (E : Env) (legacy : Bool) (n : NSt) (ops : List NOp) : Res NSt := ops.foldlM (nstep E legacy) n

end CR.Assign
