/-
  CRModel.Codec — codec combinators for element trees.  A codec bundles the writer side (`enc`) and the reader side (`dec`)
  of one piece of the format, the set of child tags the reader side asks for (`tags`), what a value becomes after one
  write→read (`norm`) and the values the pair handles (`ok`).  The laws (CRProofs/Codec.lean, each proved once per combinator):

      enc_tags   every element `enc a` emits carries one of `tags`
      dec_local  `dec` only looks at children carrying one of `tags` (find / findall by tag, like the reader)
      rt         ok a → dec (enc a) = some (norm a)

  and from them, for any context of foreign-tag siblings,  dec (pre ++ enc a ++ post) = some (norm a).
  Core Lean only (the driver links these definitions).
-/
import CRModel.Xml

namespace CR.X

/-- text / attribute level: `fmt` is the writer's formatting, `read` the reader's parsing (`none` = it raises) -/
structure Prim (α : Type) where
  fmt : α → String
  read : String → Option α
  norm : α → α
  ok : α → Prop

/-- element level: content of one element (the tag is chosen by the parent) -/
structure ECodec (α : Type) where
  attrs : α → List (String × String)
  text : α → String
  kids : α → List Xml
  decE : Xml → Option α
  norm : α → α
  ok : α → Prop

/-- children level -/
structure Codec (α : Type) where
  tags : List String
  enc : α → List Xml
  dec : List Xml → Option α
  norm : α → α
  ok : α → Prop

def ECodec.el {α : Type} (e : ECodec α) (tag : String) (a : α) : Xml := ⟨tag, e.attrs a, e.text a, e.kids a⟩

/-! ## primitives -/

/-- `str(i)` / `int(text)` -/
def Prim.int : Prim Int := ⟨fun i => toString i, fun s => s.toInt?, id, fun _ => True⟩

/-- plain text (`additionalValue`, `geoReference`) -/
def Prim.str : Prim String := ⟨id, some, id, fun _ => True⟩

/-- `str(b).lower()`; strict reader (`SignalStateFactory._read_boolean`, file_reader_xml.py:1597-1603): anything else raises -/
def Prim.boolStrict : Prim Bool :=
  ⟨fun b => if b then "true" else "false", fun s => if s == "true" then some true else if s == "false" then some false else none,
   id, fun _ => True⟩

/-- lenient reader with a default (`active`, file_reader_xml.py:975-983: anything but true/false is True) -/
def Prim.boolDefault (dflt : Bool) : Prim Bool :=
  ⟨fun b => if b then "true" else "false", fun s => if s == "true" then some true else if s == "false" then some false else some dflt,
   id, fun _ => True⟩

/-- `drivingDir`: "same" / "opposite"; the reader tests `== "same"` (file_reader_xml.py:617-620) -/
def Prim.drivingDir : Prim Bool :=
  ⟨fun b => if b then "same" else "opposite", fun s => some (s == "same"), id, fun _ => True⟩

/-- an enumeration given by the list of its values: `Enum(text)` raises on an unknown value -/
def Prim.enum (vals : List String) : Prim String :=
  ⟨id, fun s => if vals.contains s then some s else none, id, fun s => vals.contains s = true⟩

/-- an enumeration with a lenient reader (`direction`, file_reader_xml.py:985-1003: unknown text is `dflt`) -/
def Prim.enumDefault (vals : List String) (dflt : String) : Prim String :=
  ⟨id, fun s => if vals.contains s then some s else some dflt, fun s => if vals.contains s then s else dflt, fun _ => True⟩

/-- a real written with a bare `str()`: the text is the repr (no such site is left in the body after the decimal_to_str repair) -/
def Prim.decRepr : Prim String := ⟨id, some, id, fun _ => True⟩

/-! ## float_to_str (file_writer_xml.py:62-74) on decimal strings -/

/-- `s.split(".")` -/
def splitDot : List Char → List (List Char)
  | [] => [[]]
  | c :: cs =>
    match splitDot cs with
    | [] => [[c]]   -- unreachable: splitDot never returns []
    | p :: ps => if c = '.' then [] :: p :: ps else (c :: p) :: ps

/-- the non-exponent branch: `f_list[0] + "." + f_list[1][:decimals]`, or `f_list[0]` -/
def truncChars (d : Nat) (s : List Char) : List Char :=
  match splitDot s with
  | p0 :: p1 :: _ => p0 ++ '.' :: p1.take d
  | [p0] => p0
  | [] => []

/-- Parameters of one write: `decimals`, and for every repr in exponent notation what `format(f, ".{d}f")` gives
    (a function of the float, not of its repr: supplied by the harness; coverage `FixCovered` is part of `ok`, the numeric
    contract is `FixOk` in CRProofs/DecVal.lean). -/
structure Params where
  d : Nat
  fix : List (String × String)
  /-- for every repr in exponent notation what `np.format_float_positional(f, trim="0")` gives (the same value written
      positionally; a function of the float, supplied by the harness) -/
  pos : List (String × String)

def lookupFix (s : String) : List (String × String) → Option String
  | [] => none
  | (k, v) :: r => if k == s then some v else lookupFix s r

/-- `float_to_str(np.float64(x))` as a function of `str(np.float64(x))` -/
def floatToStr (P : Params) (s : String) : String :=
  if s.toList.contains 'e' then
    match lookupFix s P.fix with
    | some v => v
    | none => ""      -- the table has no entry: excluded by `FixCovered` (part of `ok` of every real leaf)
  else String.ofList (truncChars P.d s.toList)

/-- the `fix` table knows this repr if it is in exponent notation -/
def FixCovered (P : Params) (s : String) : Prop := s.toList.contains 'e' = true → (lookupFix s P.fix).isSome = true

/-- the `pos` table knows this repr if it is in exponent notation -/
def PosCovered (P : Params) (s : String) : Prop :=
  (s.toList.contains 'e' || s.toList.contains 'E') = true → (lookupFix s P.pos).isSome = true

/-- `decimal_to_str(x)` (file_writer_xml.py:77-86) as a function of `str(x)`: the repr itself, unless it is in exponent
    notation — then the positional form of the same value -/
def decimalToStr (P : Params) (s : String) : String :=
  if s.toList.contains 'e' || s.toList.contains 'E' then
    match lookupFix s P.pos with
    | some v => v
    | none => ""      -- excluded by `PosCovered`
  else s

/-- a real written with `decimal_to_str` (rectangle length / width / orientation, circle radius): all digits, no truncation -/
def Prim.decPlain (P : Params) : Prim String := ⟨decimalToStr P, some, decimalToStr P, PosCovered P⟩

/-- a real written with `float_to_str` and read with `float(text)` (the double nearest to the decimal text; the model keeps the text) -/
def Prim.dec (P : Params) : Prim String := ⟨floatToStr P, some, floatToStr P, FixCovered P⟩

/-! ## element codecs -/

/-- `<t>text</t>` -/
def ECodec.ofText {α : Type} (p : Prim α) : ECodec α :=
  ⟨fun _ => [], p.fmt, fun _ => [], fun x => p.read x.text, p.norm, p.ok⟩

/-- `<t k="…"/>` -/
def ECodec.attr1 {α : Type} (k : String) (p : Prim α) : ECodec α :=
  ⟨fun a => [(k, p.fmt a)], fun _ => "", fun _ => [],
   fun x => match getAttr k x with
     | some s => p.read s
     | none => none,
   p.norm, p.ok⟩

/-- `<t k1="…" k2="…"/>` -/
def ECodec.attr2 {α β : Type} (k1 : String) (p1 : Prim α) (k2 : String) (p2 : Prim β) : ECodec (α × β) :=
  ⟨fun a => [(k1, p1.fmt a.1), (k2, p2.fmt a.2)], fun _ => "", fun _ => [],
   fun x => match getAttr k1 x, getAttr k2 x with
     | some s1, some s2 =>
       match p1.read s1, p2.read s2 with
       | some a, some b => some (a, b)
       | _, _ => none
     | _, _ => none,
   fun a => (p1.norm a.1, p2.norm a.2), fun a => p1.ok a.1 ∧ p2.ok a.2⟩

/-- an element whose children are described by a children-level codec -/
def ECodec.ofKids {α : Type} (c : Codec α) : ECodec α :=
  ⟨fun _ => [], fun _ => "", c.enc, fun x => c.dec x.kids, c.norm, c.ok⟩

/-- `<t k="…"> children </t>` (lanelet, trafficSign, obstacles, planningProblem …) -/
def ECodec.attrKids {α β : Type} (k : String) (p : Prim α) (c : Codec β) : ECodec (α × β) :=
  ⟨fun a => [(k, p.fmt a.1)], fun _ => "", fun a => c.enc a.2,
   fun x => match getAttr k x with
     | some s =>
       match p.read s, c.dec x.kids with
       | some a, some b => some (a, b)
       | _, _ => none
     | none => none,
   fun a => (p.norm a.1, c.norm a.2), fun a => p.ok a.1 ∧ c.ok a.2⟩

/-- change of representation with a partial way back (the caller owes `back (e.norm (to b)) = some (n b)` on `ok'`) -/
def ECodec.pmap {α β : Type} (e : ECodec α) (to : β → α) (back : α → Option β) (n : β → β) (ok' : β → Prop) : ECodec β :=
  ⟨fun b => e.attrs (to b), fun b => e.text (to b), fun b => e.kids (to b),
   fun x => match e.decE x with
     | some a => back a
     | none => none,
   n, fun b => e.ok (to b) ∧ ok' b⟩

/-! ## children-level combinators -/

/-- exactly one child `<t>`; the reader does `node.find(t)` and dereferences it -/
def Codec.child {α : Type} (t : String) (e : ECodec α) : Codec α :=
  ⟨[t], fun a => [e.el t a],
   fun l => match find t l with
     | some x => e.decE x
     | none => none,
   e.norm, e.ok⟩

/-- a child the writer emits only `if present a` and whose absence the reader answers with `dflt` -/
def Codec.optChild {α : Type} (t : String) (e : ECodec α) (present : α → Bool) (dflt : α) : Codec α :=
  ⟨[t], fun a => if present a then [e.el t a] else [],
   fun l => match find t l with
     | some x => e.decE x
     | none => some dflt,
   fun a => if present a then e.norm a else dflt, fun a => present a = true → e.ok a⟩

/-- `Option`-valued child: written iff `some`, read as `None` when absent -/
def Codec.optional {α : Type} (t : String) (e : ECodec α) : Codec (Option α) :=
  ⟨[t], fun a => match a with
     | some v => [e.el t v]
     | none => [],
   fun l => match find t l with
     | some x => match e.decE x with
       | some v => some (some v)
       | none => none
     | none => some none,
   fun a => a.map e.norm, fun a => ∀ v, a = some v → e.ok v⟩

/-- `for x in node.findall(t)` -/
def Codec.many {α : Type} (t : String) (e : ECodec α) : Codec (List α) :=
  ⟨[t], fun l => l.map (e.el t), fun l => mapOpt e.decE (findAll t l), fun l => l.map e.norm, fun l => ∀ a, a ∈ l → e.ok a⟩

/-- an ordered list of elements of several tags, each decoded by its own tag (`for c in list(node)` in `ShapeFactory`) -/
def Codec.manyOf {α : Type} (ts : List String) (encEl : α → Xml) (decEl : Xml → Option α) (nrm : α → α) (ok : α → Prop) : Codec (List α) :=
  ⟨ts, fun l => l.map encEl, fun l => mapOpt decEl (own ts l), fun l => l.map nrm, fun l => ∀ a, a ∈ l → ok a⟩

/-- two groups of children with disjoint tags, written one after the other -/
def Codec.pair {α β : Type} (c1 : Codec α) (c2 : Codec β) : Codec (α × β) :=
  ⟨c1.tags ++ c2.tags, fun a => c1.enc a.1 ++ c2.enc a.2,
   fun l => match c1.dec l, c2.dec l with
     | some a, some b => some (a, b)
     | _, _ => none,
   fun a => (c1.norm a.1, c2.norm a.2), fun a => c1.ok a.1 ∧ c2.ok a.2⟩

/-- nothing written, nothing read -/
def Codec.unit : Codec Unit := ⟨[], fun _ => [], fun _ => some (), id, fun _ => True⟩

/-- change of representation (structure ↔ nested pairs) -/
def Codec.iso {α β : Type} (c : Codec α) (to : β → α) (back : α → β) : Codec β :=
  ⟨c.tags, fun b => c.enc (to b), fun l => (c.dec l).map back, fun b => back (c.norm (to b)), fun b => c.ok (to b)⟩

/-- change of representation with a partial way back; the caller owes `back (c.norm (to b)) = some (n b)` on `ok'` -/
def Codec.pmap {α β : Type} (c : Codec α) (to : β → α) (back : α → Option β) (n : β → β) (ok' : β → Prop) : Codec β :=
  ⟨c.tags, fun b => c.enc (to b),
   fun l => match c.dec l with
     | some a => back a
     | none => none,
   n, fun b => c.ok (to b) ∧ ok' b⟩

/-- a choice the reader resolves by which tags are present: first alternative if `probe` finds something, else the second
    (`read_value_exact_or_interval`, `read_time`: `if node.find("exact") is not None … elif …`) -/
def Codec.orElse {α β : Type} (c1 : Codec α) (c2 : Codec β) (probe : String) : Codec (Sum α β) :=
  ⟨c1.tags ++ c2.tags,
   fun a => match a with
     | .inl x => c1.enc x
     | .inr y => c2.enc y,
   fun l => match find probe l with
     | some _ => (c1.dec l).map Sum.inl
     | none => (c2.dec l).map Sum.inr,
   fun a => match a with
     | .inl x => .inl (c1.norm x)
     | .inr y => .inr (c2.norm y),
   fun a => match a with
     | .inl x => c1.ok x
     | .inr y => c2.ok y⟩

end CR.X
