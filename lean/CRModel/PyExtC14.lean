/-
  CRModel.PyExtC14 — the fixed vocabulary the C14 translator (harness/translate/src_c14.py) maps the Python
  operations of commonroad/common/solution.py to.  Hand-written, core Lean only.  Everything here is *trusted to
  denote* the Python operation it names (on the value representation of CRModel/SolutionXml.lean: a number is an exact
  opaque token, its text is the `Codec`'s).
-/
import CRModel.SolutionXml
namespace CR.PyS
open CR.Sol

/-! ### enums as (member name, value) tables in definition order -/

/-- `E[name].value`: `KeyError` when `E` has no member of that name. -/
def enumGet {α : Type} (tbl : List (String × α)) (name : String) : Res α :=
  match tbl.lookup name with
  | some v => .ok v
  | none => .error .key

/-- `E[name]` / `E.name` as a member (name, value): `KeyError` when there is no such member. -/
def enumMember {α : Type} (tbl : List (String × α)) (name : String) : Res (String × α) :=
  match tbl.lookup name with
  | some v => .ok (name, v)
  | none => .error .key

/-- `E[name]` for one of the four enums that share their member names (StateFields, XMLStateFields, StateType,
    TrajectoryType), the member denoted by the model's `TType`: `KeyError` when `E` has no member of that name. -/
def memberOf {α : Type} (tbl : List (String × α)) (name : String) : Res TType :=
  match tbl.lookup name, TType.ofName? name with
  | some _, some T => .ok T
  | _, _ => .error .key

/-- `E(value)` for such an enum: the member with that VALUE; `ValueError` when there is none. -/
def memberOfValue (tbl : List (String × String)) (v : String) : Res TType :=
  match tbl.find? (fun p => p.2 == v) with
  | some p => (match TType.ofName? p.1 with | some T => .ok T | none => .error .value)
  | none => .error .value

/-- `[m.value for m in E]` -/
def enumValues {α : Type} (tbl : List (String × α)) : List α := tbl.map (·.2)

/-- `[m.name for m in E]` / `[m for m in E]` with members denoted by their names -/
def enumNames {α : Type} (tbl : List (String × α)) : List String := tbl.map (·.1)

/-! ### builtins -/

/-- `any([...])` on a list of booleans -/
def any (l : List Bool) : Bool := l.any id

/-- `all([...])` on a list of booleans -/
def all (l : List Bool) : Bool := l.all id

/-- `x in l` on a list -/
def elem {α : Type} [BEq α] (x : α) (l : List α) : Bool := l.contains x

/-- `l[0]`-style indexing with a literal index: `IndexError` outside -/
def getItem {α : Type} (l : List α) (i : Nat) : Res α :=
  match l[i]? with
  | some a => .ok a
  | none => .error .index

/-- `getattr(state, name)`: `AttributeError` when the state object has no such attribute -/
def getattr (st : State) (f : String) : Res FVal :=
  match CR.Sol.getattr st f with
  | some v => .ok v
  | none => .error .attr

/-- `isinstance(xml_name, tuple)` on an entry of an `XMLStateFields` row -/
def isTuple : XName → Bool
  | .pair _ _ => true
  | .one _ => false

/-- `enumerate(xml_name)` / iteration over a tuple entry `("x", "y")`: its names in order -/
def tupleNames : XName → List String
  | .pair a b => [a, b]
  | .one n => n.toList.map (fun ch => String.ofList [ch])      -- iterating a str yields its characters

/-- the entry used as a plain name (`state_node.find(xml_name)`, `et.Element(xml_name)`) -/
def nameOf : XName → Res String
  | .one n => .ok n
  | .pair _ _ => .error .type

/-- `state_val[idx]`: a position vector has two number components; subscripting a scalar / None is a `TypeError`,
    an index outside the vector an `IndexError` -/
def index : FVal → Nat → Res FVal
  | .vec a _, 0 => .ok (.num a)
  | .vec _ b, 1 => .ok (.num b)
  | .vec _ _, _ => .error .index
  | _, _ => .error .type

/-- `isinstance(value, float)`: the model does not distinguish float from int scalars (both are `FVal.num` tokens
    whose text is the codec's); a time step is a Python int -/
def isFloat : FVal → Bool
  | .num _ => true
  | _ => false

/-- `np.float64(value)` of a float: the same value -/
def npFloat64 (v : FVal) : FVal := v

/-- `str(value)` as the writer uses it for element text: `str(np.float64)` / `str(int)` / `str(None)` -/
def str (c : Codec) (v : FVal) : Res String := subText c v

/-- `float(text)`: the codec's number reader -/
def float (c : Codec) (text : String) : Res Tok := c.prsNum text

/-- `int(text)`: the codec's integer reader -/
def int (c : Codec) (text : String) : Res Int := c.prsInt text

/-- `np.array([a, b])` of two parsed numbers -/
def npArray2 (l : List FVal) : Res FVal :=
  match l with
  | [.num a, .num b] => .ok (.vec a b)
  | _ => .error .other

/-- `state_types[state_type](**state_vals)`: `KeyError` when the dict (given as its (StateType member, class) rows) has no
    entry for the type, else the state-class constructor of the model -/
def construct (rows : List (String × String)) (T : TType) (kw : List (String × FVal)) : Res State :=
  if (rows.map (·.1)).contains T.name then CR.Sol.construct T kw else .error .key

/-- `date.strftime(fmt)`: the codec's `fmtDate` is `strftime("%Y-%m-%dT%H:%M:%S")`; any other format string is a
    different text (marked, so that it is never equal to the codec's) -/
def strftime (c : Codec) (d : Date) (fmt : String) : String :=
  if fmt == "%Y-%m-%dT%H:%M:%S" then c.fmtDate d.sec else "strftime<" ++ fmt ++ ">" ++ d.sec

/-- `try: datetime.strptime(text, fmt1) except ValueError: datetime.strptime(text, fmt2)`: the codec's `prsDate` is
    exactly this chain for fmt1 = "%Y-%m-%dT%H:%M:%S", fmt2 = "%Y-%m-%d" (`none` = the second call's ValueError);
    any other pair of format strings is not the codec's reader -/
def strptime2 (c : Codec) (text fmt1 fmt2 : String) : Res Date :=
  if fmt1 == "%Y-%m-%dT%H:%M:%S" && fmt2 == "%Y-%m-%d" then
    match c.prsDate text with
    | some d => .ok ⟨d, 0⟩
    | none => .error .value
  else .error .other

/-- `dict.get(key, None)` on an attribute dict -/
def dictGet (d : List (String × String)) (k : String) : Option String := d.lookup k

/-- `elem.set(key, value)` on an attribute dict: replaces an existing key in place, else appends -/
def setAttr (d : List (String × String)) (k v : String) : List (String × String) :=
  if d.any (·.1 == k) then d.map (fun p => if p.1 == k then (k, v) else p) else d ++ [(k, v)]

/-- a number transformation the translator does not know (`round`, `abs`, `np.float32`, arithmetic, a format spec …) applied
    on the value path: an uninterpreted function, so no tie theorem about the enclosing definition can be proved -/
opaque unknownNum (what : String) (v : FVal) : FVal

opaque unknownTok (what : String) (v : Tok) : Tok

opaque unknownText (what : String) (v : String) : String

end CR.PyS
