/-
  CRModel.PyExtC02 — fixed call table of the C02 translator (harness/translate/src_c02.py): what the few python / protobuf
  operations of the protobuf writer and reader that are not plain field moves denote.  Core Lean only.
-/
import CRModel.CRProto

namespace CR.PyC02
open CR CR.PBF

end CR.PyC02
