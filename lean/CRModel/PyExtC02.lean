/-
  CRModel.PyExtC02 — fixed call table of the C02 translator (harness/translate/src_c02.py): what the few python / protobuf
  operations of the protobuf writer and reader that are not plain field moves denote.  Core Lean only.
-/
import CRModel.CRProto

namespace CR.PyC02
open CR CR.PBF

/-- `re.sub("(?<!^)(?=[A-Z])", "_", prop).lower()` (StateMessage._map_to_pb_prop / StateFactory._map_to_pb_prop): an
    underscore before every upper-case ASCII letter that is not the first character, then lower-cased. -/
def mapToPbPropChars : Bool → List Char → List Char
  | _, [] => []
  | first, c :: r =>
    (if c.isUpper && !first then ['_', c.toLower] else [c.toLower]) ++ mapToPbPropChars false r

def mapToPbProp (s : String) : String := String.ofList (mapToPbPropChars true s.toList)

/-- `getattr(msg, name).CopyFrom(v)`: the field `name` of the message is set; `getattr` raises AttributeError when the message
    type has no such field (`fields` = the fields of that message type that hold a message of v's type). -/
def dynSet (fields : List String) (name : String) (v : PB) : PB :=
  if fields.contains name then v else .err .attr

/-- null padding is not content: the message without its unset fields -/
def dropNull : PB → PB
  | .msg fs => .msg (fs.filter fun f => f.2.isSet)
  | p => p

end CR.PyC02
