/-
  CRModel.PyExtC19 — the fixed vocabulary harness/translate/src_c19.py maps the objects and calls of the drawing
  functions of commonroad/visualization/mp_renderer.py to (translator tie of property C19).  Hand-written, core
  Lean only.  Everything here is *trusted to denote* the Python operation named in its comment, over the abstract
  obstacle `CR.Draw.Obst` of CRModel/DrawSelect.lean (an obstacle is what the selection logic reads from it).
  Reads through `None` are total here (`Option.getD`): the translation ties the *plain* selection functions
  (`drawDynamic`, …); the partial reads are the subject of `drawDynamicC` / `C19_total_selection_partial`.
-/
import CRModel.DrawSelect
namespace CR.PyC19
open CR.Draw

/-- which state object: `obj.initial_state`, or `obj.prediction.trajectory.state_at_time_step(t)` -/
inductive StRef where
  | init
  | traj (t : Int)
  deriving DecidableEq, Repr

/-- a `State` object as the drawers see it -/
structure StH where
  ref : StRef
  info : StateInfo
  deriving DecidableEq, Repr

instance : Inhabited StH := ⟨⟨.init, ⟨false, false, false⟩⟩⟩

/-- an `Occupancy` object returned by `occupancy_at_time(t)`: its time step, `isinstance(occ.shape, Rectangle)` -/
structure OccH where
  t : Int
  isRect : Bool
  deriving DecidableEq, Repr

instance : Inhabited OccH := ⟨⟨0, false⟩⟩

/-- `obj.occupancy_at_time(t)` -/
def occupancyAt (o : Obst) (t : Int) : Option OccH := if o.occ.mem t then some ⟨t, o.rectAt.mem t⟩ else none

/-- `obj.initial_state` -/
def initialState (o : Obst) : StH := ⟨.init, o.initInfo⟩

/-- `obj.prediction.trajectory.state_at_time_step(t)` / `Trajectory.state_at_time_step(t)` -/
def trajStateAt (o : Obst) (t : Int) : Option StH := if o.stateAt.mem t then some ⟨.traj t, o.stateInfo t⟩ else none

/-- `obj.signal_state_at_time_step(t)` (only `is None` is asked of the result) -/
def signalAt (o : Obst) (t : Int) : Option Unit := if o.sigAt.mem t then some () else none

/-- a position value: `state.position` (an array, or a `Shape` if uncertain) or `state.position.center` -/
inductive PosV where
  | ofState (s : StH)
  | centerOf (s : StH)
  deriving DecidableEq, Repr

instance : Inhabited PosV := ⟨.ofState default⟩

/-- `position[0]`, `position[1]` handed to a patch constructor: where the marker is anchored -/
def PosV.anchor : PosV → Anchor
  | .ofState _ => .exact
  | .centerOf _ => .center

/-- `state.position.draw(self, shape_params)` in `_draw_occupancy`: the uncertain position of that state -/
def drawUncOcc : PosV → List Item
  | .ofState ⟨.init, _⟩ => [Item.uncInit]
  | .ofState ⟨.traj t, _⟩ => [Item.uncState t]
  | .centerOf _ => []

/-- `pset.draw(self, draw_params.shape)` in `draw_trajectory` -/
def drawUncTraj : PosV → List Item
  | .ofState ⟨.traj t, _⟩ => [Item.uncTraj t]
  | _ => []

/-- Python `range(a, b, -1)` -/
def pyRangeDown (a b : Int) : List Int := (pyRange (b + 1) (a + 1)).reverse

/-- `x in l` for `l : Optional[List[int]]` that has been tested to be a list (`None` reads as the empty list) -/
def optContains (l : Option (List Int)) (x : Int) : Bool := (l.getD []).contains x

/-! ### shape of `BaseParam.__setattr__` / `__post_init__` (structural extraction from draw_params.py) -/

/-- What the translator reads off the syntax tree of `BaseParam.__setattr__`. -/
structure SetattrShape where
  /-- the own store `super().__setattr__(name, value)` is guarded by `name in {f.name for f in dataclasses.fields(self)}` -/
  storeIfDeclared : Bool
  /-- the stored value is the parameter `value`, under the parameter `name` -/
  storeSameArgs : Bool
  /-- the own store comes before the visit of the nested groups -/
  storeFirst : Bool
  /-- the visit is guarded by `self.__initialized` (and by nothing else) -/
  visitIfInitialized : Bool
  /-- the visit loops over all of `self.__dict__.items()` -/
  visitAllDictItems : Bool
  /-- exactly the values that are `BaseParam` instances are visited -/
  visitIffBaseParam : Bool
  /-- the visit calls `v.__setattr__(name, value)` with the same name and value -/
  visitSameArgs : Bool
  deriving DecidableEq, Repr

/-- the shape `CR.Params.Grp.set` is a model of -/
def modelSetattrShape : SetattrShape := ⟨true, true, true, true, true, true, true⟩

end CR.PyC19
