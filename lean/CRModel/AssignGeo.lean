/-
  CRModel.AssignGeo — the lookups of the Assign model (CRModel/Assign.lean) instantiated by the spatial index of the Index model
  (CRModel/Index.lean), and the geometry of a case instantiated by C06's exact predicates (CRModel/Geom.lean) and C04's
  placement model (CRModel/Place.lean):

    Scenario.assign_obstacles_to_lanelets (scenario.py:1203-1295) / the readers call
      `set(lanelet_network.find_lanelet_by_position([state.position])[0])`      → `cenOf`
      `set(lanelet_network.find_lanelet_by_shape(obstacle.occupancy_at_time(t).shape))`   → `shpOf`
    with `occupancy_at_time(t).shape = shape.rotate_translate_local(state.position, state.orientation)` for exact states
      (shape.py:611-612)                                                          → `occOf`

  Core Lean only (linked into the driver: op `geo` of Driver/C07.lean computes these lookups and the harness compares them
  with the library's answers on exact-grid cases).
-/
import CRModel.Assign
import CRModel.Index
import CRModel.Place

namespace CR.Assign
open CR.Geom

/-- The geometry of a case: the two primitive predicates (`within ring p` for `dwithin(polygon, point, 1e-15)`,
    `meets ring s` for `polygon.intersects(s.shapely_object)`), and per obstacle its kind, horizon, centre position and
    occupancy shape (a primitive or a ShapeGroup of primitives) at every time step. -/
structure Geo where
  within : List Pt → Pt → Bool
  meets : List Pt → Prim → Bool
  kind : Id → Kind
  t0 : Id → T
  len : Id → Nat
  pos : Id → T → Pt
  occ : Id → T → Shape

/-- `set(self.lanelet_network.find_lanelet_by_position([position])[0])` -/
def cenOf (G : Geo) (n : Index.Net) (o : Id) (t : T) : List Id :=
  match Index.findByPosition G.within n [G.pos o t] with
  | .ok [ids] => ids
  | _ => []

/-- `set(self.lanelet_network.find_lanelet_by_shape(shape))` -/
def shpOf (G : Geo) (n : Index.Net) (o : Id) (t : T) : List Id :=
  match Index.findByShape G.meets n (G.occ o t) with
  | .ok ids => ids
  | .error _ => []

/-- the environment of a history on network `n`: the lookups ARE the index queries -/
def envOf (G : Geo) (n : Index.Net) : Env :=
  { lanelets := n.lanelets.map (·.id), kind := G.kind, t0 := G.t0, len := G.len, cen := cenOf G n, shp := shpOf G n }

/-! ### the geometry instantiated: C06's exact predicates and C04's placement model -/

/-- what a case says of its obstacles: kind, horizon, and per time step the shape in its own frame (`obstacle_shape` at the
    initial step, `prediction.shape` afterwards), the state's position and orientation -/
structure ObsData where
  kind : Id → Kind
  t0 : Id → T
  len : Id → Nat
  shape : Id → T → Rigid.Shape
  pos : Id → T → Rigid.Pt
  ori : Id → T → Rat

/-- `math.cos`, `math.sin`, `TWO_PI` as the code evaluates them (parameters; float rounding is not modelled) -/
structure Trig where
  cos : Rat → Rat
  sin : Rat → Rat
  τ : Rat

def gpt (p : Rigid.Pt) : Pt := ⟨p.x, p.y⟩

mutual
/-- the primitives of a (possibly nested) shape, with the cos / sin of every rectangle's orientation filled in -/
def toPrims (tr : Trig) : Rigid.Shape → List Prim
  | .rect l w ctr θ => [.rect l w (gpt ctr) (tr.cos θ) (tr.sin θ)]
  | .circ r ctr => [.circ r (gpt ctr)]
  | .poly vs => [.poly (vs.map gpt)]
  | .group ss => toPrimsList tr ss
def toPrimsList (tr : Trig) : List Rigid.Shape → List Prim
  | [] => []
  | x :: xs => toPrims tr x ++ toPrimsList tr xs
end

/-- a ShapeGroup stays a group (the index queries every member), a primitive a primitive -/
def toShape (tr : Trig) : Rigid.Shape → Shape
  | .rect l w ctr θ => .prim (.rect l w (gpt ctr) (tr.cos θ) (tr.sin θ))
  | .circ r ctr => .prim (.circ r (gpt ctr))
  | .poly vs => .prim (.poly (vs.map gpt))
  | .group ss => .group (toPrimsList tr ss)

/-- the occupancy of obstacle `o` at time step `t`: its shape rotated about the shape's own centre by the state's orientation
    and moved to the state's position — `occupancy_shape_from_state` / `rotate_translate_local` (CRModel/Place.lean) -/
def occOf (tr : Trig) (D : ObsData) (o : Id) (t : T) : Shape :=
  toShape tr (Place.place (tr.cos (D.ori o t)) (tr.sin (D.ori o t)) (D.ori o t) tr.τ (D.pos o t) (D.shape o t))

/-- The geometry of a case with NOTHING left free but the obstacles' data and cos / sin: the point lookup is
    `withinTol tol` (distance of the point to the lanelet polygon at most `tol` — `dwithin(·, 1e-15)`), the shape lookup is
    `ringMeets` (exact closed-set intersection of the lanelet polygon with the rectangle's corner ring / the polygon's vertex
    ring / the disc of radius r/2 that `Circle.shapely_object` exports — the code as it is, known finding), the centre is the
    state's position and the occupancy is the placed shape. -/
def exactGeo (tol : Rat) (tr : Trig) (D : ObsData) : Geo :=
  { within := withinTol tol, meets := ringMeets, kind := D.kind, t0 := D.t0, len := D.len,
    pos := fun o t => gpt (D.pos o t), occ := occOf tr D }

end CR.Assign
