/-
  CRModel.PyExtC06 — fixed call table of the C06 translator (harness/translate/src_c06.py): what the Python / numpy /
  shapely operations that occur in the translated functions of commonroad/scenario/lanelet.py and
  commonroad/geometry/shape.py denote over the types of CRModel.Geom / CRModel.Index. Hand-written, core Lean only.
  Everything here is *trusted to denote* the Python operation named in its comment (floats are rationals).
  GEOS predicates are never defined here: they stay parameters of the generated definitions, as in the model.
-/
import CRModel.PyExt
import CRModel.Index
import CRModel.ShapeObj
namespace CR.Py06
open CR CR.Geom CR.Index

/-! ### list combinators with the LIST FIRST (so that Lean knows the element type when it reads the generated lambda);
    each is definitionally the core function named on its right and unfolds under `simp` -/

@[simp] def lmap {α β} (l : List α) (f : α → β) : List β := l.map f
@[simp] def lfilter {α} (l : List α) (p : α → Bool) : List α := l.filter p
@[simp] def lall {α} (l : List α) (p : α → Bool) : Bool := l.all p
@[simp] def lfoldl {α β} (l : List α) (init : β) (f : β → α → β) : β := l.foldl f init
@[simp] def lfoldlM {m} [Monad m] {α β} (l : List α) (init : β) (f : β → α → m β) : m β := l.foldlM f init
@[simp] def lfindSome {α β} (l : List α) (f : α → Option β) : Option β := l.findSome? f

/-! ### dicts (insertion-ordered association lists; `CR.Index.dictSet` is `d[k] = v`, `CR.Index.dictGet` the lookup) -/

/-- `k in d` / `k in d.keys()`. -/
def dictHas {κ α} [DecidableEq κ] (m : List (κ × α)) (k : κ) : Bool := m.any (fun e => e.1 = k)

/-- `del d[k]` (`KeyError` when the key is missing). -/
def dictDel {κ α} [DecidableEq κ] (m : List (κ × α)) (k : κ) : Res (List (κ × α)) :=
  if dictHas m k then .ok (m.filter (fun e => e.1 ≠ k)) else .error .key

/-- `d[k]` (`KeyError` when the key is missing). -/
def dictIdx {κ α} [DecidableEq κ] (m : List (κ × α)) (k : κ) : Res α :=
  match dictGet m k with
  | some v => .ok v
  | none => .error .key

/-! ### `LaneletNetwork._lanelets` (dict lanelet_id -> Lanelet), represented by the list of its values in insertion
    order. The translator accepts a store only in the form `d[x.lanelet_id] = x`, so key = `value.id` throughout. -/

/-- `k in self._lanelets` / `k in self._lanelets.keys()`. -/
def lanHas (ls : List Lanelet) (k : Int) : Bool := ls.any (fun l => l.id = k)

/-- `self._lanelets[x.lanelet_id] = x`: a present key keeps its place, a new key is appended. -/
def lanSet : List Lanelet → Lanelet → List Lanelet
  | [], x => [x]
  | l :: ls, x => if l.id = x.id then x :: ls else l :: lanSet ls x

/-- `del self._lanelets[k]`. -/
def lanDel (ls : List Lanelet) (k : Int) : Res (List Lanelet) :=
  if lanHas ls k then .ok (ls.filter (fun l => l.id ≠ k)) else .error .key

/-! ### lists -/

/-- `x in l`. -/
def listHas {α} [DecidableEq α] (l : List α) (x : α) : Bool := decide (x ∈ l)

/-- `enumerate(l)` (indices are Python ints). -/
def enumerate {α} (l : List α) : List (Int × α) := l.zipIdx.map (fun e => ((e.2 : Int), e.1))

/-- `defaultdict(list)`: `d[k].append(v)` (a missing key is created at the end). -/
def ddAppend {κ α} [DecidableEq κ] : List (κ × List α) → κ → α → List (κ × List α)
  | [], k, v => [(k, [v])]
  | (k', vs) :: m, k, v => if k' = k then (k', vs ++ [v]) :: m else (k', vs) :: ddAppend m k v

/-- `defaultdict(list)`: `d[k]` (a missing key reads as `[]`; that the read also creates the key is not observable in the
    translated functions). -/
def ddGet {κ α} [DecidableEq κ] (m : List (κ × List α)) (k : κ) : List α :=
  match m.find? (fun e => e.1 = k) with
  | some e => e.2
  | none => []

/-! ### shapely `STRtree` — `none` is "the attribute holds no tree" (`None`): every use raises `AttributeError` -/

/-- `STRtree(geoms)`. -/
def strtree (gs : List PolyObj) : Option (List PolyObj) := some gs

/-- `tree.query(shape.shapely_object)`: the indices of the tree geometries passing the envelope test `env` (a parameter),
    in tree order (shapely promises no order; the lookups are compared as sets). -/
def strQuery (env : List Pt → Prim → Bool) (tree : Option (List PolyObj)) (s : Prim) : Res (List Int) :=
  match tree with
  | none => .error .attr
  | some gs => .ok ((gs.zipIdx.filter (fun e => env e.1.ring s)).map (fun e => (e.2 : Int)))

/-- `tree.geometries[i]`. -/
def treeGeom (tree : Option (List PolyObj)) (i : Int) : Res PolyObj :=
  match tree with
  | none => .error .attr
  | some gs => CR.Py.getItem gs i

/-- `tree.query(points, predicate="dwithin", distance=tol)`: the pairs (input index, tree index) for which the predicate
    `within tol ring point` (a parameter) holds, ordered by input index, then tree index. -/
def strQueryDwithin (within : Rat → List Pt → Pt → Bool) (tree : Option (List PolyObj)) (pts : List Pt) (tol : Rat) :
    Res (List (Int × Int)) :=
  match tree with
  | none => .error .attr
  | some gs => .ok (pts.zipIdx.flatMap (fun pi =>
      (gs.zipIdx.filter (fun e => within tol e.1.ring pi.1)).map (fun e => ((pi.2 : Int), (e.2 : Int)))))

/-! ### numpy on vertex arrays -/

/-- `np.less_equal(a, b)` on two 2-vectors: the element-wise answers. -/
def lessEqual (a b : Pt) : List Bool := [decide (a.x ≤ b.x), decide (a.y ≤ b.y)]

/-- `np.less(a, b)`. -/
def less (a b : Pt) : List Bool := [decide (a.x < b.x), decide (a.y < b.y)]

/-- `all(l)`. -/
def all (l : List Bool) : Bool := l.all id

/-- `point - center` on 2-vectors. -/
def vsub (a b : Pt) : Pt := ⟨a.x - b.x, a.y - b.y⟩

/-- `rotate_translate(vertices, center, θ)` (geometry/transform.py:25-40) with `(c, s) = (cos θ, sin θ)`: every vertex is
    rotated around the origin, then moved by `center`. -/
def rotateTranslate (vs : List Pt) (ctr : Pt) (cs : Rat × Rat) : List Pt := vs.map (place ctr cs.1 cs.2)

/-- `is_valid_polyline(a)` (common/validity.py) for an n×2 array of reals: at least two points. -/
def isValidPolyline (pts : List Pt) : Bool := decide (2 ≤ pts.length)

/-- `for k, v in self.__dict__.items(): setattr(result, k, copy.deepcopy(v, memo))` on a LaneletNetwork: every
    attribute of `result` is a deep copy of `self`'s — fresh objects (`f` names them), sharing between the lanelets'
    polygons and the buffered polygons kept by the memo, the id-keyed reverse map copied with its (now stale) keys. -/
def deepcopyAttrs (f : Nat → Nat) (self _result : Net) : Net :=
  { lanelets := self.lanelets.map (relabelL f),
    buffered := self.buffered.map (fun e => (e.1, { e.2 with addr := f e.2.addr })),
    tree := self.tree.map (fun gs => gs.map (fun g => { g with addr := f g.addr })),
    idOf := self.idOf }

end CR.Py06
