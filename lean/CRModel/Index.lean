/-
  CRModel.Index — model of the spatial index of `LaneletNetwork` (commonroad/scenario/lanelet.py):

    __init__                       (:1270-1288)   state `_lanelets`, `_buffered_polygons`, `_strtee`, `_lanelet_id_index_by_id`
    __getstate__/__setstate__      (:1290-1300)   pickle: the tree is dropped and rebuilt
    __deepcopy__                   (:1302-1317)   deep copy, tree rebuilt on the copy
    create_from_lanelet_list       (:1432-1460)   deep copy of every lanelet, `add_lanelet(rtree=False)`, one rebuild
    _create_strtree                (:1565-1597)
    remove_lanelet / add_lanelet   (:1599-1612, :1784-1807), add_lanelets_from_network (:1918-1933)
    find_lanelet_by_position       (:1973-1995), find_lanelet_by_shape (:1997-2012)
    Lanelet.get_obstacles          (:706-741), map_obstacles_to_lanelets (:2086-2104), filter_obstacles_in_network (:2064-2084)

  NOT modelled here: changing a lanelet that is already in a network (`Lanelet.translate_rotate`, the vertex setters,
  `LaneletNetwork.translate_rotate`).  Whether derived data such as this index follows such a mutation is property C11
  ("derived data never goes stale"); C06 is about networks as built, copied and read.

  A shapely polygon is an *object*: the reverse map is keyed by `id(polygon)`.  Object identity is modelled by an
  address `addr : Nat`; `copy.deepcopy` / `pickle` relabel addresses by a function `f` (fresh objects), keeping
  sharing (deepcopy memo / pickle memo).  The geometric predicates (`within` for `dwithin(·, 1e-15)`, `meets` for
  `intersects`) are parameters.
-/
import CRModel.Geom
namespace CR.Index
open CR.Geom

/-- A shapely polygon object: identity and vertex ring. -/
structure PolyObj where
  addr : Nat
  ring : List Pt
  deriving DecidableEq, Repr

/-- `Lanelet.polygon` (lanelet.py:636-640, the same in `convert_to_2d`):
    `Polygon(np.concatenate((right_vertices, np.flip(left_vertices, 0))))` — the right boundary followed by the
    reversed left boundary. -/
def laneletRing (right left : List Pt) : List Pt := right ++ left.reverse

/-- What the index needs of a lanelet: id, the two boundary polylines, and the identity (`addr`) of the shapely
    polygon object `lanelet.polygon.shapely_object`. -/
structure Lanelet where
  id : Int
  addr : Nat
  left : List Pt
  right : List Pt
  deriving DecidableEq, Repr

/-- `lanelet.polygon.shapely_object`: the object `addr` with the ring of the two boundaries. -/
def Lanelet.poly (l : Lanelet) : PolyObj := ⟨l.addr, laneletRing l.right l.left⟩

/-- `Lanelet.contains_points(point_list)` (lanelet.py:688-704): asserts a polyline-like array (at least two
    points), then `[self._polygon.contains_point(p) for p in point_list]`. -/
def Lanelet.containsPoints (l : Lanelet) (pts : List Pt) : Res (List Bool) :=
  if pts.length < 2 then .error .assert else .ok (pts.map (fun p => polyContains l.poly.ring p))

structure Net where
  lanelets : List Lanelet            -- `_lanelets` (dict, insertion order)
  buffered : List (Int × PolyObj)    -- `_buffered_polygons` (dict lanelet_id -> shapely polygon)
  tree : Option (List PolyObj)       -- `_strtee.geometries` (`none`: no tree object)
  idOf : List (Nat × Int)            -- `_lanelet_id_index_by_id` (dict id(polygon) -> lanelet_id)
  deriving Repr

/-- `LaneletNetwork()`: an empty network with an empty tree. -/
def Net.empty : Net := ⟨[], [], some [], []⟩

/-- Python `d[k] = v` on an insertion-ordered dict. -/
def dictSet {κ α} [DecidableEq κ] : List (κ × α) → κ → α → List (κ × α)
  | [], k, v => [(k, v)]
  | (k', v') :: m, k, v => if k' = k then (k, v) :: m else (k', v') :: dictSet m k v

/-- Python dict built by a comprehension from a pair list: a later pair with the same key wins. -/
def dictGet {κ α} [DecidableEq κ] (m : List (κ × α)) (k : κ) : Option α :=
  (m.reverse.find? (fun e => e.1 = k)).map (·.2)

/-- `_create_strtree` (every buffered value is a shapely polygon, so the validity filter keeps all). -/
def createStrtree (n : Net) : Net :=
  { n with tree := some (n.buffered.map (·.2)), idOf := n.buffered.map (fun e => (e.2.addr, e.1)) }

/-- `add_lanelet(lanelet, rtree)`: returns the new state and the Boolean answer. A known id changes nothing
    (and does not rebuild). -/
def addLanelet (n : Net) (l : Lanelet) (rtree : Bool) : Net × Bool :=
  if n.lanelets.any (fun k => k.id = l.id) then (n, false) else
  let n' := { n with lanelets := n.lanelets ++ [l], buffered := dictSet n.buffered l.id l.poly }
  (if rtree then createStrtree n' else n', true)

/-- `remove_lanelet(lanelet_id, rtree)`: `del` on both dicts if the id is a lanelet (a missing buffered entry is a
    `KeyError`), then rebuild if asked — also when nothing was removed. -/
def removeLanelet (n : Net) (i : Int) (rtree : Bool) : Res Net :=
  if n.lanelets.any (fun k => k.id = i) then
    if n.buffered.any (fun e => e.1 = i) then
      let n' := { n with lanelets := n.lanelets.filter (fun k => k.id ≠ i), buffered := n.buffered.filter (fun e => e.1 ≠ i) }
      .ok (if rtree then createStrtree n' else n')
    else .error .key
  else .ok (if rtree then createStrtree n else n)

/-- The loop of `add_lanelets_from_network`: `flag = flag and self.add_lanelet(la, rtree=False)` (short-circuit:
    after the first rejected lanelet nothing more is added). -/
def addManyLoop : Net → Bool → List Lanelet → Net × Bool
  | n, flag, [] => (n, flag)
  | n, flag, l :: ls =>
    if flag then
      let r := addLanelet n l false
      addManyLoop r.1 r.2 ls
    else addManyLoop n false ls

def addFromNetwork (n : Net) (ls : List Lanelet) : Net × Bool :=
  let r := addManyLoop n true ls
  (createStrtree r.1, r.2)

def relabelL (f : Nat → Nat) (l : Lanelet) : Lanelet := { l with addr := f l.addr }

/-- `create_from_lanelet_list(lanelets)`: each lanelet is deep-copied (addresses relabelled by `f`), added without
    rebuilding (a repeated id is skipped), one rebuild at the end. -/
def fromListLoop : Net → List Lanelet → Net
  | n, [] => n
  | n, l :: ls => fromListLoop (addLanelet n l false).1 ls

def fromList (f : Nat → Nat) (ls : List Lanelet) : Net :=
  createStrtree (fromListLoop Net.empty (ls.map (relabelL f)))

/-- `copy.deepcopy(network)` and `pickle.loads(pickle.dumps(network))`: every object is replaced by a fresh one
    (`f`), sharing between `_lanelets[i].polygon` and `_buffered_polygons[i]` is kept, the tree is rebuilt. The
    copied `_lanelet_id_index_by_id` (stale keys) is overwritten by the rebuild. -/
def copyNet (f : Nat → Nat) (n : Net) : Net :=
  createStrtree { n with lanelets := n.lanelets.map (relabelL f),
                         buffered := n.buffered.map (fun e => (e.1, { e.2 with addr := f e.2.addr })) }

/-- `_get_lanelet_id_by_shapely_polygon`: `self._lanelet_id_index_by_id[id(polygon)]`. -/
def idOfPoly (n : Net) (g : PolyObj) : Res Int :=
  match dictGet n.idOf g.addr with
  | some i => .ok i
  | none => .error .key

/-- `find_lanelet_by_position(point_list)`; `within ring p` stands for `dwithin(polygon, point, 1e-15)`.
    An empty point list is answered `[]` BEFORE `self._strtee` is touched (`if len(point_list) == 0: return []`), so it
    does not raise even on a network object that holds no tree. -/
def findByPosition (within : List Pt → Pt → Bool) (n : Net) (pts : List Pt) : Res (List (List Int)) :=
  match pts with
  | [] => .ok []
  | _ :: _ =>
    match n.tree with
    | none => .error .attr
    | some gs => pts.mapM (fun p => (gs.filter (fun g => within g.ring p)).mapM (idOfPoly n))

/-- `find_lanelet_by_shape` for a Circle / Polygon / Rectangle; `meets ring s` stands for
    `polygon.intersects(shape.shapely_object)`. -/
def findPrim (meets : List Pt → Prim → Bool) (n : Net) (s : Prim) : Res (List Int) :=
  match n.tree with
  | none => .error .attr
  | some gs => (gs.filter (fun g => meets g.ring s)).mapM (idOfPoly n)

/-- `for l_id in …: if l_id not in res: res.append(l_id)`. -/
def appendNew (res : List Int) : List Int → List Int
  | [] => res
  | i :: is => appendNew (if i ∈ res then res else res ++ [i]) is

/-- The ShapeGroup branch: the lanelets any member meets, each once, in order of first appearance. -/
def findGroup (meets : List Pt → Prim → Bool) (n : Net) : List Int → List Prim → Res (List Int)
  | res, [] => .ok res
  | res, s :: ss =>
    match findPrim meets n s with
    | .error e => .error e
    | .ok ids => findGroup meets n (appendNew res ids) ss

/-- `find_lanelet_by_shape(shape)`: a ShapeGroup occupies the union of its shapes (lanelet.py:2005-2012). -/
def findByShape (meets : List Pt → Prim → Bool) (n : Net) : Shape → Res (List Int)
  | .group ss => findGroup meets n [] ss
  | .prim s => findPrim meets n s

/-- `Scenario.remove_lanelet(list)` (scenario.py:950-973), the part that touches the network: for every entry in
    turn, `KeyError` if no lanelet of that id is in the network (any more), else `lanelet_network.remove_lanelet(id)`
    with the default `rtree=True`.  An exception leaves the earlier entries removed.  Result: the network after the
    call, whether or not it raised, and the exception class if it did (the caller may catch it and go on). -/
def scRemoveLoop : Net → List Int → Net × Option Err
  | n, [] => (n, none)
  | n, i :: is =>
    if n.lanelets.any (fun k => k.id = i) then
      match removeLanelet n i true with
      | .ok n' => scRemoveLoop n' is
      | .error e => (n, some e)
    else (n, some .key)

/-- `Lanelet.translate_rotate(t, 0)` (lanelet.py:580-640, angle 0: an exact translation): both boundaries move, a NEW
    polygon object is created (`f`: its identity). -/
def moveL (t : Pt) (f : Nat → Nat) (l : Lanelet) : Lanelet :=
  { l with addr := f l.addr, left := l.left.map (·.add t), right := l.right.map (·.add t) }

/-- `LaneletNetwork.translate_rotate(t, 0)` (lanelet.py:1946-1978): every lanelet is moved, `_buffered_polygons` is
    re-read from the lanelets and the tree rebuilt. -/
def moveNet (t : Pt) (f : Nat → Nat) (n : Net) : Net :=
  createStrtree { n with lanelets := n.lanelets.map (moveL t f),
                         buffered := (n.lanelets.map (moveL t f)).map (fun l => (l.id, l.poly)) }

/-! ### Operation sequences -/

inductive Op where
  | add (l : Lanelet) (rtree : Bool)
  | remove (i : Int) (rtree : Bool)
  | addFrom (ls : List Lanelet)
  | copy (f : Nat → Nat)        -- deepcopy / pickle round trip; continue on the copy
  | scRemove (ids : List Int)   -- Scenario.remove_lanelet(list); an exception is caught by the caller, who goes on
  | move (t : Pt) (f : Nat → Nat)  -- LaneletNetwork.translate_rotate(t, 0)

def step (n : Net) : Op → Res Net
  | .add l r => .ok (addLanelet n l r).1
  | .remove i r => removeLanelet n i r
  | .addFrom ls => .ok (addFromNetwork n ls).1
  | .copy f => .ok (copyNet f n)
  | .scRemove ids => .ok (scRemoveLoop n ids).1
  | .move t f => .ok (moveNet t f n)

/-- The exception an operation raises and its caller catches (`step` continues on the state it leaves). -/
def caught (n : Net) : Op → Option Err
  | .scRemove ids => (scRemoveLoop n ids).2
  | _ => none

def run : Net → List Op → Res Net
  | n, [] => .ok n
  | n, o :: os => match step n o with
    | .ok n' => run n' os
    | .error e => .error e

/-! ### Obstacles on lanelets -/

/-- An obstacle as seen by `get_obstacles`: id and occupancy shape at the time step. -/
structure Obst where
  id : Int
  shape : Shape
  deriving DecidableEq, Repr

/-- `lanelet_shapely_obj.intersects(·)` for the shape, or for any member of a group. -/
def hits (meets : List Pt → Prim → Bool) (ring : List Pt) : Shape → Bool
  | .prim s => meets ring s
  | .group ss => ss.any (meets ring)

/-- `Lanelet.get_obstacles(obstacles, t)`. -/
def getObstacles (meets : List Pt → Prim → Bool) (l : Lanelet) (obs : List Obst) : List Obst :=
  obs.filter (fun o => hits meets l.poly.ring o.shape)

/-- `map_obstacles_to_lanelets`: lanelets with a non-empty answer only. -/
def mapObstacles (meets : List Pt → Prim → Bool) (n : Net) (obs : List Obst) : List (Int × List Obst) :=
  n.lanelets.filterMap (fun l =>
    let m := getObstacles meets l obs
    if m.isEmpty then none else some (l.id, m))

/-- `res = []; for o in …: if o not in res: res.append(o)`. -/
def dedupInto : List Obst → List Obst → List Obst
  | res, [] => res
  | res, o :: os => if o ∈ res then dedupInto res os else dedupInto (res ++ [o]) os

/-- `filter_obstacles_in_network`. -/
def filterObstacles (meets : List Pt → Prim → Bool) (n : Net) (obs : List Obst) : List Obst :=
  dedupInto [] ((mapObstacles meets n obs).flatMap (·.2))

/-! ### Several live networks derived from one another

  `copy.deepcopy(network)`, `copy.deepcopy(scenario)`, a pickle round trip, `create_from_lanelet_network(network)` and
  `create_from_lanelet_list(network.lanelets)` leave the SOURCE alive next to the copy; both are then used further.
  A world is the list of the live networks (slot = position); an operation acts on one slot, a fork appends the copy
  of one slot.  The copy is a value of its own (`__deepcopy__` (:1302-1317) deep-copies every attribute, in particular
  the dict `_buffered_polygons`; `_create_strtree` (:1565-1597) re-binds that dict to a freshly built one): no
  operation on one slot can change another. -/

inductive WOp where
  | on (k : Nat) (o : Op)            -- operation `o` on the network in slot `k`
  | fork (k : Nat) (f : Nat → Nat)   -- a copy of slot `k` (fresh objects `f`) becomes the new last slot; slot `k` stays

def wstep (w : List Net) : WOp → Res (List Net)
  | .on k o => match w[k]? with
    | some n => match step n o with
      | .ok n' => .ok (w.set k n')
      | .error e => .error e
    | none => .error .key
  | .fork k f => match w[k]? with
    | some n => .ok (w ++ [copyNet f n])
    | none => .error .key

def wrun : List Net → List WOp → Res (List Net)
  | w, [] => .ok w
  | w, o :: os => match wstep w o with
    | .ok w' => wrun w' os
    | .error e => .error e

end CR.Index
