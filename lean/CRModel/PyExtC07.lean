/-
  CRModel.PyExtC07 — the fixed call table of the C07 translator (harness/translate/src_c07.py): what the Python operations
  on the object graph that the obstacle <-> lanelet bookkeeping touches denote on the state `CR.Assign.St` of the hand model.
  Hand-written, core Lean only.  Everything here is *trusted to denote* the named Python operation:

    * an obstacle / lanelet OBJECT is named by its id (`obstacle_by_id`, `find_lanelet_by_id` answer `Option Id`; attribute
      access on `None` is AttributeError = `deref`);
    * a Python `set` is a list (membership level, like the model): `a | b` is `a ++ b`, `set(x)` is `x`;
    * the kind of `obstacle.prediction` is `Env.kind` (`None` / TrajectoryPrediction / SetBasedPrediction);
    * a state / position / occupancy shape of obstacle `o` is named by `(o, time step)`; the two geometric lookups are the
      parameters `Env.cen` / `Env.shp` exactly as in the model;
    * `Scenario._id_set` is not a component of the model state: it denotes `statics ∪ dynamics ∪ lanelets` (`markUsed`).
-/
import CRModel.Assign

namespace CR.PyC07
open CR.Assign

/-- `LaneletNetwork.find_lanelet_by_id(l)`: the lanelet object or `None` (lanelet.py:1728-1740). -/
def findLanelet (E : Env) (l : Id) : Option Id := if l ∈ E.lanelets then some l else none

/-- `Scenario.obstacle_by_id(x)`: the obstacle object or `None` (scenario.py:1086-1112). -/
def obstacleById (s : St) (x : Id) : Option Id := if x ∈ s.statics ∨ x ∈ s.dynamics then some x else none

/-- `isinstance(obs, DynamicObstacle)` on an answer of `obstacle_by_id`: the objects in `_dynamic_obstacles` are the
    DynamicObstacle objects of the scenario; `None` is not one. -/
def isDynamicObj (s : St) (obs : Option Id) : Bool := match obs with
  | some o => decide (o ∈ s.dynamics)
  | none => false

/-- attribute access / method call on an optional object: `None.x` raises AttributeError. -/
def deref (x : Option Id) : Res Id := match x with
  | some l => .ok l
  | none => .error .attr

/-! ### `Lanelet.static_obstacles_on_lanelet` of lanelet `l` (a set) -/

/-- `.add(o)` -/
def ssetAdd (s : St) (l o : Id) : St := { s with sreg := sAdd s.sreg l o }
/-- `.discard(o)` -/
def ssetDiscard (s : St) (l o : Id) : St := { s with sreg := sDel s.sreg l o }
/-- `.remove(o)`: KeyError when `o` is not in the set -/
def ssetRemove (s : St) (l o : Id) : Res St := if o ∈ s.sreg l then .ok (ssetDiscard s l o) else .error .key

/-! ### `Lanelet.dynamic_obstacles_on_lanelet` of lanelet `l` (a dict time step -> set) -/

/-- `d.get(t)` -/
def ddictGet (s : St) (l : Id) (t : T) : Option (List Id) := s.dreg l t
/-- `t in d` -/
def ddictHas (s : St) (l : Id) (t : T) : Bool := (s.dreg l t).isSome
/-- `d[t] = v` -/
def ddictSet (s : St) (l : Id) (t : T) (v : List Id) : St :=
  { s with dreg := fun l' t' => if l' = l ∧ t' = t then some v else s.dreg l' t' }
/-- `d[t].add(o)`: KeyError when the key is missing -/
def ddictAddAt (s : St) (l : Id) (t : T) (o : Id) : Res St := match s.dreg l t with
  | none => .error .key
  | some v => .ok (ddictSet s l t (if o ∈ v then v else o :: v))
/-- `d[t].discard(o)`: KeyError when the key is missing -/
def ddictDiscardAt (s : St) (l : Id) (t : T) (o : Id) : Res St := match s.dreg l t with
  | none => .error .key
  | some v => .ok (ddictSet s l t (v.filter (· ≠ o)))

/-! ### the scenario's obstacle dicts and id set -/

/-- `self._mark_object_id_as_used(x)` (scenario.py:1356-1367): ValueError for an id in `_id_set` = ids of the obstacles and
    lanelets in the scenario. -/
def markUsed (E : Env) (s : St) (x : Id) : Res Unit :=
  if x ∈ s.statics ∨ x ∈ s.dynamics ∨ x ∈ E.lanelets then .error .value else .ok ()
/-- `self._static_obstacles[x] = obj` (insertion order; an existing key keeps its place) -/
def putStatic (s : St) (x : Id) : St := if x ∈ s.statics then s else { s with statics := s.statics ++ [x] }
/-- `self._dynamic_obstacles[x] = obj` -/
def putDynamic (s : St) (x : Id) : St := if x ∈ s.dynamics then s else { s with dynamics := s.dynamics ++ [x] }
/-- `del self._static_obstacles[x]`: KeyError for a missing key -/
def delStatic (s : St) (x : Id) : Res St :=
  if x ∈ s.statics then .ok { s with statics := s.statics.filter (· ≠ x) } else .error .key
/-- `del self._dynamic_obstacles[x]` -/
def delDynamic (s : St) (x : Id) : Res St :=
  if x ∈ s.dynamics then .ok { s with dynamics := s.dynamics.filter (· ≠ x) } else .error .key

/-! ### attributes of an obstacle object `o` -/

/-- `obstacle.prediction is None` (a static obstacle has no prediction either) -/
def predIsNone (E : Env) (o : Id) : Bool := !(decide (E.kind o = .dynTraj) || decide (E.kind o = .dynSet))
/-- `obstacle.prediction.shape_lanelet_assignment`: an attribute of a TrajectoryPrediction only (AttributeError on
    `None` and on a SetBasedPrediction) -/
def predShape (E : Env) (s : St) (o : Id) : Res (Option Dict) :=
  if E.kind o = .dynTraj then .ok (s.fwd o).predShape else .error .attr
/-- `obstacle.prediction.center_lanelet_assignment` -/
def predCenter (E : Env) (s : St) (o : Id) : Res (Option Dict) :=
  if E.kind o = .dynTraj then .ok (s.fwd o).predCenter else .error .attr
/-- `getattr(obstacle.prediction, "center_lanelet_assignment", None)` -/
def predCenterOrNone (E : Env) (s : St) (o : Id) : Option Dict :=
  if E.kind o = .dynTraj then (s.fwd o).predCenter else none
/-- `getattr(obstacle.prediction, "shape_lanelet_assignment", None)` -/
def predShapeOrNone (E : Env) (s : St) (o : Id) : Option Dict :=
  if E.kind o = .dynTraj then (s.fwd o).predShape else none
/-- `obstacle.initial_shape_lanelet_ids = v` -/
def setInitShape (s : St) (o : Id) (v : Option (List Id)) : St := s.setFwd o { s.fwd o with initShape := v }
/-- `obstacle.initial_center_lanelet_ids = v` -/
def setInitCenter (s : St) (o : Id) (v : Option (List Id)) : St := s.setFwd o { s.fwd o with initCenter := v }
/-- `obstacle.prediction.shape_lanelet_assignment = v` -/
def setPredShape (E : Env) (s : St) (o : Id) (v : Option Dict) : Res St :=
  if E.kind o = .dynTraj then .ok (s.setFwd o { s.fwd o with predShape := v }) else .error .attr
/-- `obstacle.prediction.center_lanelet_assignment = v` -/
def setPredCenter (E : Env) (s : St) (o : Id) (v : Option Dict) : Res St :=
  if E.kind o = .dynTraj then .ok (s.setFwd o { s.fwd o with predCenter := v }) else .error .attr
/-- `obstacle.prediction.shape_lanelet_assignment[t] = v`: TypeError when the attribute is `None` -/
def predShapeSetItem (E : Env) (s : St) (o : Id) (t : T) (v : List Id) : Res St :=
  if E.kind o = .dynTraj then
    match (s.fwd o).predShape with
    | none => .error .type
    | some d => .ok (s.setFwd o { s.fwd o with predShape := some (dictSet d t v) })
  else .error .attr
/-- `obstacle.prediction.center_lanelet_assignment[t] = v` -/
def predCenterSetItem (E : Env) (s : St) (o : Id) (t : T) (v : List Id) : Res St :=
  if E.kind o = .dynTraj then
    match (s.fwd o).predCenter with
    | none => .error .type
    | some d => .ok (s.setFwd o { s.fwd o with predCenter := some (dictSet d t v) })
  else .error .attr

/-- a state / position / occupancy shape of an obstacle, named by obstacle id and time step -/
abbrev At := Id × T

/-- `obstacle.prediction.trajectory.state_at_time_step(t)`: the trajectory holds the steps `t0+1 … tf` (trajectory.py) -/
def trajStateAt (E : Env) (o : Id) (t : T) : Option At :=
  if E.t0 o + 1 ≤ t ∧ t ≤ E.tf o then some (o, t) else none
/-- `.position` / `.shape` of an optional state / occupancy: AttributeError on `None` -/
def derefAt (x : Option At) : Res At := match x with
  | some a => .ok a
  | none => .error .attr
/-- `DynamicObstacle.occupancy_at_time(t)` (obstacle.py): the initial occupancy at the initial time step, the predicted one
    inside the horizon of the prediction, `None` otherwise -/
def dynOccAt (E : Env) (o : Id) (t : T) : Option At :=
  if t = E.t0 o then some (o, t)
  else if E.kind o ≠ .dynNone ∧ E.kind o ≠ .static ∧ E.t0 o < t ∧ t ≤ E.tf o then some (o, t) else none
/-- `StaticObstacle.occupancy_at_time(t)`: the initial occupancy shape at every time step -/
def staticOccAt (E : Env) (o : Id) (_t : T) : Option At := some (o, E.t0 o)

/-- `range(a, b)` -/
def pyRange (a b : T) : List T := (List.range (b - a).toNat).map (fun (i : Nat) => a + (i : Int))

/-- `d.get(t, ())` on a dict time step -> set -/
def dictGetD (d : Dict) (t : T) : List Id := (dictGet d t).getD []

/-- `d.items()` of an optional dict: AttributeError on `None` -/
def items (d : Option Dict) : Res Dict := match d with
  | some x => .ok x
  | none => .error .attr

/-- iterating an optional set (`for x in ids`): TypeError on `None` -/
def iter (x : Option (List Id)) : Res (List Id) := match x with
  | some v => .ok v
  | none => .error .type

end CR.PyC07
