/-
  CRModel.PyExtC03 — the fixed vocabulary of the STRUCTURAL translator harness/translate/src_c03.py, which reads the node
  builders of commonroad/common/writer/file_writer_xml.py with `ast` on every run and writes, per builder, WHAT IT EMITS IN
  WHICH ORDER UNDER WHICH GUARD (lean/Gen/SrcC03.lean).  Hand-written, core Lean only.  Everything here is trusted to
  denote the Python construct named in its comment; the tie theorems are in CRProps/T03.lean.

  A builder is one element the writer constructs (`etree.Element(tag)` bound to a local name, returned by a
  `*XMLNode.create_node`, or built inline and appended to another one), or a helper that returns a list of elements /
  fills an element passed to it.  Its `body` is the projection of the Python function's control flow on the statements that
  append a child to that element.
-/
import CRModel.XsdModel

namespace CR.SrcW

/-- how the text of a leaf / the value of an attribute is produced (`arg`: the formatted expression, informative only) -/
inductive Fmt where
  | floatToStr (arg : String)      -- `float_to_str(arg)` / `float_to_str(np.float64(arg))`
  | decimalToStr (arg : String)    -- `decimal_to_str(arg)` / `decimal_to_str(np.float64(arg))`
  | str (arg : String)             -- `str(arg)`
  | enumValue (arg : String)       -- `arg.value` / `str(arg.value)`
  | enumLowerName (arg : String)   -- `str(arg.name.lower())`
  | strLower (arg : String)        -- `str(arg).lower()`   (booleans: "true" / "false")
  | const (s : String)             -- a string literal
  | raw (arg : String)             -- `arg` itself (a name / attribute holding a str)
  | cond (a b : Fmt)               -- `a if c else b`, or `if c: x.set(k, a) else: x.set(k, b)`
  | other (src : String)           -- anything else (source text)
  deriving DecidableEq, Repr, Inhabited

/-- the formatter without its argument -/
inductive FmtK where
  | floatToStr | decimalToStr | str | enumValue | enumLowerName | strLower | const | raw | cond | other
  deriving DecidableEq, Repr, Inhabited

def Fmt.kind : Fmt → FmtK
  | .floatToStr _ => .floatToStr | .decimalToStr _ => .decimalToStr | .str _ => .str | .enumValue _ => .enumValue
  | .enumLowerName _ => .enumLowerName | .strLower _ => .strLower | .const _ => .const | .raw _ => .raw
  | .cond _ _ => .cond | .other _ => .other

/-- the test of an `if` (operands: source text with the builder's first parameter written `_`) -/
inductive Cond where
  | notNone (e : String)           -- `e is not None`
  | isNone (e : String)            -- `e is None`
  | truthy (e : String)            -- `if e:`
  | lenPos (e : String)            -- `len(e) > 0`
  | atom (i : Nat)                 -- any other test: the i-th opaque test of the Python function (text: `Builder.atoms`)
  | not (c : Cond)
  | and (a b : Cond)
  | or (a b : Cond)
  deriving DecidableEq, Repr, Inhabited

/-- what a builder does to the element it builds, in statement order -/
inductive Stmt where
  | skip
  | raise                               -- `raise …`
  | emit (tag : String) (by_ : String)  -- `node.append(child)`: ONE child element `tag`, built by builder `by_`
  | splice (by_ : String)               -- `node.extend(f(…))` / `f(…, node, …)` / `node = f(…)`: the children helper `by_` adds
  | seq (a b : Stmt)
  | ite (c : Cond) (t e : Stmt)
  | each (coll : String) (body : Stmt)  -- `for x in coll: body`
  deriving DecidableEq, Repr, Inhabited

inductive Kind where
  | node    -- builds and returns one element `tag`
  | fill    -- appends to an element handed to it (a parameter / `self._root_node`)
  | list    -- returns a list of elements, or forwards the element another builder returns
  deriving DecidableEq, Repr, Inhabited

structure Builder where
  key : String                      -- `Class.function` (+ `/tag` path for elements built inline)
  kind : Kind
  tag : String                      -- element name (`?src` when computed; `` for fill / list)
  xsd : String                      -- XSD type of the element the FUNCTION builds / fills (`` = none of its own)
  path : List String                -- for elements built inline: the tags from the function's element down to this one
  parent : String                   -- for inline elements: key of the builder they are appended to
  attrs : List (String × Fmt)       -- `node.set(name, value)` in order, outside every `if` / `for` / `try`
  gattrs : List (String × Fmt)      -- `node.set(name, value)` under a guard
  text : Option Fmt                 -- `node.text = …`
  body : Stmt
  atoms : List String               -- source text of `Cond.atom i`
  deriving Repr, Inhabited

/-! ## meaning: the child names one call emits -/

/-- what the builder sees of an expression: `None`, an object (truthy or not), a collection of n entries -/
inductive AVal where
  | none | obj (truthy : Bool) | coll (n : Nat)
  deriving DecidableEq, Repr, Inhabited

def AVal.truthy : AVal → Bool | .none => false | .obj b => b | .coll n => decide (0 < n)
def AVal.notNone : AVal → Bool | .none => false | _ => true
def AVal.count : AVal → Nat | .coll n => n | _ => 0

structure Env where
  val : String → AVal               -- value class of an operand
  atom : Nat → Bool                 -- verdict of the opaque tests
  spliced : String → List String    -- the child names a helper adds

def Cond.eval (env : Env) : Cond → Bool
  | .notNone e => (env.val e).notNone
  | .isNone e => !(env.val e).notNone
  | .truthy e => (env.val e).truthy
  | .lenPos e => decide (0 < (env.val e).count)
  | .atom i => env.atom i
  | .not c => !(c.eval env)
  | .and a b => a.eval env && b.eval env
  | .or a b => a.eval env || b.eval env

/-- the sequence of child names (every iteration of a loop sees the same `env`) -/
def run (env : Env) : Stmt → List String
  | .skip => []
  | .raise => []
  | .emit t _ => [t]
  | .splice b => env.spliced b
  | .seq a b => run env a ++ run env b
  | .ite c t e => bif c.eval env then run env t else run env e
  | .each c b => (List.replicate (env.val c).count (run env b)).flatten

/-! ## static readings of a body -/

/-- (tag, builder) of every `emit`, in program order -/
def emits : Stmt → List (String × String)
  | .emit t b => [(t, b)]
  | .seq a b => emits a ++ emits b
  | .ite _ t e => emits t ++ emits e
  | .each _ b => emits b
  | _ => []

def splices : Stmt → List String
  | .splice b => [b]
  | .seq a b => splices a ++ splices b
  | .ite _ t e => splices t ++ splices e
  | .each _ b => splices b
  | _ => []

/-- tags emitted on EVERY path exactly where they stand (not under a loop; under an `if` only when both branches emit them) -/
def always : Stmt → List String
  | .emit t _ => [t]
  | .seq a b => always a ++ always b
  | .ite _ t e => (always t).filter (always e).contains
  | _ => []

/-- order check against ranks: the tags are emitted with non-decreasing rank on every path, two different tags never
    share a rank on one path, a loop body stays on one rank.  `cur` = (rank, tag) of the last child so far. -/
def ordStep (rank : String → Option Nat) (cur : Option (Nat × String)) (t : String) : Option (Option (Nat × String)) :=
  match rank t with
  | none => none
  | some r =>
    match cur with
    | none => some (some (r, t))
    | some (r0, t0) => if r0 < r || (r0 == r && t0 == t) then some (some (r, t)) else none

def maxCur (a b : Option (Nat × String)) : Option (Nat × String) :=
  match a, b with
  | none, x => x
  | x, none => x
  | some (r1, t1), some (r2, t2) => if r1 < r2 then some (r2, t2) else some (r1, t1)

/-- `none`: order violated (or an unknown tag); `some cur'`: fine, `cur'` the furthest position reached.
    `spl b` = the tags helper `b` adds, in order. -/
def ordOk (rank : String → Option Nat) (spl : String → List String) : Stmt → Option (Nat × String) → Option (Option (Nat × String))
  | .skip, cur => some cur
  | .raise, cur => some cur
  | .emit t _, cur => ordStep rank cur t
  | .splice b, cur => (spl b).foldl (fun acc t => acc.bind (fun c => ordStep rank c t)) (some cur)
  | .seq a b, cur => (ordOk rank spl a cur).bind (ordOk rank spl b)
  | .ite _ t e, cur =>
    match ordOk rank spl t cur, ordOk rank spl e cur with
    | some a, some b => some (maxCur a b)
    | _, _ => none
  | .each _ b, cur =>
    match ordOk rank spl b cur with
    | none => none
    | some c1 => if ordOk rank spl b c1 == some c1 then some c1 else none

/-! ## the XSD side -/
open CR.Xsd

def itemElems : Item → List ElemP
  | .elem e => [e]
  | .seq es _ _ => es
  | .choice es _ _ => es

/-- every element particle of a content model, nested groups included, in document order -/
def allElems : Group → List ElemP
  | .seq items _ _ => items.flatMap itemElems
  | .choice items _ _ => items.flatMap itemElems
  | .all es => es
  | .empty => []

def childType (S : Schema) (T tag : String) : String :=
  match (allElems (S.content T)).find? (·.name == tag) with
  | some e => e.type
  | none => ""

def indexOfItem (items : List Item) (tag : String) (i : Nat := 0) : Option Nat :=
  match items with
  | [] => none
  | it :: rest => if (itemElems it).any (·.name == tag) then some i else indexOfItem rest tag (i + 1)

/-- rank of a child name in a type whose content is ONE sequence (`{1,1}`, or `{0,1}`: geoTransformation) of items;
    the alternatives of a nested choice share a rank; `none` for other content models / names -/
def seqRank (S : Schema) (T : String) (tag : String) : Option Nat :=
  match S.content T with
  | .seq items _ (some 1) => indexOfItem items tag
  | _ => none

def isSeqType (S : Schema) (T : String) : Bool :=
  match S.content T with
  | .seq _ _ (some 1) => true
  | _ => false

/-- the children a sequence type demands (`minOccurs ≥ 1` as a direct element particle of the sequence) -/
def requiredKids (S : Schema) (T : String) : List String :=
  match S.content T with
  | .seq items _ _ => items.filterMap (fun | .elem e => if 1 ≤ e.min then some e.name else none | _ => none)
  | .all es => es.filterMap (fun e => if 1 ≤ e.min then some e.name else none)
  | _ => []

/-! ## checks over the whole table (evaluated by `decide` in CRProps/T03.lean) -/

def findB (tbl : List Builder) (k : String) : Option Builder := tbl.find? (·.key == k)

/-- XSD type of the element a builder builds / fills: the function's, followed down `path` through the content models -/
def typeOf (S : Schema) (b : Builder) : String :=
  if b.xsd == "" then "" else b.path.foldl (childType S) b.xsd

/-- the tags a body emits in program order; `spl k` = the tags helper `k` adds -/
def flatWith (spl : String → List String) : Stmt → List String
  | .emit t _ => [t]
  | .splice b => spl b
  | .seq a b => flatWith spl a ++ flatWith spl b
  | .ite _ t e => flatWith spl t ++ flatWith spl e
  | .each _ b => flatWith spl b
  | _ => []

def viaTable (tbl : List Builder) (f : Stmt → List String) (k : String) : List String :=
  match findB tbl k with | some h => f h.body | none => []

/-- helpers (`splice`) resolved through the table, `n` levels deep -/
def flatTags (tbl : List Builder) : Nat → Stmt → List String
  | 0 => flatWith (fun _ => [])
  | n + 1 => flatWith (viaTable tbl (flatTags tbl n))

/-- tags appended on EVERY path (cf. `always`); `spl k` = the tags helper `k` always adds -/
def alwaysWith (spl : String → List String) : Stmt → List String
  | .emit t _ => [t]
  | .splice b => spl b
  | .seq a b => alwaysWith spl a ++ alwaysWith spl b
  | .ite _ t e => (alwaysWith spl t).filter (alwaysWith spl e).contains
  | _ => []

def alwaysR (tbl : List Builder) : Nat → Stmt → List String
  | 0 => alwaysWith (fun _ => [])
  | n + 1 => alwaysWith (viaTable tbl (alwaysR tbl n))

def isComputed (t : String) : Bool := t.toList.head? == some (Char.ofNat 63)   -- starts with `?`

/-- every literal tag the builder emits is a child its XSD type declares -/
def tagsDeclared (S : Schema) (tbl : List Builder) (b : Builder) : Bool :=
  let T := typeOf S b
  let names := (allElems (S.content T)).map (·.name)
  T == "" || (flatTags tbl 3 b.body).all (fun t => isComputed t || names.contains t)

/-- order of the children against a sequence type (vacuous for other content models) -/
def orderOk (S : Schema) (tbl : List Builder) (b : Builder) : Bool :=
  match S.content (typeOf S b) with
  | .seq items _ (some 1) => (ordOk (indexOfItem items) (viaTable tbl (flatTags tbl 2)) b.body none).isSome
  | _ => true

/-- the children the sequence type demands that the builder does NOT emit on every path -/
def notAlways (S : Schema) (tbl : List Builder) (b : Builder) : List String :=
  match S.content (typeOf S b) with
  | .seq items _ (some 1) =>
    let al := alwaysR tbl 3 b.body
    (items.filterMap (fun | .elem e => if 1 ≤ e.min then some e.name else none | _ => none)).filter (fun r => !al.contains r)
  | _ => []

def constsIn (enum : List String) : Fmt → Bool
  | .const s => enum.contains s
  | .cond a b => constsIn enum a && constsIn enum b
  | _ => false

/-- the formatter suits the simple type: decimals go through float_to_str / decimal_to_str, integers through str(),
    booleans through str().lower(), enumerated strings through `.value` / `.name.lower()` / listed literals -/
def fmtOk (s : Simple) (f : Fmt) : Bool :=
  if !s.enum.isEmpty then f.kind == .enumValue || f.kind == .enumLowerName || constsIn s.enum f
  else match s.base with
    | .decimal => f.kind == .floatToStr || f.kind == .decimalToStr
    | .integer => f.kind == .str
    | .boolean => f.kind == .strLower
    | _ => true

def attrDecls (S : Schema) (T : String) : List AttrP :=
  match S.lookup T with
  | some (.complex a _ _) => a
  | _ => []

/-- text and attributes of one builder against its XSD type -/
def leavesOk (S : Schema) (tbl : List Builder) (b : Builder) : Bool :=
  let T := typeOf S b
  (match b.text, simpleOf S T with
    | some f, some s => fmtOk s f
    | _, _ => true) &&
  (b.attrs ++ b.gattrs).all (fun (a, f) =>
    match (attrDecls S T).find? (·.name == a) with
    | some d => (match simpleOf S d.type with | some s => fmtOk s f | none => true)
    | none => b.kind != .node || T == "")

/-- (builder, leaf formatter kind) of every leaf whose XSD type is a decimal -/
def decimalLeaves (S : Schema) (tbl : List Builder) : List (String × FmtK) :=
  tbl.filterMap (fun b =>
    match b.text, simpleOf S (typeOf S b) with
    | some f, some s => if s.base == .decimal then some (b.key, f.kind) else none
    | _, _ => none)

/-- (builder, leaf formatter) of every leaf whose XSD type is an enumeration -/
def enumLeaves (S : Schema) (tbl : List Builder) : List (String × String × Fmt) :=
  tbl.filterMap (fun b =>
    match b.text, simpleOf S (typeOf S b) with
    | some f, some s => if !s.enum.isEmpty then some (b.key, typeOf S b, f) else none
    | _, _ => none)

/-! ## `re.sub(r"_(\w)", lambda m: m.group(1).upper(), s)` on ASCII strings (StateXMLNode._map_to_xml_prop) -/

def isWordChar (c : Char) : Bool := c.isAlphanum || c == '_'

def camelL : List Char → List Char
  | '_' :: c :: rest => if isWordChar c then c.toUpper :: camelL rest else '_' :: camelL (c :: rest)
  | c :: rest => c :: camelL rest
  | [] => []

def camel (s : String) : String := String.ofList (camelL s.toList)

end CR.SrcW
