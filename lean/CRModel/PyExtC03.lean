/-
  CRModel.PyExtC03 — the fixed vocabulary of the STRUCTURAL translator harness/translate/src_c03.py, which reads the node
  builders of commonroad/common/writer/file_writer_xml.py with `ast` on every run and writes, per builder, WHAT IT EMITS IN
  WHICH ORDER UNDER WHICH GUARD (lean/Gen/SrcC03.lean).  Hand-written, core Lean only.  Everything here is trusted to
  denote the Python construct named in its comment; the tie theorems are in CRProps/T03.lean.

  A builder is one element the writer constructs (`etree.Element(tag)` bound to a local name, returned by a
  `*XMLNode.create_node`, or built inline and appended to another one), or a helper that returns a list of elements /
  fills an element passed to it.  Its `body` is the projection of the Python function's control flow on the statements that
  append a child to that element.
-/
import CRModel.XsdModel

namespace CR.SrcW

/-- how the text of a leaf / the value of an attribute is produced (`arg`: the formatted expression, informative only) -/
inductive Fmt where
  | floatToStr (arg : String)      -- `float_to_str(arg)` / `float_to_str(np.float64(arg))`
  | decimalToStr (arg : String)    -- `decimal_to_str(arg)` / `decimal_to_str(np.float64(arg))`
  | str (arg : String)             -- `str(arg)`
  | enumValue (arg : String)       -- `arg.value` / `str(arg.value)`
  | enumLowerName (arg : String)   -- `str(arg.name.lower())`
  | strLower (arg : String)        -- `str(arg).lower()`   (booleans: "true" / "false")
  | const (s : String)             -- a string literal
  | raw (arg : String)             -- `arg` itself (a name / attribute holding a str)
  | cond (a b : Fmt)               -- `a if c else b`, or `if c: x.set(k, a) else: x.set(k, b)`
  | other (src : String)           -- anything else (source text)
  deriving DecidableEq, Repr, Inhabited

/-- the formatter without its argument -/
inductive FmtK where
  | floatToStr | decimalToStr | str | enumValue | enumLowerName | strLower | const | raw | cond | other
  deriving DecidableEq, Repr, Inhabited

def Fmt.kind : Fmt → FmtK
  | .floatToStr _ => .floatToStr | .decimalToStr _ => .decimalToStr | .str _ => .str | .enumValue _ => .enumValue
  | .enumLowerName _ => .enumLowerName | .strLower _ => .strLower | .const _ => .const | .raw _ => .raw
  | .cond _ _ => .cond | .other _ => .other

/-- the test of an `if` (operands: source text with the builder's first parameter written `_`) -/
inductive Cond where
  | notNone (e : String)           -- `e is not None`
  | isNone (e : String)            -- `e is None`
  | truthy (e : String)            -- `if e:`
  | lenPos (e : String)            -- `len(e) > 0`
  | atom (i : Nat)                 -- any other test: the i-th opaque test of the Python function (text: `Builder.atoms`)
  | not (c : Cond)
  | and (a b : Cond)
  | or (a b : Cond)
  deriving DecidableEq, Repr, Inhabited

/-- what a builder does to the element it builds, in statement order -/
inductive Stmt where
  | skip
  | raise                               -- `raise …`
  | emit (tag : String) (by_ : String)  -- `node.append(child)`: ONE child element `tag`, built by builder `by_`
  | splice (by_ : String)               -- `node.extend(f(…))` / `f(…, node, …)` / `node = f(…)`: the children helper `by_` adds
  | seq (a b : Stmt)
  | ite (c : Cond) (t e : Stmt)
  | each (coll : String) (body : Stmt)  -- `for x in coll: body`
  deriving DecidableEq, Repr, Inhabited

inductive Kind where
  | node    -- builds and returns one element `tag`
  | fill    -- appends to an element handed to it (a parameter / `self._root_node`)
  | list    -- returns a list of elements, or forwards the element another builder returns
  deriving DecidableEq, Repr, Inhabited

structure Builder where
  key : String                      -- `Class.function` (+ `/tag` path for elements built inline)
  kind : Kind
  tag : String                      -- element name (`?src` when computed; `` for fill / list)
  xsd : String                      -- XSD type of the element built / filled (`` = the type its parent's content model gives `tag`)
  parent : String                   -- for inline elements: key of the builder they are appended to
  attrs : List (String × Fmt)       -- `node.set(name, value)` in order, outside every `if` / `for` / `try`
  gattrs : List (String × Fmt)      -- `node.set(name, value)` under a guard
  text : Option Fmt                 -- `node.text = …`
  body : Stmt
  atoms : List String               -- source text of `Cond.atom i`
  deriving Repr, Inhabited

/-! ## meaning: the child names one call emits -/

/-- what the builder sees of an expression: `None`, an object (truthy or not), a collection of n entries -/
inductive AVal where
  | none | obj (truthy : Bool) | coll (n : Nat)
  deriving DecidableEq, Repr, Inhabited

def AVal.truthy : AVal → Bool | .none => false | .obj b => b | .coll n => decide (0 < n)
def AVal.notNone : AVal → Bool | .none => false | _ => true
def AVal.count : AVal → Nat | .coll n => n | _ => 0

structure Env where
  val : String → AVal               -- value class of an operand
  atom : Nat → Bool                 -- verdict of the opaque tests
  spliced : String → List String    -- the child names a helper adds

def Cond.eval (env : Env) : Cond → Bool
  | .notNone e => (env.val e).notNone
  | .isNone e => !(env.val e).notNone
  | .truthy e => (env.val e).truthy
  | .lenPos e => decide (0 < (env.val e).count)
  | .atom i => env.atom i
  | .not c => !(c.eval env)
  | .and a b => a.eval env && b.eval env
  | .or a b => a.eval env || b.eval env

/-- the sequence of child names (every iteration of a loop sees the same `env`) -/
def run (env : Env) : Stmt → List String
  | .skip => []
  | .raise => []
  | .emit t _ => [t]
  | .splice b => env.spliced b
  | .seq a b => run env a ++ run env b
  | .ite c t e => if c.eval env then run env t else run env e
  | .each c b => (List.replicate (env.val c).count (run env b)).flatten

/-! ## static readings of a body -/

/-- (tag, builder) of every `emit`, in program order -/
def emits : Stmt → List (String × String)
  | .emit t b => [(t, b)]
  | .seq a b => emits a ++ emits b
  | .ite _ t e => emits t ++ emits e
  | .each _ b => emits b
  | _ => []

def splices : Stmt → List String
  | .splice b => [b]
  | .seq a b => splices a ++ splices b
  | .ite _ t e => splices t ++ splices e
  | .each _ b => splices b
  | _ => []

/-- tags emitted on EVERY path exactly where they stand (not under a loop; under an `if` only when both branches emit them) -/
def always : Stmt → List String
  | .emit t _ => [t]
  | .seq a b => always a ++ always b
  | .ite _ t e => (always t).filter (always e).contains
  | _ => []

/-- order check against ranks: the tags are emitted with non-decreasing rank on every path, two different tags never
    share a rank on one path, a loop body stays on one rank.  `cur` = (rank, tag) of the last child so far. -/
def ordStep (rank : String → Option Nat) (cur : Option (Nat × String)) (t : String) : Option (Option (Nat × String)) :=
  match rank t with
  | none => none
  | some r =>
    match cur with
    | none => some (some (r, t))
    | some (r0, t0) => if r0 < r || (r0 == r && t0 == t) then some (some (r, t)) else none

def maxCur (a b : Option (Nat × String)) : Option (Nat × String) :=
  match a, b with
  | none, x => x
  | x, none => x
  | some (r1, t1), some (r2, t2) => if r1 < r2 then some (r2, t2) else some (r1, t1)

/-- `none`: order violated (or an unknown tag); `some cur'`: fine, `cur'` the furthest position reached.
    `spl b` = the tags helper `b` adds, in order. -/
def ordOk (rank : String → Option Nat) (spl : String → List String) : Stmt → Option (Nat × String) → Option (Option (Nat × String))
  | .skip, cur => some cur
  | .raise, cur => some cur
  | .emit t _, cur => ordStep rank cur t
  | .splice b, cur => (spl b).foldl (fun acc t => acc.bind (fun c => ordStep rank c t)) (some cur)
  | .seq a b, cur => (ordOk rank spl a cur).bind (ordOk rank spl b)
  | .ite _ t e, cur =>
    match ordOk rank spl t cur, ordOk rank spl e cur with
    | some a, some b => some (maxCur a b)
    | _, _ => none
  | .each _ b, cur =>
    match ordOk rank spl b cur with
    | none => none
    | some c1 => if ordOk rank spl b c1 == some c1 then some c1 else none

/-! ## the XSD side -/
open CR.Xsd

def itemElems : Item → List ElemP
  | .elem e => [e]
  | .seq es _ _ => es
  | .choice es _ _ => es

/-- every element particle of a content model, nested groups included, in document order -/
def allElems : Group → List ElemP
  | .seq items _ _ => items.flatMap itemElems
  | .choice items _ _ => items.flatMap itemElems
  | .all es => es
  | .empty => []

def childType (S : Schema) (T tag : String) : String :=
  match (allElems (S.content T)).find? (·.name == tag) with
  | some e => e.type
  | none => ""

def indexOfItem (items : List Item) (tag : String) (i : Nat := 0) : Option Nat :=
  match items with
  | [] => none
  | it :: rest => if (itemElems it).any (·.name == tag) then some i else indexOfItem rest tag (i + 1)

/-- rank of a child name in a type whose content is ONE sequence (`{1,1}`, or `{0,1}`: geoTransformation) of items;
    the alternatives of a nested choice share a rank; `none` for other content models / names -/
def seqRank (S : Schema) (T : String) (tag : String) : Option Nat :=
  match S.content T with
  | .seq items _ (some 1) => indexOfItem items tag
  | _ => none

def isSeqType (S : Schema) (T : String) : Bool :=
  match S.content T with
  | .seq _ _ (some 1) => true
  | _ => false

/-- the children a sequence type demands (`minOccurs ≥ 1` as a direct element particle of the sequence) -/
def requiredKids (S : Schema) (T : String) : List String :=
  match S.content T with
  | .seq items _ _ => items.filterMap (fun | .elem e => if 1 ≤ e.min then some e.name else none | _ => none)
  | .all es => es.filterMap (fun e => if 1 ≤ e.min then some e.name else none)
  | _ => []

/-! ## `re.sub(r"_(\w)", lambda m: m.group(1).upper(), s)` on ASCII strings (StateXMLNode._map_to_xml_prop) -/

def isWordChar (c : Char) : Bool := c.isAlphanum || c == '_'

def camelL : List Char → List Char
  | '_' :: c :: rest => if isWordChar c then c.toUpper :: camelL rest else '_' :: camelL (c :: rest)
  | c :: rest => c :: camelL rest
  | [] => []

def camel (s : String) : String := String.ofList (camelL s.toList)

end CR.SrcW
