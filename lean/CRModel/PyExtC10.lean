/-
  CRModel.PyExtC10 — the fixed vocabulary the C10 translator (harness/translate/src_c10.py) maps Python set / list /
  dict operations and the *un-translated* callees of the removal / cut-out code to.  Hand-written, core Lean only.
  Everything here is trusted to denote the Python operation named in its comment.

  Representation (same as CRModel/Refs.lean): a Python `set` of ids is a `List Id` in insertion order, a `dict`
  keyed by id is the list of its values in insertion order; iteration order of a set is taken to be insertion order
  (the correspondence compares sorted).
-/
import CRModel.Refs
namespace CR.PyR
open CR.Refs

/-- `x in s` — `x` an int, `s` a set / list / `dict.keys()` of ints. -/
def mem (x : Id) (s : List Id) : Bool := s.contains x

/-- `x in s` — `x` an `Optional[int]` (`None` is never a member of a collection of ints). -/
def optMem (x : Option Id) (s : List Id) : Bool :=
  match x with
  | none => false
  | some a => s.contains a

/-- `a.intersection(b)` / `a & b` on sets. -/
def inter (a b : List Id) : List Id := a.filter (fun x => b.contains x)

/-- `a - b` / `a.difference(b)` on sets. -/
def diff (a b : List Id) : List Id := a.filter (fun x => !b.contains x)

/-- `set(xs)` for a list `xs`: duplicates vanish. -/
def setOfList (xs : List Id) : List Id := xs.eraseDups

/-- `list(s)` for a set `s`. -/
def listOfSet (s : List Id) : List Id := s

/-- `s.add(x)`. -/
def add (s : List Id) (x : Id) : List Id := if s.contains x then s else s ++ [x]

/-- `set().union(*sets)`. -/
def unionAll (ss : List (List Id)) : List Id := ss.flatten.eraseDups

/-- `cls()` : an empty `LaneletNetwork`. -/
def emptyNet : Net := { lanelets := [], signs := [], lights := [], inters := [] }

/-- `LaneletNetwork.add_lanelet(lanelet, rtree=False)` (lanelet.py add_lanelet): a lanelet whose id is already a key
is not added. The spatial index is not modelled. -/
def addLanelet (n : Net) (l : Lanelet) : Net :=
  if n.lids.contains l.id then n else { n with lanelets := n.lanelets ++ [l] }

/-- `network.find_lanelet_by_id(i)` : the value of the dict entry or `None`. -/
def findLanelet (n : Net) (i : Id) : Option Lanelet := n.lanelets.find? (fun l => l.id == i)

/-- `network.find_traffic_sign_by_id(i)`. -/
def findSign (n : Net) (i : Id) : Option Elem := n.signs.find? (fun s => s.1 == i)

/-- `network.find_traffic_light_by_id(i)`. -/
def findLight (n : Net) (i : Id) : Option Elem := n.lights.find? (fun s => s.1 == i)

/-- `network.find_intersection_by_id(i)`. -/
def findInter (n : Net) (i : Id) : Option Intersection := n.inters.find? (fun s => s.id == i)

/-- `network.find_traffic_sign_by_id(i)` where `i` is the id of an element the loop took from that very network (the loops of
`remove_hanging_lanelet_members`): the element itself; the default is never used there and has the same id. -/
def foundSign (n : Net) (i : Id) : Elem := (findSign n i).getD (i, 0)

/-- `network.find_traffic_light_by_id(i)`, same reading as `foundSign`. -/
def foundLight (n : Net) (i : Id) : Elem := (findLight n i).getD (i, 0)

/-- `net.add_traffic_sign(copy.deepcopy(e), set())` (lanelet.py add_traffic_sign with no lanelet ids): `None` fails the
`isinstance` assert (AssertionError); a sign whose id is already a key is not added. -/
def addSignR (n : Net) (e : Option Elem) : Res Net :=
  match e with
  | none => .error .assert
  | some e => .ok (if n.sids.contains e.1 then n else { n with signs := n.signs ++ [e] })

/-- `net.add_traffic_light(copy.deepcopy(e), set())`, as `addSignR`. -/
def addLightR (n : Net) (e : Option Elem) : Res Net :=
  match e with
  | none => .error .assert
  | some e => .ok (if n.tids.contains e.1 then n else { n with lights := n.lights ++ [e] })

/-- `net.add_lanelet(copy.deepcopy(l), rtree=False)`: `None` fails the `isinstance` assert; otherwise `addLanelet`. -/
def addLaneletR (n : Net) (l : Option Lanelet) : Res Net :=
  match l with
  | none => .error .assert
  | some l => .ok (addLanelet n l)

/-- `net.add_intersection(i)` (lanelet.py add_intersection): an intersection whose id is already a key is not added. -/
def addInter (n : Net) (i : Intersection) : Net :=
  if n.iids.contains i.id then n else { n with inters := n.inters ++ [i] }

/-- outcome of one pass through the body of the loop over the old intersections: `none` = `continue`, `some i` =
`net.add_intersection(i)`. -/
def addInterO (n : Net) (o : Option Intersection) : Net :=
  match o with
  | none => n
  | some i => addInter n i

/-- sequencing of a statement that may raise with the rest of a function that returns a value (`Res`). -/
def bindR (r : Res Net) (k : Net → Res Net) : Res Net :=
  match r with
  | .ok n => k n
  | .error e => .error e

/-- `for x in xs: <adding call that may raise>` : each element in turn, stopping at the first exception. -/
def forR (f : Net → Id → Res Net) : Net → List Id → Res Net
  | n, [] => .ok n
  | n, x :: xs => bindR (f n x) (fun n' => forR f n' xs)

/-- The id of the object `network.find_*_by_id(i)` returns when `i` is the id of an element of that network (the loops of
`remove_hanging_lanelet_members` look up the very elements they iterate over): lists of such objects are carried as id lists. -/
def idOfFound (_ : Net) (i : Id) : Id := i

/-- `self._id_set.remove(i)` on a scenario: `KeyError` when absent (= `Scn.idsRemove`). -/
def idSetRemove (s : Scn) (i : Id) : Scn × Option Err := s.idsRemove i

/-- Sequencing of two statements that may raise: the second runs only when the first returned normally; the state
reached when the exception was raised is kept (the caller may go on using the object). -/
def andThen (r : Scn × Option Err) (k : Scn → Scn × Option Err) : Scn × Option Err :=
  match r with
  | (s, none) => k s
  | r => r

/-- `for x in xs: <body that may raise>` : the body for each element in turn, stopping at the first exception. -/
def forEach {α : Type} (f : Scn → α → Scn × Option Err) : Scn → List α → Scn × Option Err
  | s, [] => (s, none)
  | s, x :: xs => andThen (f s x) (fun s' => forEach f s' xs)

end CR.PyR
