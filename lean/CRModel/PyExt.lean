/-
  CRModel.PyExt — the fixed vocabulary the py→Lean translator (harness/translate) maps Python / math / numpy
  calls to. Hand-written, core Lean only. Everything here is *trusted to denote* the Python operation on
  exact values (floats are rationals; rounding is not modelled, see DESIGN §3.2).
-/
import CRModel.Basic
namespace CR.Py

/-- `int(x)` towards zero on rationals. -/
def trunc (x : Rat) : Int := if 0 ≤ x then x.floor else x.ceil

/-- `math.fmod(x, y)`: remainder with the sign of `x`. -/
def fmod (x y : Rat) : Rat := x - y * (trunc (x / y) : Int)

/-- Python true division: `ZeroDivisionError` on a zero divisor. -/
def div (a b : Rat) : Res Rat := if b = 0 then .error .zeroDiv else .ok (a / b)

/-- `assert c`. -/
def assert (c : Bool) : Res Unit := if c then .ok () else .error .assert

/-- Python list indexing `l[i]` (negative indices count from the end; `IndexError` outside). -/
def getItem {α : Type} (l : List α) (i : Int) : Res α :=
  match pyGet? l i with
  | some a => .ok a
  | none => .error .index

/-- `np.cumsum(l) + c` on integer lists. -/
def cumsumPlus (l : List Int) (c : Int) : List Int := (cumsum l).map (· + c)

/-- `np.insert(l, 0, x)`. -/
def insert0 (l : List Int) (x : Int) : List Int := x :: l

/-- `np.argmax(x < l)`. -/
def argmaxLt (x : Int) (l : List Int) : Int := (CR.argmaxLt x l : Nat)

/-- Python `%` on integers with a non-zero divisor (sign of the divisor); `ZeroDivisionError` otherwise. -/
def imod (a b : Int) : Res Int := if b = 0 then .error .zeroDiv else .ok (a.fmod b)

/-- `is_natural_number(n)` on an integer argument (`is_integer_number(n) and n >= 0`, validity.py:39-45). -/
def isNat (n : Int) : Bool := decide (0 ≤ n)

end CR.Py
