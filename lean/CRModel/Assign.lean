/-
  CRModel.Assign — obstacle ↔ lanelet assignment bookkeeping of commonroad-io (property C07).

  Mirrors
    scenario/scenario.py  Scenario.add_objects (obstacle branches) :712-724
                          _add_static_obstacle_to_lanelets :773-782, _remove_static_obstacle_from_lanelets :784-797,
                          _remove_dynamic_obstacle_from_lanelets :799-817, _add_dynamic_obstacle_to_lanelets :819-840,
                          remove_obstacle :842-889, assign_obstacles_to_lanelets :1203-1295
    scenario/lanelet.py   add_dynamic_obstacle_to_lanelet / add_static_obstacle_to_lanelet :993-1010
    common/reader/file_reader_xml.py       StaticObstacleFactory :1150-1183, DynamicObstacleFactory :1186-1296 (two-phase: all
                                           factories, then scenario.add_objects(list) :282)
    common/reader/file_reader_protobuf.py  StaticObstacleFactory :590-628, DynamicObstacleFactory :633-690,
                                           TrajectoryPredictionFactory :848-912 (factory and add_objects interleaved :183-193)

  The geometric lookups `find_lanelet_by_position` / `find_lanelet_by_shape` on the occupancy of obstacle `o` at time `t`
  are PARAMETERS (`Env.cen`, `Env.shp`): shapely/GEOS is not modelled (C06 covers the index; the harness oracle checks the
  answers by brute force on the raw geometry).  Python sets are lists here; all statements are about membership, the
  driver sorts and de-duplicates before printing.  A Python exception ends the history (`Res`); the partially mutated
  state after an exception is not modelled.
-/
import CRModel.Basic

namespace CR.Assign

abbrev Id := Int
abbrev T := Int

/-- static obstacle / dynamic obstacle with a TrajectoryPrediction / dynamic obstacle with `prediction = None` /
    dynamic obstacle with a SetBasedPrediction (outside the property's quantifier; the code never enters it into a
    registry: scenario.py:803, 824, and `assign_obstacles_to_lanelets` raises AttributeError on it because a
    SetBasedPrediction has no `shape_lanelet_assignment` / `center_lanelet_assignment`). -/
inductive Kind where
  | static | dynTraj | dynNone | dynSet
  deriving DecidableEq, Repr, Inhabited

/-- What is fixed during a history: the lanelet ids of the network, and per obstacle id its kind, initial time step,
    number of trajectory states (time steps `t0+1 … t0+len`), and the answers of the two geometric lookups. -/
structure Env where
  lanelets : List Id
  kind : Id → Kind
  t0 : Id → T
  len : Id → Nat
  cen : Id → T → List Id
  shp : Id → T → List Id

/-- `prediction.final_time_step` -/
def Env.tf (E : Env) (o : Id) : T := E.t0 o + (E.len o : Int)

/-- `range(a, a + n + 1)` -/
def trange (a : T) (n : Nat) : List T := (List.range (n + 1)).map (fun (i : Nat) => a + (i : Int))

/-- Python `dict` int → set, in insertion order. -/
abbrev Dict := List (T × List Id)

def dictGet : Dict → T → Option (List Id)
  | [], _ => none
  | (k, v) :: d, t => if k = t then some v else dictGet d t

/-- `d[t] = v` -/
def dictSet : Dict → T → List Id → Dict
  | [], t, v => [(t, v)]
  | (k, w) :: d, t, v => if k = t then (k, v) :: d else (k, w) :: dictSet d t v

/-- Assignment attributes of one obstacle object: `initial_center_lanelet_ids`, `initial_shape_lanelet_ids`,
    `prediction.center_lanelet_assignment`, `prediction.shape_lanelet_assignment` (each `None` or a value). -/
structure Fwd where
  initCenter : Option (List Id) := none
  initShape : Option (List Id) := none
  predCenter : Option Dict := none
  predShape : Option Dict := none
  deriving Inhabited

/-- `Lanelet.static_obstacles_on_lanelet` per lanelet id. -/
abbrev SReg := Id → List Id
/-- `Lanelet.dynamic_obstacles_on_lanelet` per lanelet id: time step → `None` (key absent) or the set. -/
abbrev DReg := Id → T → Option (List Id)

structure St where
  fwd : Id → Fwd          -- attributes of the obstacle objects (kept while an obstacle is outside the scenario)
  statics : List Id       -- keys of Scenario._static_obstacles
  dynamics : List Id      -- keys of Scenario._dynamic_obstacles
  sreg : SReg
  dreg : DReg

def St.init : St :=
  { fwd := fun _ => {}, statics := [], dynamics := [], sreg := fun _ => [], dreg := fun _ _ => none }

def St.setFwd (s : St) (o : Id) (f : Fwd) : St := { s with fwd := fun o' => if o' = o then f else s.fwd o' }

/-! ### lanelet registries (lanelet.py:993-1010) -/

/-- `static_obstacles_on_lanelet.add(o)` (a set: nothing happens when `o` is already in it) -/
def sAdd (r : SReg) (l o : Id) : SReg := fun l' => if l' = l then (if o ∈ r l' then r l' else o :: r l') else r l'
/-- `static_obstacles_on_lanelet.remove(o)` (caller checks membership) -/
def sDel (r : SReg) (l o : Id) : SReg := fun l' => if l' = l then (r l').filter (· ≠ o) else r l'
/-- `if d.get(t) is None: d[t] = set()`; `d[t].add(o)` -/
def dAdd (r : DReg) (l : Id) (t : T) (o : Id) : DReg :=
  fun l' t' => if l' = l ∧ t' = t then
      some (if o ∈ (r l' t').getD [] then (r l' t').getD [] else o :: (r l' t').getD [])
    else r l' t'
/-- `d[t].discard(o)` (caller checks the key) -/
def dDel (r : DReg) (l : Id) (t : T) (o : Id) : DReg :=
  fun l' t' => if l' = l ∧ t' = t then (r l' t').map (·.filter (· ≠ o)) else r l' t'

/-- `for l in ids: find_lanelet_by_id(l).static_obstacles_on_lanelet.add(o)`; an unknown id gives `None.…` → AttributeError -/
def regStatic (E : Env) (o : Id) : List Id → SReg → Res SReg
  | [], r => .ok r
  | l :: ls, r => if l ∈ E.lanelets then regStatic E o ls (sAdd r l o) else .error .attr

/-- `for l in ids: find_lanelet_by_id(l).static_obstacles_on_lanelet.remove(o)`; `set.remove` raises KeyError -/
def unregStatic (E : Env) (o : Id) : List Id → SReg → Res SReg
  | [], r => .ok r
  | l :: ls, r =>
    if l ∈ E.lanelets then
      if o ∈ r l then unregStatic E o ls (sDel r l o) else .error .key
    else .error .attr

def regDyn (E : Env) (o : Id) (t : T) : List Id → DReg → Res DReg
  | [], r => .ok r
  | l :: ls, r => if l ∈ E.lanelets then regDyn E o t ls (dAdd r l t o) else .error .attr

/-- `lanelet_dict[t].discard(o)`: a missing key `t` raises KeyError -/
def unregDyn (E : Env) (o : Id) (t : T) : List Id → DReg → Res DReg
  | [], r => .ok r
  | l :: ls, r =>
    if l ∈ E.lanelets then
      if (r l t).isSome then unregDyn E o t ls (dDel r l t o) else .error .key
    else .error .attr

/-- `for time_step, ids in shape_lanelet_assignment.items(): for lanelet_id in ids: …add` -/
def regItems (E : Env) (o : Id) : Dict → DReg → Res DReg
  | [], r => .ok r
  | (t, ids) :: d, r => do
    let r' ← regDyn E o t ids r
    regItems E o d r'

def unregItems (E : Env) (o : Id) : Dict → DReg → Res DReg
  | [], r => .ok r
  | (t, ids) :: d, r => do
    let r' ← unregDyn E o t ids r
    unregItems E o d r'

/-! ### add_objects / remove_obstacle (scenario.py:712-724, 773-889) -/

/-- `if obstacle.initial_shape_lanelet_ids is not None: for lanelet_id in …: …add` at the initial time step -/
def regInit (E : Env) (o : Id) (f : Fwd) (r : DReg) : Res DReg :=
  match f.initShape with
  | none => .ok r
  | some ids => regDyn E o (E.t0 o) ids r

/-- `if obstacle.prediction is not None and obstacle.prediction.shape_lanelet_assignment is not None: for … in ….items()` -/
def regPred (E : Env) (o : Id) (f : Fwd) (r : DReg) : Res DReg :=
  if E.kind o = Kind.dynTraj then
    match f.predShape with
    | none => .ok r
    | some d => regItems E o d r
  else .ok r

def unregInit (E : Env) (o : Id) (f : Fwd) (r : DReg) : Res DReg :=
  match f.initShape with
  | none => .ok r
  | some ids => unregDyn E o (E.t0 o) ids r

def unregPred (E : Env) (o : Id) (f : Fwd) (r : DReg) : Res DReg :=
  if E.kind o = Kind.dynTraj then
    match f.predShape with
    | none => .ok r
    | some d => unregItems E o d r
  else .ok r

/-- `_add_static_obstacle_to_lanelets(id, ids)`: `if lanelet_ids is None or len(lanelets) == 0: return` -/
def addStaticReg (E : Env) (o : Id) (f : Fwd) (r : SReg) : Res SReg :=
  match f.initShape with
  | none => .ok r
  | some ids => if E.lanelets = [] then .ok r else regStatic E o ids r

/-- `for l_id in …: lanelet = find_lanelet_by_id(l_id); if lanelet is not None: lanelet.static_obstacles_on_lanelet.discard(o)` -/
def discardStatic (E : Env) (o : Id) : List Id → SReg → SReg
  | [], r => r
  | l :: ls, r => discardStatic E o ls (if l ∈ E.lanelets then sDel r l o else r)

/-- `_remove_static_obstacle_from_lanelets(id, ids)` (scenario.py:778-790, after the repair 680e9aa): the obstacle is discarded
    from the lanelets of its shape set AND of its centre set (`use_center_only=True` registers it there); nothing can raise -/
def removeStaticReg (E : Env) (o : Id) (f : Fwd) (r : SReg) : SReg :=
  discardStatic E o (f.initShape.getD [] ++ f.initCenter.getD []) r

/-- `if lanelet is not None and time_step in lanelet.dynamic_obstacles_on_lanelet: ….discard(o)` over a set of lanelet ids -/
def discardDyn (E : Env) (o : Id) (t : T) : List Id → DReg → DReg
  | [], r => r
  | l :: ls, r => discardDyn E o t ls (if l ∈ E.lanelets then dDel r l t o else r)

def discardItems (E : Env) (o : Id) : Dict → DReg → DReg
  | [], r => r
  | (t, ids) :: d, r => discardItems E o d (discardDyn E o t ids r)

/-- the centre part of `_remove_dynamic_obstacle_from_lanelets` (scenario.py:812-820): `prediction.center_lanelet_assignment`
    (if there is a prediction with one) with the initial centre set merged in at the initial time step -/
def unregCenter (E : Env) (o : Id) (f : Fwd) (r : DReg) : DReg :=
  discardItems E o ((if E.kind o = Kind.dynTraj then f.predCenter.getD [] else []) ++ [(E.t0 o, f.initCenter.getD [])]) r

/-- `_add_static_obstacle_to_lanelets(id, obstacle.initial_shape_lanelet_ids)` resp. `_add_dynamic_obstacle_to_lanelets(obstacle)` -/
def addToLanelets (E : Env) (s : St) (o : Id) : Res St :=
  if E.kind o = Kind.static then do
    let r ← addStaticReg E o (s.fwd o) s.sreg
    pure { s with sreg := r }
  else if E.kind o = Kind.dynSet ∨ E.lanelets = [] then .ok s     -- `isinstance(prediction, SetBasedPrediction) or len(…) == 0`
  else do
    let r1 ← regInit E o (s.fwd o) s.dreg
    let r2 ← regPred E o (s.fwd o) r1
    pure { s with dreg := r2 }

/-- `Scenario.add_objects(obstacle)`: `_mark_object_id_as_used` raises ValueError for a used id. -/
def add (E : Env) (s : St) (o : Id) : Res St :=
  if o ∈ s.statics ∨ o ∈ s.dynamics ∨ o ∈ E.lanelets then .error .value
  else if E.kind o = Kind.static then addToLanelets E { s with statics := s.statics ++ [o] } o
  else addToLanelets E { s with dynamics := s.dynamics ++ [o] } o

/-- the shape part of `_remove_dynamic_obstacle_from_lanelets` after the repair d431666 (scenario.py:799-815): both loops are
    guarded like the centre loop (`lanelet is not None and time_step in lanelet.dynamic_obstacles_on_lanelet`), nothing can raise -/
def unregShape (E : Env) (o : Id) (f : Fwd) (r : DReg) : DReg :=
  let r1 := discardDyn E o (E.t0 o) (f.initShape.getD []) r
  if E.kind o = Kind.dynTraj then discardItems E o (f.predShape.getD []) r1 else r1

/-- `Scenario.remove_obstacle(obstacle)` with the obstacle object stored in the scenario (after 680e9aa and d431666): total. -/
def remove (E : Env) (s : St) (o : Id) : Res St :=
  if o ∈ s.statics then
    .ok { s with sreg := removeStaticReg E o (s.fwd o) s.sreg, statics := s.statics.filter (· ≠ o) }
  else if o ∈ s.dynamics then
    if E.kind o = Kind.dynSet ∨ E.lanelets = [] then .ok { s with dynamics := s.dynamics.filter (· ≠ o) }
    else .ok { s with dreg := unregCenter E o (s.fwd o) (unregShape E o (s.fwd o) s.dreg),
                      dynamics := s.dynamics.filter (· ≠ o) }
  else .ok s        -- warning only

/-- LEGACY (before d431666): the shape loops of `_remove_dynamic_obstacle_from_lanelets` unguarded —
    `find_lanelet_by_id(l).dynamic_obstacles_on_lanelet` raises AttributeError for a lanelet that is no longer (or not yet) in
    the network, `lanelet_dict[t]` raises KeyError when the lanelet never registered anything at `t`.  Kept for
    `C07_legacy_remove_raises_witness`. -/
def removeLegacy (E : Env) (s : St) (o : Id) : Res St :=
  if o ∈ s.statics then
    .ok { s with sreg := removeStaticReg E o (s.fwd o) s.sreg, statics := s.statics.filter (· ≠ o) }
  else if o ∈ s.dynamics then
    if E.kind o = Kind.dynSet ∨ E.lanelets = [] then .ok { s with dynamics := s.dynamics.filter (· ≠ o) }
    else do
      let r1 ← unregInit E o (s.fwd o) s.dreg
      let r2 ← unregPred E o (s.fwd o) r1
      pure { s with dreg := unregCenter E o (s.fwd o) r2, dynamics := s.dynamics.filter (· ≠ o) }
  else .ok s

/-! ### assign_obstacles_to_lanelets (scenario.py:1203-1295) -/

/-- attribute updates of `assign_dynamic_obstacle_shape_at_time` on the obstacle object `f` at time step `t`
    (`co` = `use_center_only`); returns the lanelet ids to register and the new attributes.
    `prediction.…_assignment[t] = ids` on a `None` dict is a TypeError. -/
def assignFwd (E : Env) (co : Bool) (o : Id) (f : Fwd) (t : T) : Res (List Id × Fwd) :=
  if E.kind o = Kind.dynSet then .error .attr else do      -- `obstacle.prediction.center_lanelet_assignment[…]`
  let cids := E.cen o t
  -- `if obstacle.prediction is not None: obstacle.prediction.center_lanelet_assignment[time_step] = lanelet_ids_center`
  let f1 ← if E.kind o = Kind.dynTraj then
      match f.predCenter with
      | none => .error .type
      | some d => pure { f with predCenter := some (dictSet d t cids) }
    else pure f
  let (lids, f2) ← if co then pure (cids, f1) else
      if E.kind o = Kind.dynTraj then
        match f1.predShape with
        | none => .error .type
        | some d => pure (E.shp o t, { f1 with predShape := some (dictSet d t (E.shp o t)) })
      else pure (E.shp o t, f1)
  let f3 := if t = E.t0 o then
      { f2 with initShape := if co then f2.initShape else some lids, initCenter := some cids }
    else f2
  pure (lids, f3)

/-- `assign_dynamic_obstacle_shape_at_time(obstacle, time_step)` -/
def assignDynAt (E : Env) (co : Bool) (o : Id) (s : St) (t : T) : Res St :=
  if t ≠ E.t0 o ∧ (E.kind o ≠ .dynTraj ∨ E.tf o < t) then .ok s                 -- `return False`
  else if t < E.t0 o then .error .attr                                         -- state_at_time_step(t) is None
  else do
    let (lids, f3) ← assignFwd E co o (s.fwd o) t
    let r ← regDyn E o t lids s.dreg
    pure { s.setFwd o f3 with dreg := r }

/-- `assign_static_obstacle(obstacle)` -/
def assignStatic (E : Env) (co : Bool) (o : Id) (s : St) : Res St := do
  let f := s.fwd o
  let f1 := if co then f else { f with initShape := some (E.shp o (E.t0 o)) }
  let cids := E.cen o (E.t0 o)
  let f2 := { f1 with initCenter := some cids }
  let lids := if co then cids else E.shp o (E.t0 o)
  let r ← regStatic E o lids s.sreg
  pure { s.setFwd o f2 with sreg := r }

/-- `if obs.prediction is not None:` create the two dicts when they are `None`. -/
def initDicts (co : Bool) (f : Fwd) : Fwd :=
  { f with predShape := if !co && f.predShape.isNone then some [] else f.predShape,
           predCenter := if f.predCenter.isNone then some [] else f.predCenter }

/-- body of `for obs_id in obstacle_ids:` -/
def assignObs (E : Env) (ts : Option (List T)) (co : Bool) (s : St) (o : Id) : Res St :=
  if o ∈ s.dynamics then
    -- `obs.prediction.shape_lanelet_assignment` / `.center_lanelet_assignment` of a SetBasedPrediction: AttributeError
    if E.kind o = Kind.dynSet then .error .attr else
    let steps : List T := match ts with
      | some l => l
      | none => if E.kind o = Kind.dynTraj then trange (E.t0 o) (E.len o) else [E.t0 o]
    let s1 := if E.kind o = .dynTraj then s.setFwd o (initDicts co (s.fwd o)) else s
    steps.foldlM (assignDynAt E co o) s1
  else if o ∈ s.statics then assignStatic E co o s
  else .error .attr        -- obstacle_by_id → None

def assign (E : Env) (ids : Option (List Id)) (ts : Option (List T)) (co : Bool) (s : St) : Res St :=
  (ids.getD (s.statics ++ s.dynamics)).foldlM (assignObs E ts co) s

/-! ### reading a file with `lanelet_assignment=True` -/

/-- StaticObstacleFactory with lanelet_assignment -/
def readStatic (E : Env) (s : St) (o : Id) : Res St := do
  let sids := E.shp o (E.t0 o)
  let cids := E.cen o (E.t0 o)
  let r ← regStatic E o sids s.sreg
  pure { s.setFwd o { initCenter := some cids, initShape := some sids } with sreg := r }

/-- DynamicObstacleFactory with lanelet_assignment: the initial state is assigned (and registered) for a trajectory
    prediction and for no prediction alike; the per-time-step dicts exist only with a trajectory. -/
def readDynamic (E : Env) (s : St) (o : Id) : Res St :=
  -- `<occupancySet>` / `set_based_prediction`: the initial lanelet sets stay `set()`, nothing is registered
  if E.kind o = Kind.dynSet then .ok (s.setFwd o { initCenter := some [], initShape := some [] }) else do
  let t0 := E.t0 o
  let r1 ← regDyn E o t0 (E.shp o t0) s.dreg
  match E.kind o with
  | Kind.dynTraj => do
    -- find_obstacle_shape_lanelets over [initial_state] + state_list
    let steps := trange t0 (E.len o)
    let ps : Dict := steps.map (fun t => (t, E.shp o t))
    let pc : Dict := steps.map (fun t => (t, E.cen o t))
    let r2 ← regItems E o ps r1
    pure { s.setFwd o { initCenter := some (E.cen o t0), initShape := some (E.shp o t0),
                        predCenter := some pc, predShape := some ps } with dreg := r2 }
  | _ =>
    pure { s.setFwd o { initCenter := some (E.cen o t0), initShape := some (E.shp o t0) } with dreg := r1 }

def readObs (E : Env) (s : St) (o : Id) : Res St :=
  if E.kind o = .static then readStatic E s o else readDynamic E s o

/-- the read scenario starts with fresh lanelet objects -/
def St.clearReg (s : St) : St := { s with sreg := fun _ => [], dreg := fun _ _ => none }

/-- XML: every factory first, then `scenario.add_objects(list)` -/
def reopenXml (E : Env) (s : St) : Res St := do
  let s1 ← (s.statics ++ s.dynamics).foldlM (readObs E) s.clearReg
  (s.statics ++ s.dynamics).foldlM (addToLanelets E) s1

/-- protobuf: factory and `scenario.add_objects(obstacle)` per obstacle -/
def reopenPb (E : Env) (s : St) : Res St :=
  (s.statics ++ s.dynamics).foldlM (fun s o => do let s' ← readObs E s o; addToLanelets E s' o) s.clearReg

/-! ### histories -/

inductive Op where
  | add (o : Id)
  | remove (o : Id)
  | assign (ids : Option (List Id)) (ts : Option (List T)) (co : Bool)
  | reopenXml
  | reopenPb

def step (E : Env) (s : St) : Op → Res St
  | .add o => add E s o
  | .remove o => remove E s o
  | .assign ids ts co => assign E ids ts co s
  | .reopenXml => reopenXml E s
  | .reopenPb => reopenPb E s

def run (E : Env) (s : St) (ops : List Op) : Res St := ops.foldlM (step E) s

end CR.Assign
