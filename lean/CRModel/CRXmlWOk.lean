/-
  CRModel.CRXmlWOk — "schema-expressible", as predicates on the data the XML writer reads (CRModel/CRXmlWDoc.lean): the
  minOccurs / facets / required elements / enumerations of the 2020a XSD, per kind of object, and for the whole document
  (`DocOk`), plus the ids the schema's key selector sees (`docIds`) and the references the writer emits (`docRefs`).
  The predicates are decidable (instances below), so the driver evaluates them on every generated scenario (op `expressible`):
  the hypotheses of C03_valid_doc are checked to hold on the documents the harness generates.
-/
import CRModel.CRXmlWDoc
import Gen.XsdScenario
import Gen.PyEnums

namespace CR.C03
open CR.Xsd CR.XmlNum CR.XmlW

abbrev schema : Schema := CR.Xsd.Gen.schema

/-- the schema's simple type `type` accepts the text `v` -/
def acceptsV (type : String) (v : String) : Bool :=
  match simpleOf schema type with
  | some st => st.accepts v.toList
  | none => false

/-- `name` is a member of the enum whose (name, value) table is `tbl` -/
def memberOf (tbl : List (String × String)) (name : String) : Prop := name ∈ tbl.map (·.1)

instance (tbl : List (String × String)) (name : String) : Decidable (memberOf tbl name) := by unfold memberOf; infer_instance

/-! Enum members whose value the 2020a XSD does not enumerate are not schema-expressible.  For the enums with such members
the expressible ones are listed here (the same lists drive the generator, harness/c03_gen.py); `C03_enum_partial` and
`C03_enum_traffic_sign` prove that exactly these are accepted by the schema. -/
def timeOfDayOk : List String := ["NIGHT", "UNKNOWN"]
def weatherOk : List String := ["LIGHT_RAIN", "HEAVY_RAIN", "FOG", "SNOW", "HAIL"]
def undergroundNot : List String := ["UNKNOWN"]
def staticTypes : List String := ["UNKNOWN", "PARKED_VEHICLE", "CONSTRUCTION_ZONE", "ROAD_BOUNDARY"]
def dynamicTypes : List String :=
  ["UNKNOWN", "CAR", "TRUCK", "BUS", "MOTORCYCLE", "BICYCLE", "PEDESTRIAN", "PRIORITY_VEHICLE", "TRAIN", "TAXI"]
def environmentTypes : List String := ["UNKNOWN", "BUILDING", "PILLAR", "MEDIAN_STRIP"]

/-- traffic-sign members whose value the 2020a XSD does not list (besides every `UNKNOWN`, whose value is "") -/
def signNotExpressible : List (String × String) :=
  [("TrafficSignIDArgentina", "MAX_SPEED"), ("TrafficSignIDAustralia", "STOP"), ("TrafficSignIDAustralia", "YIELD"),
   ("TrafficSignIDBelgium", "MAX_SPEED"), ("TrafficSignIDCroatia", "MAX_SPEED"), ("TrafficSignIDFrance", "MAX_SPEED"),
   ("TrafficSignIDGreece", "MAX_SPEED"), ("TrafficSignIDRussia", "MAX_SPEED"), ("TrafficSignIDUsa", "STOP"),
   ("TrafficSignIDUsa", "STOP_4_WAY"), ("TrafficSignIDUsa", "NO_TURN_ON_RED"), ("TrafficSignIDUsa", "ONEWAY"),
   ("TrafficSignIDGermany", "KEEP_STRAIGHT_AHEAD"), ("TrafficSignIDGermany", "LANE_BOARD_3_LANES_NO_OPPOSITE_WITH_SIGNS"),
   ("TrafficSignIDGermany", "ADDITION_SCHOOL"), ("TrafficSignIDGermany", "ADDITION_KINDERGARTEN"),
   ("TrafficSignIDGermany", "ADDITION_RETIREMENT_HOME"), ("TrafficSignIDGermany", "ADDITION_HOSPITAL"),
   ("TrafficSignIDZamunda", "KEEP_STRAIGHT_AHEAD"), ("TrafficSignIDZamunda", "LANE_BOARD_3_LANES_NO_OPPOSITE_WITH_SIGNS"),
   ("TrafficSignIDZamunda", "ADDITION_SCHOOL"), ("TrafficSignIDZamunda", "ADDITION_KINDERGARTEN"),
   ("TrafficSignIDZamunda", "ADDITION_RETIREMENT_HOME"), ("TrafficSignIDZamunda", "ADDITION_HOSPITAL")]

/-- a traffic-sign element the schema can express: a member of its country class, not `UNKNOWN`, not one of the listed ones -/
def SignElemOk (e : String × String × List String) : Prop :=
  (signEntry e.1 e.2.1).isSome = true ∧ e.2.1 ≠ "UNKNOWN" ∧ (e.1, e.2.1) ∉ signNotExpressible

/-- the repr of a finite float: plain, or scientific with a lower-case `e` (what Python prints) -/
def Fin (x : Num) : Prop := isPlainRepr x.repr = true ∨ (isSciRepr x.repr = true ∧ x.repr.contains 'e' = true)

/-- a finite float greater than zero -/
def PosNum (x : Num) : Prop := Fin x ∧ isNeg x.repr = false ∧ (mantissa x.repr).any nz = true

def PtOk (q : Pt) : Prop := Fin q.x ∧ Fin q.y ∧ ∀ z, q.z = some z → Fin z

def Shape1Ok : Shape1 → Prop
  | .rect l w o cx cy => PosNum l ∧ PosNum w ∧ Fin o ∧ Fin cx ∧ Fin cy
  | .circ r cx cy => PosNum r ∧ Fin cx ∧ Fin cy
  | .poly vs => 3 ≤ vs.length ∧ ∀ v ∈ vs, Fin v.1 ∧ Fin v.2

def ShapeOk (s : List Shape1) : Prop := s ≠ [] ∧ ∀ x ∈ s, Shape1Ok x

def ValOk : Val → Prop
  | .exact x => Fin x
  | .interval a b => Fin a ∧ Fin b

/-- time of a trajectory state, a signal-series state or an occupancy: a positive step, or an interval -/
def TimeOk : TimeV → Prop
  | .exact t => 1 ≤ t
  | .interval a b => 0 ≤ a ∧ 1 ≤ b

/-- a position the schema can express: a point, a non-empty run of shapes of ONE kind, or a non-empty run of lanelet ids -/
def PosOk : Pos → Prop
  | .point q => PtOk q
  | .shapes s => s ≠ [] ∧ ∃ t, ∀ x ∈ s, x.tag = t ∧ Shape1Ok x
  | .lanelets ids => ids ≠ []

def stateEs (T : String) : List ElemP := elemsOf (schema.content T)

/-- what all four state containers (xs:all) demand of the children: pairwise different element names, all declared by the
    container type, and the required ones present.  DERIVED from the attribute set of the state (`AttrSet`, below) by
    `shape_of_attrs` (CRProofs/XsdDocA.lean); it is not a hypothesis of the validity theorems. -/
def StateShape (T : String) (req : List String) (st : List Attr) : Prop :=
  (st.map Attr.name).Nodup ∧ (∀ a ∈ st, a.name ∈ (stateEs T).map (·.name)) ∧ (∀ r ∈ req, r ∈ st.map Attr.name)

/-- the state attributes (Python names, besides position and time_step) whose element the `state` / `initialState` types
    declare: the fields of InitialState, PMState, KSState, STState, ExtendedPMState, MBState, and the custom attributes
    curvature(_rate), jerk, jounce.  (`hitch_angle`, `front_wheel_angular_speed`, `rear_wheel_angular_speed` — KSTState,
    STDState — have no element in the 2020a schema: `C03_state_attrs_declared`.) -/
def stateAttrs : List String :=
  ["orientation", "velocity", "acceleration", "yaw_rate", "slip_angle", "steering_angle", "roll_angle", "roll_rate",
   "pitch_angle", "pitch_rate", "velocity_y", "position_z", "velocity_z", "roll_angle_front", "roll_rate_front",
   "velocity_y_front", "position_z_front", "velocity_z_front", "roll_angle_rear", "roll_rate_rear", "velocity_y_rear",
   "position_z_rear", "velocity_z_rear", "left_front_wheel_angular_speed", "right_front_wheel_angular_speed",
   "left_rear_wheel_angular_speed", "right_rear_wheel_angular_speed", "delta_y_f", "delta_y_r", "curvature", "curvature_rate",
   "jerk", "jounce"]

/-- attributes of the initial state of a planning problem (`initialStateExact`) and of a goal state -/
def planningAttrs : List String := ["orientation", "velocity", "acceleration", "yaw_rate", "slip_angle"]
def goalAttrs : List String := ["orientation", "velocity"]

/-- the attribute set of a state object: the used attributes are pairwise different attributes (keys of `__dict__`) and
    the required ones are set -/
def AttrSet (req : List String) (st : List Attr) : Prop :=
  (st.map Attr.pyName).Nodup ∧ ∀ r ∈ req, r ∈ st.map Attr.pyName

/-- a trajectory state: position (point / shapes), orientation and time are set; the other attributes are among the ones the
    schema declares, exact or interval; time ≥ 1 -/
def StateOk (st : List Attr) : Prop :=
  AttrSet ["position", "orientation", "time_step"] st ∧ ∀ a ∈ st, match a with
    | .position q => PosOk q
    | .time t => TimeOk t
    | .value n v => n ∈ stateAttrs ∧ ValOk v

/-- the initial state of an obstacle: as a state, but at time step 0 -/
def InitialStateOk (st : List Attr) : Prop :=
  AttrSet ["position", "orientation", "time_step"] st ∧ ∀ a ∈ st, match a with
    | .position q => PosOk q
    | .time t => t = .exact 0
    | .value n v => n ∈ stateAttrs ∧ ValOk v

/-- the initial state of a planning problem: an exact point, exact values, time step 0; velocity, orientation, yaw rate
    and slip angle are required -/
def PlanningInitialStateOk (st : List Attr) : Prop :=
  AttrSet ["position", "velocity", "orientation", "yaw_rate", "slip_angle", "time_step"] st ∧ ∀ a ∈ st, match a with
    | .position q => ∃ pt, q = .point pt ∧ PtOk pt
    | .time t => t = .exact 0
    | .value n v => n ∈ planningAttrs ∧ ∃ x, v = .exact x ∧ Fin x

/-- a goal state: an interval time, optionally a position (shapes of one kind or lanelets) and interval orientation / velocity -/
def GoalStateOk (st : List Attr) : Prop :=
  AttrSet ["time_step"] st ∧ ∀ a ∈ st, match a with
    | .position q => PosOk q ∧ ∀ pt, q ≠ .point pt
    | .time t => ∃ a b, t = .interval a b ∧ 0 ≤ a ∧ 1 ≤ b
    | .value n v => n ∈ goalAttrs ∧ ∃ a b, v = .interval a b ∧ Fin a ∧ Fin b

def OccOk (o : Occ) : Prop := ShapeOk o.shape ∧ TimeOk o.t

def StaticOk (o : StaticObs) : Prop :=
  1 ≤ o.id ∧ o.type ∈ staticTypes ∧ ShapeOk o.shape ∧ InitialStateOk o.init

def EnvObsOk (o : EnvObs) : Prop := 1 ≤ o.id ∧ o.type ∈ environmentTypes ∧ ShapeOk o.shape

/-- a phantom obstacle has a (non-empty) set-based prediction -/
def PhantomOk (o : PhantomObs) : Prop := 1 ≤ o.id ∧ ∃ os, o.occ = some os ∧ os ≠ [] ∧ ∀ x ∈ os, OccOk x

/-- a dynamic obstacle: a prediction is required; the initial signal state is at step 0, the series at steps ≥ 1 -/
def DynOk (o : DynObs) : Prop :=
  1 ≤ o.id ∧ o.type ∈ dynamicTypes ∧ ShapeOk o.shape ∧ InitialStateOk o.init ∧
  (∀ s, o.sig0 = some s → s.t = 0) ∧
  (match o.pred with
   | .none => False
   | .traj sts => sts ≠ [] ∧ ∀ st ∈ sts, StateOk st
   | .occ os => os ≠ [] ∧ ∀ x ∈ os, OccOk x) ∧
  (∀ s ∈ o.series, 1 ≤ s.t)

def PtsOk (pts : List Pt) : Prop := ∀ q ∈ pts, PtOk q

def StopOk (s : StopLineD) : Prop :=
  (∀ a b, s.pts = some (a, b) → PtOk a ∧ PtOk b) ∧ ∃ m, s.marking = some m ∧ memberOf CR.Py.Gen.lineMarking m

def LaneletOk (l : LaneletD) : Prop :=
  1 ≤ l.id ∧ 2 ≤ l.left.length ∧ PtsOk l.left ∧ 2 ≤ l.right.length ∧ PtsOk l.right ∧
  memberOf CR.Py.Gen.lineMarking l.lmLeft ∧ memberOf CR.Py.Gen.lineMarking l.lmRight ∧
  (∀ s, l.stop = some s → StopOk s) ∧ (∀ v ∈ l.types, memberOf CR.Py.Gen.laneletType v) ∧
  (∀ v ∈ l.oneWay, memberOf CR.Py.Gen.roadUser v) ∧ (∀ v ∈ l.bidir, memberOf CR.Py.Gen.roadUser v)

def SignOk (s : SignD) : Prop :=
  1 ≤ s.id ∧ s.elements ≠ [] ∧ (∀ e ∈ s.elements, SignElemOk e) ∧ (∀ q, s.pos = some q → PtOk q)

def LightOk (l : LightD) : Prop :=
  1 ≤ l.id ∧ (∃ es off, l.cycle = some (es, off) ∧ es ≠ [] ∧ ∀ e ∈ es, 1 ≤ e.1 ∧ memberOf CR.Py.Gen.trafficLightState e.2) ∧
  (∀ q, l.pos = some q → PtOk q) ∧ memberOf CR.Py.Gen.trafficLightDirection l.direction

def IncomingOk (i : IncomingD) : Prop := 1 ≤ i.id ∧ i.lanelets ≠ []

def IntersectionOk (x : IntersectionD) : Prop := 1 ≤ x.id ∧ x.incomings ≠ [] ∧ ∀ i ∈ x.incomings, IncomingOk i

def ProblemOk (q : ProblemD) : Prop :=
  1 ≤ q.id ∧ PlanningInitialStateOk q.init ∧ q.goals ≠ [] ∧ ∀ g ∈ q.goals, GoalStateOk g

def GeoOk (g : GeoD) : Prop := Fin g.x ∧ Fin g.y ∧ Fin g.rot ∧ PosNum g.scale

def EnvOk (e : EnvD) : Prop :=
  e.hours < 24 ∧ e.minutes < 60 ∧ e.timeOfDay ∈ timeOfDayOk ∧ e.weather ∈ weatherOk ∧
  (memberOf CR.Py.Gen.underground e.underground ∧ e.underground ∉ undergroundNot)

def LocationOk (l : LocationD) : Prop :=
  Fin l.lat ∧ Fin l.lon ∧ (∀ g, l.geo = some g → GeoOk g) ∧ (∀ e, l.env = some e → EnvOk e)

/-- a set of `Tag` members -/
def TagsOk (tags : List String) : Prop := tags.Nodup ∧ ∀ t ∈ tags, memberOf CR.Py.Gen.tag t

def HeaderOk (d : DocD) : Prop :=
  Fin d.dt ∧ isDate d.date.toList = true

/-- **schema-expressible document**: header, location, tags and every object are expressible, and there is at least one
    lanelet and one planning problem -/
def DocOk (d : DocD) : Prop :=
  HeaderOk d ∧ LocationOk d.location ∧ TagsOk d.tags ∧ d.lanelets ≠ [] ∧ (∀ l ∈ d.lanelets, LaneletOk l) ∧
  (∀ s ∈ d.signs, SignOk s) ∧ (∀ l ∈ d.lights, LightOk l) ∧ (∀ x ∈ d.intersections, IntersectionOk x) ∧
  (∀ o ∈ d.statics, StaticOk o) ∧ (∀ o ∈ d.dynamics, DynOk o) ∧ (∀ o ∈ d.phantoms, PhantomOk o) ∧
  (∀ o ∈ d.envs, EnvObsOk o) ∧ d.problems ≠ [] ∧ (∀ q ∈ d.problems, ProblemOk q)

/-- the ids the key selector sees, in selector order: lanelets, signs, lights, intersections, the four obstacle families,
    planning problems, and the incomings of the intersections -/
def docIds (d : DocD) : List Int :=
  d.lanelets.map (·.id) ++ d.signs.map (·.id) ++ d.lights.map (·.id) ++ d.intersections.map (·.id) ++
  d.statics.map (·.id) ++ d.dynamics.map (·.id) ++ d.phantoms.map (·.id) ++ d.envs.map (·.id) ++ d.problems.map (·.id) ++
  d.intersections.flatMap (fun x => x.incomings.map (·.id))

def istr (i : Int) : String := String.ofList (intStr i)

def posRefs : CR.XmlW.Pos → List Int
  | .lanelets ids => ids
  | _ => []

def attrRefs : Attr → List Int
  | .position q => posRefs q
  | _ => []

def stateRefs (st : List Attr) : List Int := st.flatMap attrRefs

def stopRefs (s : StopLineD) : List Int := s.signs ++ s.lights

def optId : Option (Int × Bool) → List Int
  | some (i, _) => [i]
  | none => []

def optStopRefs : Option StopLineD → List Int
  | some s => stopRefs s
  | none => []

def optInt : Option Int → List Int
  | some j => [j]
  | none => []

def laneletRefs (l : LaneletD) : List Int :=
  l.pred ++ l.succ ++ optId l.adjL ++ optId l.adjR ++ optStopRefs l.stop ++ l.signs ++ l.lights

def incomingRefs (i : IncomingD) : List Int :=
  i.lanelets ++ i.right ++ i.straight ++ i.left ++ optInt i.leftOf

def intersectionRefs (x : IntersectionD) : List Int := x.incomings.flatMap incomingRefs ++ x.crossings

def predRefs : Prediction → List Int
  | .traj sts => sts.flatMap stateRefs
  | _ => []

def problemRefs (q : ProblemD) : List Int := stateRefs q.init ++ q.goals.flatMap stateRefs

/-- every `@ref` the writer emits, in document order -/
def docRefs (d : DocD) : List Int :=
  d.lanelets.flatMap laneletRefs ++ d.intersections.flatMap intersectionRefs ++ d.statics.flatMap (fun o => stateRefs o.init) ++
  d.dynamics.flatMap (fun o => stateRefs o.init ++ predRefs o.pred) ++ d.problems.flatMap problemRefs


/-- **schema-expressible scenario**: the hypotheses of `C03_valid_doc` -/
def Expressible (d : DocD) : Prop := DocOk d ∧ (docIds d).Nodup ∧ ∀ r ∈ docRefs d, r ∈ docIds d

/-! ### decidability: the predicates are evaluated by the driver on every generated scenario -/

section Dec

instance optAllDec {α} (o : Option α) (P : α → Prop) [∀ a, Decidable (P a)] : Decidable (∀ a, o = some a → P a) :=
  match o with
  | none => isTrue (by intro a h; cases h)
  | some a => if h : P a then isTrue (by intro b hb; cases hb; exact h) else isFalse (fun hh => h (hh a rfl))

instance optAll2Dec {α β} (o : Option (α × β)) (P : α → β → Prop) [∀ a b, Decidable (P a b)] :
    Decidable (∀ a b, o = some (a, b) → P a b) :=
  match o with
  | none => isTrue (by intro a b h; cases h)
  | some (a, b) => if h : P a b then isTrue (by intro a' b' hb; cases hb; exact h) else isFalse (fun hh => h (hh a b rfl))

instance optExDec {α} (o : Option α) (P : α → Prop) [∀ a, Decidable (P a)] : Decidable (∃ a, o = some a ∧ P a) :=
  match o with
  | none => isFalse (by rintro ⟨a, h, _⟩; cases h)
  | some a => if h : P a then isTrue ⟨a, rfl, h⟩ else isFalse (by rintro ⟨b, hb, hp⟩; cases hb; exact h hp)

instance optEx2Dec {α β} (o : Option (α × β)) (P : α → β → Prop) [∀ a b, Decidable (P a b)] :
    Decidable (∃ a b, o = some (a, b) ∧ P a b) :=
  match o with
  | none => isFalse (by rintro ⟨a, b, h, _⟩; cases h)
  | some (a, b) => if h : P a b then isTrue ⟨a, b, rfl, h⟩ else isFalse (by rintro ⟨a', b', hb, hp⟩; cases hb; exact h hp)

instance (x : Num) : Decidable (Fin x) := by unfold Fin; infer_instance
instance (x : Num) : Decidable (PosNum x) := by unfold PosNum; infer_instance
instance (q : Pt) : Decidable (PtOk q) := by unfold PtOk; infer_instance

instance (s : Shape1) : Decidable (Shape1Ok s) := by
  cases s <;> (dsimp only [Shape1Ok]; infer_instance)

instance (s : List Shape1) : Decidable (ShapeOk s) := by unfold ShapeOk; infer_instance

instance (v : Val) : Decidable (ValOk v) := by
  cases v <;> (dsimp only [ValOk]; infer_instance)

instance (t : TimeV) : Decidable (TimeOk t) := by
  cases t <;> (dsimp only [TimeOk]; infer_instance)

instance sameKindDec (s : List Shape1) : Decidable (∃ t, ∀ x ∈ s, x.tag = t ∧ Shape1Ok x) :=
  match s with
  | [] => isTrue ⟨"", by intro x hx; cases hx⟩
  | y :: ys =>
    decidable_of_iff (∀ x ∈ y :: ys, x.tag = y.tag ∧ Shape1Ok x)
      ⟨fun h => ⟨y.tag, h⟩, fun ⟨t, h⟩ => by
        have ht := (h y List.mem_cons_self).1
        intro x hx; rw [ht]; exact h x hx⟩

instance (q : CR.XmlW.Pos) : Decidable (PosOk q) := by
  cases q <;> (dsimp only [PosOk]; infer_instance)

instance (T : String) (req : List String) (st : List Attr) : Decidable (StateShape T req st) := by
  unfold StateShape; infer_instance

instance (req : List String) (st : List Attr) : Decidable (AttrSet req st) := by unfold AttrSet; infer_instance

instance timeZeroDec (t : TimeV) : Decidable (t = .exact 0) :=
  match t with
  | .exact i => if h : i = 0 then isTrue (by rw [h]) else isFalse (by intro hh; cases hh; exact h rfl)
  | .interval _ _ => isFalse (by intro hh; cases hh)

instance pointExDec (q : CR.XmlW.Pos) : Decidable (∃ pt, q = .point pt ∧ PtOk pt) :=
  match q with
  | .point pt => if h : PtOk pt then isTrue ⟨pt, rfl, h⟩ else isFalse (by rintro ⟨p', hp, hk⟩; cases hp; exact h hk)
  | .shapes _ => isFalse (by rintro ⟨_, hp, _⟩; cases hp)
  | .lanelets _ => isFalse (by rintro ⟨_, hp, _⟩; cases hp)

instance notPointDec (q : CR.XmlW.Pos) : Decidable (∀ pt, q ≠ .point pt) :=
  match q with
  | .point pt => isFalse (fun h => h pt rfl)
  | .shapes _ => isTrue (by intro pt h; cases h)
  | .lanelets _ => isTrue (by intro pt h; cases h)

instance exactExDec (v : Val) : Decidable (∃ x, v = .exact x ∧ Fin x) :=
  match v with
  | .exact x => if h : Fin x then isTrue ⟨x, rfl, h⟩ else isFalse (by rintro ⟨y, hy, hk⟩; cases hy; exact h hk)
  | .interval _ _ => isFalse (by rintro ⟨_, hy, _⟩; cases hy)

instance intervalExDec (v : Val) : Decidable (∃ a b, v = .interval a b ∧ Fin a ∧ Fin b) :=
  match v with
  | .exact _ => isFalse (by rintro ⟨_, _, hy, _⟩; cases hy)
  | .interval a b =>
    if h : Fin a ∧ Fin b then isTrue ⟨a, b, rfl, h⟩ else isFalse (by rintro ⟨a', b', hy, hk⟩; cases hy; exact h hk)

instance timeIntervalExDec (t : TimeV) : Decidable (∃ a b, t = .interval a b ∧ 0 ≤ a ∧ 1 ≤ b) :=
  match t with
  | .exact _ => isFalse (by rintro ⟨_, _, hy, _⟩; cases hy)
  | .interval a b =>
    if h : 0 ≤ a ∧ 1 ≤ b then isTrue ⟨a, b, rfl, h⟩ else isFalse (by rintro ⟨a', b', hy, hk⟩; cases hy; exact h hk)

instance (st : List Attr) : Decidable (StateOk st) := by
  unfold StateOk
  have : ∀ a : Attr, Decidable (match a with
    | .position q => PosOk q
    | .time t => TimeOk t
    | .value n v => n ∈ stateAttrs ∧ ValOk v) := by
    intro a; cases a <;> (dsimp only; infer_instance)
  infer_instance

instance (st : List Attr) : Decidable (InitialStateOk st) := by
  unfold InitialStateOk
  have : ∀ a : Attr, Decidable (match a with
    | .position q => PosOk q
    | .time t => t = .exact 0
    | .value n v => n ∈ stateAttrs ∧ ValOk v) := by
    intro a; cases a <;> (dsimp only; infer_instance)
  infer_instance

instance (st : List Attr) : Decidable (PlanningInitialStateOk st) := by
  unfold PlanningInitialStateOk
  have : ∀ a : Attr, Decidable (match a with
    | .position q => ∃ pt, q = .point pt ∧ PtOk pt
    | .time t => t = .exact 0
    | .value n v => n ∈ planningAttrs ∧ ∃ x, v = .exact x ∧ Fin x) := by
    intro a; cases a <;> (dsimp only; infer_instance)
  infer_instance

instance (st : List Attr) : Decidable (GoalStateOk st) := by
  unfold GoalStateOk
  have : ∀ a : Attr, Decidable (match a with
    | .position q => PosOk q ∧ ∀ pt, q ≠ .point pt
    | .time t => ∃ a b, t = .interval a b ∧ 0 ≤ a ∧ 1 ≤ b
    | .value n v => n ∈ goalAttrs ∧ ∃ a b, v = .interval a b ∧ Fin a ∧ Fin b) := by
    intro a; cases a <;> (dsimp only; infer_instance)
  infer_instance

instance (o : Occ) : Decidable (OccOk o) := by unfold OccOk; infer_instance
instance (o : StaticObs) : Decidable (StaticOk o) := by unfold StaticOk; infer_instance
instance (o : EnvObs) : Decidable (EnvObsOk o) := by unfold EnvObsOk; infer_instance
instance (o : PhantomObs) : Decidable (PhantomOk o) := by unfold PhantomOk; infer_instance

instance (o : DynObs) : Decidable (DynOk o) := by
  unfold DynOk
  have : Decidable (match o.pred with
    | .none => False
    | .traj sts => sts ≠ [] ∧ ∀ st ∈ sts, StateOk st
    | .occ os => os ≠ [] ∧ ∀ x ∈ os, OccOk x) := by
    cases o.pred <;> (dsimp only; infer_instance)
  infer_instance

instance (pts : List Pt) : Decidable (PtsOk pts) := by unfold PtsOk; infer_instance
instance (s : StopLineD) : Decidable (StopOk s) := by unfold StopOk; infer_instance
instance (l : LaneletD) : Decidable (LaneletOk l) := by unfold LaneletOk; infer_instance
instance (e : String × String × List String) : Decidable (SignElemOk e) := by unfold SignElemOk; infer_instance
instance (s : SignD) : Decidable (SignOk s) := by unfold SignOk; infer_instance
instance (l : LightD) : Decidable (LightOk l) := by unfold LightOk; infer_instance
instance (i : IncomingD) : Decidable (IncomingOk i) := by unfold IncomingOk; infer_instance
instance (x : IntersectionD) : Decidable (IntersectionOk x) := by unfold IntersectionOk; infer_instance
instance (q : ProblemD) : Decidable (ProblemOk q) := by unfold ProblemOk; infer_instance
instance (g : GeoD) : Decidable (GeoOk g) := by unfold GeoOk; infer_instance
instance (e : EnvD) : Decidable (EnvOk e) := by unfold EnvOk; infer_instance
instance (l : LocationD) : Decidable (LocationOk l) := by unfold LocationOk; infer_instance
instance (t : List String) : Decidable (TagsOk t) := by unfold TagsOk; infer_instance
instance (d : DocD) : Decidable (HeaderOk d) := by unfold HeaderOk; infer_instance
instance (d : DocD) : Decidable (DocOk d) := by unfold DocOk; infer_instance
instance (d : DocD) : Decidable (Expressible d) := by unfold Expressible; infer_instance

end Dec

/-- which clause of `DocOk` fails (driver diagnostics) -/
def explainDoc (d : DocD) : List String :=
  (if decide (HeaderOk d) then [] else ["header"]) ++ (if decide (LocationOk d.location) then [] else ["location"]) ++
  (if decide (TagsOk d.tags) then [] else ["tags"]) ++
  (d.lanelets.filter (fun l => !decide (LaneletOk l))).map (fun l => s!"lanelet {l.id}") ++
  (d.signs.filter (fun l => !decide (SignOk l))).map (fun l => s!"sign {l.id}") ++
  (d.lights.filter (fun l => !decide (LightOk l))).map (fun l => s!"light {l.id}") ++
  (d.intersections.filter (fun l => !decide (IntersectionOk l))).map (fun l => s!"intersection {l.id}") ++
  (d.statics.filter (fun l => !decide (StaticOk l))).map (fun l => s!"static {l.id}") ++
  (d.dynamics.filter (fun l => !decide (DynOk l))).map (fun l => s!"dynamic {l.id}") ++
  (d.phantoms.filter (fun l => !decide (PhantomOk l))).map (fun l => s!"phantom {l.id}") ++
  (d.envs.filter (fun l => !decide (EnvObsOk l))).map (fun l => s!"environment {l.id}") ++
  (d.problems.filter (fun l => !decide (ProblemOk l))).map (fun l => s!"problem {l.id}") ++
  (if decide ((docIds d).Nodup) then [] else ["ids not unique"]) ++
  (if decide (∀ r ∈ docRefs d, r ∈ docIds d) then [] else ["dangling reference"])

end CR.C03
