/-
  CRModel.Cache — model of the derived-data caches of commonroad-io and of the public mutators
  that must keep them in step with the primary data (property C11).

  Cached items (one `Item` each) and where they live:
    * `TrajectoryPrediction.occupancy_set`            prediction/prediction.py:290-293 (cached_property),
        `_invalidate_occupancy_set` :295-298, setters :305-329, :367-370, `translate_rotate` :372-388
    * `Obstacle._initial_occupancy_shape`             scenario/obstacle.py:240-255 (recomputed in the setter),
        `StaticObstacle.translate_rotate` :401-417, `DynamicObstacle.translate_rotate` :644-663,
        `update_initial_state` :665-712, `update_prediction` :714-725
    * `Lanelet._polygon`, `_distance`, `_inner_distance`   scenario/lanelet.py:147-150, 293-314, 603-659
    * `LaneletNetwork._buffered_polygons` / `_strtee` / `_lanelet_id_index_by_id`
                                                     scenario/lanelet.py:1279-1318, 1568-1613, 1786-1808, 1920-1978
    * `TrafficLightCycle._cycle_init_timesteps`       scenario/traffic_light.py:138-185

  Primary data are represented by *version tokens* (naturals handed out by the caller: a field that is
  overwritten gets a new token), a cache slot by the tokens it was computed from.  So the model says, for
  every query, from WHICH version of the primary data the answer is derived; the harness materialises the
  tokens (a fresh object built from the snapshot taken at that version) and compares with the real answer.
  The traffic-light cycle is modelled with its real data (integers), re-using CRModel.TrafficLight.

  The action every mutator takes on every cache is ONE total function (`act : Item → Mut → Action`, no default row), each
  mutator has ONE write-set (`writesOf`), each cache one read-set (`reads`).  The executable models below call `act` for
  every pair a mutator can reach (the one exception: `update_initial_state` sets `prediction := None`, so whatever the action on
  the departing prediction's occupancy cache is called makes no difference), so the table is what the driver runs, what the
  correspondence in harness/c11.py tests pair by pair, and what the theorems are about.

  Three pairs break the side condition "kept ⇒ nothing read is written" ON THE REAL CODE (known findings; `unsoundPairs`,
  theorem C11_unsound_pairs, witnesses C11_witness_*): a Trajectory / Lanelet has no reference to the prediction / network
  that holds it, so `prediction.trajectory.translate_rotate(…)`, `prediction.trajectory.append_state(…)` and
  `network.find_lanelet_by_id(i).translate_rotate(…)` leave `occupancy_set` / the spatial index stale.  (In-place edits of a
  cycle's elements were a fourth and fifth such pair until fix 233baea made the cumulative time steps validate themselves.)
-/
import CRModel.Basic
import CRModel.TrafficLight
namespace CR.Cache

/-! ## Invalidation actions -/

/-- What a mutator does to a cache slot. -/
inductive Action where
  | drop        -- forget the cached value (recomputed lazily by the next query)
  | recompute   -- recompute eagerly from the new primary data
  | update      -- patch the cached value incrementally (what was cached before stays, whether fresh or not)
  | keep        -- leave the slot alone
  deriving DecidableEq, Repr, Inhabited

/-- `fresh` is the value derived from the NEW primary data, `patch` the incremental update of the mutator,
    `old` the slot before the mutator. -/
def Action.apply {D : Type} (a : Action) (fresh : D) (patch : D → D) (old : Option D) : Option D :=
  match a with
  | .drop => none
  | .recompute => some fresh
  | .update => old.map patch
  | .keep => old

/-- For caches the code never patches incrementally: an `update` entry would have to produce the fresh value. -/
def Action.applySimple {D : Type} (a : Action) (fresh : D) (old : Option D) : Option D :=
  a.apply fresh (fun _ => fresh) old

/-! ## One cached cell, generically -/

structure Cell (P D : Type) where
  primary : P
  cache : Option D

/-- A cached item: how the derived value is computed, what each mutator does to the primary data and
    which action the code takes on the cache. -/
structure Spec (P D M : Type) where
  derive : P → D
  eff : M → P → P
  act : M → Action
  upd : M → D → D := fun _ d => d     -- the incremental patch of a mutator whose action is `update`

inductive Ev (M : Type) where
  | query
  | mutate (m : M)

namespace Spec
variable {P D M : Type} (S : Spec P D M)

/-- The answer of a query: the cached value if there is one, else a fresh computation. -/
def answer (c : Cell P D) : D := c.cache.getD (S.derive c.primary)

def step (c : Cell P D) : Ev M → Cell P D
  | .query => ⟨c.primary, some (S.answer c)⟩
  | .mutate m => ⟨S.eff m c.primary, (S.act m).apply (S.derive (S.eff m c.primary)) (S.upd m) c.cache⟩

def run (c : Cell P D) : List (Ev M) → Cell P D
  | [] => c
  | e :: es => run (S.step c e) es

/-- The answers given along a run, each paired with the primary data at the time of the query. -/
def answers (c : Cell P D) : List (Ev M) → List (D × P)
  | [] => []
  | .query :: es => (S.answer c, c.primary) :: answers (S.step c .query) es
  | .mutate m :: es => answers (S.step c (.mutate m)) es

end Spec

/-! ## The mutator table -/

/-- The cached items. -/
inductive Item where
  | occupancySet          -- TrajectoryPrediction.occupancy_set
  | initialOccupancy      -- Obstacle._initial_occupancy_shape
  | laneletPolygon        -- Lanelet._polygon
  | laneletDistance       -- Lanelet._distance
  | laneletInnerDistance  -- Lanelet._inner_distance
  | networkIndex          -- LaneletNetwork._buffered_polygons + _strtee + _lanelet_id_index_by_id (entries of the lanelets present)
  | cycleInit             -- TrafficLightCycle._cycle_init_timesteps
  deriving DecidableEq, Repr, Inhabited

/-- Primary-data fields (what `derive` may read, what a mutator may write). -/
inductive Field where
  | predShape | predTrajectory | predAssignment | predWheelbaseDead
  | obsShape | obsInitialState | obsPrediction | obsHistory
  | lanVertices        -- the three vertex arrays as stored (pose included)
  | lanIntrinsic       -- what is invariant under rigid motions: segment lengths (changes when z is dropped)
  | lanFootprint       -- the x-y footprint of the lanelet polygon (changes under motions, not when z is dropped)
  | netLaneletSet      -- which lanelets are in the network
  | cycDurations | cycStates | cycOffset | cycActive     -- the elements' durations / their states
  deriving DecidableEq, Repr, Inhabited

/-- Public mutators (each is ONE method of the code, whoever holds the object it is called on). -/
inductive Mut where
  -- TrajectoryPrediction (prediction.py): setters :307-371, translate_rotate :373-389 (also SetBasedPrediction :199-213)
  | predSetShape | predSetTrajectory | predSetWheelbase | predSetAssignment | predTranslateRotate
  -- Trajectory (trajectory.py) called on the trajectory a prediction holds: translate_rotate :156-176, append_state :97-123
  | trajTranslateRotate | trajAppendState
  -- Obstacle / StaticObstacle / DynamicObstacle (obstacle.py): :243-257, :224-236, :403-419 / :646-665 (and Scenario.translate_rotate),
  -- prediction= :564-570 / update_prediction :716-727, update_initial_state :667-714
  | obsSetInitialState | obsSetShape | obsTranslateRotate | obsSetPrediction | obsUpdateInitialState
  -- Lanelet (lanelet.py): translate_rotate :603-640, convert_to_2d :642-660 — on a free lanelet or on one a network holds
  | lanTranslateRotate | lanConvert2d
  -- LaneletNetwork (lanelet.py) and the Scenario methods that delegate to it: :1790-1812, :1924-1938, :1604-1617, :1940-1969,
  -- :1971-1982, __deepcopy__ :1308-1322, __getstate__/__setstate__ :1299-1306
  | netAddLanelet | netAddFromNetwork | netRemoveLanelet | netTranslateRotate | netConvert2d | netDeepcopy | netPickle
  | netCreateFrom         -- LaneletNetwork.create_from_lanelet_network(network): a new network from deep copies of the lanelets
  | netReplace            -- Scenario.replace_lanelet_network / add_objects(LaneletNetwork): another network object
  -- TrafficLightCycle (traffic_light.py) setters :145-166
  | cycSetElements | cycSetOffset | cycSetActive
  -- edits that do not go through a setter of the cycle: TrafficLightCycleElement.duration= / .state= on an element the cycle
  -- holds (traffic_light.py:60-93), list methods on the list `cycle_elements` returns (append, pop, insert, …)
  | elemSetDuration | elemSetState | elemsListEdit
  deriving DecidableEq, Repr, Inhabited

def allItems : List Item :=
  [.occupancySet, .initialOccupancy, .laneletPolygon, .laneletDistance, .laneletInnerDistance, .networkIndex, .cycleInit]

def allMuts : List Mut :=
  [.predSetShape, .predSetTrajectory, .predSetWheelbase, .predSetAssignment, .predTranslateRotate, .trajTranslateRotate,
   .trajAppendState, .obsSetInitialState, .obsSetShape, .obsTranslateRotate, .obsSetPrediction, .obsUpdateInitialState,
   .lanTranslateRotate, .lanConvert2d, .netAddLanelet, .netAddFromNetwork, .netRemoveLanelet, .netTranslateRotate,
   .netConvert2d, .netDeepcopy, .netPickle, .netCreateFrom, .netReplace, .cycSetElements, .cycSetOffset, .cycSetActive,
   .elemSetDuration, .elemSetState, .elemsListEdit]

/-- What each derived value reads. -/
def reads : Item → List Field
  | .occupancySet => [.predShape, .predTrajectory]
  | .initialOccupancy => [.obsShape, .obsInitialState]
  | .laneletPolygon => [.lanVertices]
  | .laneletDistance => [.lanIntrinsic]
  | .laneletInnerDistance => [.lanIntrinsic]
  | .networkIndex => [.netLaneletSet, .lanFootprint]
  | .cycleInit => [.cycDurations, .cycOffset]

/-- ONE write-set per mutator: every primary-data field the method overwrites. -/
def writesOf : Mut → List Field
  | .predSetShape => [.predShape]
  | .predSetTrajectory => [.predTrajectory]
  | .predSetWheelbase => [.predWheelbaseDead]     -- the setter assigns `_wheelbase_lenghts`, which nothing reads (prediction.py:369-371)
  | .predSetAssignment => [.predAssignment]
  | .predTranslateRotate => [.predTrajectory]
  | .trajTranslateRotate => [.predTrajectory]
  | .trajAppendState => [.predTrajectory]
  | .obsSetInitialState => [.obsInitialState]
  | .obsSetShape => []                            -- the shape is immutable after construction (warning only, obstacle.py:224-236)
  -- a dynamic obstacle also moves its state history (obstacle.py:666, fix 6df6dd6) — found by the translator tie T11; no cache reads it
  | .obsTranslateRotate => [.obsInitialState, .predTrajectory, .obsHistory]
  | .obsSetPrediction => [.obsPrediction, .predShape, .predTrajectory, .predAssignment]
  | .obsUpdateInitialState => [.obsInitialState, .obsPrediction, .obsHistory, .predShape, .predTrajectory, .predAssignment]
  | .lanTranslateRotate => [.lanVertices, .lanFootprint]
  | .lanConvert2d => [.lanVertices, .lanIntrinsic]          -- x and y stay: the footprint is not written
  | .netAddLanelet => [.netLaneletSet]
  | .netAddFromNetwork => [.netLaneletSet]
  | .netRemoveLanelet => [.netLaneletSet]
  | .netTranslateRotate => [.lanVertices, .lanFootprint]
  | .netConvert2d => [.lanVertices, .lanIntrinsic]
  | .netDeepcopy => []
  | .netPickle => []
  | .netCreateFrom => []
  | .netReplace => [.netLaneletSet, .lanVertices, .lanIntrinsic, .lanFootprint]
  | .cycSetElements => [.cycDurations, .cycStates]
  | .elemSetDuration => [.cycDurations]
  | .elemSetState => [.cycStates]
  | .elemsListEdit => [.cycDurations, .cycStates]
  | .cycSetOffset => [.cycOffset]
  | .cycSetActive => [.cycActive]

/-- THE TABLE: the action the code takes on every cache for every mutator — a total function, no default.
    Everything not listed for a cache is `keep` *explicitly* (last line of each block), and is then subject to the
    side condition below like every other `keep`. -/
def act : Item → Mut → Action
  -- TrajectoryPrediction.occupancy_set: `_invalidate_occupancy_set()` in the setters and in translate_rotate
  | .occupancySet, .predSetShape => .drop
  | .occupancySet, .predSetTrajectory => .drop
  | .occupancySet, .predSetWheelbase => .drop
  | .occupancySet, .predTranslateRotate => .drop        -- (was `keep` before fix 30825cd)
  | .occupancySet, .obsTranslateRotate => .drop         -- obstacle / scenario delegate to prediction.translate_rotate
  | .occupancySet, .obsSetPrediction => .drop           -- another prediction object: the old cache is not carried over
  | .occupancySet, .obsUpdateInitialState => .drop      -- prediction := None (the cache goes away with its prediction)
  | .occupancySet, .trajTranslateRotate => .keep        -- UNSOUND: the held trajectory cannot tell its prediction
  | .occupancySet, .trajAppendState => .keep            -- UNSOUND: the same
  | .occupancySet, _ => .keep
  -- Obstacle._initial_occupancy_shape: recomputed inside the `initial_state` setter, which the other two go through
  | .initialOccupancy, .obsSetInitialState => .recompute
  | .initialOccupancy, .obsTranslateRotate => .recompute
  | .initialOccupancy, .obsUpdateInitialState => .recompute
  | .initialOccupancy, _ => .keep
  -- Lanelet._polygon: rebuilt at the end of translate_rotate / convert_to_2d (the network methods loop over the lanelets)
  | .laneletPolygon, .lanTranslateRotate => .recompute
  | .laneletPolygon, .lanConvert2d => .recompute
  | .laneletPolygon, .netTranslateRotate => .recompute
  | .laneletPolygon, .netConvert2d => .recompute
  | .laneletPolygon, .netReplace => .recompute       -- other lanelet objects with their own caches
  | .laneletPolygon, _ => .keep
  -- Lanelet._distance / _inner_distance: reset by convert_to_2d (fix 4809ac9); kept by motions (lengths are invariant)
  | .laneletDistance, .lanConvert2d => .drop
  | .laneletDistance, .netConvert2d => .drop
  | .laneletDistance, .netReplace => .drop
  | .laneletDistance, _ => .keep
  | .laneletInnerDistance, .lanConvert2d => .drop
  | .laneletInnerDistance, .netConvert2d => .drop
  | .laneletInnerDistance, .netReplace => .drop
  | .laneletInnerDistance, _ => .keep
  -- LaneletNetwork spatial index: add / remove patch `_buffered_polygons` by the one entry and rebuild the tree from it;
  -- translate_rotate rebuilds everything (fix 34e39ea); deepcopy / pickle rebuild the tree from the copied buffered polygons (= keep)
  | .networkIndex, .netAddLanelet => .update
  | .networkIndex, .netAddFromNetwork => .update
  | .networkIndex, .netRemoveLanelet => .update
  | .networkIndex, .netTranslateRotate => .recompute
  | .networkIndex, .netCreateFrom => .recompute      -- the new network stores the polygons of the copied lanelets and builds its tree
  | .networkIndex, .netReplace => .recompute         -- the other network's own (built) index
  | .networkIndex, .lanTranslateRotate => .keep         -- UNSOUND: a lanelet the network holds cannot tell its network
  | .networkIndex, _ => .keep
  -- TrafficLightCycle._cycle_init_timesteps (fix 26cc485)
  | .cycleInit, .cycSetElements => .drop
  | .cycleInit, .cycSetOffset => .drop
  -- the element / the list cannot tell the cycle, but the cached array validates itself against the current durations when it is
  -- read (fix 233baea) and is derived anew if they differ: observably the slot is dropped
  | .cycleInit, .elemSetDuration => .drop
  | .cycleInit, .elemsListEdit => .drop
  | .cycleInit, _ => .keep

structure Row where
  item : Item
  mutator : Mut
  writes : List Field
  action : Action
  deriving Repr

/-- All |Item| × |Mut| pairs as rows. -/
def table : List Row := allItems.flatMap fun i => allMuts.map fun m => ⟨i, m, writesOf m, act i m⟩

/-- The decidable side condition for ONE pair: if the cache is kept, the mutator writes nothing the cached value reads. -/
def pairSound (i : Item) (m : Mut) : Bool :=
  act i m != .keep || (writesOf m).all (fun f => !(reads i).contains f)

def Row.sound (r : Row) : Bool := pairSound r.item r.mutator

/-- The pairs that break the side condition. -/
def unsoundPairs : List (Item × Mut) :=
  allItems.flatMap fun i => (allMuts.filter fun m => !pairSound i m).map fun m => (i, m)

/-- A pair matters for the correspondence if the mutator can reach the cache at all. -/
def Row.touches (r : Row) : Bool := r.action != .keep || r.writes.any (fun f => (reads r.item).contains f)

/-! ### Token semantics of a table row: primary data = field ↦ version token -/

abbrev Store := Field → Nat

/-- A mutator invocation: the mutator and the fresh version token its written fields get. -/
structure Inv where
  m : Mut
  v : Nat

/-- Token semantics of cache `i`: the derived value is the list of versions of the fields it reads; a mutator stamps the
    fields it writes with the new version; `update` re-stamps, in the cached list, exactly the written fields. -/
def tokenSpec (i : Item) : Spec Store (List Nat) Inv where
  derive := fun s => (reads i).map s
  eff := fun x s f => if (writesOf x.m).contains f then x.v else s f
  act := fun x => act i x.m
  upd := fun x d => List.zipWith (fun f old => if (writesOf x.m).contains f then x.v else old) (reads i) d

/-! ## TrajectoryPrediction / obstacles (token model) -/

/-- Primary data of a trajectory: contents version, `initial_time_step`, the `time_step`s of its states in list order
    (the constructor only checks the first one; `append_state` only asks for a larger one: gaps are possible). -/
structure TrajData where
  v : Nat
  t0 : Int
  steps : List Int
  deriving DecidableEq, Repr, Inhabited

def TrajData.len (d : TrajData) : Nat := d.steps.length

/-- A computed `occupancy_set`: the (shape, trajectory) it was computed from. -/
structure OccSet where
  shape : Nat
  traj : TrajData
  deriving DecidableEq, Repr, Inhabited

structure TPred where
  shape : Nat
  traj : TrajData
  cache : Option OccSet
  deriving DecidableEq, Repr, Inhabited

def TPred.derive (p : TPred) : OccSet := ⟨p.shape, p.traj⟩

/-- `occupancy_set` (cached_property): fills the slot. -/
def TPred.occSet (p : TPred) : OccSet × TPred :=
  match p.cache with
  | some c => (c, p)
  | none => (p.derive, { p with cache := some p.derive })

inductive Pred where
  | traj (p : TPred)
  | setb (v : Nat) (ivs : List (Int × Int))   -- SetBasedPrediction: occupancies (version v) with their time steps / closed time intervals, in list order; no cache
  deriving DecidableEq, Repr, Inhabited

/-- Answers of occupancy queries, as tokens. -/
inductive OccAns where
  | none
  | init (shape st : Nat) (t : Int)        -- Occupancy(t, shape placed at initial state version st)
  | traj (shape traj : Nat) (t : Int)      -- occupancy of `shape` at the state of trajectory version `traj` at step t
  | setb (v : Nat) (t : Int)
  deriving DecidableEq, Repr, Inhabited

inductive StAns where
  | none
  | init (st : Nat)
  | traj (traj : Nat) (t : Int)
  deriving DecidableEq, Repr, Inhabited

def inRange (t0 : Int) (len : Nat) (t : Int) : Bool := t0 ≤ t && t < t0 + len

/-- `Prediction.occupancy_at_time_step` (prediction.py:121-140) on a trajectory prediction. -/
def TPred.occAt (p : TPred) (t : Int) : OccAns × TPred :=
  let (c, p') := p.occSet
  (if c.traj.steps.contains t then .traj c.shape c.traj.v t else .none, p')     -- the occupancy whose state has time_step t

def Pred.occAt : Pred → Int → OccAns × Pred
  | .traj p, t => let (a, p') := p.occAt t; (a, .traj p')
  | .setb v ivs, t => (if ivs.any (fun iv => decide (iv.1 ≤ t) && decide (t ≤ iv.2)) then .setb v t else .none, .setb v ivs)

/-- An entry of `DynamicObstacle.history`: the initial state (version `base`) that `update_initial_state` replaced, and the
    motions (versions of the `translate_rotate` calls on the obstacle / scenario) applied to it since, in order. -/
structure HTok where
  base : Nat
  moves : List Nat
  deriving DecidableEq, Repr, Inhabited

def HTok.move (v : Nat) (h : HTok) : HTok := { h with moves := h.moves ++ [v] }

structure Obs where
  dynamic : Bool
  shape : Nat                -- obstacle_shape (immutable after construction)
  init : Nat                 -- version of initial_state
  t0 : Int                   -- initial_state.time_step
  initOcc : Option (Nat × Nat)  -- _initial_occupancy_shape: the (shape, initial state) it was computed from
  pred : Option Pred
  sig : Nat                  -- initial_signal_state / initial_center_lanelet_ids / initial_shape_lanelet_ids (tokens)
  cen : Nat
  shp : Nat
  hist : List HTok           -- history (world-frame states: moved along with the obstacle)
  sigHist : List Nat         -- signal_history, center_lanelet_ids_history, shape_lanelet_ids_history (not spatial)
  cenHist : List Nat
  shpHist : List Nat
  deriving DecidableEq, Repr, Inhabited

inductive ObsOp where
  | setInitialState (v : Nat) (t0 : Int)
  | setShape
  | translateRotate (v : Nat)
  | setPrediction (p : Option Pred)
  | updateInitialState (v : Nat) (t0 : Int) (sig cen shp : Nat) (m : Int)
  | predSetShape (v : Nat)
  | predSetTrajectory (d : TrajData)
  | predSetWheelbase
  | predSetAssignment
  | predTranslateRotate (v : Nat)
  | trajTranslateRotate (v : Nat)      -- obstacle.prediction.trajectory.translate_rotate(…)
  | trajAppendState (v : Nat) (t : Int) -- obstacle.prediction.trajectory.append_state(state with time_step t)
  | predSetOccupancies (v : Nat) (ivs : List (Int × Int))   -- SetBasedPrediction.occupancy_set = …, or an Occupancy of it edited in place
  | setMeta (sig cen shp : Nat)         -- initial_signal_state= / initial_center_lanelet_ids= / initial_shape_lanelet_ids=
  | failed (e : Err)                    -- a mutator that raises before it changes anything (wrong argument type, invalid angle, …)
  | qOcc (t : Int)
  | qState (t : Int)
  | qPredOcc (t : Int)
  | qHist
  deriving DecidableEq, Repr, Inhabited

inductive ObsAns where
  | unit
  | err (e : Err)
  | occ (a : OccAns)
  | st (a : StAns)
  | hist (h : List HTok) (s c p : List Nat)
  deriving DecidableEq, Repr, Inhabited

/-- Python `l[-m:]` for `m > 0`. -/
def lastN {α : Type} (m : Nat) (l : List α) : List α := l.drop (l.length - m)

def Obs.freshInitOcc (o : Obs) : Nat × Nat := (o.shape, o.init)

/-- The value `_initial_occupancy_shape` has when read (always set after construction). -/
def Obs.initOccVal (o : Obs) : Nat × Nat := o.initOcc.getD (0, 0)

/-- The trajectory of a prediction gets new contents through mutator `m`; the table says what happens to the cache. -/
def TPred.mutTraj (m : Mut) (p : TPred) (d : TrajData) : TPred :=
  let p' : TPred := { p with traj := d }
  { p' with cache := (act .occupancySet m).applySimple p'.derive p.cache }

/-- `translate_rotate` reaching a prediction through mutator `m` (prediction / obstacle / scenario / held trajectory). -/
def TPred.move (m : Mut) (p : TPred) (v : Nat) : TPred := p.mutTraj m { p.traj with v := v }

def Pred.move (m : Mut) : Pred → Nat → Pred
  | .traj p, v => .traj (p.move m v)
  | .setb _ ivs, v => .setb v ivs

/-- `obstacle.prediction = new` / `update_prediction(new)`: the slot the obstacle reads is now the one of the new object
    (with whatever that object has cached for itself) — unless the table said the old cache is kept. -/
def Pred.adopt (a : Action) (old : Option Pred) (new : Pred) : Pred :=
  match a, old, new with
  | .keep, some (.traj po), .traj pn => .traj { pn with cache := po.cache }
  | .recompute, _, .traj pn => .traj { pn with cache := some pn.derive }
  | .update, _, .traj pn => .traj { pn with cache := some pn.derive }
  | _, _, _ => new

/-- Apply an operation on the prediction of a dynamic obstacle that must be a TrajectoryPrediction. -/
def Obs.onTPred (o : Obs) (f : TPred → TPred) : ObsAns × Obs :=
  match o.pred with
  | some (.traj p) => (.unit, { o with pred := some (.traj (f p)) })
  | _ => (.err .attr, o)

def Obs.step (o : Obs) : ObsOp → ObsAns × Obs
  | .setInitialState v t0 =>            -- obstacle.py:240-255
    let o' := { o with init := v, t0 := t0 }
    (.unit, { o' with initOcc := (act .initialOccupancy .obsSetInitialState).applySimple o'.freshInitOcc o.initOcc })
  | .setShape =>                         -- obstacle.py:221-233: second assignment only warns
    (.unit, { o with initOcc := (act .initialOccupancy .obsSetShape).applySimple o.freshInitOcc o.initOcc })
  | .translateRotate v =>                -- obstacle.py:401-417 (static), :644-663 (dynamic); scenario.py:1297-1314
    let pred' := if o.dynamic then o.pred.map (fun p => p.move .obsTranslateRotate v) else o.pred  -- delegates to the prediction
    -- obstacle.py:646-667: the dynamic obstacle moves its state history too (fix 6df6dd6); the other history lists are not spatial
    let o' := { o with init := v, pred := pred', hist := if o.dynamic then o.hist.map (HTok.move v) else o.hist }
    (.unit, { o' with initOcc := (act .initialOccupancy .obsTranslateRotate).applySimple o'.freshInitOcc o.initOcc })
  | .setPrediction p =>                  -- obstacle.py:561-568, 714-725
    if !o.dynamic then (.err .attr, o) else
    let o' := { o with pred := p.map (Pred.adopt (act .occupancySet .obsSetPrediction) o.pred) }
    (.unit, { o' with initOcc := (act .initialOccupancy .obsSetPrediction).applySimple o'.freshInitOcc o.initOcc })
  | .updateInitialState v t0 sig cen shp m =>   -- obstacle.py:665-712
    if !o.dynamic then (.err .attr, o) else
    if m ≤ 0 then (.err .assert, o) else
    let h := o.hist ++ [⟨o.init, []⟩]
    let hs := o.sigHist ++ [o.sig]
    let hc := o.cenHist ++ [o.cen]
    let hp := o.shpHist ++ [o.shp]
    let o' := { o with init := v, t0 := t0, sig := sig, cen := cen, shp := shp, pred := none }
    let o' := { o' with initOcc := (act .initialOccupancy .obsUpdateInitialState).applySimple o'.freshInitOcc o.initOcc }
    if h.length > m.toNat then
      (.unit, { o' with hist := lastN m.toNat h, sigHist := lastN m.toNat hs, cenHist := lastN m.toNat hc,
                        shpHist := lastN m.toNat hp })
    else (.unit, { o' with hist := h, sigHist := hs, cenHist := hc, shpHist := hp })
  | .predSetShape v =>                   -- prediction.py:307-317
    o.onTPred fun p => let p' := { p with shape := v }
                       { p' with cache := (act .occupancySet .predSetShape).applySimple p'.derive p.cache }
  | .predSetTrajectory d =>              -- prediction.py:323-331
    o.onTPred fun p => p.mutTraj .predSetTrajectory d
  | .predSetWheelbase =>                 -- prediction.py:369-371
    o.onTPred fun p => { p with cache := (act .occupancySet .predSetWheelbase).applySimple p.derive p.cache }
  | .predSetAssignment =>                -- prediction.py:337-363
    o.onTPred fun p => { p with cache := (act .occupancySet .predSetAssignment).applySimple p.derive p.cache }
  | .trajTranslateRotate v =>            -- trajectory.py:156-176 on the trajectory the prediction holds
    o.onTPred fun p => p.move .trajTranslateRotate v
  | .trajAppendState v t =>                -- trajectory.py:97-123: one more state at the end
    o.onTPred fun p => p.mutTraj .trajAppendState { p.traj with v := v, steps := p.traj.steps ++ [t] }
  | .predTranslateRotate v =>            -- prediction.py:207-221 (set based), :372-387 (trajectory)
    match o.pred with
    | some p => (.unit, { o with pred := some (p.move .predTranslateRotate v) })
    | none => (.err .attr, o)
  | .predSetOccupancies v ivs =>         -- prediction.py:186-198 (setter), :50-93 (Occupancy setters / translate_rotate): nothing is cached
    match o.pred with
    | some (.setb _ _) => (.unit, { o with pred := some (.setb v ivs) })
    | _ => (.err .attr, o)
  | .setMeta sig cen shp => (.unit, { o with sig := sig, cen := cen, shp := shp })     -- obstacle.py:260-320: plain attributes
  | .failed e => (.err e, o)
  | .qOcc t =>                           -- obstacle.py:419-426 (static), :612-625 (dynamic)
    if !o.dynamic then (.occ (.init o.initOccVal.1 o.initOccVal.2 t), o) else
    if t = o.t0 then (.occ (.init o.initOccVal.1 o.initOccVal.2 t), o) else
    if t > o.t0 then
      match o.pred with
      | some p => let (a, p') := p.occAt t; (.occ a, { o with pred := some p' })
      | none => (.occ .none, o)
    else (.occ .none, o)
  | .qState t =>                         -- obstacle.py:428-435 (static), :627-642 (dynamic)
    if !o.dynamic then (.st (.init o.init), o) else
    if t = o.t0 then (.st (.init o.init), o) else
    match o.pred with
    | some (.setb _ _) => (.st .none, o)
    | some (.traj p) =>
      if t > o.t0 then (.st (if inRange p.traj.t0 p.traj.len t then .traj p.traj.v t else .none), o)
      else (.st .none, o)
    | none => (.st .none, o)
  | .qPredOcc t =>                       -- prediction.py:121-140 called on obstacle.prediction
    match o.pred with
    | some p => let (a, p') := p.occAt t; (.occ a, { o with pred := some p' })
    | none => (.err .attr, o)
  | .qHist => (.hist o.hist o.sigHist o.cenHist o.shpHist, o)

def Obs.run (o : Obs) : List ObsOp → List ObsAns × Obs
  | [] => ([], o)
  | op :: ops =>
    let (a, o') := o.step op
    let (as, o'') := Obs.run o' ops
    (a :: as, o'')

/-! ### `update_initial_state` calls that a validating setter REJECTS (obstacle.py:691-704, setters :242-305)

The method appends the four current values to the four history lists FIRST and only then hands the new values to the property
setters `initial_state=`, `initial_signal_state=`, `initial_center_lanelet_ids=`, `initial_shape_lanelet_ids=`, in this order;
each setter asserts the type of its argument.  A call whose argument number `k` (0 = state, 1 = signal state, 2 = centre ids,
3 = shape ids) is the first invalid one therefore raises AssertionError AFTER all four lists grew by one entry and after the first
`k` values were assigned; the prediction is not dropped and nothing is cut (the lines behind the raising setter are not reached).
The caller may catch the error and go on: the lists must stay in step. -/

/-- The four appends at obstacle.py:695-698. -/
def Obs.pushHist (o : Obs) : Obs :=
  { o with hist := o.hist ++ [⟨o.init, []⟩], sigHist := o.sigHist ++ [o.sig], cenHist := o.cenHist ++ [o.cen],
           shpHist := o.shpHist ++ [o.shp] }

/-- `update_initial_state(…)` whose argument number `k` is the first one a setter rejects (`k ≤ 3`; the arguments behind it never
    reach the object).  Composed of the steps that are reached: bound assertion, the four appends, `initial_state=` (if `k ≥ 1`),
    `initial_signal_state=` (if `k ≥ 2`), `initial_center_lanelet_ids=` (if `k ≥ 3`). -/
def Obs.rejectedUpdate (o : Obs) (k : Nat) (v : Nat) (t0 : Int) (sig cen : Nat) (m : Int) : ObsAns × Obs :=
  if !o.dynamic then (.err .attr, o) else         -- StaticObstacle has no such method
  if m ≤ 0 then (.err .assert, o) else            -- obstacle.py:689: the bound is asserted before anything else
  let o1 := o.pushHist
  let o2 := if 1 ≤ k then (o1.step (.setInitialState v t0)).2 else o1
  let o3 := (o2.step (.setMeta (if 2 ≤ k then sig else o2.sig) (if 3 ≤ k then cen else o2.cen) o2.shp)).2
  (.err .assert, o3)

/-- Operations of an obstacle history including rejected updates. -/
inductive ObsOpX where
  | plain (op : ObsOp)
  | updateRejected (k : Nat) (v : Nat) (t0 : Int) (sig cen : Nat) (m : Int)
  deriving DecidableEq, Repr, Inhabited

def Obs.stepX (o : Obs) : ObsOpX → ObsAns × Obs
  | .plain op => o.step op
  | .updateRejected k v t0 sig cen m => o.rejectedUpdate k v t0 sig cen m

def Obs.runX (o : Obs) : List ObsOpX → List ObsAns × Obs
  | [] => ([], o)
  | op :: ops =>
    let (a, o') := o.stepX op
    let (as, o'') := Obs.runX o' ops
    (a :: as, o'')

/-- The object a public constructor builds from the same primary data: all caches as at construction. -/
def TPred.rebuild (p : TPred) : TPred := { p with cache := none }

def Pred.rebuild : Pred → Pred
  | .traj p => .traj p.rebuild
  | .setb v ivs => .setb v ivs

def Obs.rebuild (o : Obs) : Obs := { o with initOcc := some o.freshInitOcc, pred := o.pred.map Pred.rebuild }

/-! ## Lanelet and lanelet network (token model) -/

structure Lan where
  geo : Nat            -- version of the vertex arrays as stored
  xy : Nat             -- version of the x-y footprint (what the network's spatial index sees)
  intr : Nat           -- version of the motion-invariant geometry (segment lengths)
  is3d : Bool
  poly : Option Nat    -- `_polygon`: the vertex version it was built from
  dist : Option Nat    -- `_distance`: the intrinsic version it was computed from (none = not yet computed)
  inner : Option Nat   -- `_inner_distance`
  deriving DecidableEq, Repr, Inhabited

def Lan.new (v : Nat) (is3d : Bool) : Lan := ⟨v, v, v, is3d, some v, none, none⟩

/-- `Lanelet.translate_rotate` (lanelet.py:603-640); `m` says through which public mutator it is reached.
    3-D vertex arrays make the matrix product fail (ValueError) before anything is assigned. -/
def Lan.move (m : Mut) (l : Lan) (v : Nat) : Except Err Lan :=
  if l.is3d then .error .value else
  let l' := { l with geo := v, xy := v }
  .ok { l' with poly := (act .laneletPolygon m).applySimple l'.geo l.poly,
                dist := (act .laneletDistance m).applySimple l'.intr l.dist,
                inner := (act .laneletInnerDistance m).applySimple l'.intr l.inner }

/-- `Lanelet.convert_to_2d` (lanelet.py:642-659). -/
def Lan.flatten (m : Mut) (l : Lan) (v : Nat) : Lan :=
  let l' := if l.is3d then { l with geo := v, intr := v, is3d := false } else l
  { l' with poly := (act .laneletPolygon m).applySimple l'.geo l.poly,
            dist := (act .laneletDistance m).applySimple l'.intr l.dist,
            inner := (act .laneletInnerDistance m).applySimple l'.intr l.inner }

/-- A lanelet of the network that replaces the old one: its caches are its own (what the table calls recompute / drop
    for the caches of "the lanelets of the network"); a `keep` entry would mean the old network's caches were carried over. -/
def Lan.replaced (l : Lan) : Lan :=
  { l with poly := (act .laneletPolygon .netReplace).applySimple l.geo l.poly,
           dist := match act .laneletDistance .netReplace with | .drop => l.dist | a => a.applySimple l.intr l.dist,
           inner := match act .laneletInnerDistance .netReplace with | .drop => l.inner | a => a.applySimple l.intr l.inner }

def Lan.qDist (l : Lan) : Nat × Lan :=
  match l.dist with
  | some d => (d, l)
  | none => (l.intr, { l with dist := some l.intr })

def Lan.qInner (l : Lan) : Nat × Lan :=
  match l.inner with
  | some d => (d, l)
  | none => (l.intr, { l with inner := some l.intr })

def Lan.rebuild (l : Lan) : Lan := { l with poly := some l.geo, dist := none, inner := none }

/-- id ↦ value association lists in dict (insertion) order. -/
def assocGet {α : Type} (k : Nat) : List (Nat × α) → Option α
  | [] => none
  | (i, a) :: r => if i = k then some a else assocGet k r

def assocErase {α : Type} (k : Nat) (l : List (Nat × α)) : List (Nat × α) := l.filter (fun p => p.1 != k)

def assocSet {α : Type} (k : Nat) (a : α) : List (Nat × α) → List (Nat × α)
  | [] => []
  | (i, b) :: r => if i = k then (i, a) :: r else (i, b) :: assocSet k a r

structure Net where
  lanelets : List (Nat × Lan)          -- `_lanelets`
  buffered : List (Nat × Nat)          -- `_buffered_polygons`: id ↦ footprint version the stored shapely polygon was built from
  tree : Option (List (Nat × Nat))     -- `_strtee` + `_lanelet_id_index_by_id`: contents at the last `_create_strtree`
  deriving DecidableEq, Repr, Inhabited

/-- What the buffered polygons of a freshly built network hold: the current polygon of every lanelet. -/
def Net.freshEntries (n : Net) : List (Nat × Nat) := n.lanelets.map (fun p => (p.1, p.2.xy))

def Net.createTree (n : Net) : Net := { n with tree := some n.buffered }

/-- The index part of mutator `m`: apply the table's action to `_buffered_polygons` + tree.  `old` is the network before,
    `patched` the buffered polygons after the code's incremental edit of the one entry concerned (what `update` installs and
    rebuilds the tree from), `n` the network with the new primary data. -/
def Net.reindex (m : Mut) (old : Net) (patched : List (Nat × Nat)) (n : Net) : Net :=
  match act .networkIndex m with
  | .recompute => { n with buffered := n.freshEntries, tree := some n.freshEntries }
  | .update => { n with buffered := patched, tree := some patched }
  | .drop => { n with buffered := [], tree := none }
  | .keep => { n with buffered := old.buffered, tree := old.tree }

/-- Move all lanelets; stops at the first lanelet that raises (the ones before it are already moved). -/
def moveAll (v : Nat) : List (Nat × Lan) → List (Nat × Lan) × Option Err
  | [] => ([], none)
  | (i, l) :: r =>
    match l.move .netTranslateRotate v with
    | .error e => ((i, l) :: r, some e)
    | .ok l' => let (r', e) := moveAll v r; ((i, l') :: r', e)

inductive NetOp where
  | add (id : Nat) (l : Lan) (rtree : Bool)
  | addFrom (ls : List (Nat × Lan))
  | remove (id : Nat) (rtree : Bool)
  | removeMany (ids : List (Nat × Bool))      -- Scenario.remove_lanelet(lanelet or list): may raise half way (see `Net.removeMany`)
  | translateRotate (v : Nat)
  | convert2d (v : Nat)
  | lanTranslateRotate (id : Nat) (v : Nat)   -- network.find_lanelet_by_id(id).translate_rotate(…): a lanelet the network holds
  | lanConvert2d (id : Nat) (v : Nat)         -- network.find_lanelet_by_id(id).convert_to_2d()
  | deepcopy
  | pickle
  | createFrom            -- continue on LaneletNetwork.create_from_lanelet_network(network)
  | replace (ls : List (Nat × Lan))   -- Scenario.replace_lanelet_network(create_from_lanelet_list(ls)) / add_objects(network)
  | replaceErase (unreg : List Nat) (ls : List (Nat × Lan))
      -- Scenario.replace_lanelet_network(network): FIRST `erase_lanelet_network`, i.e. `self.remove_lanelet(la)` for every lanelet
      -- (scenario.py:901-902) — which raises KeyError half way at a lanelet the scenario has not registered (`unreg`) —, THEN the new network
  | failed (e : Err)      -- a mutator that raises before it changes anything
  | qFind                 -- find_lanelet_by_position / find_lanelet_by_shape: the index contents that answer
  | qPoly (id : Nat)
  | qDist (id : Nat)
  | qInner (id : Nat)
  deriving DecidableEq, Repr, Inhabited

inductive NetAns where
  | unit
  | bool (b : Bool)
  | err (e : Err)
  | index (entries : List (Nat × Nat))
  | tok (v : Nat)
  deriving DecidableEq, Repr, Inhabited

/-- `add_lanelet` (lanelet.py:1790-1812): refuses an id that is already there; stores the polygon of the new lanelet and,
    unless `rtree=False` was asked for, rebuilds the tree — which action that is on the index is the table's entry. -/
def Net.addOne (n : Net) (id : Nat) (l : Lan) (rtree : Bool) : Bool × Net :=
  match assocGet id n.lanelets with
  | some _ => (false, n)
  | none =>
    let patched := n.buffered ++ [(id, l.xy)]
    let n' := { n with lanelets := n.lanelets ++ [(id, l)] }
    (true, if rtree then Net.reindex .netAddLanelet n patched n' else { n' with buffered := patched })

/-- The loop of `add_lanelets_from_network` (lanelet.py:1929-1931): `flag = flag and self.add_lanelet(la, rtree=False)` —
    `and` short-circuits, so after the first refused lanelet nothing more is added. -/
def Net.addAll (n : Net) : List (Nat × Lan) → Bool → Bool × Net
  | [], flag => (flag, n)
  | (id, l) :: r, flag =>
    if flag then
      let (b, n') := n.addOne id l false
      Net.addAll n' r b
    else (false, n)

/-- `LaneletNetwork.remove_lanelet` (lanelet.py:1607-1620): an unknown id is ignored; the tree is rebuilt unless `rtree=False`. -/
def Net.removeOne (n : Net) (id : Nat) (rtree : Bool) : Net :=
  let n' := match assocGet id n.lanelets with
    | some _ => { n with lanelets := assocErase id n.lanelets }
    | none => n
  let patched := match assocGet id n.lanelets with
    | some _ => assocErase id n.buffered
    | none => n.buffered
  if rtree then Net.reindex .netRemoveLanelet n patched n' else { n' with buffered := patched }

/-- `Scenario.remove_lanelet` (scenario.py:950-977), single lanelet or list: for every lanelet IN ORDER
    `if find_lanelet_by_id(id) is None: raise KeyError`, then `lanelet_network.remove_lanelet(id)` (tree rebuilt), then
    `_id_set.remove(id)`, which raises KeyError for an id the scenario never registered (a lanelet added through
    `scenario.lanelet_network.add_lanelet`).  The call can therefore FAIL HALF WAY: the lanelets before the offending one — and an
    unregistered one itself — are gone from the network.  The flag says whether the id is in the scenario's id set. -/
def Net.removeMany (n : Net) : List (Nat × Bool) → NetAns × Net
  | [] => (.unit, n)
  | (id, registered) :: r =>
    match assocGet id n.lanelets with
    | none => (.err .key, n)
    | some _ => if registered then Net.removeMany (n.removeOne id true) r else (.err .key, n.removeOne id true)

def Net.step (n : Net) : NetOp → NetAns × Net
  | .add id l rtree => let (b, n') := n.addOne id l rtree; (.bool b, n')
  | .addFrom ls =>                        -- lanelet.py:1924-1938: adds with rtree=False, then one rebuild
    let (b, n') := n.addAll ls true
    (.bool b, Net.reindex .netAddFromNetwork n n'.buffered n')
  | .remove id rtree => (.unit, n.removeOne id rtree)
  | .removeMany ids => n.removeMany ids
  | .translateRotate v =>                 -- lanelet.py:1936-1965
    let (ls, e) := moveAll v n.lanelets
    match e with
    | some e => (.err e, { n with lanelets := ls })
    | none => (.unit, Net.reindex .netTranslateRotate n n.buffered { n with lanelets := ls })
  | .convert2d v =>                       -- lanelet.py:1967-1978
    (.unit, Net.reindex .netConvert2d n n.buffered { n with lanelets := n.lanelets.map (fun p => (p.1, p.2.flatten .netConvert2d v)) })
  | .lanTranslateRotate id v =>           -- lanelet.py:603-640 on a lanelet of `_lanelets`
    match assocGet id n.lanelets with
    | none => (.err .key, n)
    | some l =>
      match l.move .lanTranslateRotate v with
      | .error e => (.err e, n)
      | .ok l' => (.unit, Net.reindex .lanTranslateRotate n n.buffered { n with lanelets := assocSet id l' n.lanelets })
  | .lanConvert2d id v =>                 -- lanelet.py:642-660 on a lanelet of `_lanelets`
    match assocGet id n.lanelets with
    | none => (.err .key, n)
    | some l => (.unit, Net.reindex .lanConvert2d n n.buffered { n with lanelets := assocSet id (l.flatten .lanConvert2d v) n.lanelets })
  | .deepcopy => (.unit, (Net.reindex .netDeepcopy n n.buffered n).createTree)   -- lanelet.py:1308-1322 (we continue on the copy)
  | .pickle => (.unit, (Net.reindex .netPickle n n.buffered n).createTree)       -- lanelet.py:1299-1306
  | .createFrom =>                        -- lanelet.py `create_from_lanelet_network`: deep copies added with rtree=False, then one `_create_strtree`
    (.unit, Net.reindex .netCreateFrom n n.buffered n)
  | .replace ls =>                        -- scenario.py `replace_lanelet_network` / `add_objects(LaneletNetwork)`
    (.unit, Net.reindex .netReplace n n.buffered { n with lanelets := ls.map (fun p => (p.1, p.2.replaced)) })
  | .replaceErase unreg ls =>             -- scenario.py:897-918
    match n.removeMany (n.lanelets.map fun p => (p.1, !unreg.contains p.1)) with
    | (.err e, n') => (.err e, n')
    | _ => (.unit, Net.reindex .netReplace n n.buffered { n with lanelets := ls.map (fun p => (p.1, p.2.replaced)) })
  | .failed e => (.err e, n)
  | .qFind =>                             -- lanelet.py:1980-2019
    match n.tree with
    | none => (.err .attr, n)
    | some t => (.index t, n)
  | .qPoly id =>
    match assocGet id n.lanelets with
    | some l => (.tok (l.poly.getD 0), n)
    | none => (.err .key, n)
  | .qDist id =>
    match assocGet id n.lanelets with
    | some l => let (d, l') := l.qDist; (.tok d, { n with lanelets := assocSet id l' n.lanelets })
    | none => (.err .key, n)
  | .qInner id =>
    match assocGet id n.lanelets with
    | some l => let (d, l') := l.qInner; (.tok d, { n with lanelets := assocSet id l' n.lanelets })
    | none => (.err .key, n)

def Net.run (n : Net) : List NetOp → List NetAns × Net
  | [] => ([], n)
  | op :: ops =>
    let (a, n') := n.step op
    let (as, n'') := Net.run n' ops
    (a :: as, n'')

/-- `LaneletNetwork.create_from_lanelet_list` on lanelets rebuilt from the same vertices. -/
def Net.rebuild (n : Net) : Net :=
  let ls := n.lanelets.map (fun p => (p.1, p.2.rebuild))
  { lanelets := ls, buffered := ls.map (fun p => (p.1, p.2.xy)), tree := some (ls.map (fun p => (p.1, p.2.xy))) }

/-! ### Two networks alive side by side

A second network is derived from the first one by a public factory / copy / adder; BOTH stay alive, both are mutated and
queried.  What the model has to say is whether the derivation COPIES the lanelets or hands the SAME `Lanelet` objects to the
second network.  Lanelets two networks share are moved by either network's `translate_rotate`; the other network is not told —
the member-lanelet pair of the table (`act .networkIndex .lanTranslateRotate = keep`), reached through network-level calls only. -/

inductive Derive where
  | fromList (cleanup : Bool)   -- LaneletNetwork.create_from_lanelet_list(a.lanelets, cleanup_ids): `add_lanelet(copy.deepcopy(la))`
                                -- for every lanelet, whatever `cleanup_ids` (lanelet.py:1459-1461)
  | fromNetwork                 -- LaneletNetwork.create_from_lanelet_network(a): deep copies (lanelet.py:1565-1566)
  | deepcopy                    -- copy.deepcopy(a) (lanelet.py:1308-1322)
  | pickle                      -- pickle.loads(pickle.dumps(a)) (lanelet.py:1299-1306)
  | addFrom                     -- b = LaneletNetwork(); b.add_lanelets_from_network(a): `self.add_lanelet(la, rtree=False)` with
                                -- a's OWN lanelet objects (lanelet.py:1937-1938)
  deriving DecidableEq, Repr, Inhabited

/-- Does the derived network hold the source's lanelet objects? -/
def Derive.shares : Derive → Bool
  | .addFrom => true
  | _ => false

/-- `LaneletNetwork()`: no lanelets, an empty index (fix 790d303). -/
def Net.empty : Net := ⟨[], [], some []⟩

/-- The derived network as the derivation leaves it (lanelet values are copied either way; `shares` says whether they are also
    the same objects). -/
def Net.derive (n : Net) : Derive → Net
  | .fromList _ => Net.reindex .netCreateFrom n n.buffered n
  | .fromNetwork => Net.reindex .netCreateFrom n n.buffered n
  | .deepcopy => (Net.reindex .netDeepcopy n n.buffered n).createTree
  | .pickle => (Net.reindex .netPickle n n.buffered n).createTree
  | .addFrom =>
    let (_, b) := Net.empty.addAll n.lanelets true
    Net.reindex .netAddFromNetwork Net.empty b.buffered b

structure Duo where
  a : Net                 -- the source network
  b : Net                 -- the network derived from it
  shared : List Nat       -- ids of the lanelets that are ONE object held by both networks
  deriving DecidableEq, Repr, Inhabited

def Duo.derive (n : Net) (d : Derive) : Duo := ⟨n, n.derive d, if d.shares then n.lanelets.map (fun p => p.1) else []⟩

inductive Side where
  | a | b
  deriving DecidableEq, Repr, Inhabited

def Duo.side (d : Duo) : Side → Net
  | .a => d.a
  | .b => d.b

/-- After these the history goes on with ANOTHER network object on that side (a copy / other lanelets): nothing is shared any more. -/
def NetOp.detaches : NetOp → Bool
  | .deepcopy => true
  | .pickle => true
  | .createFrom => true
  | .replace _ => true
  | .replaceErase _ _ => true
  | _ => false

/-- A shared lanelet is one object: whatever the call on one network did to it (vertices AND the lanelet's own caches) is what the
    other network's lanelet looks like. -/
def syncShared (shared : List Nat) (src dst : List (Nat × Lan)) : List (Nat × Lan) :=
  dst.map fun p => if shared.contains p.1 then (p.1, (assocGet p.1 src).getD p.2) else p

/-- One operation on one of the two networks.  The network it is called on behaves as `Net.step` says; the other network keeps its
    lanelet SET, its buffered polygons and its tree, and sees the shared lanelet objects as the call left them. -/
def Duo.step (d : Duo) (s : Side) (op : NetOp) : NetAns × Duo :=
  match s with
  | .a =>
    let r := d.a.step op
    let sh := if op.detaches then [] else d.shared.filter fun i => (assocGet i r.2.lanelets).isSome
    (r.1, ⟨r.2, { d.b with lanelets := syncShared sh r.2.lanelets d.b.lanelets }, sh⟩)
  | .b =>
    let r := d.b.step op
    let sh := if op.detaches then [] else d.shared.filter fun i => (assocGet i r.2.lanelets).isSome
    (r.1, ⟨{ d.a with lanelets := syncShared sh r.2.lanelets d.a.lanelets }, r.2, sh⟩)

def Duo.run (d : Duo) : List (Side × NetOp) → List NetAns × Duo
  | [] => ([], d)
  | (s, op) :: ops =>
    let r := d.step s op
    let rs := Duo.run r.2 ops
    (r.1 :: rs.1, rs.2)

/-! ### A single lanelet outside a network -/

inductive LanOp where
  | translateRotate (v : Nat)
  | convert2d (v : Nat)
  | qPoly
  | qDist
  | qInner
  deriving DecidableEq, Repr, Inhabited

def Lan.step (l : Lan) : LanOp → NetAns × Lan
  | .translateRotate v =>
    match l.move .lanTranslateRotate v with
    | .ok l' => (.unit, l')
    | .error e => (.err e, l)
  | .convert2d v => (.unit, l.flatten .lanConvert2d v)
  | .qPoly => (.tok (l.poly.getD 0), l)
  | .qDist => let (d, l') := l.qDist; (.tok d, l')
  | .qInner => let (d, l') := l.qInner; (.tok d, l')

def Lan.run (l : Lan) : List LanOp → List NetAns × Lan
  | [] => ([], l)
  | op :: ops =>
    let (a, l') := l.step op
    let (as, l'') := Lan.run l' ops
    (a :: as, l'')

/-! ## TrafficLightCycle with its real data -/

open CR.TL in
/-- `get_state_at_time_step` (traffic_light.py:180-185) reading a given `_cycle_init_timesteps` array:
    the offset and the element list are read from the object, the cumulative array from the cache. -/
def stateAtWith (init : List Int) (es : List Elem) (off t : Int) : Res Nat :=
  match pyGet? init (-1) with
  | none => .error .index
  | some last =>
    let period := last - off
    if period = 0 then .error .zeroDiv else
    let tm := (t - off).fmod period + off      -- Python `%`: sign of the divisor (as CRModel.TrafficLight.stateAt)
    let i : Int := (argmaxLt tm init : Int) - 1
    match pyGet? es i with
    | none => .error .index
    | some e => .ok e.1

structure Cyc where
  es : List CR.TL.Elem
  off : Int
  active : Bool
  deriving DecidableEq, Repr, Inhabited

inductive CycMut where
  | setElements (es : List CR.TL.Elem)
  | setOffset (off : Int)
  | setActive (b : Bool)
  | setDuration (i : Nat) (d : Int)          -- cycle.cycle_elements[i].duration = d
  | setState (i : Nat) (st : Nat)            -- cycle.cycle_elements[i].state = st
  | listEdit (es : List CR.TL.Elem)          -- cycle.cycle_elements.append(…) / pop / insert / …: the list afterwards
  deriving DecidableEq, Repr, Inhabited

def CycMut.kind : CycMut → Mut
  | .setElements _ => .cycSetElements
  | .setOffset _ => .cycSetOffset
  | .setActive _ => .cycSetActive
  | .setDuration _ _ => .elemSetDuration
  | .setState _ _ => .elemSetState
  | .listEdit _ => .elemsListEdit

def setDurationAt : List CR.TL.Elem → Nat → Int → List CR.TL.Elem
  | [], _, _ => []
  | e :: r, 0, d => (e.1, d) :: r
  | e :: r, i + 1, d => e :: setDurationAt r i d

def setStateAt : List CR.TL.Elem → Nat → Nat → List CR.TL.Elem
  | [], _, _ => []
  | e :: r, 0, st => (st, e.2) :: r
  | e :: r, i + 1, st => e :: setStateAt r i st

/-- The cycle as an instance of the generic cell. -/
def cycSpec : Spec Cyc (List Int) CycMut where
  derive := fun c => CR.TL.initSteps c.es c.off
  eff := fun m c => match m with
    | .setElements es => { c with es := es }
    | .setOffset off => { c with off := off }
    | .setActive b => { c with active := b }
    | .setDuration i d => { c with es := setDurationAt c.es i d }
    | .setState i st => { c with es := setStateAt c.es i st }
    | .listEdit es => { c with es := es }
  act := fun m => act .cycleInit m.kind

abbrev CycCell := Cell Cyc (List Int)

/-- One query `get_state_at_time_step(t)`: fills the slot, answers from it. -/
def cycQuery (c : CycCell) (t : Int) : Res Nat × CycCell :=
  (stateAtWith (cycSpec.answer c) c.primary.es c.primary.off t, cycSpec.step c .query)

inductive CycOp where
  | mutate (m : CycMut)
  | q (ts : List Int)
  | replace (c : Cyc)      -- TrafficLight.traffic_light_cycle = a new cycle object
  deriving Repr, Inhabited

def cycStep (c : CycCell) : CycOp → List (Res Nat) × CycCell
  | .mutate m => ([], cycSpec.step c (.mutate m))
  | .q ts => (ts.map (fun t => (cycQuery c t).1), cycSpec.step c .query)
  | .replace p => ([], ⟨p, none⟩)

def cycRun (c : CycCell) : List CycOp → List (List (Res Nat)) × CycCell
  | [] => ([], c)
  | op :: ops =>
    let (a, c') := cycStep c op
    let (as, c'') := cycRun c' ops
    (a :: as, c'')

end CR.Cache
