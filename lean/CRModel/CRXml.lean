/-
  CRModel.CRXml — the CommonRoad 2020a XML format as file_writer_xml.py writes it and file_reader_xml.py reads it,
  assembled from the codec combinators of CRModel.Codec: every element kind is ONE term that contains both directions.

  Reals are decimal strings (`str(np.float64(x))` on the way in, the written text on the way out); ids, time steps and
  durations are `Int`; enumerations are their XML strings (checked against the value lists where the reader does);
  sets are lists in the iteration order the writer saw.

  Element kinds assembled here: point, rectangle / circle / polygon / shape group, exact-or-interval values and times,
  state (trajectory state, initial state, goal state — hand-written element codec mirroring `StateXMLNode` /
  `StateFactory`), occupancy, occupancy set, trajectory, signal state / series, static / dynamic / environment / phantom
  obstacle, lanelet (bounds, line markings, predecessor / successor / adjacent, stop line, types, users, sign / light
  references), traffic sign, traffic light (cycle), intersection (incomings, crossings), planning problem, and the document
  body (everything below `<commonRoad>` except `location` and `scenarioTags`, which the body codec treats as foreign context).
  and the whole file: root attributes, `location` (geo transformation, environment), `scenarioTags`, body.
  Points carry an optional z (written for lanelet bounds and state positions, dropped by the writer elsewhere).
  Not modelled: the 2018b reader branch, lanelet assignment, the byte level.
-/
import CRModel.Codec

namespace CR.X

abbrev Real := String

/-- reader-side and writer-side parameters of one round trip -/
structure Cfg where
  P : Params
  /-- `[cls().attributes for cls in SpecificStateClasses]` (state.py:714-727); the first one is `InitialState` -/
  classes : List (List String)
  /-- values of `TrafficSignIDCountries[country]` and of its `MAX_SPEED` member (none: the enum has no such member) -/
  signVals : List String
  maxSpeed : Option String

/-! ## enumerations (values as the reader's `Enum(text)` accepts them) -/

def lineMarkings : List String :=
  ["dashed", "solid", "solid_solid", "dashed_dashed", "solid_dashed", "dashed_solid", "curb", "lowered_curb", "broad_dashed",
   "broad_solid", "unknown", "no_marking"]

def laneletTypes : List String :=
  ["urban", "interstate", "country", "highway", "sidewalk", "crosswalk", "busLane", "bicycleLane", "exitRamp", "mainCarriageWay",
   "accessRamp", "shoulder", "driveWay", "busStop", "intersection", "border", "parking", "restricted", "restricted_area", "unknown"]

def roadUsers : List String :=
  ["vehicle", "car", "truck", "bus", "motorcycle", "bicycle", "pedestrian", "priorityVehicle", "train", "taxi"]

def obstacleTypes : List String :=
  ["unknown", "car", "truck", "bus", "bicycle", "pedestrian", "priorityVehicle", "parkedVehicle", "constructionZone", "train",
   "roadBoundary", "motorcycle", "taxi", "building", "pillar", "median_strip"]

def lightColors : List String := ["red", "redYellow", "green", "yellow", "inactive"]

def lightDirections : List String := ["right", "straight", "left", "leftStraight", "straightRight", "leftRight", "all"]

/-! ## points and shapes -/

/-- a point: x, y and, for 3-D geometry, z -/
structure Pt where
  x : Real
  y : Real
  z : Option Real

/-- children of a point element as `PointFactory` reads them (file_reader_xml.py:1629-1638): x, y, optional z -/
def ptKidsC (P : Params) : Codec (Real × Real × Option Real) :=
  Codec.pair (Codec.child "x" (ECodec.ofText (Prim.dec P)))
    (Codec.pair (Codec.child "y" (ECodec.ofText (Prim.dec P))) (Codec.optional "z" (ECodec.ofText (Prim.dec P))))

/-- a point written with all its coordinates: `Point.create_from_numpy_array(...).create_node()` (file_writer_xml.py:1037-1066),
    used for lanelet bounds and the exact position of a state -/
def pt3E (P : Params) : ECodec Pt :=
  ECodec.ofKids ((ptKidsC P).iso (fun p => (p.x, p.y, p.z)) (fun a => ⟨a.1, a.2.1, a.2.2⟩))

/-- a point of which the writer only writes x and y (`Point(p[0], p[1])`: polygon vertices, stop line, sign / light position;
    `center[0]`, `center[1]` of a rectangle / circle); the reader would still take a z -/
def ptE (P : Params) : ECodec Pt :=
  ECodec.ofKids ((ptKidsC P).iso (fun p => (p.x, p.y, (none : Option Real))) (fun a => ⟨a.1, a.2.1, a.2.2⟩))

inductive Shape1 where
  | rect (l w o : Real) (c : Pt)
  | circ (r : Real) (c : Pt)
  | poly (vs : List Pt)

/-- `x != 0.0` on a float, seen through its repr -/
def isZeroRepr (s : Real) : Bool := s == "0.0" || s == "-0.0" || s == "0" || s == "-0"

def zeroPt : Pt := ⟨"0.0", "0.0", none⟩

/-- `not np.any(np.asarray(center) != 0.0)` -/
def isOrigin (c : Pt) : Bool :=
  isZeroRepr c.x && isZeroRepr c.y && (match c.z with
    | none => true
    | some v => isZeroRepr v)

/-- the `center` child: always written for static shapes; for the shape of a dynamic obstacle only if it is not the origin
    (file_writer_xml.py RectangleXMLNode / CircleXMLNode); absent = origin (file_reader_xml.py:1372-1375, 1385-1388) -/
def centerC (P : Params) (dyn : Bool) : Codec Pt :=
  Codec.optChild "center" (ptE P) (fun c => !dyn || !isOrigin c) zeroPt

/-- the `orientation` child of a rectangle, written with `decimal_to_str` (all digits, plain notation) -/
def orientC (P : Params) (dyn : Bool) : Codec Real :=
  Codec.optChild "orientation" (ECodec.ofText (Prim.decPlain P)) (fun o => !dyn || !isZeroRepr o) "0.0"

def rectE (P : Params) (dyn : Bool) : ECodec (Real × Real × Real × Pt) :=
  ECodec.ofKids (Codec.pair (Codec.child "length" (ECodec.ofText (Prim.decPlain P)))
    (Codec.pair (Codec.child "width" (ECodec.ofText (Prim.decPlain P))) (Codec.pair (orientC P dyn) (centerC P dyn))))

def circE (P : Params) (dyn : Bool) : ECodec (Real × Pt) :=
  ECodec.ofKids (Codec.pair (Codec.child "radius" (ECodec.ofText (Prim.decPlain P))) (centerC P dyn))

def polyE (P : Params) : ECodec (List Pt) := ECodec.ofKids (Codec.many "point" (ptE P))

def encShape1 (P : Params) (dyn : Bool) : Shape1 → Xml
  | .rect l w o c => (rectE P dyn).el "rectangle" (l, w, o, c)
  | .circ r c => (circE P dyn).el "circle" (r, c)
  | .poly vs => (polyE P).el "polygon" vs

/-- `ShapeFactory._read_single_shape` (file_reader_xml.py:1340-1348); an unknown tag yields `None`, which the `ShapeGroup`
    constructor rejects -/
def decShape1 (P : Params) (dyn : Bool) (x : Xml) : Option Shape1 :=
  if x.tag == "rectangle" then
    match (rectE P dyn).decE x with
    | some (l, w, o, c) => some (.rect l w o c)
    | none => none
  else if x.tag == "circle" then
    match (circE P dyn).decE x with
    | some (r, c) => some (.circ r c)
    | none => none
  else if x.tag == "polygon" then
    match (polyE P).decE x with
    | some vs => some (.poly vs)
    | none => none
  else none

def normShape1 (P : Params) (dyn : Bool) : Shape1 → Shape1
  | .rect l w o c =>
    match (rectE P dyn).norm (l, w, o, c) with
    | (l', w', o', c') => .rect l' w' o' c'
  | .circ r c =>
    match (circE P dyn).norm (r, c) with
    | (r', c') => .circ r' c'
  | .poly vs => .poly ((polyE P).norm vs)

def okShape1 (P : Params) (dyn : Bool) : Shape1 → Prop
  | .rect l w o c => (rectE P dyn).ok (l, w, o, c)
  | .circ r c => (circE P dyn).ok (r, c)
  | .poly vs => (polyE P).ok vs

def shapeTags : List String := ["rectangle", "circle", "polygon"]

inductive Shape where
  | one (s : Shape1)
  | group (l : List Shape1)

/-- the children of `<shape>` / of a region `<position>`: `ShapeXMLNode.create_node` (file_writer_xml.py:725-741) writes the
    members of a group one after the other; `ShapeFactory.create_from_xml_node` (file_reader_xml.py:1331-1356) makes a group
    iff there is more than one child -/
def shapeC (P : Params) (dyn : Bool) : Codec Shape :=
  (Codec.manyOf shapeTags (encShape1 P dyn) (decShape1 P dyn) (normShape1 P dyn) (okShape1 P dyn)).pmap
    (fun s => match s with
      | .one s => [s]
      | .group l => l)
    (fun l => match l with
      | [] => none
      | [s] => some (.one s)
      | l => some (.group l))
    (fun s => match s with
      | .one s => .one (normShape1 P dyn s)
      | .group [s] => .one (normShape1 P dyn s)
      | .group l => .group (l.map (normShape1 P dyn)))
    (fun s => match s with
      | .one _ => True
      | .group l => l ≠ [])

/-! ## exact-or-interval values and times -/

inductive Val where
  | exact (v : Real)
  | interval (lo hi : Real)

inductive TimeV where
  | exact (t : Int)
  | interval (lo hi : Int)

/-- `_write_value_exact_or_interval` / `read_value_exact_or_interval` (file_reader_xml.py:74-82) -/
def valC (P : Params) : Codec Val :=
  (Codec.orElse (Codec.child "exact" (ECodec.ofText (Prim.dec P)))
    (Codec.pair (Codec.child "intervalStart" (ECodec.ofText (Prim.dec P))) (Codec.child "intervalEnd" (ECodec.ofText (Prim.dec P))))
    "exact").iso
    (fun v => match v with
      | .exact x => .inl x
      | .interval a b => .inr (a, b))
    (fun s => match s with
      | .inl x => .exact x
      | .inr (a, b) => .interval a b)

/-- `create_exact_node_int` / `create_interval_node_int` / `read_time` (file_reader_xml.py:85-93) -/
def timeC : Codec TimeV :=
  (Codec.orElse (Codec.child "exact" (ECodec.ofText Prim.int))
    (Codec.pair (Codec.child "intervalStart" (ECodec.ofText Prim.int)) (Codec.child "intervalEnd" (ECodec.ofText Prim.int)))
    "exact").iso
    (fun v => match v with
      | .exact x => .inl x
      | .interval a b => .inr (a, b))
    (fun s => match s with
      | .inl x => .exact x
      | .inr (a, b) => .interval a b)

def refE : ECodec Int := ECodec.attr1 "ref" Prim.int

/-! ## states -/

inductive Pos where
  | point (p : Pt)
  | region (s : Shape)
  | lanelets (ids : List Int)

inductive SVal where
  | time (t : TimeV)
  | pos (p : Pos)
  | val (v : Val)

/-- a state: its populated attributes (`used_attributes`, python names) in order -/
structure State where
  fields : List (String × SVal)

def isWord (c : Char) : Bool := c.isAlphanum || c == '_'

/-- `re.sub(r"_(\w)", lambda m: m.group(1).upper(), prop)` -/
def camel : List Char → List Char
  | [] => []
  | [c] => [c]
  | c :: d :: r =>
    if c == '_' && isWord d then d.toUpper :: camel r else c :: camel (d :: r)

/-- `re.sub("(?<!^)(?=[A-Z])", "_", xml_prop).lower()` -/
def snakeAux : List Char → List Char
  | [] => []
  | c :: r => if c.isUpper then '_' :: c.toLower :: snakeAux r else c.toLower :: snakeAux r

def snake : List Char → List Char
  | [] => []
  | c :: r => c.toLower :: snakeAux r

/-- `StateXMLNode._map_to_xml_prop` (file_writer_xml.py:966-978) = `StateFactory._map_to_xml_prop` (file_reader_xml.py:1541-1554) -/
def xmlName (prop : String) : String :=
  if prop == "time_step" then "time"
  else if prop == "delta_y_f" then "deltaYFront"
  else if prop == "delta_y_r" then "deltaYRear"
  else if prop == "curvature_rate" then "curvatureChange"
  else String.ofList (camel prop.toList)

/-- the goal-state writer uses the bare regex (file_writer_xml.py:863) -/
def xmlNameGoal (prop : String) : String := String.ofList (camel prop.toList)

/-- `StateFactory._map_to_prop` (file_reader_xml.py:1527-1539) -/
def propName (tag : String) : String :=
  if tag == "time" then "time_step"
  else if tag == "deltaYFront" then "delta_y_f"
  else if tag == "deltaYRear" then "delta_y_r"
  else if tag == "curvatureChange" then "curvature_rate"
  else String.ofList (snake tag.toList)

/-- children of `<position>`: `create_state_node` (file_writer_xml.py:944-951), `_write_goal_position` (868-899) -/
def encPos (P : Params) : Pos → List Xml
  | .point p => [(pt3E P).el "point" p]
  | .region s => (shapeC P false).enc s
  | .lanelets ids => ids.map (refE.el "lanelet")

/-- `StateFactory._read_position` (file_reader_xml.py:1496-1514); lanelet references only when a lanelet network is passed
    (goal states); the model keeps the references (the reader replaces them by the lanelets' polygons) -/
def decPos (P : Params) (goal : Bool) (kids : List Xml) : Option Pos :=
  match find "point" kids with
  | some x =>
    match (pt3E P).decE x with
    | some p => some (.point p)
    | none => none
  | none =>
    if (find "rectangle" kids).isSome || (find "circle" kids).isSome || (find "polygon" kids).isSome then
      -- `ShapeFactory.create_from_xml_node` walks ALL children
      match mapOpt (decShape1 P false) kids with
      | some [] => none
      | some [s] => some (.region (.one s))
      | some l => some (.region (.group l))
      | none => none
    else if goal && (find "lanelet" kids).isSome then
      match mapOpt refE.decE (findAll "lanelet" kids) with
      | some ids => some (.lanelets ids)
      | none => none
    else none

def encField (P : Params) (goal : Bool) (f : String × SVal) : Xml :=
  match f.2 with
  | .pos p => node "position" (encPos P p)
  | .time t => node "time" (timeC.enc t)
  | .val v => node (if goal then xmlNameGoal f.1 else xmlName f.1) ((valC P).enc v)

/-- `create_state_node` / `create_goal_state_node`: one child per populated attribute, in attribute order -/
def encState (P : Params) (goal : Bool) (s : State) : List Xml := s.fields.map (encField P goal)

/-- one iteration of the loop in `StateFactory._fill_state` (file_reader_xml.py:1470-1495):
    `none` = it raises, `some none` = attribute not found (filled := False), `some (some v)` = attribute set -/
def readAttr (P : Params) (goal : Bool) (kids : List Xml) (attr : String) : Option (Option SVal) :=
  if attr == "position" then
    match find "position" kids with
    | some x =>
      match decPos P goal x.kids with
      | some p => some (some (.pos p))
      | none => none
    | none => some none
  else if attr == "time_step" then
    match find "time" kids with
    | some x =>
      match timeC.dec x.kids with
      | some t => some (some (.time t))
      | none => none
    | none => some none
  else
    match find (xmlName attr) kids with
    | some x =>
      match (valC P).dec x.kids with
      | some v => some (some (.val v))
      | none => none
    | none => some none

/-- `_fill_state`: the attributes it could set, in order, and whether all were found -/
def fill (P : Params) (goal : Bool) (kids : List Xml) : List String → Option (List (String × SVal) × Bool)
  | [] => some ([], true)
  | a :: as =>
    match readAttr P goal kids a, fill P goal kids as with
    | some (some v), some (fs, ok) => some ((a, v) :: fs, ok)
    | some none, some (fs, _) => some (fs, false)
    | _, _ => none

/-- the loop over `SpecificStateClasses` for a state that is not an initial state (file_reader_xml.py:1448-1462) -/
def matchClass (P : Params) (goal : Bool) (kids : List Xml) : List (List String) → Option (Option (List (String × SVal)))
  | [] => some none
  | C :: Cs =>
    if C.length != kids.length then matchClass P goal kids Cs
    else
      match fill P goal kids C with
      | some (fs, true) => some (some fs)
      | some (_, false) => matchClass P goal kids Cs
      | none => none

/-- `StateFactory.create_from_xml_node(node, lanelet_network, is_initial_state=False)`; CustomState fallback (1464-1470) -/
def decState (cfg : Cfg) (goal : Bool) (kids : List Xml) : Option State :=
  match matchClass cfg.P goal kids cfg.classes with
  | some (some fs) => some ⟨fs⟩
  | some none =>
    match fill cfg.P goal kids (kids.map (fun x => propName x.tag)) with
    | some (fs, _) => some ⟨fs⟩
    | none => none
  | none => none

def lookupField (a : String) : List (String × SVal) → Option SVal
  | [] => none
  | (k, v) :: r => if k == a then some v else lookupField a r

/-- `State.fill_with_defaults` (state.py:303-315) -/
def defaultOf (a : String) : SVal :=
  if a == "position" then .pos (.point zeroPt) else .val (.exact "0.0")

/-- `create_from_xml_node(node, is_initial_state=True)`: the first class (`InitialState`) is filled with what is there and
    completed with defaults -/
def decInitial (cfg : Cfg) (kids : List Xml) : Option State :=
  match cfg.classes with
  | [] => none
  | C :: _ =>
    match fill cfg.P false kids C with
    | some (fs, _) => some ⟨C.map (fun a => (a, (lookupField a fs).getD (defaultOf a)))⟩
    | none => none

/-! ## occupancies, trajectories, signals -/

structure Occupancy where
  shape : Shape
  time : TimeV

def occE (P : Params) : ECodec Occupancy :=
  ECodec.ofKids ((Codec.pair (Codec.child "shape" (ECodec.ofKids (shapeC P false))) (Codec.child "time" (ECodec.ofKids timeC))).iso
    (fun o => (o.shape, o.time)) (fun a => ⟨a.1, a.2⟩))

/-- `<occupancySet>`; `SetBasedPredictionFactory` indexes `occupancies[0]` (file_reader_xml.py:1316-1320) -/
def occSetE (P : Params) : ECodec (List Occupancy) :=
  (ECodec.ofKids (Codec.many "occupancy" (occE P))).pmap id (fun l => if l.isEmpty then none else some l)
    (fun l => l.map (occE P).norm) (fun l => l ≠ [])

structure Signal where
  time : Int
  horn : Option Bool
  indicatorLeft : Option Bool
  indicatorRight : Option Bool
  brakingLights : Option Bool
  hazardWarningLights : Option Bool
  flashingBlueLights : Option Bool

def sigB (t : String) : Codec (Option Bool) := Codec.optional t (ECodec.ofText Prim.boolStrict)

/-- `SignalStateXMLNode.create_signal_state_node` (file_writer_xml.py:1258-1300) / `SignalStateFactory` (file_reader_xml.py:1557-1603) -/
def signalE : ECodec Signal :=
  ECodec.ofKids ((Codec.pair (Codec.child "time" (ECodec.ofKids (Codec.child "exact" (ECodec.ofText Prim.int))))
    (Codec.pair (sigB "horn") (Codec.pair (sigB "indicatorLeft") (Codec.pair (sigB "indicatorRight")
      (Codec.pair (sigB "brakingLights") (Codec.pair (sigB "hazardWarningLights") (sigB "flashingBlueLights"))))))).iso
    (fun s => (s.time, s.horn, s.indicatorLeft, s.indicatorRight, s.brakingLights, s.hazardWarningLights, s.flashingBlueLights))
    (fun a => ⟨a.1, a.2.1, a.2.2.1, a.2.2.2.1, a.2.2.2.2.1, a.2.2.2.2.2.1, a.2.2.2.2.2.2⟩))

/-! ## what a state becomes after one write → read -/

def normPos (P : Params) : Pos → Pos
  | .point p => .point ((pt3E P).norm p)
  | .region s => .region ((shapeC P false).norm s)
  | .lanelets ids => .lanelets ids

def normField (P : Params) (f : String × SVal) : String × SVal :=
  match f.2 with
  | .pos p => (f.1, .pos (normPos P p))
  | .time t => (f.1, .time t)
  | .val v => (f.1, .val ((valC P).norm v))

/-- the first state class with as many attributes as the state populates, all of which the state populates -/
def classOf (classes : List (List String)) (fs : List (String × SVal)) : Option (List String) :=
  classes.find? (fun C => C.length == fs.length && C.all (fun a => (lookupField a fs).isSome))

/-- class order if a state class matches, the written order otherwise (CustomState) -/
def normState (cfg : Cfg) (s : State) : State :=
  let nf := s.fields.map (normField cfg.P)
  match classOf cfg.classes nf with
  | some C => ⟨C.filterMap (fun a => (lookupField a nf).map (fun v => (a, v)))⟩
  | none => ⟨nf⟩

/-- initial states: every attribute of `InitialState`, unset ones with the default; anything else is dropped -/
def normInitial (cfg : Cfg) (s : State) : State :=
  let nf := s.fields.map (normField cfg.P)
  match cfg.classes with
  | [] => s
  | C :: _ => ⟨C.map (fun a => (a, (lookupField a nf).getD (defaultOf a)))⟩

def okPos (P : Params) (goal : Bool) : Pos → Prop
  | .point p => goal = false ∧ (pt3E P).ok p
  | .region s => (shapeC P false).ok s
  | .lanelets ids => goal = true ∧ ids ≠ []

/-- the attribute name and the kind of value fit together, and the name survives camelCase → snake_case -/
def okField (P : Params) (goal : Bool) (f : String × SVal) : Prop :=
  match f.2 with
  | .pos p => f.1 = "position" ∧ okPos P goal p
  | .time t => f.1 = "time_step" ∧ (goal = false → ∃ n, t = .exact n)
  | .val v => f.1 ≠ "position" ∧ f.1 ≠ "time_step" ∧ propName (xmlName f.1) = f.1 ∧ xmlName f.1 ≠ "position" ∧ xmlName f.1 ≠ "time"
      ∧ (goal = true → xmlNameGoal f.1 = xmlName f.1) ∧ (valC P).ok v

def okState (P : Params) (goal : Bool) (s : State) : Prop :=
  (s.fields.map (fun f => f.1)).Nodup ∧ ∀ f, f ∈ s.fields → okField P goal f

/-- `<state>` of a trajectory -/
def stateE (cfg : Cfg) : ECodec State :=
  ⟨fun _ => [], fun _ => "", encState cfg.P false, fun x => decState cfg false x.kids, normState cfg, okState cfg.P false⟩

/-- `<goalState>` -/
def goalStateE (cfg : Cfg) : ECodec State :=
  ⟨fun _ => [], fun _ => "", encState cfg.P true, fun x => decState cfg true x.kids, normState cfg, okState cfg.P true⟩

/-- `<initialState>` -/
def initialStateE (cfg : Cfg) : ECodec State :=
  ⟨fun _ => [], fun _ => "", encState cfg.P false, fun x => decInitial cfg x.kids, normInitial cfg, okState cfg.P false⟩

/-- `<trajectory>`; `TrajectoryFactory` indexes `state_list[0]` (file_reader_xml.py:1303-1307) -/
def trajE (cfg : Cfg) : ECodec (List State) :=
  (ECodec.ofKids (Codec.many "state" (stateE cfg))).pmap id (fun l => if l.isEmpty then none else some l)
    (fun l => l.map (stateE cfg).norm) (fun l => l ≠ [])

/-! ## obstacles -/

inductive Prediction where
  | none
  | traj (states : List State)
  | occ (os : List Occupancy)

/-- `DynamicObstacleXMLNode.create_node` (file_writer_xml.py:609-654): trajectory or occupancy set or nothing;
    `DynamicObstacleFactory` (file_reader_xml.py:1246-1281): `if find("trajectory") … elif find("occupancySet") … else None` -/
def predC (cfg : Cfg) : Codec Prediction :=
  (Codec.pair (Codec.optional "trajectory" (trajE cfg)) (Codec.optional "occupancySet" (occSetE cfg.P))).iso
    (fun p => match p with
      | .none => (Option.none, Option.none)
      | .traj s => (some s, Option.none)
      | .occ o => (Option.none, some o))
    (fun a => match a with
      | (some s, _) => .traj s
      | (Option.none, some o) => .occ o
      | (Option.none, Option.none) => .none)

def typeC : Codec String := Codec.child "type" (ECodec.ofText (Prim.enum obstacleTypes))

structure StaticObs where
  id : Int
  type : String
  shape : Shape
  init : State

def staticObsE (cfg : Cfg) : ECodec StaticObs :=
  (ECodec.attrKids "id" Prim.int (Codec.pair typeC (Codec.pair (Codec.child "shape" (ECodec.ofKids (shapeC cfg.P false)))
    (Codec.child "initialState" (initialStateE cfg))))).pmap
    (fun o => (o.id, o.type, o.shape, o.init)) (fun a => some ⟨a.1, a.2.1, a.2.2.1, a.2.2.2⟩)
    (fun o => ⟨o.id, o.type, (shapeC cfg.P false).norm o.shape, normInitial cfg o.init⟩) (fun _ => True)

structure DynObs where
  id : Int
  type : String
  shape : Shape
  init : State
  initSignal : Option Signal
  pred : Prediction
  series : List Signal

/-- `<signalSeries>` is written iff the series is non-empty (file_writer_xml.py:651-652); absent = [] (file_reader_xml.py:1608-1615) -/
def seriesC : Codec (List Signal) :=
  Codec.optChild "signalSeries" (ECodec.ofKids (Codec.many "signalState" signalE)) (fun l => !l.isEmpty) []

def dynObsE (cfg : Cfg) : ECodec DynObs :=
  (ECodec.attrKids "id" Prim.int (Codec.pair typeC (Codec.pair (Codec.child "shape" (ECodec.ofKids (shapeC cfg.P true)))
    (Codec.pair (Codec.child "initialState" (initialStateE cfg)) (Codec.pair (Codec.optional "initialSignalState" signalE)
      (Codec.pair (predC cfg) seriesC)))))).pmap
    (fun o => (o.id, o.type, o.shape, o.init, o.initSignal, o.pred, o.series))
    (fun a => some ⟨a.1, a.2.1, a.2.2.1, a.2.2.2.1, a.2.2.2.2.1, a.2.2.2.2.2.1, a.2.2.2.2.2.2⟩)
    (fun o => ⟨o.id, o.type, (shapeC cfg.P true).norm o.shape, normInitial cfg o.init, o.initSignal.map signalE.norm,
               (predC cfg).norm o.pred, seriesC.norm o.series⟩) (fun _ => True)

structure EnvObs where
  id : Int
  type : String
  shape : Shape

def envObsE (cfg : Cfg) : ECodec EnvObs :=
  (ECodec.attrKids "id" Prim.int (Codec.pair typeC (Codec.child "shape" (ECodec.ofKids (shapeC cfg.P false))))).pmap
    (fun o => (o.id, o.type, o.shape)) (fun a => some ⟨a.1, a.2.1, a.2.2⟩)
    (fun o => ⟨o.id, o.type, (shapeC cfg.P false).norm o.shape⟩) (fun _ => True)

structure PhantomObs where
  id : Int
  occ : Option (List Occupancy)

def phantomObsE (cfg : Cfg) : ECodec PhantomObs :=
  (ECodec.attrKids "id" Prim.int (Codec.optional "occupancySet" (occSetE cfg.P))).pmap
    (fun o => (o.id, o.occ)) (fun a => some ⟨a.1, a.2⟩)
    (fun o => ⟨o.id, o.occ.map (occSetE cfg.P).norm⟩) (fun _ => True)

/-! ## lanelets -/

structure Bound where
  pts : List Pt
  marking : String

/-- `<leftBound>` / `<rightBound>`: the line marking is written unless it is `unknown`, absent = `unknown`
    (file_writer_xml.py:410-437, file_reader_xml.py:740-753) -/
def boundE (P : Params) : ECodec Bound :=
  ECodec.ofKids ((Codec.pair (Codec.many "point" (pt3E P))
    (Codec.optChild "lineMarking" (ECodec.ofText (Prim.enum lineMarkings)) (fun m => m != "unknown") "unknown")).iso
    (fun b => (b.pts, b.marking)) (fun a => ⟨a.1, a.2⟩))

structure Adj where
  ref : Int
  same : Bool

def adjE : ECodec Adj :=
  (ECodec.attr2 "ref" Prim.int "drivingDir" Prim.drivingDir).pmap (fun a => (a.ref, a.same)) (fun p => some ⟨p.1, p.2⟩) id (fun _ => True)

/-- `if lanelet.adj_left:` — an adjacent id 0 is not written -/
def adjC (t : String) : Codec (Option Adj) :=
  (Codec.optional t adjE).iso
    (fun a => match a with
      | some v => if v.ref == 0 then none else some v
      | none => none) id

structure StopLine where
  pts : Option (Pt × Pt)
  marking : String
  signRefs : List Int
  lightRefs : List Int

def refsC (t : String) : Codec (List Int) := Codec.many t refE

/-- `LaneletStopLineXMLNode` (file_writer_xml.py:1228-1253) / `LaneletFactory._stop_line` (file_reader_xml.py:700-738);
    a stop line without points is completed by the lanelet codec below -/
def stopLineE (P : Params) : ECodec StopLine :=
  (ECodec.ofKids (Codec.pair (Codec.many "point" (ptE P)) (Codec.pair (Codec.child "lineMarking" (ECodec.ofText (Prim.enum lineMarkings)))
    (Codec.pair (refsC "trafficSignRef") (refsC "trafficLightRef"))))).pmap
    (fun s => ((match s.pts with
        | some (a, b) => [a, b]
        | none => []), s.marking, s.signRefs, s.lightRefs))
    (fun a => match a.1 with
      | [] => some ⟨none, a.2.1, a.2.2.1, a.2.2.2⟩
      | [_] => none                       -- points[1]: IndexError
      | p :: q :: _ => some ⟨some (p, q), a.2.1, a.2.2.1, a.2.2.2⟩)
    (fun s => ⟨s.pts.map (fun pq => ((ptE P).norm pq.1, (ptE P).norm pq.2)), s.marking, s.signRefs, s.lightRefs⟩)
    (fun _ => True)

structure Lanelet where
  id : Int
  left : Bound
  right : Bound
  pred : List Int
  succ : List Int
  adjL : Option Adj
  adjR : Option Adj
  stop : Option StopLine
  types : List String
  oneWay : List String
  bidir : List String
  signs : List Int
  lights : List Int

/-- at least one `<laneletType>`: an empty set is written as `unknown` (file_writer_xml.py:470-483) -/
def typesC : Codec (List String) :=
  (Codec.many "laneletType" (ECodec.ofText (Prim.enum laneletTypes))).iso (fun l => if l.isEmpty then ["unknown"] else l) id

def usersC (t : String) : Codec (List String) := Codec.many t (ECodec.ofText (Prim.enum roadUsers))

def lastPt (l : List Pt) : Option Pt := l.getLast?

/-- the reader places a stop line without points at the end of the lanelet (file_reader_xml.py:728-736) -/
def completeStop (left right : Bound) (s : Option StopLine) : Option (Option StopLine) :=
  match s with
  | none => some none
  | some sl =>
    match sl.pts with
    | some _ => some (some sl)
    | none =>
      match lastPt left.pts, lastPt right.pts with
      | some a, some b => some (some { sl with pts := some (a, b) })
      | _, _ => none     -- left_vertices[-1] on an empty array

def laneletKidsC (P : Params) :=
  Codec.pair (Codec.child "leftBound" (boundE P)) (Codec.pair (Codec.child "rightBound" (boundE P))
    (Codec.pair (refsC "predecessor") (Codec.pair (refsC "successor") (Codec.pair (adjC "adjacentLeft") (Codec.pair (adjC "adjacentRight")
      (Codec.pair (Codec.optional "stopLine" (stopLineE P)) (Codec.pair typesC (Codec.pair (usersC "userOneWay")
        (Codec.pair (usersC "userBidirectional") (Codec.pair (refsC "trafficSignRef") (refsC "trafficLightRef")))))))))))

abbrev LaneletTuple := Int × Bound × Bound × List Int × List Int × Option Adj × Option Adj × Option StopLine × List String ×
  List String × List String × List Int × List Int

def laneletToTuple (l : Lanelet) : LaneletTuple :=
  (l.id, l.left, l.right, l.pred, l.succ, l.adjL, l.adjR, l.stop, l.types, l.oneWay, l.bidir, l.signs, l.lights)

/-- `LaneletFactory.create_from_xml_node` after the children are read: the stop line is completed from the bounds -/
def laneletOfTuple (a : LaneletTuple) : Option Lanelet :=
  match a with
  | (id, left, right, pred, succ, adjL, adjR, stop, types, oneWay, bidir, signs, lights) =>
    match completeStop left right stop with
    | some stop' => some ⟨id, left, right, pred, succ, adjL, adjR, stop', types, oneWay, bidir, signs, lights⟩
    | none => none

def laneletE (P : Params) : ECodec Lanelet :=
  (ECodec.attrKids "id" Prim.int (laneletKidsC P)).pmap laneletToTuple laneletOfTuple
    (fun l => (laneletOfTuple ((ECodec.attrKids "id" Prim.int (laneletKidsC P)).norm (laneletToTuple l))).getD l)
    (fun l => ∀ sl, l.stop = some sl → sl.pts = none → l.left.pts ≠ [] ∧ l.right.pts ≠ [])

/-! ## traffic signs and lights -/

/-- `TrafficSignElementFactory` (file_reader_xml.py:916-929): "274" is the country's MAX_SPEED, an unknown id is '' (UNKNOWN) -/
def Prim.signId (vals : List String) (maxSpeed : Option String) : Prim String :=
  ⟨id, fun s => if s == "274" then maxSpeed else if vals.contains s then some s else some "",
   fun s => if s == "274" then maxSpeed.getD s else if vals.contains s then s else "", fun s => s = "274" → maxSpeed.isSome⟩

structure SignElement where
  id : String
  values : List String

def signElementE (cfg : Cfg) : ECodec SignElement :=
  ECodec.ofKids ((Codec.pair (Codec.child "trafficSignID" (ECodec.ofText (Prim.signId cfg.signVals cfg.maxSpeed)))
    (Codec.many "additionalValue" (ECodec.ofText Prim.str))).iso (fun e => (e.id, e.values)) (fun a => ⟨a.1, a.2⟩))

structure Sign where
  id : Int
  elements : List SignElement
  position : Option Pt
  virtual : Bool

/-- the writer emits `<virtual>true|false</virtual>` (file_writer_xml.py:1133-1136); the reader asks for an ATTRIBUTE
    `virtual` of `<trafficSign>` (file_reader_xml.py:881-889), which no written file has: it always answers False.
    (known finding C01/roundtrip/signs/*/virtual/discrete; repairing the reader breaks two pinned tests.) -/
def virtualC : Codec Bool :=
  ⟨["virtual"], fun b => [leaf "virtual" (if b then "true" else "false")], fun _ => some false, fun _ => false, fun _ => True⟩

def positionC (P : Params) : Codec (Option Pt) := Codec.optional "position" (ECodec.ofKids (Codec.child "point" (ptE P)))

def signE (cfg : Cfg) : ECodec Sign :=
  (ECodec.attrKids "id" Prim.int (Codec.pair (Codec.many "trafficSignElement" (signElementE cfg))
    (Codec.pair (positionC cfg.P) virtualC))).pmap
    (fun s => (s.id, s.elements, s.position, s.virtual)) (fun a => some ⟨a.1, a.2.1, a.2.2.1, a.2.2.2⟩)
    (fun s => ⟨s.id, s.elements.map (signElementE cfg).norm, s.position.map (ptE cfg.P).norm, false⟩) (fun _ => True)

structure CycleElement where
  duration : Int
  color : String

structure Cycle where
  elements : List CycleElement
  offset : Int

def cycleE : ECodec Cycle :=
  ECodec.ofKids ((Codec.pair (Codec.many "cycleElement" (ECodec.ofKids ((Codec.pair (Codec.child "duration" (ECodec.ofText Prim.int))
      (Codec.child "color" (ECodec.ofText (Prim.enum lightColors)))).iso (fun e => (e.duration, e.color)) (fun a => (⟨a.1, a.2⟩ : CycleElement)))))
    (Codec.optChild "timeOffset" (ECodec.ofText Prim.int) (fun o => decide (o > 0)) 0)).iso
    (fun c => (c.elements, c.offset)) (fun a => ⟨a.1, a.2⟩))

structure Light where
  id : Int
  cycle : Option Cycle
  position : Option Pt
  direction : String
  active : Bool

/-- `TrafficLightXMLNode` (file_writer_xml.py:1147-1171) / `TrafficLightFactory` (file_reader_xml.py:936-1024): the reader
    dereferences `find("cycle")`, so a light without cycle cannot be read back -/
def lightE (P : Params) : ECodec Light :=
  (ECodec.attrKids "id" Prim.int (Codec.pair (Codec.optional "cycle" cycleE) (Codec.pair (positionC P)
    (Codec.pair (Codec.optChild "direction" (ECodec.ofText (Prim.enumDefault lightDirections "all")) (fun d => d != "all") "all")
      (Codec.optChild "active" (ECodec.ofText (Prim.boolDefault true)) (fun _ => true) true))))).pmap
    (fun l => (l.id, l.cycle, l.position, l.direction, l.active))
    (fun a => match a.2.1 with
      | some c => some ⟨a.1, some c, a.2.2.1, a.2.2.2.1, a.2.2.2.2⟩
      | none => none)
    (fun l => ⟨l.id, l.cycle.map cycleE.norm, l.position.map (ptE P).norm,
               (Prim.enumDefault lightDirections "all").norm l.direction, l.active⟩)
    (fun l => l.cycle.isSome)

/-! ## intersections -/

structure Incoming where
  id : Int
  lanelets : List Int
  right : List Int
  straight : List Int
  left : List Int
  leftOf : Option Int

/-- `if incoming.left_of:` writes one `<isLeftOf>`; the reader keeps the last one it finds (file_reader_xml.py:1102-1103) -/
def leftOfC : Codec (Option Int) :=
  (refsC "isLeftOf").iso
    (fun o => match o with
      | some v => if v == 0 then [] else [v]
      | none => [])
    (fun l => l.getLast?)

def incomingE : ECodec Incoming :=
  (ECodec.attrKids "id" Prim.int (Codec.pair (refsC "incomingLanelet") (Codec.pair (refsC "successorsRight")
    (Codec.pair (refsC "successorsStraight") (Codec.pair (refsC "successorsLeft") leftOfC))))).pmap
    (fun i => (i.id, i.lanelets, i.right, i.straight, i.left, i.leftOf))
    (fun a => some ⟨a.1, a.2.1, a.2.2.1, a.2.2.2.1, a.2.2.2.2.1, a.2.2.2.2.2⟩)
    (fun i => ⟨i.id, i.lanelets, i.right, i.straight, i.left, leftOfC.norm i.leftOf⟩) (fun _ => True)

structure Intersection where
  id : Int
  incomings : List Incoming
  crossings : List Int

def intersectionE : ECodec Intersection :=
  (ECodec.attrKids "id" Prim.int (Codec.pair (Codec.many "incoming" incomingE)
    (Codec.optChild "crossing" (ECodec.ofKids (refsC "crossingLanelet")) (fun l => !l.isEmpty) []))).pmap
    (fun i => (i.id, i.incomings, i.crossings)) (fun a => some ⟨a.1, a.2.1, a.2.2⟩)
    (fun i => ⟨i.id, i.incomings.map incomingE.norm, i.crossings⟩) (fun _ => True)

/-! ## planning problems -/

structure PlanningProblem where
  id : Int
  init : State
  goals : List State

def planningProblemE (cfg : Cfg) : ECodec PlanningProblem :=
  (ECodec.attrKids "id" Prim.int (Codec.pair (Codec.child "initialState" (initialStateE cfg)) (Codec.many "goalState" (goalStateE cfg)))).pmap
    (fun p => (p.id, p.init, p.goals)) (fun a => some ⟨a.1, a.2.1, a.2.2⟩)
    (fun p => ⟨p.id, normInitial cfg p.init, p.goals.map (normState cfg)⟩) (fun _ => True)

/-! ## the document body -/

structure Doc where
  lanelets : List Lanelet
  signs : List Sign
  lights : List Light
  intersections : List Intersection
  statics : List StaticObs
  dynamics : List DynObs
  phantoms : List PhantomObs
  envs : List EnvObs
  problems : List PlanningProblem

/-- the children of `<commonRoad>` after `location` and `scenarioTags`, in the order `_add_all_objects_from_scenario` and
    `_add_all_planning_problems_from_planning_problem_set` append them (file_writer_xml.py:183-203; `Scenario.obstacles` chains
    static, dynamic, phantom, environment) -/
def docC (cfg : Cfg) : Codec Doc :=
  (Codec.pair (Codec.many "lanelet" (laneletE cfg.P)) (Codec.pair (Codec.many "trafficSign" (signE cfg))
    (Codec.pair (Codec.many "trafficLight" (lightE cfg.P)) (Codec.pair (Codec.many "intersection" intersectionE)
      (Codec.pair (Codec.many "staticObstacle" (staticObsE cfg)) (Codec.pair (Codec.many "dynamicObstacle" (dynObsE cfg))
        (Codec.pair (Codec.many "phantomObstacle" (phantomObsE cfg)) (Codec.pair (Codec.many "environmentObstacle" (envObsE cfg))
          (Codec.many "planningProblem" (planningProblemE cfg)))))))))).iso
    (fun d => (d.lanelets, d.signs, d.lights, d.intersections, d.statics, d.dynamics, d.phantoms, d.envs, d.problems))
    (fun a => ⟨a.1, a.2.1, a.2.2.1, a.2.2.2.1, a.2.2.2.2.1, a.2.2.2.2.2.1, a.2.2.2.2.2.2.1, a.2.2.2.2.2.2.2.1, a.2.2.2.2.2.2.2.2⟩)

/-- write: the body elements -/
def encodeDoc (cfg : Cfg) (d : Doc) : List Xml := (docC cfg).enc d

/-- read: from ALL children of `<commonRoad>` (location and tags are foreign to the body codec) -/
def decodeDoc (cfg : Cfg) (kids : List Xml) : Option Doc := (docC cfg).dec kids

def normDoc (cfg : Cfg) (d : Doc) : Doc := (docC cfg).norm d

/-! ## the whole file: root attributes, location, scenario tags, body -/

def timesOfDay : List String := ["night", "sunset", "afternoon", "noon", "morning", "unknown"]
def weathers : List String := ["clear", "light_rain", "mid_rain", "heavy_rain", "fog", "snow", "hail", "cloudy", "unknown"]
def undergrounds : List String := ["wet", "clean", "dirty", "damaged", "snow", "ice", "unknown"]

/-- `Tag` (scenario.py), in declaration order — the order in which `TagsFactory` probes them -/
def allTags : List String :=
  ["interstate", "urban", "highway", "comfort", "critical", "evasive", "cut_in", "illegal_cutin", "intersection", "lane_change",
   "lane_following", "merging_lanes", "multi_lane", "oncoming_traffic", "no_oncoming_traffic", "parallel_lanes", "race_track",
   "roundabout", "rural", "simulated", "single_lane", "slip_road", "speed_limit", "traffic_jam", "turn_left", "turn_right",
   "two_lane", "emergency_braking"]

def digitChar (n : Nat) : Char := Char.ofNat (48 + n)

/-- `f"{n:02d}"` for n < 100 -/
def fmt2 (n : Nat) : List Char := [digitChar (n / 10), digitChar (n % 10)]

/-- `int(two characters)` for two decimal digits (anything else: the model says it raises) -/
def parse2 (c1 c2 : Char) : Option Nat :=
  if c1.isDigit && c2.isDigit then some ((c1.toNat - 48) * 10 + (c2.toNat - 48)) else none

/-- the `<time>` of an environment: `f"{hours:02d}:{minutes:02d}:00"` (file_writer_xml.py:385) /
    `int(text[0:2])`, `int(text[3:5])` (file_reader_xml.py `TimeFactory`) -/
def Prim.clock : Prim (Nat × Nat) :=
  ⟨fun t => String.ofList (fmt2 t.1 ++ ':' :: fmt2 t.2 ++ [':', '0', '0']),
   fun s => match s.toList with
     | c1 :: c2 :: _ :: c4 :: c5 :: _ =>
       match parse2 c1 c2, parse2 c4 c5 with
       | some h, some m => some (h, m)
       | _, _ => none
     | _ => none,
   id, fun t => t.1 < 100 ∧ t.2 < 100⟩

structure AddTransformation where
  x : Real
  y : Real
  rot : Real
  scaling : Real

structure GeoTransformation where
  ref : String
  /-- the writer always emits `<additionalTransformation>` (an unset number would be written as the text `None`, which the
      reader cannot parse: outside `ok`); the reader accepts its absence -/
  add : Option AddTransformation

def addTransformationE (P : Params) : ECodec AddTransformation :=
  ECodec.ofKids ((Codec.pair (Codec.child "xTranslation" (ECodec.ofText (Prim.decPlain P)))
    (Codec.pair (Codec.child "yTranslation" (ECodec.ofText (Prim.decPlain P)))
      (Codec.pair (Codec.child "zRotation" (ECodec.ofText (Prim.decPlain P))) (Codec.child "scaling" (ECodec.ofText (Prim.decPlain P)))))).iso
    (fun a => (a.x, a.y, a.rot, a.scaling)) (fun t => ⟨t.1, t.2.1, t.2.2.1, t.2.2.2⟩))

/-- `GeoTransformationXMLNode` (file_writer_xml.py:341-366) / `GeoTransformationFactory` -/
def geoE (P : Params) : ECodec GeoTransformation :=
  (ECodec.ofKids (Codec.pair (Codec.child "geoReference" (ECodec.ofText Prim.str))
    (Codec.optional "additionalTransformation" (addTransformationE P)))).pmap
    (fun g => (g.ref, g.add)) (fun t => some ⟨t.1, t.2⟩) (fun g => ⟨g.ref, g.add.map (addTransformationE P).norm⟩) (fun g => g.add.isSome)

structure Environment where
  hours : Nat
  minutes : Nat
  timeOfDay : String
  weather : String
  underground : String

/-- `EnvironmentXMLNode` (file_writer_xml.py:369-393; its three `… .value is not Enum.UNKNOWN` tests compare a string with an
    enum member and are always true, so all four children are always written) / `EnvironmentFactory` (needs all four) -/
def envE : ECodec Environment :=
  ECodec.ofKids ((Codec.pair (Codec.child "time" (ECodec.ofText Prim.clock))
    (Codec.pair (Codec.child "timeOfDay" (ECodec.ofText (Prim.enum timesOfDay)))
      (Codec.pair (Codec.child "weather" (ECodec.ofText (Prim.enum weathers)))
        (Codec.child "underground" (ECodec.ofText (Prim.enum undergrounds)))))).iso
    (fun e => ((e.hours, e.minutes), e.timeOfDay, e.weather, e.underground)) (fun t => ⟨t.1.1, t.1.2, t.2.1, t.2.2.1, t.2.2.2⟩))

structure Location where
  geoNameId : Int
  lat : Real
  lon : Real
  geo : Option GeoTransformation
  env : Option Environment

def locationE (P : Params) : ECodec Location :=
  ECodec.ofKids ((Codec.pair (Codec.child "geoNameId" (ECodec.ofText Prim.int))
    (Codec.pair (Codec.child "gpsLatitude" (ECodec.ofText (Prim.decPlain P)))
      (Codec.pair (Codec.child "gpsLongitude" (ECodec.ofText (Prim.decPlain P)))
        (Codec.pair (Codec.optional "geoTransformation" (geoE P)) (Codec.optional "environment" envE))))).iso
    (fun l => (l.geoNameId, l.lat, l.lon, l.geo, l.env)) (fun t => ⟨t.1, t.2.1, t.2.2.1, t.2.2.2.1, t.2.2.2.2⟩))

/-- `Location()` : geo_name_id=-999, gps 999 / 999 (integers: `decimal_to_str(999)` is "999") -/
def defaultLocation : Location := ⟨-999, "999", "999", none, none⟩

/-- `<location>`: a scenario without location is written with the default location (file_writer_xml.py:184-188);
    an absent element reads as `None` -/
def locationC (P : Params) : Codec (Option Location) :=
  (Codec.optional "location" (locationE P)).iso
    (fun o => match o with
      | some l => some l
      | none => some defaultLocation) id

/-- `<scenarioTags>`: one empty child per tag (`TagXMLNode`); `TagsFactory` probes every member of `Tag` in declaration order
    and dereferences `find("scenarioTags")` -/
def tagsC : Codec (List String) :=
  ⟨["scenarioTags"], fun l => [node "scenarioTags" (l.map (fun t => leaf t ""))],
   fun kids => match find "scenarioTags" kids with
     | some x => some (allTags.filter (fun t => (find t x.kids).isSome))
     | none => none,
   fun l => allTags.filter (fun t => l.contains t), fun _ => True⟩

/-- all children of `<commonRoad>` -/
def fileKidsC (cfg : Cfg) : Codec (Option Location × List String × Doc) :=
  Codec.pair (locationC cfg.P) (Codec.pair tagsC (docC cfg))

structure Header where
  dt : Real
  author : Option String
  affiliation : Option String
  source : Option String
  benchmarkId : String

structure File where
  header : Header
  location : Option Location
  tags : List String
  body : Doc

/-- parameters of a whole-file round trip: the sign tables of all countries, the supported countries, today's date -/
structure FileCfg where
  P : Params
  classes : List (List String)
  /-- `SupportedTrafficSignCountry` values -/
  countries : List String
  /-- country ↦ (values of `TrafficSignIDCountries[country]`, value of its `MAX_SPEED` member) -/
  tables : List (String × (List String × Option String))
  /-- `datetime.datetime.today().strftime("%Y-%m-%d")` -/
  today : String

/-- `LaneletNetworkFactory._find_country` (file_reader_xml.py:497-512): characters 2..4 of a cooperative id "C-…", else the
    first three; an unsupported country is Zamunda -/
def countryOf (countries : List String) (bid : String) : String :=
  let cs := bid.toList
  let c := String.ofList (if cs.take 2 == ['C', '-'] then (cs.drop 2).take 3 else cs.take 3)
  if countries.contains c then c else "ZAM"

def lookupTable (c : String) : List (String × (List String × Option String)) → (List String × Option String)
  | [] => ([], none)
  | (k, v) :: r => if k == c then v else lookupTable c r

/-- `TrafficSignIDCountries[country.value]` is a dictionary access: a country without table makes the reader raise `KeyError` -/
def hasTable (c : String) (tables : List (String × (List String × Option String))) : Bool := tables.any (fun e => e.1 == c)

def FileCfg.cfgFor (fc : FileCfg) (bid : String) : Cfg :=
  let t := lookupTable (countryOf fc.countries bid) fc.tables
  ⟨fc.P, fc.classes, t.1, t.2⟩

def optAttr (k : String) (v : Option String) : List (String × String) :=
  match v with
  | some s => [(k, s)]
  | none => []

/-- `_write_header` (file_writer_xml.py:174-188) + the children -/
def encodeFile (fc : FileCfg) (f : File) : Xml :=
  ⟨"commonRoad",
   [("timeStepSize", decimalToStr fc.P f.header.dt), ("commonRoadVersion", "2020a")] ++ optAttr "author" f.header.author ++
     optAttr "affiliation" f.header.affiliation ++ optAttr "source" f.header.source ++
     [("benchmarkID", f.header.benchmarkId), ("date", fc.today)],
   "", (fileKidsC (fc.cfgFor f.header.benchmarkId)).enc (f.location, f.tags, f.body)⟩

/-- `XMLFileReader.open` (file_reader_xml.py:113-196, 2020a branch: any other version is outside this model) -/
def decodeFile (fc : FileCfg) (x : Xml) : Option File :=
  match getAttr "commonRoadVersion" x, getAttr "timeStepSize" x, getAttr "benchmarkID" x with
  | some v, some dt, some bid =>
    if v == "2020a" && hasTable (countryOf fc.countries bid) fc.tables then
      match (fileKidsC (fc.cfgFor bid)).dec x.kids with
      | some (loc, tags, body) => some ⟨⟨dt, getAttr "author" x, getAttr "affiliation" x, getAttr "source" x, bid⟩, loc, tags, body⟩
      | none => none
    else none
  | _, _, _ => none

def normFile (fc : FileCfg) (f : File) : File :=
  let n := (fileKidsC (fc.cfgFor f.header.benchmarkId)).norm (f.location, f.tags, f.body)
  ⟨⟨decimalToStr fc.P f.header.dt, f.header.author, f.header.affiliation, f.header.source, f.header.benchmarkId⟩, n.1, n.2.1, n.2.2⟩

def okFile (fc : FileCfg) (f : File) : Prop := (fileKidsC (fc.cfgFor f.header.benchmarkId)).ok (f.location, f.tags, f.body)

end CR.X
