/-
  CRModel.PyExtC20 — the fixed call table of the C20 translator (harness/translate/src_c20.py): what the numpy / list
  operations used by `Lanelet._compute_polyline_cumsum_dist`, `distance`, `interpolate_position`, `merge_lanelets`,
  `all_lanelets_by_merging_*` and `find_lanelet_{successors,predecessors}_in_range` (commonroad/scenario/lanelet.py)
  DENOTE on exact values.  Hand-written, core Lean only, trusted like CRModel/PyExt.lean (floats are rationals; the
  Euclidean norm is a parameter function `norm`).
-/
import CRModel.PyExt
import CRModel.ArcLen
namespace CR.PyC20
open CR CR.Arc

/-- Python truth value of an object used as a condition (`if xs:`, `while paths:`, `if not successors`). -/
class Truthy (α : Type) where
  truthy : α → Bool
export Truthy (truthy)
/-- `bool(b)` -/
instance : Truthy Bool := ⟨id⟩
/-- a list is true iff it is non-empty -/
instance {α : Type} : Truthy (List α) := ⟨fun l => !l.isEmpty⟩
/-- `None` is false, an object is true -/
instance {α : Type} : Truthy (Option α) := ⟨Option.isSome⟩

/-- `while cond: body` on a state `σ` (the variables the body assigns), pure body.  `none` = the fuel ran out while the
    condition still held. -/
def whileLoop {σ : Type} (cond : σ → Bool) (body : σ → σ) : Nat → σ → Option σ
  | 0, s => if cond s then none else some s
  | n + 1, s => if cond s then whileLoop cond body n (body s) else some s

/-- `while cond: body` whose condition / body can raise.  `.error .other` = fuel exhausted. -/
def whileM {σ : Type} (cond : σ → Res Bool) (body : σ → Res σ) : Nat → σ → Res σ
  | 0, _ => .error .other
  | n + 1, s =>
    match cond s with
    | .error e => .error e
    | .ok false => .ok s
    | .ok true =>
      match body s with
      | .error e => .error e
      | .ok s' => whileM cond body n s'

/-- condition and body of a lifted `while` loop, as a pair over the same state type -/
def mkLoop {σ : Type} (cond : σ → Bool) (body : σ → σ) : (σ → Bool) × (σ → σ) := (cond, body)
def mkLoopM {σ : Type} (cond : σ → Res Bool) (body : σ → Res σ) : (σ → Res Bool) × (σ → Res σ) := (cond, body)

/-- `np.diff(polyline, axis=0)`: the difference vectors of consecutive points. -/
def diff : List Pt → List Pt
  | a :: b :: t => (b.1 - a.1, b.2 - a.2) :: diff (b :: t)
  | _ => []

/-- `np.sqrt(np.square(d).sum(axis=1))`: the Euclidean norm of every row; the norm itself is the parameter `norm`. -/
def rowNorms (norm : Pt → Rat) (d : List Pt) : List Rat := d.map norm

/-- `np.empty((n, m))`: an n×m matrix (list of rows); the uninitialised entries are written as 0. -/
def empty (n m : Int) : List (List Rat) := List.replicate n.toNat (List.replicate m.toNat 0)

/-- `a[:, i] = col` for a column of matching length (numpy raises on a shape mismatch; not modelled). -/
def setCol (a : List (List Rat)) (i : Int) (col : List Rat) : List (List Rat) :=
  List.zipWith (fun row x => row.set i.toNat x) a col

/-- `np.append(xs, ys)` on 1-D arrays. -/
def append (xs ys : List Rat) : List Rat := xs ++ ys

/-- `np.amin(row)`. -/
def rowMin : List Rat → Rat
  | [] => 0
  | x :: xs => xs.foldl (fun a b => if a ≤ b then a else b) x

/-- `np.amin(a, axis=1)`: the minimum of every row. -/
def aminRows (a : List (List Rat)) : List Rat := a.map rowMin

/-- `np.cumsum(xs)` on rationals. -/
def cumsum (xs : List Rat) : List Rat := CR.Arc.cumsumFrom 0 xs

/-- `enumerate(xs)`. -/
def enumerateFrom {α : Type} (i : Int) : List α → List (Int × α)
  | [] => []
  | x :: xs => (i, x) :: enumerateFrom (i + 1) xs
def enumerate {α : Type} (xs : List α) : List (Int × α) := enumerateFrom 0 xs

/-- `xs[i]` where the caller guarantees the index exists (`polylines[0]` of a literal non-empty list); `IndexError` is
    not modelled here, the default value stands for it. -/
def item {α : Type} [Inhabited α] (xs : List α) (i : Int) : α := (pyGet? xs i).getD default

/-- `xs[i:]`. -/
def sliceFrom {α : Type} (xs : List α) (i : Int) : List α :=
  if 0 ≤ i then xs.drop i.toNat else xs.drop (xs.length - (-i).toNat)

/-- `np.searchsorted(d, s)` (side='left'). -/
def searchsorted (d : List Rat) (s : Rat) : Int := (searchsortedLeft s d : Nat)

/-- `r * p` for a scalar and a point (numpy broadcasting). -/
def smul (r : Rat) (p : Pt) : Pt := (r * p.1, r * p.2)
/-- `p + q` on points. -/
def vadd (p q : Pt) : Pt := (p.1 + q.1, p.2 + q.2)

/- `np.isclose(p, q).all()` on two points is `CR.Arc.ptClose` and `int(str(a) + str(b))` is `CR.Arc.concatId` (CRModel/ArcLen.lean). -/

/-- `Lanelet(left, center, right, id, predecessor=p, successor=s)`: the constructor runs the three vertex setters, each
    asserting `is_valid_polyline` (lanelet.py:108-110, 330-380). -/
def newLanelet (left center right : List Pt) (id : Nat) (pred succ : List Nat) : Res Lanelet :=
  if validPolyline left && validPolyline center && validPolyline right then .ok ⟨id, pred, succ, left, center, right⟩
  else .error .assert

/-- `net.find_lanelet_by_id(p[i]).successor` with the subscript evaluated as an option: an empty path has no last element
    (Python: `IndexError`; the worklist never holds an empty path) and is given no neighbours. -/
def nbrOpt (nbr : Nat → List Nat) : Option Nat → List Nat
  | none => []
  | some x => nbr x

end CR.PyC20
