/-
  CRModel.Params — model of the draw-parameter groups of commonroad/visualization/draw_params.py.

  A parameter group (`BaseParam` subclass instance) is a tree: an `__initialized` flag and the ordered
  `__dict__` of the instance; a field holds either a plain value (an opaque atom: the canonical JSON text of
  the Python value) or a nested parameter group.

  `Grp.set` is `BaseParam.__setattr__` (draw_params.py:46-52):

      if name in {f.name for f in dataclasses.fields(self)}:   -- (1) own field, only if declared
          super().__setattr__(name, value)
      if self.__initialized:                                    -- (2) propagate to every nested group
          for k, v in self.__dict__.items():
              if isinstance(v, BaseParam):
                  v.__setattr__(name, value)

  Step (2) runs after step (1), so a group that was just stored under `name` is visited too; the model leaves
  that group as it is.  This is exact whenever no group inside the stored value declares `name`
  (`Val.okFor`; then the visit changes nothing: `CR.Params.set_noop` in CRProofs/Params.lean) — which holds
  for every type-correct value of every field of every class in draw_params.py (checked by the harness) —
  and the driver refuses other inputs (Python would recurse without end on e.g. `h.occupancy = h`).
  Python shares one object between all fields that received a group value; the model copies it.  The harness
  therefore continues a history after a group-valued assignment only at ancestors of the assignment point.
-/
import CRModel.Basic
namespace CR.Params

mutual
  /-- A parameter group: `__initialized` and the fields in `__dict__` order. -/
  inductive Grp where
    | mk (init : Bool) (fields : Fields)
  /-- Ordered fields; a field is an atom or a nested group. -/
  inductive Fields where
    | nil
    | atom (key : String) (a : String) (rest : Fields)
    | grp (key : String) (g : Grp) (rest : Fields)
end

/-- A value that can be assigned to a field. -/
inductive Val where
  | atom (a : String)
  | grp (g : Grp)

instance : Inhabited Grp := ⟨.mk true .nil⟩
instance : Inhabited Val := ⟨.atom ""⟩

def Grp.init : Grp → Bool
  | .mk i _ => i

def Grp.fields : Grp → Fields
  | .mk _ fs => fs

/-- Store `v` under key `k` in front of `r`. -/
def Fields.cons (k : String) (v : Val) (r : Fields) : Fields :=
  match v with
  | .atom a => .atom k a r
  | .grp g => .grp k g r

/-- `name in {f.name for f in dataclasses.fields(self)}` -/
def Fields.declares (name : String) : Fields → Bool
  | .nil => false
  | .atom k _ r => k == name || r.declares name
  | .grp k _ r => k == name || r.declares name

def Grp.declares (name : String) (g : Grp) : Bool := g.fields.declares name

/-- `getattr(self, k)` on the instance dict (first entry with that key). -/
def Fields.get (k : String) : Fields → Option Val
  | .nil => none
  | .atom k' a r => if k' = k then some (.atom a) else r.get k
  | .grp k' g r => if k' = k then some (.grp g) else r.get k

def Grp.get (k : String) (g : Grp) : Option Val := g.fields.get k

/-- Step (1) only: `super().__setattr__(name, value)` if declared (an uninitialised group does no more). -/
def Fields.assign (name : String) (v : Val) : Fields → Fields
  | .nil => .nil
  | .atom k a r => if k = name then Fields.cons k v (r.assign name v) else .atom k a (r.assign name v)
  | .grp k g r => if k = name then Fields.cons k v (r.assign name v) else .grp k g (r.assign name v)

mutual
  /-- `BaseParam.__setattr__(self, name, v)`. -/
  def Grp.set (name : String) (v : Val) : Grp → Grp
    | .mk init fs => .mk init (if init then fs.setF name v else fs.assign name v)
  /-- Steps (1) and (2) on the field list of an initialised group. -/
  def Fields.setF (name : String) (v : Val) : Fields → Fields
    | .nil => .nil
    | .atom k a r => if k = name then Fields.cons k v (r.setF name v) else .atom k a (r.setF name v)
    | .grp k g r => if k = name then Fields.cons k v (r.setF name v) else .grp k (g.set name v) (r.setF name v)
end

/-- Effect of a `set` seen from a field value that is not the assigned one. -/
def Val.set (name : String) (v : Val) : Val → Val
  | .atom a => .atom a
  | .grp g => .grp (g.set name v)

mutual
  /-- Some group of the tree (at any depth) declares `name`. -/
  def Grp.declaresDeep (name : String) : Grp → Bool
    | .mk _ fs => fs.declaresDeep name
  def Fields.declaresDeep (name : String) : Fields → Bool
    | .nil => false
    | .atom k _ r => k == name || r.declaresDeep name
    | .grp k g r => k == name || g.declaresDeep name || r.declaresDeep name
end

/-- Admissible assigned values for `name`: atoms, and groups in which nothing declares `name`. -/
def Val.okFor (name : String) : Val → Bool
  | .atom _ => true
  | .grp g => !g.declaresDeep name

mutual
  /-- Every group of the tree has finished `__post_init__`. -/
  def Grp.allInit : Grp → Bool
    | .mk i fs => i && fs.allInit
  def Fields.allInit : Fields → Bool
    | .nil => true
    | .atom _ _ r => r.allInit
    | .grp _ g r => g.allInit && r.allInit
end

def Val.allInit : Val → Bool
  | .atom _ => true
  | .grp g => g.allInit

/-- Follow a path of field names: `getattr(getattr(g, k1), k2) ...`; the empty path is the group itself. -/
def Grp.at : Grp → List String → Option Val
  | g, [] => some (.grp g)
  | g, k :: p =>
    match g.get k with
    | some (.grp h) => h.at p
    | some (.atom a) => if p.isEmpty then some (.atom a) else none
    | none => none

mutual
  /-- `setattr(follow(root, path), name, v)`: the assignment is made on the group reached by `path`
      (first field with each key); a path that does not lead to a group is an `AttributeError`. -/
  def Grp.setAt (name : String) (v : Val) : List String → Grp → Option Grp
    | [], g => some (g.set name v)
    | k :: p, .mk i fs => (fs.setAtF name v k p).map (Grp.mk i)
  def Fields.setAtF (name : String) (v : Val) (k : String) (p : List String) : Fields → Option Fields
    | .nil => none
    | .atom k' a r => if k' = k then none else (r.setAtF name v k p).map (Fields.atom k' a)
    | .grp k' g r => if k' = k then (g.setAt name v p).map (fun g' => Fields.grp k' g' r)
                     else (r.setAtF name v k p).map (Fields.grp k' g)
end

mutual
  /-- The assignment stores the value in some group that afterwards visits its nested groups: the group itself or
      one reached from it through initialised groups declares `name` and is initialised. -/
  def Grp.stores (name : String) : Grp → Bool
    | .mk i fs => i && (fs.declares name || fs.storesF name)
  def Fields.storesF (name : String) : Fields → Bool
    | .nil => false
    | .atom _ _ r => r.storesF name
    | .grp _ g r => g.stores name || r.storesF name
end

/-- `BaseParam.__setattr__` as Python runs it, for every value.  If a group inside the assigned value `v` declares
    `name` (`¬ v.okFor name`) and `v` gets stored in an initialised group, that group visits `v`, `v` (or a group in
    it) stores `v` in itself under `name` and visits it again: unbounded recursion, `RecursionError`
    (e.g. `h = HistoryParams(); p.occupancy = h`).  Otherwise the result is `Grp.set`. -/
def Grp.setPy (name : String) (v : Val) (g : Grp) : Res Grp :=
  if !v.okFor name && g.stores name then .error .other else .ok (g.set name v)

/-- `setattr(follow(root, path), name, v)` as Python runs it: `AttributeError` if the path does not lead to a
    group, `RecursionError` as in `Grp.setPy`. -/
def Grp.setAtPy (name : String) (v : Val) (path : List String) (g : Grp) : Res Grp :=
  match g.at path with
  | some (.grp h) =>
    if !v.okFor name && h.stores name then .error .other else
    match g.setAt name v path with
    | some g' => .ok g'
    | none => .error .attr
  | _ => .error .attr

/-- `self.__initialized = True` -/
def Grp.markInit : Grp → Grp
  | .mk _ fs => .mk true fs

/-- `self.<name> = self.<name>` of `__post_init__` (draw_params.py:42-44). -/
def Grp.reassign (name : String) (g : Grp) : Res Grp :=
  match g.get name with
  | some v => .ok (g.set name v)
  | none => .error .attr

/-- Dataclass construction seen from outside: the generated `__init__` stores every field while
    `__initialized` is still `False` (no propagation; `pre` is that state: default sub-groups, keyword values
    in place), then `__post_init__` (draw_params.py:36-44) marks the group initialised and re-assigns
    `time_begin`, `time_end`, `antialiased`, which pushes them into all nested groups. -/
def Grp.postInit (pre : Grp) : Res Grp := do
  let g ← (pre.markInit).reassign "time_begin"
  let g ← g.reassign "time_end"
  g.reassign "antialiased"

/-- `self.__getattribute__(k)` for a field name `k` (instance dictionary; methods and class attributes, which
    `__getattribute__` also finds, are outside the model): `AttributeError` if there is no such field. -/
def Grp.getAttr (k : String) (g : Grp) : Res Val :=
  match g.get k with
  | some v => .ok v
  | none => .error .attr

/-- `BaseParam.__getitem__` (draw_params.py:54-59): the field, `KeyError` instead of `AttributeError`. -/
def Grp.getItem (k : String) (g : Grp) : Res Val :=
  match g.get k with
  | some v => .ok v
  | none => .error .key

/-- `BaseParam.__setitem__` (draw_params.py:61-65): `__setattr__`; it never raises `AttributeError` (an undeclared
    name is ignored by the own store and handed on to the nested groups), so the `KeyError` branch is dead. -/
def Grp.setItem (k : String) (v : Val) (g : Grp) : Res Grp := g.setPy k v

end CR.Params
