/-
  CRModel.Rigid — model of `translate_rotate` on every object kind of commonroad-io:
    geometry/transform.py:7-22, 64-85   translate_rotate / translation_rotation_matrix
    geometry/shape.py:160-177, 284-297, 390-405, 494-513   Rectangle / Circle / Polygon / ShapeGroup
    geometry/shape.py:348-358           Polygon.__init__ (ring closed, oriented clockwise by shapely)
    scenario/state.py:247-292           State.translate_rotate (position array | Shape, orientation scalar | AngleInterval,
                                         PMState: velocity vector)
    scenario/trajectory.py:156-176      Trajectory
    prediction/prediction.py:81-92, 198-212, 372-387   Occupancy / SetBasedPrediction / TrajectoryPrediction
    scenario/lanelet.py:603-640, 1933-1956   Lanelet (+ polygon re-created) / LaneletNetwork
    common/common_lanelet.py:172-193    StopLine
    scenario/traffic_sign.py:967-989, scenario/traffic_light.py:329-354   positions
    scenario/obstacle.py:401-417, 644-663, 822-839, EnvironmentObstacle.translate_rotate   obstacle roles
    scenario/scenario.py:1297-1314      Scenario
    planning/goal.py:123-131, planning/planning_problem.py:96-105, 187-195   GoalRegion / PlanningProblem(Set)

  Records list every world-frame / body-frame spatial attribute of the Python classes (harness ATTR_TABLE): besides what
  `translate_rotate` moves also `TrafficLight.shape`, `obstacle_shape`, `TrajectoryPrediction.shape` (body frame, unchanged) and
  `lanelet_network.areas` borders, `DynamicObstacle.history` (world frame, moved since the repairs 00d3698 / 6df6dd6).

  Reals are `Rat`.  The rotation enters as the pair `(c, s)` — the values `math.cos(a)`, `math.sin(a)` the code
  computes (transform.py:76-77) — next to the angle `a` itself, which is what is added to orientations.
  Float rounding inside `+ - *` is modelled as exact.
-/
import CRModel.Interval
namespace CR.Rigid
open CR.Iv

structure Pt where
  x : Rat
  y : Rat
  deriving DecidableEq, Repr

/-- `transform.translate_rotate` on one vertex: first translate by `t`, then rotate about the origin with
    the matrix `[[c, -s], [s, c]]` (`rotation_matrix.dot(translation_matrix)`, transform.py:72-85). -/
def tr (c s : Rat) (t p : Pt) : Pt :=
  ⟨c * (p.x + t.x) - s * (p.y + t.y), s * (p.x + t.x) + c * (p.y + t.y)⟩

/-- The rotation alone (used for the velocity vector of a point-mass state). -/
def rot (c s : Rat) (v : Pt) : Pt := ⟨c * v.x - s * v.y, s * v.x + c * v.y⟩

/-- `transform.rotate_translate` on one vertex (transform.py:25-60): first rotate about the origin, then translate by `t`
    (used by `Shape.rotate_translate_local`, not by any `translate_rotate`). -/
def rt (c s : Rat) (t p : Pt) : Pt := ⟨c * p.x - s * p.y + t.x, s * p.x + c * p.y + t.y⟩

/-- The parameters of one `translate_rotate(t, a)` call: `c = math.cos(a)`, `s = math.sin(a)`, `τ = TWO_PI`. -/
structure Mo where
  c : Rat
  s : Rat
  a : Rat
  t : Pt
  τ : Rat
  deriving Repr

def Mo.mv (m : Mo) (p : Pt) : Pt := tr m.c m.s m.t p
def Mo.rv (m : Mo) (v : Pt) : Pt := rot m.c m.s v
/-- `make_valid_orientation(θ + a)` (util.py:28-33). -/
def Mo.wr (m : Mo) (θ : Rat) : Rat := makeValid m.τ (θ + m.a)

/-- `assert is_valid_orientation(angle)` at the head of (almost) every `translate_rotate`. -/
def guard (m : Mo) : Res Unit := if validOrientation m.τ m.a then .ok () else .error .assert

/-- `f` on every element, first exception wins (a Python `for` loop / list comprehension). -/
def mapR {α β : Type} (f : α → Res β) : List α → Res (List β)
  | [] => .ok []
  | x :: xs =>
    match f x with
    | .error e => .error e
    | .ok y =>
      match mapR f xs with
      | .error e => .error e
      | .ok ys => .ok (y :: ys)

/-! ### polygons -/

def cross2 (p q : Pt) : Rat := p.x * q.y - q.x * p.y

/-- Shoelace sum over consecutive vertices (= twice the signed area for a closed ring; > 0 : counter-clockwise). -/
def chain2 : List Pt → Rat
  | p :: q :: rest => cross2 p q + chain2 (q :: rest)
  | _ => 0

/-- shapely closes a ring whose last coordinate differs from the first one. -/
def closeRing : List Pt → List Pt
  | [] => []
  | p :: l => if (p :: l).getLast? = some p then p :: l else (p :: l) ++ [p]

/-- `Polygon.__init__` (shape.py:348-358): `shapely.geometry.Polygon(vertices)` (needs ≥ 3 coordinates, else
    `ValueError`), then `orient(polygon, sign=-1.0)`: the ring is reversed iff its signed area is positive. -/
def polyMk (vs : List Pt) : Res (List Pt) :=
  if vs.length < 3 then .error .value else
  let r := closeRing vs
  .ok (if 0 < chain2 r then r.reverse else r)

/-! ### shapes -/

inductive Shape where
  | rect (l w : Rat) (ctr : Pt) (θ : Rat)
  | circ (r : Rat) (ctr : Pt)
  | poly (vs : List Pt)
  | group (ss : List Shape)
  deriving Repr

mutual
/-- `Shape.translate_rotate` per kind.  `Circle.translate_rotate` has no angle assertion (shape.py:284-297). -/
def Shape.move (m : Mo) : Shape → Res Shape
  | .rect l w ctr θ =>
    match guard m with
    | .error e => .error e
    | .ok _ => .ok (.rect l w (m.mv ctr) (m.wr θ))
  | .circ r ctr => .ok (.circ r (m.mv ctr))
  | .poly vs =>
    match guard m with
    | .error e => .error e
    | .ok _ =>
      match polyMk (vs.map m.mv) with
      | .error e => .error e
      | .ok r => .ok (.poly r)
  | .group ss =>
    match guard m with
    | .error e => .error e
    | .ok _ =>
      match Shape.moveList m ss with
      | .error e => .error e
      | .ok ss' => .ok (.group ss')
def Shape.moveList (m : Mo) : List Shape → Res (List Shape)
  | [] => .ok []
  | x :: xs =>
    match Shape.move m x with
    | .error e => .error e
    | .ok y =>
      match Shape.moveList m xs with
      | .error e => .error e
      | .ok ys => .ok (y :: ys)
end

/-- The four corners of a rectangle, given `(cθ, sθ) = (cos θ, sin θ)` of its orientation
    (`Rectangle._compute_vertices`, shape.py:201-213: rotate the half-extent box, then translate to the centre). -/
def rectCorners (l w : Rat) (ctr : Pt) (cθ sθ : Rat) : List Pt :=
  [(-l / 2, -w / 2), (-l / 2, w / 2), (l / 2, w / 2), (l / 2, -w / 2)].map fun (h : Rat × Rat) =>
    (⟨cθ * h.1 - sθ * h.2 + ctr.x, sθ * h.1 + cθ * h.2 + ctr.y⟩ : Pt)

/-- One vertex of `Polygon.rotate_translate_local(translation = pos, angle = θ)` (shape.py:407-424), by which
    `occupancy_shape_from_state` places a polygon-shaped obstacle at a state: rotate about the polygon's CENTROID `o`
    (`shapely.affinity.rotate(..., origin="centroid")`) with `(cθ, sθ) = (cos θ, sin θ)`, then translate by `pos`. -/
def placeAbout (cθ sθ : Rat) (o pos v : Pt) : Pt :=
  ⟨o.x + (cθ * (v.x - o.x) - sθ * (v.y - o.y)) + pos.x, o.y + (sθ * (v.x - o.x) + cθ * (v.y - o.y)) + pos.y⟩

/-- the occupancy polygon of a polygon-shaped obstacle at a state: every coordinate of the body polygon's ring placed, then
    `Polygon.__init__`. -/
def placePolygon (cθ sθ : Rat) (o pos : Pt) (ring : List Pt) : Res (List Pt) :=
  polyMk (ring.map (placeAbout cθ sθ o pos))

/-! ### states -/

inductive Pos where
  | none
  | pt (p : Pt)
  | region (sh : Shape)
  | other                      -- anything that is neither an ndarray nor a Shape (list, tuple, ...): TypeError branch
  deriving Repr

inductive Ori where
  | none
  | exact (θ : Rat)
  | iv (i : I)
  | other                      -- neither a number nor an AngleInterval: TypeError branch
  deriving Repr

/-- The spatial content of a state: `position` (array or Shape), stored `orientation` (scalar or AngleInterval) and,
    for `PMState`, the velocity vector `(velocity, velocity_y)` from which its orientation is derived. -/
structure State where
  pos : Pos
  ori : Ori
  vel : Option Pt
  deriving Repr

def Pos.move (m : Mo) : Pos → Res Pos
  | .none => .ok .none
  | .pt p => .ok (.pt (m.mv p))
  | .region sh =>
    match Shape.move m sh with
    | .error e => .error e
    | .ok sh' => .ok (.region sh')
  | .other => .error .type       -- state.py:272-276 `raise TypeError`

/-- scalar: `make_valid_orientation(θ + a)`; interval: `AngleInterval.__add__` = constructor on the shifted ends. -/
def Ori.move (m : Mo) : Ori → Res Ori
  | .none => .ok .none
  | .exact θ => .ok (.exact (m.wr θ))
  | .iv i =>
    match addAngle m.τ i m.a with
    | .error e => .error e
    | .ok i' => .ok (.iv i')
  | .other => .error .type       -- state.py:284-288 `raise TypeError`

/-- `State.translate_rotate` (state.py:247-292, after the repair: a point-mass state's velocity vector turns
    with the frame instead of assigning to the read-only `orientation`). -/
def State.move (m : Mo) (st : State) : Res State :=
  match guard m with
  | .error e => .error e
  | .ok _ =>
    match Pos.move m st.pos with
    | .error e => .error e
    | .ok p =>
      match Ori.move m st.ori with
      | .error e => .error e
      | .ok o => .ok ⟨p, o, st.vel.map m.rv⟩

/-- `Trajectory.translate_rotate` / `GoalRegion.translate_rotate`: every state. -/
def moveStates (m : Mo) (l : List State) : Res (List State) := mapR (State.move m) l

/-- `Trajectory.translate_rotate` asserts the angle itself, then every state. -/
def moveTraj (m : Mo) (l : List State) : Res (List State) :=
  match guard m with
  | .error e => .error e
  | .ok _ => moveStates m l

/-- `SetBasedPrediction.translate_rotate`: the shape of every occupancy (`Occupancy.translate_rotate`). -/
def moveOccs (m : Mo) (l : List Shape) : Res (List Shape) :=
  match guard m with
  | .error e => .error e
  | .ok _ => mapR (fun sh => match guard m with | .error e => .error e | .ok _ => Shape.move m sh) l

/-! ### road network -/

structure Lanelet where
  left : List Pt
  center : List Pt
  right : List Pt
  stop : Option (Pt × Pt)
  poly : List Pt            -- `lanelet.polygon.vertices`
  deriving Repr

def moveStop (m : Mo) (sl : Pt × Pt) : Res (Pt × Pt) :=
  match guard m with
  | .error e => .error e
  | .ok _ => .ok (m.mv sl.1, m.mv sl.2)

/-- `Lanelet.translate_rotate`: the three polylines, the stop line, and the polygon re-created from
    `concatenate((right, flip(left)))` (lanelet.py:603-640). -/
def Lanelet.move (m : Mo) (la : Lanelet) : Res Lanelet :=
  match guard m with
  | .error e => .error e
  | .ok _ =>
    let l' := la.left.map m.mv
    let c' := la.center.map m.mv
    let r' := la.right.map m.mv
    match (match la.stop with
           | none => (.ok none : Res (Option (Pt × Pt)))
           | some sl => match moveStop m sl with
                        | .error e => .error e
                        | .ok sl' => .ok (some sl')) with
    | .error e => .error e
    | .ok st' =>
      match polyMk (r' ++ l'.reverse) with
      | .error e => .error e
      | .ok p' => .ok ⟨l', c', r', st', p'⟩

/-- `TrafficSign.translate_rotate` / `TrafficLight.translate_rotate`: the position. -/
def movePosition (m : Mo) (p : Pt) : Res Pt :=
  match guard m with
  | .error e => .error e
  | .ok _ => .ok (m.mv p)

/-- A traffic light: `position` and the optional `shape` (a `Rectangle` describing the housing, default centre (0, 0):
    body frame; no reader, writer or renderer uses it).  `TrafficLight.translate_rotate` moves the position only. -/
structure Light where
  pos : Pt
  shape : Option Shape
  deriving Repr

def Light.move (m : Mo) (l : Light) : Res Light :=
  match movePosition m l.pos with
  | .error e => .error e
  | .ok p => .ok ⟨p, l.shape⟩

/-! ### obstacles -/

inductive Pred where
  | none
  | traj (body : Shape) (sts : List State)   -- TrajectoryPrediction: `shape` (body frame, not moved) and the states
  | occ (shs : List Shape)       -- SetBasedPrediction: the occupancy shapes
  deriving Repr

def Pred.move (m : Mo) : Pred → Res Pred
  | .none => .ok .none
  | .traj body sts =>
    match guard m with
    | .error e => .error e
    | .ok _ =>
      match moveTraj m sts with
      | .error e => .error e
      | .ok sts' => .ok (.traj body sts')
  | .occ shs =>
    match moveOccs m shs with
    | .error e => .error e
    | .ok shs' => .ok (.occ shs')

inductive Obstacle where
  | static (body : Shape) (st : State)  -- `obstacle_shape` is given in the body frame and is not moved
  /-- `history`: the past states of the obstacle (world frame, appended by `update_initial_state`);
      `DynamicObstacle.translate_rotate` moves them after the prediction and the initial state (obstacle.py:666). -/
  | dynamic (body : Shape) (st : State) (p : Pred) (hist : List State)
  | phantom (p : Option (List Shape))
  | env (sh : Shape)                    -- EnvironmentObstacle: the shape is given in the world frame
  deriving Repr

/-- `Static/Dynamic/Phantom/EnvironmentObstacle.translate_rotate` (the last one exists since the repair). -/
def Obstacle.move (m : Mo) : Obstacle → Res Obstacle
  | .static body st =>
    match guard m with
    | .error e => .error e
    | .ok _ =>
      match State.move m st with
      | .error e => .error e
      | .ok st' => .ok (.static body st')
  | .dynamic body st p hist =>
    match guard m with
    | .error e => .error e
    | .ok _ =>
      match Pred.move m p with
      | .error e => .error e
      | .ok p' =>
        match State.move m st with
        | .error e => .error e
        | .ok st' =>
          match moveStates m hist with
          | .error e => .error e
          | .ok hist' => .ok (.dynamic body st' p' hist')
  | .phantom none =>
    match guard m with
    | .error e => .error e
    | .ok _ => .ok (.phantom none)
  | .phantom (some shs) =>
    match guard m with
    | .error e => .error e
    | .ok _ =>
      match moveOccs m shs with
      | .error e => .error e
      | .ok shs' => .ok (.phantom (some shs'))
  | .env sh =>
    match guard m with
    | .error e => .error e
    | .ok _ =>
      match Shape.move m sh with
      | .error e => .error e
      | .ok sh' => .ok (.env sh')

/-! ### scenario, planning problems -/

structure Scenario where
  lanelets : List Lanelet
  signs : List Pt
  lights : List Light
  obstacles : List Obstacle
  /-- `lanelet_network.areas[*].border[*].border_vertices` (world frame): `LaneletNetwork.translate_rotate` calls
      `Area.translate_rotate` → `AreaBorder.translate_rotate` (plain `transform.translate_rotate`, no further assertion). -/
  areas : List (List (List Pt))
  deriving Repr

/-- `Scenario.translate_rotate`: the lanelet network (lanelets, signs, lights), then every obstacle of every role
    (scenario.py:1297-1314, lanelet.py:1933-1956). -/
def Scenario.move (m : Mo) (sc : Scenario) : Res Scenario :=
  match guard m with
  | .error e => .error e
  | .ok _ =>
    match mapR (Lanelet.move m) sc.lanelets with
    | .error e => .error e
    | .ok ls =>
      match mapR (movePosition m) sc.signs with
      | .error e => .error e
      | .ok sg =>
        match mapR (Light.move m) sc.lights with
        | .error e => .error e
        | .ok lt =>
          match mapR (Obstacle.move m) sc.obstacles with
          | .error e => .error e
          | .ok obs => .ok ⟨ls, sg, lt, obs, sc.areas.map (List.map (List.map m.mv))⟩

structure Problem where
  init : State
  goal : List State
  deriving Repr

/-- `PlanningProblem.translate_rotate`: initial state, then the goal region's states. -/
def Problem.move (m : Mo) (pp : Problem) : Res Problem :=
  match State.move m pp.init with
  | .error e => .error e
  | .ok i' =>
    match moveStates m pp.goal with
    | .error e => .error e
    | .ok g' => .ok ⟨i', g'⟩

def moveProblems (m : Mo) (l : List Problem) : Res (List Problem) := mapR (Problem.move m) l

/-! ### a planning-problem set as the OBJECTS it is made of

`moveProblems` speaks about values. `GoalRegion.translate_rotate` works IN PLACE, so which goal-region OBJECT a problem holds
matters: `goals` lists the goal-region objects of a set (an index is an identity), every problem holds its initial state and the
index of its goal-region object.  Two problems may hold the same index (ONE object shared: cooperative problems with one goal);
two indices may hold equal values (twins: `GoalRegion.__eq__` / `__hash__` go by value, identity does not). -/

structure ProblemSet where
  goals : List (List State)
  problems : List (State × Nat)
  deriving Repr

/-- the states of the goal-region object `r`. -/
def goalAt (goals : List (List State)) (r : Nat) : List State := (goals[r]?).getD []

/-- what the public accessors show: per problem its initial state and the states of the goal region it holds. -/
def ProblemSet.view (ps : ProblemSet) : List Problem := ps.problems.map fun p => ⟨p.1, goalAt ps.goals p.2⟩

/-- The loop of `PlanningProblemSet.translate_rotate` (planning_problem.py:187-201, after the repair b4f94f9): `done` are the
    goal-region objects moved so far; a problem whose goal-region object is among them only gets its initial state replaced,
    every other problem is moved by `PlanningProblem.translate_rotate` (initial state, then its goal region in place). -/
def ProblemSet.loop (m : Mo) : List (State × Nat) → List (List State) → List Nat → Res (List (State × Nat) × List (List State))
  | [], goals, _ => .ok ([], goals)
  | p :: rest, goals, done =>
    match State.move m p.1 with
    | .error e => .error e
    | .ok i' =>
      if p.2 ∈ done then
        match ProblemSet.loop m rest goals done with
        | .error e => .error e
        | .ok (ps, g) => .ok ((i', p.2) :: ps, g)
      else
        match moveStates m (goalAt goals p.2) with
        | .error e => .error e
        | .ok g' =>
          match ProblemSet.loop m rest (goals.set p.2 g') (p.2 :: done) with
          | .error e => .error e
          | .ok (ps, g) => .ok ((i', p.2) :: ps, g)

def ProblemSet.move (m : Mo) (ps : ProblemSet) : Res ProblemSet :=
  match ProblemSet.loop m ps.problems ps.goals [] with
  | .error e => .error e
  | .ok (p, g) => .ok ⟨g, p⟩

/-- The loop BEFORE the repair: every problem moves the goal-region object it holds (`PlanningProblem.translate_rotate` for
    each), so an object held by k problems is moved k times. Kept for the refuting witness `C05_witness_shared_goal_moved_twice`. -/
def ProblemSet.loopEach (m : Mo) : List (State × Nat) → List (List State) → Res (List (State × Nat) × List (List State))
  | [], goals => .ok ([], goals)
  | p :: rest, goals =>
    match State.move m p.1 with
    | .error e => .error e
    | .ok i' =>
      match moveStates m (goalAt goals p.2) with
      | .error e => .error e
      | .ok g' =>
        match ProblemSet.loopEach m rest (goals.set p.2 g') with
        | .error e => .error e
        | .ok (ps, g) => .ok ((i', p.2) :: ps, g)

/-- A loop that moves only the goal-region objects listed in `pick` (each once) and every initial state: what is left when
    goal regions are collected in a container that lets some of them drop out (e.g. a `set`, in which a twin - equal by value -
    collapses with its original). Kept for the refuting witness `C05_witness_twin_goal_left`. -/
def ProblemSet.movePicked (m : Mo) (pick : List Nat) (ps : ProblemSet) : Res ProblemSet :=
  match mapR (State.move m) (ps.problems.map (·.1)) with
  | .error e => .error e
  | .ok is =>
    match mapR (fun (x : List State × Nat) => if x.2 ∈ pick then moveStates m x.1 else .ok x.1) ps.goals.zipIdx with
    | .error e => .error e
    | .ok gs => .ok ⟨gs, is.zip (ps.problems.map (·.2))⟩

/-! ### which Python attributes the records above stand for (compared with the table extracted from the source in CRProps/T05) -/

/-- per class with an in-place `translate_rotate`: the world-frame attributes (Python names without leading `_`) the model
    record lists and `X.move` moves. -/
def spatialFields : List (String × List String) := [
  ("StopLine", ["start", "end"]),
  ("Lanelet", ["left_vertices", "center_vertices", "right_vertices", "stop_line", "polygon"]),
  ("LaneletNetwork", ["lanelets", "traffic_signs", "traffic_lights", "areas"]),
  ("TrafficSign", ["position"]), ("TrafficLight", ["position"]),
  ("AreaBorder", ["border_vertices"]), ("Area", ["border"]),
  ("Trajectory", ["state_list"]), ("Occupancy", ["shape"]), ("SetBasedPrediction", ["occupancy_set"]),
  ("TrajectoryPrediction", ["trajectory"]),
  ("StaticObstacle", ["initial_state"]), ("DynamicObstacle", ["initial_state", "prediction", "history"]),
  ("PhantomObstacle", ["prediction"]), ("EnvironmentObstacle", ["obstacle_shape"]),
  ("Scenario", ["lanelet_network", "obstacles"]),
  ("GoalRegion", ["state_list"]), ("PlanningProblem", ["initial_state", "goal"]),
  ("PlanningProblemSet", ["planning_problem_dict"])]

/-- body-frame attributes: given relative to the object, they must NOT be moved. -/
def bodyFields : List (String × List String) := [
  ("TrafficLight", ["shape"]), ("TrajectoryPrediction", ["shape"]),
  ("StaticObstacle", ["obstacle_shape"]), ("DynamicObstacle", ["obstacle_shape"])]

/-- every listed field of every class occurs in the extracted table -/
def fieldsCovered (want got : List (String × List String)) : Bool :=
  want.all fun cf => match got.lookup cf.1 with
    | none => false
    | some g => cf.2.all fun f => g.contains f

/-- no listed field of any class occurs in the extracted table -/
def fieldsAvoided (never got : List (String × List String)) : Bool :=
  never.all fun cf => match got.lookup cf.1 with
    | none => true
    | some g => cf.2.all fun f => !g.contains f

end CR.Rigid
