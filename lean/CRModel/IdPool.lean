/-
  CRModel.IdPool — model of the id bookkeeping of `commonroad.scenario.scenario.Scenario`
  (scenario/scenario.py) together with the part of `LaneletNetwork` (scenario/lanelet.py) that decides
  which objects are contained:

    Scenario._id_set / _id_counter                                   scenario.py:586-588
    Scenario.add_objects (every object kind, list form)              scenario.py:686-765
    Scenario.remove_obstacle (single / list)                         scenario.py:836-882
    Scenario.erase_lanelet_network / replace_lanelet_network         scenario.py:884-905
    Scenario.remove_hanging_lanelet_members / remove_lanelet         scenario.py:907-964
    Scenario.remove_traffic_sign / _light / _intersection            scenario.py:966-1031
    Scenario.generate_object_id                                      scenario.py:1033-1044
    Scenario._is_object_id_used / _mark_object_id_as_used / _mark_object_ids_as_used /
      _lanelet_network_object_ids                                    scenario.py:1329-1379
    LaneletNetwork.add_* / remove_* / cleanup_traffic_*_references   lanelet.py:1597-1915
  (line numbers of the tree after the four `fix:` commits listed in known-findings.txt)

  Objects are reduced to what the id bookkeeping reads: ids, the traffic-sign / traffic-light references of a
  lanelet (they decide which signs and lights `remove_lanelet` takes along) and the incoming ids of an
  intersection.  Python `set`s and `dict`s are lists here (membership and, for dicts, insertion order); the
  harness compares them sorted.  Not modelled (no influence on ids): geometry, the STRtree, predecessor /
  successor clean-up, obstacle-on-lanelet registries (obstacles are generated without lanelet assignment).
-/
import CRModel.Basic
namespace CR.IdPool

structure Lanelet where
  id : Nat
  signs : List Nat      -- Lanelet.traffic_signs  (set of sign ids)
  lights : List Nat     -- Lanelet.traffic_lights (set of light ids)
  deriving DecidableEq, Repr, Inhabited

structure Inter where
  id : Nat
  incs : List Nat       -- [inc.incoming_id for inc in intersection.incomings]
  deriving DecidableEq, Repr, Inhabited

/-- LaneletNetwork: the four dicts keyed by id (lanelet.py:1277-1286). -/
structure Net where
  lanelets : List Lanelet := []
  signs : List Nat := []
  lights : List Nat := []
  inters : List Inter := []
  deriving DecidableEq, Repr, Inhabited

/-- Scenario: `_id_set`, `_id_counter`, the network, the four obstacle dicts (scenario.py:579-588). -/
structure St where
  idSet : List Nat := []
  counter : Option Nat := none
  net : Net := {}
  stat : List Nat := []
  dyn : List Nat := []
  env : List Nat := []
  phan : List Nat := []
  deriving DecidableEq, Repr, Inhabited

def init : St := {}

inductive Role where
  | stat | dyn | env | phan
  deriving DecidableEq, Repr, Inhabited

/-- What `add_objects` can be handed (lists are `Op.addList`). -/
inductive Obj where
  | obstacle (r : Role) (id : Nat)
  | obstacleOn (r : Role) (id : Nat) (on : List Nat)   -- static / dynamic obstacle with `initial_shape_lanelet_ids = on`
  | lanelet (l : Lanelet)
  | sign (id : Nat)
  | light (id : Nat)
  | inter (i : Inter)
  | network (n : Net)
  | invalid                      -- anything else: the `else: raise ValueError` branch
  deriving DecidableEq, Repr, Inhabited

inductive Op where
  | add (o : Obj) (refs : List Nat)              -- add_objects(o, lanelet_ids=refs)
  | addList (os : List Obj) (refs : List Nat)    -- add_objects([..], lanelet_ids=refs)
  | removeObstacle (id : Nat)
  | removeObstacles (ids : List Nat)
  | removeLanelets (ls : List Lanelet) (refd : Bool)   -- single form is wrapped into `[l]` (scenario.py:954-955)
  | removeSign (id : Nat)
  | removeSigns (ids : List Nat)
  | removeLight (id : Nat)
  | removeLights (ids : List Nat)
  | removeInter (i : Inter)
  | removeInters (is : List Inter)
  | replaceNet (n : Net)
  | genId
  | eraseNet                                     -- erase_lanelet_network()
  | removeHanging (ls : List Lanelet)            -- remove_hanging_lanelet_members([..]) called directly
  | setRefs (id : Nat) (signs lights : List Nat) -- `lanelet.traffic_signs = ..; lanelet.traffic_lights = ..` on a contained lanelet
  deriving DecidableEq, Repr, Inhabited

inductive Out where
  | ok
  | err (e : Err)
  | id (n : Nat)
  deriving DecidableEq, Repr, Inhabited

/-! ### LaneletNetwork level -/

/-- `set.add` -/
def addRef (refs : List Nat) (k : Nat) : List Nat := if k ∈ refs then refs else refs ++ [k]

/-- `d[k] = v` on a dict reduced to its keys. -/
def dictSet (d : List Nat) (k : Nat) : List Nat := if k ∈ d then d else d ++ [k]

/-- lanelet.py:1783-1805 (`add_lanelet`: an existing id → warning, no change). -/
def Net.addLanelet (n : Net) (l : Lanelet) : Net :=
  if l.id ∈ n.lanelets.map (·.id) then n else { n with lanelets := n.lanelets ++ [l] }

/-- lanelet.py:1807-1837 (`add_traffic_sign`: referenced from the lanelets in `refs` that exist). -/
def Net.addSign (n : Net) (k : Nat) (refs : List Nat) : Net :=
  if k ∈ n.signs then n else
    { n with signs := n.signs ++ [k],
             lanelets := n.lanelets.map fun l => if l.id ∈ refs then { l with signs := addRef l.signs k } else l }

/-- lanelet.py:1839-1866 -/
def Net.addLight (n : Net) (k : Nat) (refs : List Nat) : Net :=
  if k ∈ n.lights then n else
    { n with lights := n.lights ++ [k],
             lanelets := n.lanelets.map fun l => if l.id ∈ refs then { l with lights := addRef l.lights k } else l }

/-- lanelet.py:1895-1915 -/
def Net.addInter (n : Net) (i : Inter) : Net :=
  if i.id ∈ n.inters.map (·.id) then n else { n with inters := n.inters ++ [i] }

/-- lanelet.py:1597-1610 -/
def Net.removeLanelet (n : Net) (k : Nat) : Net :=
  { n with lanelets := n.lanelets.filter (fun l => l.id ≠ k) }

/-- lanelet.py:1642-1650 + 1670-1678: delete, then drop every reference to a sign that does not exist. -/
def Net.removeSign (n : Net) (k : Nat) : Net :=
  if k ∈ n.signs then
    let signs := n.signs.filter (· ≠ k)
    { n with signs := signs,
             lanelets := n.lanelets.map fun l => { l with signs := l.signs.filter (· ∈ signs) } }
  else n

/-- lanelet.py:1680-1698: the reference clean-up runs also when nothing was deleted. -/
def Net.removeLight (n : Net) (k : Nat) : Net :=
  let lights := n.lights.filter (· ≠ k)
  { n with lights := lights,
           lanelets := n.lanelets.map fun l => { l with lights := l.lights.filter (· ∈ lights) } }

/-- lanelet.py:1709-1716 -/
def Net.removeInter (n : Net) (k : Nat) : Net :=
  { n with inters := n.inters.filter (fun i => i.id ≠ k) }

/-- `Scenario._lanelet_network_object_ids`: lanelets, signs, lights, then per intersection its id and its
    incoming ids. -/
def interIds (i : Inter) : List Nat := i.id :: i.incs

def netIds (n : Net) : List Nat :=
  n.lanelets.map (·.id) ++ n.signs ++ n.lights ++ n.inters.flatMap interIds

/-! ### Scenario level -/

/-- `_mark_object_id_as_used` (the counter is initialised before the check). -/
def mark (s : St) (k : Nat) : St × Option Err :=
  let s1 : St := { s with counter := s.counter.or (some k) }     -- `if self._id_counter is None: ... = object_id`
  if k ∈ s1.idSet then (s1, some .value) else ({ s1 with idSet := k :: s1.idSet }, none)

/-- `_mark_object_ids_as_used`: first check all (used already, or twice in the list → ValueError, nothing
    marked), then mark each — none of the single marks can fail then. -/
def markMany (s : St) (ks : List Nat) : St × Option Err :=
  if ks.Nodup ∧ ∀ k ∈ ks, k ∉ s.idSet then
    ({ s with idSet := ks.reverse ++ s.idSet, counter := s.counter.or ks.head? }, none)
  else (s, some .value)

/-- `self._id_set.remove(k)` -/
def release (s : St) (k : Nat) : St × Out :=
  if k ∈ s.idSet then ({ s with idSet := s.idSet.filter (· ≠ k) }, .ok) else (s, .err .key)

/-- Sequencing of statements that may raise: continue with `g` if the first part returned normally. -/
def andThen (r : St × Out) (g : St → St × Out) : St × Out :=
  match r with
  | (s1, .ok) => g s1
  | r => r

/-- A Python `for` loop whose body may raise: stop at the first outcome that is not `ok`. -/
def forEach {α : Type} (f : St → α → St × Out) : St → List α → St × Out
  | s, [] => (s, .ok)
  | s, a :: as => andThen (f s a) (fun s1 => forEach f s1 as)

def putObstacle (s : St) (r : Role) (k : Nat) : St :=
  match r with
  | .stat => { s with stat := dictSet s.stat k }
  | .dyn => { s with dyn := dictSet s.dyn k }
  | .env => { s with env := dictSet s.env k }
  | .phan => { s with phan := dictSet s.phan k }

/-- `self._mark...(ids)` followed by the statements `g` that put the object in: these run only if no
    ValueError was raised. -/
def onMarked (r : St × Option Err) (g : St → St) : St × Out :=
  match r with
  | (s1, none) => (g s1, .ok)
  | (s1, some e) => (s1, .err e)

/-- `add_objects(LaneletNetwork)`: all ids of the new network must be unused (checked before anything
    changes, the ids of the current network count as used); then the ids of the network that is replaced
    are released (`self._id_set.difference_update(replaced_object_ids)`). -/
def addNetwork (s : St) (n : Net) : St × Out :=
  onMarked (markMany s (netIds n)) fun s1 =>
    { s1 with idSet := s1.idSet.filter (fun k => k ∉ netIds s.net), net := n }

/-- the roles whose `add_objects` branch registers the obstacle on its lanelets (`_add_static_obstacle_to_lanelets`,
    `_add_dynamic_obstacle_to_lanelets`); the branches of EnvironmentObstacle / PhantomObstacle do not (scenario.py:754-759) -/
def Role.onLanelets : Role → Bool
  | .stat | .dyn => true
  | .env | .phan => false

/-- `add_objects` of a static / dynamic obstacle that carries a lanelet assignment: the id is marked and the obstacle
    stored, THEN it is registered on its lanelets — `find_lanelet_by_id(l).…_obstacles_on_lanelet` raises
    AttributeError for a lanelet that does not exist (skipped altogether while the network has no lanelets): the call
    fails half-way, the obstacle stays in (scenario.py:722-730, 768-777, 825-838).  For the two other roles the
    assignment is not looked at (added with the translator tie T09: the model now follows the code for all four roles). -/
def addObstacleOn (s : St) (r : Role) (k : Nat) (on : List Nat) : St × Out :=
  match mark s k with
  | (s1, none) =>
    (putObstacle s1 r k,
      if r.onLanelets = false ∨ s1.net.lanelets.isEmpty ∨ ∀ x ∈ on, x ∈ s1.net.lanelets.map (·.id) then .ok else .err .attr)
  | (s1, some e) => (s1, .err e)

/-- `add_objects` for one object (scenario.py:718-765). -/
def addObj (s : St) (o : Obj) (refs : List Nat) : St × Out :=
  match o with
  | .obstacle r k => onMarked (mark s k) fun s1 => putObstacle s1 r k
  | .obstacleOn r k on => addObstacleOn s r k on
  | .lanelet l => onMarked (mark s l.id) fun s1 => { s1 with net := s1.net.addLanelet l }
  | .sign k => onMarked (mark s k) fun s1 => { s1 with net := s1.net.addSign k refs }
  | .light k => onMarked (mark s k) fun s1 => { s1 with net := s1.net.addLight k refs }
  | .inter i => onMarked (markMany s (interIds i)) fun s1 => { s1 with net := s1.net.addInter i }
  | .network n => addNetwork s n
  | .invalid => (s, .err .value)

/-- `add_objects(list)`: one after the other; an exception leaves the earlier ones added. -/
def addList (s : St) (os : List Obj) (refs : List Nat) : St × Out :=
  forEach (fun s o => addObj s o refs) s os

/-- `remove_obstacle` for one obstacle: looked up by id in static, dynamic, environment, phantom (in this
    order); unknown id → warning only (scenario.py:864-882). -/
def removeObstacle (s : St) (k : Nat) : St × Out :=
  if k ∈ s.stat then release { s with stat := s.stat.filter (· ≠ k) } k
  else if k ∈ s.dyn then release { s with dyn := s.dyn.filter (· ≠ k) } k
  else if k ∈ s.env then release { s with env := s.env.filter (· ≠ k) } k
  else if k ∈ s.phan then release { s with phan := s.phan.filter (· ≠ k) } k
  else (s, .ok)

def removeObstacles (s : St) (ks : List Nat) : St × Out := forEach removeObstacle s ks

/-- `remove_traffic_sign` after the guard: delete from the network, release the id. -/
def removeSignBody (s : St) (k : Nat) : St × Out :=
  release { s with net := s.net.removeSign k } k

/-- `remove_traffic_sign` (single form): a sign that is not contained → KeyError before anything changes. -/
def removeSign (s : St) (k : Nat) : St × Out :=
  if k ∈ s.net.signs then removeSignBody s k else (s, .err .key)

/-- list form: `for sign in traffic_sign: self.remove_traffic_sign(sign)` -/
def removeSigns (s : St) (ks : List Nat) : St × Out := forEach removeSign s ks

def removeLightBody (s : St) (k : Nat) : St × Out :=
  release { s with net := s.net.removeLight k } k

def removeLight (s : St) (k : Nat) : St × Out :=
  if k ∈ s.net.lights then removeLightBody s k else (s, .err .key)

def removeLights (s : St) (ks : List Nat) : St × Out := forEach removeLight s ks

/-- `remove_intersection` after the guard, `j` being the *contained* intersection with the id of the argument:
    delete it, release its id, then the ids of its incoming elements. -/
def removeInterBody (s : St) (j : Inter) : St × Out :=
  andThen (release { s with net := s.net.removeInter j.id } j.id) (fun s1 => forEach release s1 j.incs)

/-- `remove_intersection` (single form): looked up by the id of the argument; none → KeyError. -/
def removeInter (s : St) (i : Inter) : St × Out :=
  match s.net.inters.find? (fun j => j.id = i.id) with
  | some j => removeInterBody s j
  | none => (s, .err .key)

/-- list form: `for inter in intersection: self.remove_intersection(inter)`. -/
def removeInters (s : St) (is : List Inter) : St × Out := forEach removeInter s is

/-- `remove_hanging_lanelet_members`: signs / lights referenced by the lanelets to remove (references of the
    *argument* objects) and by no remaining lanelet, restricted to those that exist in the network. -/
def hangingSigns (s : St) (ls : List Lanelet) : List Nat :=
  let rm := ls.map (·.id)
  let remaining := s.net.lanelets.filter (fun l => l.id ∉ rm)
  s.net.signs.filter (fun t => t ∈ ls.flatMap (·.signs) ∧ t ∉ remaining.flatMap (·.signs))

def hangingLights (s : St) (ls : List Lanelet) : List Nat :=
  let rm := ls.map (·.id)
  let remaining := s.net.lanelets.filter (fun l => l.id ∉ rm)
  s.net.lights.filter (fun t => t ∈ ls.flatMap (·.lights) ∧ t ∉ remaining.flatMap (·.lights))

def dropLaneletBody (s : St) (l : Lanelet) : St × Out :=
  release { s with net := s.net.removeLanelet l.id } l.id

/-- body of the loop at the end of `remove_lanelet`: no lanelet with this id → KeyError. -/
def dropLanelet (s : St) (l : Lanelet) : St × Out :=
  if l.id ∈ s.net.lanelets.map (·.id) then dropLaneletBody s l else (s, .err .key)

/-- `remove_lanelet(lanelet, referenced_elements)`. -/
def removeLanelets (s : St) (ls : List Lanelet) (refd : Bool) : St × Out :=
  let hs := hangingSigns s ls
  let hl := hangingLights s ls
  andThen (if refd then andThen (removeSigns s hs) (fun s1 => removeLights s1 hl) else (s, .ok))
    (fun s1 => forEach dropLanelet s1 ls)

/-- One iteration of `for lanelet in self.lanelet_network.lanelets: self.remove_lanelet(lanelet)`:
    the loop runs over a copy of the list but sees the *current* references of each lanelet object. -/
def eraseLanelet (s : St) (k : Nat) : St × Out :=
  match s.net.lanelets.find? (fun l => l.id = k) with
  | some l => removeLanelets s [l] true
  | none => (s, .err .key)   -- not reachable while the dict keys are unique

/-- `erase_lanelet_network` (scenario.py:884-896). -/
def erase (s : St) : St × Out :=
  andThen (forEach eraseLanelet s (s.net.lanelets.map (·.id))) fun s1 =>
  andThen (forEach removeSign s1 s1.net.signs) fun s2 =>
  andThen (forEach removeLight s2 s2.net.lights) fun s3 =>
  andThen (forEach removeInter s3 s3.net.inters) fun s4 =>
  ({ s4 with net := {} }, .ok)

/-- `replace_lanelet_network` -/
def replaceNet (s : St) (n : Net) : St × Out :=
  andThen (erase s) (fun s1 => addNetwork s1 n)

def listMax : List Nat → Nat
  | [] => 0
  | a :: as => max a (listMax as)

/-- `generate_object_id` (scenario.py:1033-1044). -/
def genId (s : St) : St × Out :=
  let c0 := s.counter.getD 0
  let c1 := if s.idSet.isEmpty then c0 else max c0 (listMax s.idSet)
  ({ s with counter := some (c1 + 1) }, .id (c1 + 1))

/-- `remove_hanging_lanelet_members(ls)` called directly: the first half of `remove_lanelet`. -/
def removeHanging (s : St) (ls : List Lanelet) : St × Out :=
  andThen (removeSigns s (hangingSigns s ls)) (fun s1 => removeLights s1 (hangingLights s ls))

/-- the user re-assigns the sign / light references of a contained lanelet (setters of `Lanelet`) -/
def setRefs (s : St) (k : Nat) (signs lights : List Nat) : St :=
  { s with net := { s.net with lanelets := s.net.lanelets.map fun l =>
      if l.id = k then { l with signs := signs, lights := lights } else l } }

def step (s : St) : Op → St × Out
  | .add o refs => addObj s o refs
  | .addList os refs => addList s os refs
  | .removeObstacle k => removeObstacle s k
  | .removeObstacles ks => removeObstacles s ks
  | .removeLanelets ls refd => removeLanelets s ls refd
  | .removeSign k => removeSign s k
  | .removeSigns ks => removeSigns s ks
  | .removeLight k => removeLight s k
  | .removeLights ks => removeLights s ks
  | .removeInter i => removeInter s i
  | .removeInters is => removeInters s is
  | .replaceNet n => replaceNet s n
  | .genId => genId s
  | .eraseNet => erase s
  | .removeHanging ls => removeHanging s ls
  | .setRefs k signs lights => (setRefs s k signs lights, .ok)

/-- A whole history: the state after it and the outcome of every operation. -/
def run : St → List Op → St × List Out
  | s, [] => (s, [])
  | s, op :: ops =>
    let r := step s op
    let rest := run r.1 ops
    (rest.1, r.2 :: rest.2)

end CR.IdPool
