/-
  CRModel.HashKey — model of what can FAIL in the hand-written `__hash__` methods of commonroad-io: building the hashed
  tuple (`tuple(None)`, `None.items()`, `frozenset([[...]])` raise) and hashing it (`hash` of a list / set / dict /
  dict_items / ndarray raises `TypeError: unhashable type`).

    * `PyVal`  attribute values WITH their Python container type (list vs tuple, set vs frozenset, dict, ndarray),
    * `HB`     how `__hash__` turns one attribute into a component of the hashed tuple (as the code is written),
    * `hok H v b`  "building the component of `v` under `b` and hashing it completes" (`false` = an exception),
    * `Ty`, `hasTy`  the values the public constructors admit for an attribute (defaults included),
    * per class family the row (attribute, admitted type, builder): `hrow`.
  `hash(x)` for an object `x` of family `c` completes iff `hok hashB (.obj c fields) .raw`.
-/
import CRModel.EqHash

namespace CR.EqHash

inductive Ctr where
  | list | tuple | set | frozenset | dict | ndarray
  deriving DecidableEq, Repr, Inhabited

/-- Python values as the public getters return them.  The elements of a container are a cons-chain; the elements of a
    dict are its items as 2-tuples `ctr tuple [key, value]`; the elements of an ndarray are not represented. -/
inductive PyVal where
  | none
  | num (r : Rat)
  | str (s : String)
  | nil
  | cons (h t : PyVal)
  | ctr (t : Ctr) (es : PyVal)
  | obj (c : Cls) (f : PyVal)
  deriving Repr, Inhabited

/-- the outermost form of a Python value -/
inductive Shape where
  | none | num | str | ctr (t : Ctr) | obj (c : Cls)
  deriving DecidableEq, Repr

/-- How `__hash__` builds the component for one attribute value `a`. -/
inductive HB where
  | skip                  -- the attribute is not hashed
  | raw                   -- `a` itself is put into the hashed tuple
  | convArr               -- `rounded_array_key(a)` / `tuple(np.around(a.astype(float), 10))`
  | convStr               -- `str(a)`
  | convJson              -- `json.dumps(a, sort_keys=True)`
  | iter (b : HB)         -- `tuple(b(e) for e in a)` / `frozenset(b(e) for e in a)`
  | items (b : HB)        -- `frozenset((k, b(v)) for k, v in a.items())`
  | opt (b : HB)          -- `None` (or the empty frozenset) `if a is None else b(a)`
  | ifList (b : HB)       -- `b(a) if isinstance(a, list) else a`
  | ifArray (b : HB)      -- the rounded tuple if `a` is an ndarray, else `b(a)`
  deriving DecidableEq, Repr, Inhabited

/-- what `hok` is looking at: a Python value under a builder, or (auxiliary) a chain of elements / items / attributes -/
inductive HM where
  | val (b : HB)
  | elemsB (b : HB)       -- every element of the chain under `b`
  | keysB (b : HB)        -- the key of every item of the chain under `b`
  | itemsB (b : HB)       -- every item of the chain: key as it is, value under `b`
  | item (bk bv : HB)     -- one dict item, a 2-tuple `(key, value)`
  | pairB (bk bv : HB)    -- the chain `[key, value]`
  | sndB (bv : HB)        -- the chain `[value]`
  | fieldsB (c : Cls) (i : Nat)  -- attribute chain of class `c` from attribute `i` on
  deriving Repr, Inhabited

/-- what a builder does with a value of a given outermost form -/
inductive HAct where
  | raises                -- an exception (TypeError / AttributeError) is raised
  | ok                    -- a hashable component results, whatever is inside
  | each (b : HB)         -- the elements are visited with `b`; every result must be hashable
  | keys (b : HB)         -- iterating a dict visits its keys
  | pairs (b : HB)        -- the items of a dict: key as it is, value with `b`
  | object                -- `hash(a)` calls `a.__hash__()`
  deriving Repr

/-- `hash(a)`: None, numbers, strings, enum members hash; tuples and frozensets hash iff their elements do;
    list, set, dict, ndarray: `TypeError: unhashable type`; an object: its own `__hash__` -/
def rawStep : Shape → HAct
  | .none => .ok
  | .num => .ok
  | .str => .ok
  | .ctr .tuple => .each .raw
  | .ctr .frozenset => .each .raw
  | .ctr _ => .raises
  | .obj _ => .object

/-- what a builder does with a one-character string (the elements of a string) -/
def strOk : HB → Bool
  | .skip | .raw | .convStr | .convJson | .ifList _ => true
  | .convArr | .items _ => false
  | .iter b | .opt b | .ifArray b => strOk b

def step : HB → Shape → HAct
  | .skip, _ => .ok
  | .raw, s => rawStep s
  -- np.asarray(a).astype(float): arrays, (nested) lists / tuples of numbers, numbers, None (becomes nan); a string that is
  -- not a number, sets, dicts, objects raise
  | .convArr, .ctr .ndarray => .ok
  | .convArr, .ctr .list => .ok
  | .convArr, .ctr .tuple => .ok
  | .convArr, .num => .ok
  | .convArr, .none => .ok
  | .convArr, _ => .raises
  | .convStr, _ => .ok
  -- json.dumps: None, numbers, strings, lists / tuples / dicts of those; sets, arrays, objects are not serialisable
  | .convJson, .none => .ok
  | .convJson, .num => .ok
  | .convJson, .str => .ok
  | .convJson, .ctr .list => .ok
  | .convJson, .ctr .tuple => .ok
  | .convJson, .ctr .dict => .ok
  | .convJson, _ => .raises
  -- iteration: containers (a dict yields its keys; a string its characters); None, numbers and objects are not
  -- iterable.  (The elements of an ndarray are not represented: iterating one is modelled as a failure, which no
  -- builder of the tables does.)
  | .iter b, .ctr .dict => .keys b
  | .iter _, .ctr .ndarray => .raises
  | .iter b, .ctr _ => .each b
  | .iter b, .str => if strOk b then .ok else .raises
  | .iter _, _ => .raises
  | .items b, .ctr .dict => .pairs b
  | .items _, _ => .raises
  | .opt _, .none => .ok
  | .opt b, s => step b s
  | .ifList b, .ctr .list => step b (.ctr .list)
  | .ifList _, s => rawStep s
  | .ifArray _, .ctr .ndarray => .ok
  | .ifArray b, s => step b s

/-- `hok H v (.val b)`: building the component of the Python value `v` under `b` and hashing it completes.
    `H c i` is the builder of attribute `i` of class `c`.  Structural recursion on the value. -/
def hok (H : Cls → Nat → HB) : PyVal → HM → Bool
  | .cons h t, .elemsB b => hok H h (.val b) && hok H t (.elemsB b)
  | .nil, .elemsB _ => true
  | .cons h t, .keysB b => hok H h (.item b .skip) && hok H t (.keysB b)
  | .nil, .keysB _ => true
  | .cons h t, .itemsB b => hok H h (.item .raw b) && hok H t (.itemsB b)
  | .nil, .itemsB _ => true
  | .ctr .tuple es, .item bk bv => hok H es (.pairB bk bv)
  | .cons k t, .pairB bk bv => hok H k (.val bk) && hok H t (.sndB bv)
  | .cons v .nil, .sndB bv => hok H v (.val bv)
  | .cons h t, .fieldsB c i => hok H h (.val (H c i)) && hok H t (.fieldsB c (i + 1))
  | .nil, .fieldsB _ _ => true
  | .none, .val b => match step b .none with
    | .ok => true
    | _ => false
  | .num _, .val b => match step b .num with
    | .ok => true
    | _ => false
  | .str _, .val b => match step b .str with
    | .ok => true
    | _ => false
  | .ctr t es, .val b => match step b (.ctr t) with
    | .ok => true
    | .each eb => hok H es (.elemsB eb)
    | .keys kb => hok H es (.keysB kb)
    | .pairs pb => hok H es (.itemsB pb)
    | _ => false
  | .obj c f, .val b => match step b (.obj c) with
    | .ok => true
    | .object => hok H f (.fieldsB c 0)
    | _ => false
  | _, _ => false

/-! ## admitted values -/

/-- The values a constructor admits for an attribute (as the getter returns them). Alternatives of an `or` have
    different outermost forms (classes are merged into one `obj` list). -/
inductive Ty where
  | none | atom | arr
  | list (τ : Ty) | tuple (τ : Ty) | set (τ : Ty) | frozenset (τ : Ty)
  | dict (τ : Ty)               -- keys: numbers / strings; values: τ
  | obj (cs : List Cls)
  | or (a b : Ty)
  deriving Repr, Inhabited

/-- what `hasTy` is looking at: a Python value of a type, or (auxiliary) a chain of elements / items / attributes -/
inductive TM where
  | val (τ : Ty)
  | elemsT (τ : Ty)
  | itemsT (τ : Ty)
  | itemT (τ : Ty)        -- one dict item `(key, value)`: key a number / string, value of type τ
  | pairT (τ : Ty)        -- the chain `[key, value]`
  | sndT (τ : Ty)         -- the chain `[value]`
  | fieldsT (c : Cls) (i : Nat)
  deriving Repr, Inhabited

inductive TAct where
  | no | yes | each (τ : Ty) | pairs (τ : Ty) | object
  deriving Repr

def tyStep : Ty → Shape → TAct
  | .none, .none => .yes
  | .atom, .num => .yes
  | .atom, .str => .yes
  | .arr, .ctr .ndarray => .yes
  | .list τ, .ctr .list => .each τ
  | .tuple τ, .ctr .tuple => .each τ
  | .set τ, .ctr .set => .each τ
  | .frozenset τ, .ctr .frozenset => .each τ
  | .dict τ, .ctr .dict => .pairs τ
  | .obj cs, .obj c => if cs.contains c then .object else .no
  | .or a b, s => match tyStep a s with
    | .no => tyStep b s
    | act => act
  | _, _ => .no

/-- `hasTy A n v (.val τ)`: the Python value `v` has type `τ`; `A c i` the admitted type of attribute `i` of class `c`,
    `n c` the number of attributes of `c` (`none`: dynamically many).  Structural recursion on the value. -/
def hasTy (A : Cls → Nat → Ty) (n : Cls → Option Nat) : PyVal → TM → Bool
  | .cons h t, .elemsT τ => hasTy A n h (.val τ) && hasTy A n t (.elemsT τ)
  | .nil, .elemsT _ => true
  | .cons h t, .itemsT τ => hasTy A n h (.itemT τ) && hasTy A n t (.itemsT τ)
  | .nil, .itemsT _ => true
  | .ctr .tuple es, .itemT τ => hasTy A n es (.pairT τ)
  | .cons k t, .pairT τ => hasTy A n k (.val .atom) && hasTy A n t (.sndT τ)
  | .cons v .nil, .sndT τ => hasTy A n v (.val τ)
  | .cons h t, .fieldsT c i => hasTy A n h (.val (A c i)) && hasTy A n t (.fieldsT c (i + 1))
  | .nil, .fieldsT c i => match n c with
    | some k => i == k
    | none => true
  | .none, .val τ => match tyStep τ .none with
    | .yes => true
    | _ => false
  | .num _, .val τ => match tyStep τ .num with
    | .yes => true
    | _ => false
  | .str _, .val τ => match tyStep τ .str with
    | .yes => true
    | _ => false
  | .ctr t es, .val τ => match tyStep τ (.ctr t) with
    | .yes => true
    | .each τ' => hasTy A n es (.elemsT τ')
    | .pairs τ' => hasTy A n es (.itemsT τ')
    | _ => false
  | .obj c f, .val τ => match tyStep τ (.obj c) with
    | .object => hasTy A n f (.fieldsT c 0)
    | _ => false
  | _, _ => false

/-! ## builder against type: decidable sufficient condition -/

def allCtrs : List Ctr := [.list, .tuple, .set, .frozenset, .dict, .ndarray]

/-- every outermost form a Python value can have -/
def shapes : List Shape := [.none, .num, .str] ++ allCtrs.map .ctr ++ Cls.all.map .obj

/-- `compat n b τ`: on every outermost form that `τ` admits, `b` does not raise, and recursively for the elements
    (fuel `n`: nesting depth of types; `false` when exhausted). -/
def compat : Nat → HB → Ty → Bool
  | 0, _, _ => false
  | n + 1, b, τ => shapes.all fun s =>
      match tyStep τ s with
      | .no => true
      | .yes => (match step b s with
          | .ok => true
          | _ => false)
      | .each τ' => (match step b s with
          | .ok => true
          | .each eb => compat n eb τ'
          | _ => false)
      | .pairs τ' => (match step b s with
          | .ok => true
          | .keys kb => compat n kb .atom
          | .pairs pb => compat n pb τ'
          | _ => false)
      | .object => (match step b s with
          | .ok => true
          | .object => true
          | _ => false)

/-! ## the class tables -/

structure HAttr where
  name : String
  ty : Ty
  hb : HB
  deriving Repr

structure HRow where
  attrs : List HAttr
  dynamic : Bool := false
  restTy : Ty := .none
  restHb : HB := .raw
  deriving Repr

namespace T
/-- abbreviations for the tables -/
def A : Ty := .atom
def N : Ty := .none
def O (τ : Ty) : Ty := .or .none τ
def L (τ : Ty) : Ty := .list τ
def S (τ : Ty) : Ty := .set τ
def D (τ : Ty) : Ty := .dict τ
def ARR : Ty := .arr
def C (cs : List Cls) : Ty := .obj cs
def BASIC : Ty := .obj [.Rectangle, .Circle, .Polygon]
def SHAPE : Ty := .obj [.Rectangle, .Circle, .Polygon, .ShapeGroup]
def STATE : Ty := .obj [.State]
end T
open T

private def ra (n : String) (τ : Ty) : HAttr := ⟨n, τ, .raw⟩
private def it (n : String) (τ : Ty) : HAttr := ⟨n, τ, .iter .raw⟩
private def oi (n : String) (τ : Ty) : HAttr := ⟨n, τ, .opt (.iter .raw)⟩
private def ar (n : String) : HAttr := ⟨n, ARR, .convArr⟩

/-- Per class family: attribute, admitted type (defaults of the public constructors included), builder used by
    `__hash__` (state of the repaired tree). Same attribute order as `row`. -/
def hrow : Cls → HRow
  -- shape.py:79-84,254-259  `if self._center is not None` guards the key
  | .Rectangle => { attrs := [ra "length" A, ra "width" A, ⟨"center", ARR, .opt .convArr⟩, ra "orientation" A] }
  | .Circle => { attrs := [ra "radius" A, ⟨"center", ARR, .opt .convArr⟩] }
  | .Polygon => { attrs := [ar "vertices"] }
  | .ShapeGroup => { attrs := [it "shapes" (L SHAPE)] }
  | .Interval => { attrs := [ra "start" A, ra "end" A] }
  | .Time => { attrs := [ra "hours" A, ra "minutes" A, ra "day" (O A), ra "month" (O A), ra "year" (O A)] }
  -- state.py:159-172  the attribute names are not hashed; a position array becomes a rounded tuple, every other value
  -- (None, number, Interval, AngleInterval, Shape) is hashed as it is
  | .State => { attrs := [⟨"attributes", A, .skip⟩], dynamic := true,
                restTy := .or N (.or A (.or ARR (C [.Interval, .Rectangle, .Circle, .Polygon, .ShapeGroup]))),
                restHb := .ifArray .raw }
  -- state.py:688-694  frozenset of the values of the assigned slots (bools, the time step; `absent` for a free slot)
  | .SignalState => { attrs := [ra "horn" A, ra "indicator_left" A, ra "indicator_right" A, ra "braking_lights" A,
                                ra "hazard_warning_lights" A, ra "flashing_blue_lights" A,
                                ra "time_step" (.or A (C [.Interval]))] }
  | .MetaInformationState => { attrs := [⟨"meta_data_str", O (D A), .opt (.items .raw)⟩, ⟨"meta_data_int", O (D A), .opt (.items .raw)⟩,
                                         ⟨"meta_data_float", O (D A), .opt (.items .raw)⟩, ⟨"meta_data_bool", O (D A), .opt (.items .raw)⟩] }
  | .Trajectory => { attrs := [ra "initial_time_step" A, it "state_list" (L STATE)] }
  | .Occupancy => { attrs := [ra "time_step" (.or A (C [.Interval])), ra "shape" SHAPE] }
  | .SetBasedPrediction => { attrs := [ra "initial_time_step" A, it "occupancy_set" (L (C [.Occupancy]))] }
  -- prediction.py:259-281
  | .TrajectoryPrediction => { attrs := [ra "trajectory" (C [.Trajectory]), ra "shape" SHAPE,
                                         ⟨"center_lanelet_assignment", O (D (S A)), .opt (.items (.iter .raw))⟩,
                                         ⟨"shape_lanelet_assignment", O (D (S A)), .opt (.items (.iter .raw))⟩] }
  -- obstacle.py:147-162
  | .StaticObstacle => { attrs := [ra "obstacle_id" A, ra "obstacle_type" A, ra "obstacle_shape" SHAPE,
                                   ra "initial_state" STATE, oi "initial_center_lanelet_ids" (O (S A)),
                                   oi "initial_shape_lanelet_ids" (O (S A)), ra "initial_signal_state" (O (C [.SignalState])),
                                   oi "signal_series" (O (L (C [.SignalState])))] }
  -- obstacle.py:530-554
  | .DynamicObstacle => { attrs := [ra "obstacle_id" A, ra "obstacle_type" A, ra "obstacle_shape" SHAPE,
                                    ra "initial_state" STATE,
                                    ra "prediction" (O (C [.TrajectoryPrediction, .SetBasedPrediction])),
                                    oi "initial_center_lanelet_ids" (O (S A)), oi "initial_shape_lanelet_ids" (O (S A)),
                                    ra "initial_signal_state" (O (C [.SignalState])),
                                    oi "signal_series" (O (L (C [.SignalState]))),
                                    ra "initial_meta_information_state" (O (C [.MetaInformationState])),
                                    oi "meta_information_series" (O (L (C [.MetaInformationState]))),
                                    ra "external_dataset_id" (O A), it "history" (L STATE),
                                    it "signal_history" (L (C [.SignalState])),
                                    ⟨"center_lanelet_ids_history", L (S A), .opt (.iter (.iter .raw))⟩,
                                    ⟨"shape_lanelet_ids_history", L (S A), .opt (.iter (.iter .raw))⟩] }
  | .PhantomObstacle => { attrs := [ra "obstacle_id" A, ra "prediction" (O (C [.SetBasedPrediction]))] }
  | .EnvironmentObstacle => { attrs := [ra "obstacle_id" A, ra "obstacle_type" A, ra "obstacle_shape" SHAPE] }
  -- common_lanelet.py:110-121
  | .StopLine => { attrs := [⟨"start", ARR, .opt .convArr⟩, ⟨"end", ARR, .opt .convArr⟩, ra "line_marking" A,
                             oi "traffic_sign_ref" (O (S A)), oi "traffic_light_ref" (O (S A))] }
  -- lanelet.py:234-266  the constructor turns every None list / set into an empty one
  | .Lanelet => { attrs := [ar "left_vertices", ar "center_vertices", ar "right_vertices", ra "lanelet_id" A,
                            it "predecessor" (L A), it "successor" (L A), ra "adj_left" (O A),
                            ra "adj_left_same_direction" (O A), ra "adj_right" (O A), ra "adj_right_same_direction" (O A),
                            ra "line_marking_left_vertices" A, ra "line_marking_right_vertices" A,
                            ra "stop_line" (O (C [.StopLine])), it "lanelet_type" (S A), it "user_one_way" (S A),
                            it "user_bidirectional" (S A), it "traffic_signs" (S A), it "traffic_lights" (S A),
                            it "adjacent_areas" (S A)] }
  | .MapInformation => { attrs := [ra "commonroad_version" A, ra "map_id" A, ra "date" (C [.Time]), ra "author" A,
                                   ra "affiliation" A, ra "source" A, ra "licence_name" A, ra "licence_text" A] }
  -- lanelet.py:1347-1357  frozenset(dict.items()) of the five id -> element dicts (read here through the list getters)
  | .LaneletNetwork => { attrs := [ra "information" (C [.MapInformation]), it "lanelets" (L (C [.Lanelet])),
                                   it "intersections" (L (C [.Intersection])), it "traffic_signs" (L (C [.TrafficSign])),
                                   it "traffic_lights" (L (C [.TrafficLight])), it "areas" (L (C [.Area]))] }
  | .TrafficSignElement => { attrs := [ra "traffic_sign_element_id" A, it "additional_values" (L A)] }
  | .TrafficSign => { attrs := [ra "traffic_sign_id" A, it "traffic_sign_elements" (L (C [.TrafficSignElement])),
                                it "first_occurrence" (S A), ar "position", ra "virtual" A] }
  | .TrafficLightCycleElement => { attrs := [ra "state" A, ra "duration" A] }
  | .TrafficLightCycle => { attrs := [it "cycle_elements" (L (C [.TrafficLightCycleElement])), ra "time_offset" A,
                                      ra "active" A] }
  | .TrafficLight => { attrs := [ra "traffic_light_id" A, ar "position", ra "traffic_light_cycle" (O (C [.TrafficLightCycle])),
                                 it "color" (L A), ra "active" A, ra "direction" A, ra "shape" (O (C [.Rectangle]))] }
  | .IntersectionIncomingElement => { attrs := [ra "incoming_id" A, it "incoming_lanelets" (S A), it "successors_right" (S A),
                                                it "successors_straight" (S A), it "successors_left" (S A), ra "left_of" (O A)] }
  | .Intersection => { attrs := [ra "intersection_id" A, it "incomings" (L (C [.IntersectionIncomingElement])),
                                 it "crossings" (S A)] }
  -- area.py:109-118,183-190
  | .AreaBorder => { attrs := [ra "area_border_id" A, ar "border_vertices", oi "adjacent" (O (L A)), ra "line_marking" (O A)] }
  | .Area => { attrs := [ra "area_id" A, oi "border" (O (L (C [.AreaBorder]))), oi "area_types" (O (S A))] }
  -- goal.py:53-60
  | .GoalRegion => { attrs := [it "state_list" (L STATE),
                               ⟨"lanelets_of_goal_position", O (D (L A)), .opt (.items (.iter .raw))⟩] }
  | .PlanningProblem => { attrs := [ra "planning_problem_id" A, ra "initial_state" STATE, ra "goal" (C [.GoalRegion])] }
  -- planning_problem.py:129-131  frozenset(dict.items())
  | .PlanningProblemSet => { attrs := [⟨"planning_problem_dict", D (C [.PlanningProblem]), .items .raw⟩] }
  | .GeoTransformation => { attrs := [ra "geo_reference" A, ra "x_translation" A, ra "y_translation" A, ra "z_rotation" A,
                                      ra "scaling" A] }
  | .Environment => { attrs := [ra "time" (O (C [.Time])), ra "time_of_day" (O A), ra "weather" (O A), ra "underground" (O A)] }
  | .Location => { attrs := [ra "geo_name_id" A, ra "gps_latitude" A, ra "gps_longitude" A,
                             ra "geo_transformation" (O (C [.GeoTransformation])), ra "environment" (O (C [.Environment]))] }
  -- scenario.py:445-458  prediction_id: int, list of ints or None
  | .ScenarioID => { attrs := [ra "cooperative" A, ra "country_id" A, ra "map_name" A, ra "map_id" A,
                               ra "configuration_id" (O A), ra "obstacle_behavior" (O A),
                               ⟨"prediction_id", O (.or A (L A)), .ifList (.iter .raw)⟩, ra "scenario_version" A] }
  -- scenario.py:619-636
  | .Scenario => { attrs := [⟨"dt", A, .convStr⟩, ra "scenario_id" (C [.ScenarioID]), ra "author" (O A), oi "tags" (O (S A)),
                             ra "affiliation" (O A), ra "source" (O A), ra "location" (O (C [.Location])),
                             ra "lanelet_network" (C [.LaneletNetwork]), it "static_obstacles" (L (C [.StaticObstacle])),
                             it "dynamic_obstacles" (L (C [.DynamicObstacle])),
                             it "environment_obstacle" (L (C [.EnvironmentObstacle])),
                             it "phantom_obstacle" (L (C [.PhantomObstacle]))] }

/-- admitted type of attribute `i` of class `c` -/
def attrTy (c : Cls) (i : Nat) : Ty :=
  match (hrow c).attrs[i]? with
  | some a => a.ty
  | none => (hrow c).restTy

/-- builder of attribute `i` of class `c` -/
def hashB (c : Cls) (i : Nat) : HB :=
  match (hrow c).attrs[i]? with
  | some a => a.hb
  | none => (hrow c).restHb

def arity (c : Cls) : Option Nat := if (hrow c).dynamic then none else some (hrow c).attrs.length

/-- `x` is an object of family `c` whose attribute values are admitted by the public constructors -/
def wellTyped (c : Cls) (x : PyVal) : Bool := hasTy attrTy arity x (.val (.obj [c]))

/-- `hash(x)` completes -/
def hashCompletes (x : PyVal) : Bool := hok hashB x (.val .raw)

/-- fuel for `compat`: more than the nesting depth of any type in the tables -/
def compatFuel : Nat := 6

end CR.EqHash
