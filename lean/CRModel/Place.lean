/-
  CRModel.Place — `Shape.rotate_translate_local(translation, angle)` (commonroad/geometry/shape.py:179-188 Rectangle,
  299-312 Circle, 407-426 Polygon, 515-534 ShapeGroup) and `occupancy_shape_from_state` for exact states (:611-612):
  the occupancy of an obstacle at a state is its shape rotated about the shape's OWN centre by the state's orientation
  and then moved by the state's position.  `(c, s) = (cos angle, sin angle)` are parameters; a polygon's centre is its
  area centroid (shapely `origin="centroid"`), computed exactly here.
-/
import CRModel.Rigid
namespace CR.Place
open CR.Rigid CR.Iv

def Pt.add (p q : Pt) : Pt := ⟨p.x + q.x, p.y + q.y⟩
def Pt.sub (p q : Pt) : Pt := ⟨p.x - q.x, p.y - q.y⟩

/-- Twice the signed area and the centroid numerators of a vertex ring (shoelace sums over consecutive pairs). -/
def ringSums : List Pt → Rat × Rat × Rat
  | p :: q :: rest =>
    let (a, sx, sy) := ringSums (q :: rest)
    let cr := p.x * q.y - q.x * p.y
    (a + cr, sx + (p.x + q.x) * cr, sy + (p.y + q.y) * cr)
  | _ => (0, 0, 0)

/-- Area centroid of a simple polygon given by its vertices (ring closed here if it is open). -/
def centroid (vs : List Pt) : Pt :=
  match vs with
  | [] => ⟨0, 0⟩
  | v :: _ =>
    let ring := if vs.getLast? = some v then vs else vs ++ [v]
    let (a, sx, sy) := ringSums ring
    if a = 0 then v else ⟨sx / (3 * a), sy / (3 * a)⟩

/-- Rotate `p` about `g` with `(c, s)`, then translate by `t`. -/
def about (c s : Rat) (g t p : Pt) : Pt := Pt.add (Pt.add g (rot c s (Pt.sub p g))) t

/-- `rotate_translate_local` per shape kind. -/
def place (c s a τ : Rat) (t : Pt) : Shape → Shape
  | .rect l w ctr θ => .rect l w (Pt.add ctr t) (makeValid τ (θ + a))
  | .circ r ctr => .circ r (Pt.add ctr t)
  | .poly vs => .poly (vs.map (about c s (centroid vs) t))
  | .group ss => .group (placeList c s a τ t ss)
where
  placeList (c s a τ : Rat) (t : Pt) : List Shape → List Shape
    | [] => []
    | x :: xs => place c s a τ t x :: placeList c s a τ t xs

/-- `rotate_translate_local` with the assertions of the code: `Polygon` and `ShapeGroup` assert `is_valid_orientation(angle)`
    (shape.py:432-435, 541-544: angle within [-τ, τ]), `Rectangle` and `Circle` accept any angle (the rectangle wraps it).  A
    group checks once at the top; its members are then placed with the same angle and pass their own checks. -/
def placeChk (c s a τ : Rat) (t : Pt) : Shape → Res Shape
  | .poly vs => if validOrientation τ a then .ok (place c s a τ t (.poly vs)) else .error .assert
  | .group ss => if validOrientation τ a then .ok (place c s a τ t (.group ss)) else .error .assert
  | sh => .ok (place c s a τ t sh)

def absQ (x : Rat) : Rat := if x < 0 then -x else x

/-- `occupancy_shape_from_state` for an UNCERTAIN pose (shape.py:590-633; rectangle / polygon shape): the enclosing rectangle.
    `(lv, wv)` = centred extent of the shape, `(ls, ws)` = centred extent of the position region in the reference frame (0 for
    an exact position), `(cl, sl)` / `(cw, sw)` = cosine and sine of `δ_l = min(Δψ, arctan(wv/lv))` / `δ_w = min(Δψ, arctan(lv/wv))`,
    `ctr` = centre of the position region + centre of the shape, `psi` = middle of the orientation interval. -/
def enclose (cl sl cw sw lv wv ls ws : Rat) (ctr : Pt) (psi : Rat) : Shape :=
  .rect (ls + lv + absQ ((1 - cl) * lv - sl * wv)) (ws + wv + absQ ((1 - cw) * wv - sw * lv)) ctr psi

end CR.Place
