/-
  CRModel.Refs — executable model of the id-valued references of a lanelet network and of the
  operations that remove elements or cut out a sub-network (property C10).

  Mirrors (commonroad-io working tree):
    commonroad/scenario/lanelet.py   LaneletNetwork.remove_lanelet 1597-1610, cleanup_lanelet_references 1612-1640,
                                     remove_traffic_sign 1642-1650, cleanup_traffic_sign_references 1670-1678,
                                     remove_traffic_light 1680-1688 (cleanup runs even when the id is unknown),
                                     cleanup_traffic_light_references 1690-1698, remove_intersection 1709-1716,
                                     create_from_lanelet_list 1431-1460, create_from_lanelet_network 1462-1563
    commonroad/scenario/scenario.py  remove_hanging_lanelet_members 908-936, remove_lanelet 938-964,
                                     remove_traffic_sign 967-986, remove_traffic_light 988-1008,
                                     remove_intersection (single object) 1010-1033
  (scenario.py as in the repaired tree: every scenario-level removal first looks the element up in the network and
  raises `KeyError` without touching anything when it is not there; lanelet.py line numbers are those of the tree the
  model was written against, the functions are unchanged)

  Python `dict`s are lists of records in insertion order (keys unique), Python `set`s are lists; the
  correspondence compares them as sorted lists, the theorems speak about membership only.
  Everything that is not an id-valued reference (geometry, types, markings, sign elements, cycles, …) is
  carried as one opaque `content` number per element which no operation looks at.
  Core Lean only.
-/
import CRModel.Basic

namespace CR.Refs

abbrev Id := Nat

/-- `set(xs).intersection(existing)` on a Python set. -/
def keepIn (P : Id → Bool) (xs : List Id) : List Id := xs.filter P

/-- `list(set(xs).intersection(existing))` on a Python list (duplicates vanish). -/
def keepInL (P : Id → Bool) (xs : List Id) : List Id := (xs.filter P).eraseDups

/-- `StopLine.traffic_sign_ref` / `traffic_light_ref` : `None` or a set of ids. -/
structure StopLine where
  signRef : Option (List Id)
  lightRef : Option (List Id)
  deriving DecidableEq, Repr, Inhabited

structure Lanelet where
  id : Id
  content : Nat
  pred : List Id
  succ : List Id
  adjL : Option Id
  adjLSame : Option Bool
  adjR : Option Id
  adjRSame : Option Bool
  signs : List Id
  lights : List Id
  stop : Option StopLine
  deriving DecidableEq, Repr, Inhabited

structure Incoming where
  id : Id
  inc : List Id
  right : List Id
  straight : List Id
  left : List Id
  leftOf : Option Id
  deriving DecidableEq, Repr, Inhabited

structure Intersection where
  id : Id
  incomings : List Incoming
  crossings : List Id
  deriving DecidableEq, Repr, Inhabited

/-- A traffic sign / light: id and opaque content. -/
abbrev Elem := Id × Nat

structure Net where
  lanelets : List Lanelet
  signs : List Elem
  lights : List Elem
  inters : List Intersection
  deriving DecidableEq, Repr, Inhabited

def Net.lids (n : Net) : List Id := n.lanelets.map (·.id)
def Net.sids (n : Net) : List Id := n.signs.map (·.1)
def Net.tids (n : Net) : List Id := n.lights.map (·.1)
def Net.iids (n : Net) : List Id := n.inters.map (·.id)

/-! ### cleanup of one element -/

/-- lanelet.py:1617-1632 for one lanelet; `P` = membership in `existing_ids`.
The direction flag is kept iff the *new* `adj_left` is in `existing_ids`, i.e. iff it is not `None`. -/
def Lanelet.cleanL (P : Id → Bool) (l : Lanelet) : Lanelet :=
  let aL := l.adjL.filter P
  let aR := l.adjR.filter P
  { l with
    pred := keepInL P l.pred
    succ := keepInL P l.succ
    adjL := aL
    adjLSame := if aL.isSome then l.adjLSame else none
    adjR := aR
    adjRSame := if aR.isSome then l.adjRSame else none }

/-- lanelet.py:1675-1678 for one lanelet. -/
def Lanelet.cleanS (P : Id → Bool) (l : Lanelet) : Lanelet :=
  { l with
    signs := keepIn P l.signs
    stop := l.stop.map fun st => { st with signRef := st.signRef.map (keepIn P) } }

/-- lanelet.py:1695-1698 for one lanelet. -/
def Lanelet.cleanT (P : Id → Bool) (l : Lanelet) : Lanelet :=
  { l with
    lights := keepIn P l.lights
    stop := l.stop.map fun st => { st with lightRef := st.lightRef.map (keepIn P) } }

/-- lanelet.py:1635-1639 for one incoming element. -/
def Incoming.cleanL (P : Id → Bool) (k : Incoming) : Incoming :=
  { k with inc := keepIn P k.inc, right := keepIn P k.right, straight := keepIn P k.straight,
           left := keepIn P k.left }

/-- lanelet.py:1634-1640 for one intersection. -/
def Intersection.cleanL (P : Id → Bool) (i : Intersection) : Intersection :=
  { i with incomings := i.incomings.map (·.cleanL P), crossings := keepIn P i.crossings }

/-! ### network level -/

/-- lanelet.py:1612-1640 -/
def Net.cleanupLaneletRefs (n : Net) : Net :=
  let P := fun a => n.lids.contains a
  { n with lanelets := n.lanelets.map (·.cleanL P), inters := n.inters.map (·.cleanL P) }

/-- lanelet.py:1670-1678 -/
def Net.cleanupSignRefs (n : Net) : Net :=
  let P := fun a => n.sids.contains a
  { n with lanelets := n.lanelets.map (·.cleanS P) }

/-- lanelet.py:1690-1698 -/
def Net.cleanupLightRefs (n : Net) : Net :=
  let P := fun a => n.tids.contains a
  { n with lanelets := n.lanelets.map (·.cleanT P) }

/-- lanelet.py:1597-1610 (the spatial index is not modelled). -/
def Net.removeLanelet (n : Net) (x : Id) : Net :=
  if n.lids.contains x then
    ({ n with lanelets := n.lanelets.filter (fun l => l.id != x) }).cleanupLaneletRefs
  else n

/-- lanelet.py:1642-1650 -/
def Net.removeSign (n : Net) (x : Id) : Net :=
  if n.sids.contains x then
    ({ n with signs := n.signs.filter (fun s => s.1 != x) }).cleanupSignRefs
  else n

/-- lanelet.py:1680-1688: the cleanup is *not* under the `if`. -/
def Net.removeLight (n : Net) (x : Id) : Net :=
  ({ n with lights := n.lights.filter (fun s => s.1 != x) }).cleanupLightRefs

/-- lanelet.py:1709-1716 -/
def Net.removeInter (n : Net) (x : Id) : Net :=
  { n with inters := n.inters.filter (fun i => i.id != x) }

/-- lanelet.py:1505-1526: one incoming element of the cut-out network (dropped when it keeps no incoming
lanelet or no successor at all). -/
def Incoming.cut (P : Id → Bool) (k : Incoming) : Option Incoming :=
  let inc := keepIn P k.inc
  if inc.length == 0 then none else
  let r := keepIn P k.right
  let l := keepIn P k.left
  let s := keepIn P k.straight
  if l.length + s.length + r.length < 1 then none else
  some { k with inc := inc, right := r, straight := s, left := l }

/-- lanelet.py:1503-1541: one intersection of the cut-out network (dropped when no incoming is left). -/
def Intersection.cut (P : Id → Bool) (i : Intersection) : Option Intersection :=
  let incs := i.incomings.filterMap (·.cut P)
  if incs.length == 0 then none else
  some { i with incomings := incs, crossings := keepIn P i.crossings }

/-- lanelet.py:1488-1494: the lanelets that pass the filter. -/
def Net.cutKept (n : Net) (keep : Id → Bool) : List Lanelet := n.lanelets.filter (fun l => keep l.id)

/-- lanelet.py:1482-1555: the new network before `cleanup_lanelet_references`: copies of the kept lanelets, the
signs / lights they reference, the re-built intersections. -/
def Net.cutBase (n : Net) (keep : Id → Bool) : Net :=
  let kept := n.cutKept keep
  let PL := fun a => (kept.map (·.id)).contains a
  { lanelets := kept
    signs := n.signs.filter (fun s => (kept.flatMap (·.signs)).contains s.1)
    lights := n.lights.filter (fun s => (kept.flatMap (·.lights)).contains s.1)
    inters := n.inters.filterMap (·.cut PL) }

/-- lanelet.py:1462-1563 `create_from_lanelet_network`. `keep` is the result of the geometric / type filter
(lanelet.py:1488-1494), computed by the implementation.  A kept lanelet that references a sign / light the
network does not hold makes `add_traffic_sign(None, …)` fail with an `AssertionError`. -/
def Net.cutOut (n : Net) (keep : Id → Bool) (cleanup : Bool) : Res Net :=
  let kept := n.cutKept keep
  if !((kept.flatMap (·.signs)).all fun a => n.sids.contains a) then .error .assert else
  if !((kept.flatMap (·.lights)).all fun a => n.tids.contains a) then .error .assert else
  .ok (if cleanup then (n.cutBase keep).cleanupLaneletRefs else n.cutBase keep)

/-- first lanelet with the given id (`find_lanelet_by_id`). -/
def Net.findLanelet (n : Net) (x : Id) : Option Lanelet := n.lanelets.find? (fun l => l.id == x)

/-- `add_lanelet` in a loop: a lanelet whose id is already present is skipped (lanelet.py:1797-1799). -/
def addLanelets (acc : List Lanelet) : List Lanelet → List Lanelet
  | [] => acc
  | l :: ls => if (acc.map (·.id)).contains l.id then addLanelets acc ls else addLanelets (acc ++ [l]) ls

/-- lanelet.py:1431-1460 `create_from_lanelet_list` applied to the network's own lanelets with ids `sel`. -/
def Net.fromList (n : Net) (sel : List Id) (cleanup : Bool) : Net :=
  let n' : Net := { lanelets := addLanelets [] (sel.filterMap n.findLanelet), signs := [], lights := [], inters := [] }
  if cleanup then n'.cleanupLaneletRefs.cleanupLightRefs.cleanupSignRefs else n'

/-! ### scenario level -/

/-- A scenario as far as removal is concerned: the network and `Scenario._id_set`. -/
structure Scn where
  net : Net
  ids : List Id
  deriving DecidableEq, Repr, Inhabited

/-- every id `Scenario.add_objects(LaneletNetwork)` marks as used (scenario.py:731-742). -/
def Net.allIds (n : Net) : List Id :=
  n.lids ++ n.sids ++ n.tids ++ n.inters.flatMap (fun i => i.id :: i.incomings.map (·.id))

/-- what `remove_hanging_lanelet_members` / `remove_lanelet` read from a lanelet object handed in. -/
structure RmArg where
  id : Id
  signs : List Id
  lights : List Id
  deriving DecidableEq, Repr, Inhabited

/-- `self._id_set.remove(i)` : `KeyError` when absent. -/
def Scn.idsRemove (s : Scn) (i : Id) : Scn × Option Err :=
  if s.ids.contains i then ({ s with ids := s.ids.filter (· != i) }, none) else (s, some .key)

/-- scenario.py:967-986 `Scenario.remove_traffic_sign` (list form = the single form in a loop; the single form raises
`KeyError` before touching anything when the network does not hold the sign). -/
def Scn.removeSigns : Scn → List Id → Scn × Option Err
  | s, [] => (s, none)
  | s, i :: is =>
    if s.net.sids.contains i then
      match ({ s with net := s.net.removeSign i } : Scn).idsRemove i with
      | (s2, none) => s2.removeSigns is
      | r => r
    else (s, some .key)

/-- scenario.py:988-1008 `Scenario.remove_traffic_light`. -/
def Scn.removeLights : Scn → List Id → Scn × Option Err
  | s, [] => (s, none)
  | s, i :: is =>
    if s.net.tids.contains i then
      match ({ s with net := s.net.removeLight i } : Scn).idsRemove i with
      | (s2, none) => s2.removeLights is
      | r => r
    else (s, some .key)

/-- scenario.py:960-964 loop of `Scenario.remove_lanelet`. -/
def Scn.removeLaneletLoop : Scn → List Id → Scn × Option Err
  | s, [] => (s, none)
  | s, i :: is =>
    if s.net.lids.contains i then
      match ({ s with net := s.net.removeLanelet i } : Scn).idsRemove i with
      | (s2, none) => s2.removeLaneletLoop is
      | r => r
    else (s, some .key)

/-- scenario.py:915-933: ids of the signs / lights to be removed with the lanelets `args`. -/
def Net.hangingSigns (n : Net) (args : List RmArg) : List Id :=
  let rm := args.map (·.id)
  let remaining := n.lanelets.filter (fun l => !rm.contains l.id)
  let del := args.flatMap (·.signs)
  let save := remaining.flatMap (·.signs)
  n.sids.filter (fun t => del.contains t && !save.contains t)

def Net.hangingLights (n : Net) (args : List RmArg) : List Id :=
  let rm := args.map (·.id)
  let remaining := n.lanelets.filter (fun l => !rm.contains l.id)
  let del := args.flatMap (·.lights)
  let save := remaining.flatMap (·.lights)
  n.tids.filter (fun t => del.contains t && !save.contains t)

/-- scenario.py:908-936 -/
def Scn.removeHanging (s : Scn) (args : List RmArg) : Scn × Option Err :=
  let ss := s.net.hangingSigns args
  let ts := s.net.hangingLights args
  match s.removeSigns ss with
  | (s1, none) => s1.removeLights ts
  | r => r

/-- scenario.py:938-964 -/
def Scn.removeLanelets (s : Scn) (args : List RmArg) (referenced : Bool) : Scn × Option Err :=
  if referenced then
    match s.removeHanging args with
    | (s1, none) => s1.removeLaneletLoop (args.map (·.id))
    | r => r
  else s.removeLaneletLoop (args.map (·.id))

/-- `_id_set.remove` for each id in turn, stopping at the first `KeyError`. -/
def Scn.idsRemoveAll : Scn → List Id → Scn × Option Err
  | s, [] => (s, none)
  | s, i :: is =>
    match s.idsRemove i with
    | (s1, none) => s1.idsRemoveAll is
    | r => r

/-- scenario.py:1010-1033 `Scenario.remove_intersection` (single object): `KeyError` when the network does not hold an
intersection with this id; otherwise the id of the intersection and the ids of the incoming elements of the *contained*
intersection leave the id pool. -/
def Scn.removeInter (s : Scn) (x : Id) : Scn × Option Err :=
  match s.net.inters.find? (fun i => i.id == x) with
  | none => (s, some .key)
  | some i => ({ s with net := s.net.removeInter x } : Scn).idsRemoveAll (x :: i.incomings.map (·.id))

/-- scenario.py:1010-1024 `Scenario.remove_intersection` with a list: the single form for each element in turn,
stopping at the first `KeyError`. -/
def Scn.removeInters : Scn → List Id → Scn × Option Err
  | s, [] => (s, none)
  | s, x :: xs =>
    match s.removeInter x with
    | (s1, none) => s1.removeInters xs
    | r => r

inductive Op where
  | netRemoveLanelet (x : Id)
  | netRemoveSign (x : Id)
  | netRemoveLight (x : Id)
  | netRemoveInter (x : Id)
  | scnRemoveLanelets (args : List RmArg) (referenced : Bool)
  | scnRemoveSigns (xs : List Id)
  | scnRemoveLights (xs : List Id)
  /-- `Scenario.remove_intersection` (object: one id; list form: the ids in turn) -/
  | scnRemoveInters (xs : List Id)
  /-- `Scenario.remove_hanging_lanelet_members(args)` called directly (the lanelets themselves stay) -/
  | scnRemoveHanging (args : List RmArg)
  /-- `create_from_lanelet_network`; the result becomes the network of a fresh scenario (`add_objects`). -/
  | cutOut (keep : List Id) (cleanup : Bool)
  /-- `create_from_lanelet_list`; the result becomes the network of a fresh scenario. -/
  | fromList (sel : List Id) (cleanup : Bool)
  deriving DecidableEq, Repr, Inhabited

/-- One step of a history. After an exception the (possibly partly changed) scenario stays in use. -/
def Scn.step (s : Scn) : Op → Scn × Option Err
  | .netRemoveLanelet x => ({ s with net := s.net.removeLanelet x }, none)
  | .netRemoveSign x => ({ s with net := s.net.removeSign x }, none)
  | .netRemoveLight x => ({ s with net := s.net.removeLight x }, none)
  | .netRemoveInter x => ({ s with net := s.net.removeInter x }, none)
  | .scnRemoveLanelets args r => s.removeLanelets args r
  | .scnRemoveSigns xs => s.removeSigns xs
  | .scnRemoveLights xs => s.removeLights xs
  | .scnRemoveInters xs => s.removeInters xs
  | .scnRemoveHanging args => s.removeHanging args
  | .cutOut keep c =>
    match s.net.cutOut (fun a => keep.contains a) c with
    | .ok n' => ({ net := n', ids := n'.allIds }, none)
    | .error e => (s, some e)
  | .fromList sel c => let n' := s.net.fromList sel c; ({ net := n', ids := n'.allIds }, none)

/-- A history: the scenario after every step, with the exception class of that step (if any). -/
def Scn.trace : Scn → List Op → List (Scn × Option Err)
  | _, [] => []
  | s, o :: os => let r := s.step o; r :: r.1.trace os

def Scn.run : Scn → List Op → Scn
  | s, [] => s
  | s, o :: os => (s.step o).1.run os

/-! ### the property's vocabulary -/

def Lanelet.lrefs (l : Lanelet) : List Id := l.pred ++ l.succ ++ l.adjL.toList ++ l.adjR.toList
def StopLine.srefs (st : StopLine) : List Id := (st.signRef.getD [])
def StopLine.trefs (st : StopLine) : List Id := (st.lightRef.getD [])
def Lanelet.stopS (l : Lanelet) : List Id := match l.stop with | some st => st.srefs | none => []
def Lanelet.stopT (l : Lanelet) : List Id := match l.stop with | some st => st.trefs | none => []
def Incoming.lrefs (k : Incoming) : List Id := k.inc ++ k.right ++ k.straight ++ k.left
def Intersection.lrefs (i : Intersection) : List Id := i.crossings ++ i.incomings.flatMap (·.lrefs)

/-- predecessor / successor / adjacency relations name lanelets of the network. -/
def LanOK (n : Net) : Prop := ∀ l ∈ n.lanelets, ∀ a ∈ l.lrefs, a ∈ n.lids
/-- lanelet sign references and stop-line sign references name signs of the network. -/
def SignOK (n : Net) : Prop := ∀ l ∈ n.lanelets, ∀ a ∈ l.signs ++ l.stopS, a ∈ n.sids
/-- lanelet light references and stop-line light references name lights of the network. -/
def LightOK (n : Net) : Prop := ∀ l ∈ n.lanelets, ∀ a ∈ l.lights ++ l.stopT, a ∈ n.tids
/-- intersection incoming / successor / crossing sets name lanelets of the network. -/
def InterOK (n : Net) : Prop := ∀ i ∈ n.inters, ∀ a ∈ i.lrefs, a ∈ n.lids

/-- No relation of the network mentions an id the network does not hold: predecessor / successor / adjacency,
intersection incoming / successor / crossing sets, lanelet sign and light references, stop-line references. -/
def NoDangling (n : Net) : Prop := LanOK n ∧ SignOK n ∧ LightOK n ∧ InterOK n

instance (n : Net) : Decidable (NoDangling n) := by
  unfold NoDangling LanOK SignOK LightOK InterOK; exact inferInstance

/-- The property's precondition: a stop line refers only to signs and lights its lanelet also references. -/
def Wf (n : Net) : Prop :=
  ∀ l ∈ n.lanelets, (∀ a ∈ l.stopS, a ∈ l.signs) ∧ (∀ a ∈ l.stopT, a ∈ l.lights)

instance (n : Net) : Decidable (Wf n) := by unfold Wf; exact inferInstance

/-! ### which elements an operation *selects for removal* (the reading of "not selected for removal" used by the
history-level presence theorem `C10_present_run`; compared with the oracle's reading on every step) -/

/-- a cut-out drops an incoming element that keeps no incoming lanelet or no successor (`L` = the kept lanelets) -/
def cutDropsB (L : Id → Bool) (k : Incoming) : Bool :=
  k.inc.all (fun a => !L a) || (k.right ++ k.straight ++ k.left).all (fun a => !L a)

def Op.selLB (_ : Scn) : Op → Id → Bool
  | .netRemoveLanelet x, a => a == x
  | .scnRemoveLanelets args _, a => (args.map (·.id)).contains a
  | .cutOut keep _, a => !keep.contains a
  | .fromList sel _, a => !sel.contains a
  | _, _ => false

def Op.selSB (s : Scn) : Op → Id → Bool
  | .netRemoveSign x, t => t == x
  | .scnRemoveSigns xs, t => xs.contains t
  | .scnRemoveLanelets args r, t => r && (s.net.hangingSigns args).contains t
  | .scnRemoveHanging args, t => (s.net.hangingSigns args).contains t
  | .cutOut keep _, t => !(s.net.lanelets.any fun l => keep.contains l.id && l.signs.contains t)
  | .fromList _ _, _ => true
  | _, _ => false

def Op.selTB (s : Scn) : Op → Id → Bool
  | .netRemoveLight x, t => t == x
  | .scnRemoveLights xs, t => xs.contains t
  | .scnRemoveLanelets args r, t => r && (s.net.hangingLights args).contains t
  | .scnRemoveHanging args, t => (s.net.hangingLights args).contains t
  | .cutOut keep _, t => !(s.net.lanelets.any fun l => keep.contains l.id && l.lights.contains t)
  | .fromList _ _, _ => true
  | _, _ => false

def Op.selKB (s : Scn) : Op → Id × Id → Bool
  | .netRemoveInter x, y => y.1 == x
  | .scnRemoveInters xs, y => xs.contains y.1
  | .cutOut keep _, y => s.net.inters.all fun i => !(i.id == y.1) || i.incomings.all fun k =>
      !(k.id == y.2) || cutDropsB (fun a => s.net.lids.contains a && keep.contains a) k
  | .fromList _ _, _ => true
  | _, _ => false

def Op.selIB (s : Scn) : Op → Id → Bool
  | .netRemoveInter x, y => y == x
  | .scnRemoveInters xs, y => xs.contains y
  | .cutOut keep _, y => s.net.inters.all fun i => !(i.id == y) || i.incomings.all fun k =>
      cutDropsB (fun a => s.net.lids.contains a && keep.contains a) k
  | .fromList _ _, _ => true
  | _, _ => false

/-- the elements of the current network an operation selects: lanelet, sign, light, intersection ids and
(intersection id, incoming id) pairs -/
structure Selection where
  lan : List Id
  sign : List Id
  light : List Id
  inter : List Id
  inc : List (Id × Id)
  deriving DecidableEq, Repr, Inhabited

def Scn.selection (s : Scn) (op : Op) : Selection :=
  { lan := s.net.lids.filter (op.selLB s)
    sign := s.net.sids.filter (op.selSB s)
    light := s.net.tids.filter (op.selTB s)
    inter := s.net.iids.filter (op.selIB s)
    inc := (s.net.inters.flatMap fun i => i.incomings.map fun k => (i.id, k.id)).filter (op.selKB s) }

/-- the selections met along a history -/
def Scn.selections : Scn → List Op → List Selection
  | _, [] => []
  | s, o :: os => s.selection o :: (s.step o).1.selections os

end CR.Refs
