/-
  CRModel.TrafficLightHist — a `TrafficLightCycle` OBJECT (commonroad/scenario/traffic_light.py:95-186) with its
  memoised table `_cycle_init_timesteps`, and histories of public operations on it (C17 generator audit).

  What the object holds
    * `_cycle_elements`: a Python list of element OBJECTS.  The same element object may occur twice in the list, so an
      in-place edit `cycle.cycle_elements[i].duration = d` changes every position that holds that object: positions carry an
      identity class (`cls`), equal class = same object.
    * `_time_offset`
    * `_cycle_init_timesteps` (only after the first read of `cycle_init_timesteps`, :173-179): `table`.

  Which operation drops the table (:144-171): the setters `cycle_elements =` and `time_offset =` do
  (`_invalidate_cycle_init_timesteps`); nothing else does.  In particular the public setters of an element the cycle holds
  (`TrafficLightCycleElement.duration =`, :90-92) and in-place edits of the list the getter hands out
  (`cycle.cycle_elements.append(e)`) cannot be seen by the cycle: the table stays.  `copy.deepcopy` / `pickle` copy the
  instance dictionary, table included.

  `validates`: whether `cycle_init_timesteps` re-derives a table that no longer matches the current durations / offset.
  The CURRENT source does (`validates = true`, /repo fix 233baea; before it: `false`, the witnesses `C17_witness_*_stale` are about that legacy variant)
  (then flip the constant; `C17_hist_follows_definition_validating` is the unconditional theorem for that code).
-/
import CRModel.TrafficLight
namespace CR.TL.Hist

/-- `get_state_at_time_step` (:181-186) reading a given `_cycle_init_timesteps` array: the offset and the element list are
    read from the object, the cumulative array from the memo. -/
def stateAtTable (init : List Int) (es : List Elem) (off t : Int) : Res Nat :=
  match pyGet? init (-1) with
  | none => .error .index
  | some last =>
    let period := last - off
    if period = 0 then .error .zeroDiv else
    let tm := (t - off).fmod period + off
    let i : Int := (argmaxLt tm init : Int) - 1
    match pyGet? es i with
    | none => .error .index
    | some e => .ok e.1

structure Obj where
  es : List Elem
  cls : List Nat                 -- identity class per position (same number = same element object)
  off : Int
  table : Option (List Int)      -- `_cycle_init_timesteps` when the attribute exists
  deriving DecidableEq, Repr, Inhabited

/-- a freshly constructed cycle: `TrafficLightCycle(elements, time_offset)` (no table yet) -/
def Obj.fresh (es : List Elem) (cls : List Nat) (off : Int) : Obj := ⟨es, cls, off, none⟩

inductive Op where
  | query (ts : List Int)                        -- `get_state_at_time_step(t)` for each t (cycle, light, network-held light alike)
  | readTable                                    -- read of the property `cycle_init_timesteps`
  | setOff (off : Int)                           -- `cycle.time_offset = off`
  | setEs (es : List Elem) (cls : List Nat)      -- `cycle.cycle_elements = <list>` (a new list or the same list object)
  | elDur (i : Nat) (d : Int)                    -- `cycle.cycle_elements[i].duration = d`
  | elState (i : Nat) (s : Nat)                  -- `cycle.cycle_elements[i].state = s`
  | appendInPlace (e : Elem) (c : Nat)           -- `cycle.cycle_elements.append(e)` (no setter involved)
  | fresh (es : List Elem) (cls : List Nat) (off : Int)   -- `light.traffic_light_cycle = TrafficLightCycle(...)`: queries go to the new object
  | keep                                         -- active / colour / direction / position / id / shape setters, translate_rotate,
                                                 -- convert_to_2d, ==, hash, str, repr, deepcopy, pickle, a raising call, setters / queries on a SHALLOW copy: no effect here
  deriving DecidableEq, Repr, Inhabited

/-- Does `cycle_init_timesteps` notice a table that no longer belongs to the current durations / offset?
    Current source (traffic_light.py:173-179): no. -/
def validates : Bool := true

/-- the table a read of `cycle_init_timesteps` returns (and leaves in the object) -/
def fillWith (v : Bool) (o : Obj) : List Int :=
  if v then initSteps o.es o.off else o.table.getD (initSteps o.es o.off)

/-- every position holding the same object as position `i` -/
def editAt (es : List Elem) (cls : List Nat) (i : Nat) (f : Elem → Elem) : List Elem :=
  match cls[i]? with
  | none => es
  | some c => es.mapIdx (fun k e => if cls[k]? = some c then f e else e)

def stepWith (v : Bool) (o : Obj) : Op → List (Res Nat) × Obj
  | .query ts =>
    if ts = [] then ([], o) else
    let tb := fillWith v o
    (ts.map (stateAtTable tb o.es o.off), { o with table := some tb })
  | .readTable => ([], { o with table := some (fillWith v o) })
  | .setOff off => ([], { o with off := off, table := none })
  | .setEs es cls => ([], { o with es := es, cls := cls, table := none })
  | .elDur i d => ([], { o with es := editAt o.es o.cls i (fun e => (e.1, d)) })          -- table kept
  | .elState i s => ([], { o with es := editAt o.es o.cls i (fun e => (s, e.2)) })
  | .appendInPlace e c => ([], { o with es := o.es ++ [e], cls := o.cls ++ [c] })          -- table kept
  | .fresh es cls off => ([], Obj.fresh es cls off)
  | .keep => ([], o)

def runWith (v : Bool) (o : Obj) : List Op → List (List (Res Nat))
  | [] => []
  | op :: ops => (stepWith v o op).1 :: runWith v (stepWith v o op).2 ops

def step := stepWith validates
def run := runWith validates

/-- The definition an object stands for: its elements (with their identities) and its offset — no memo. -/
structure Def where
  es : List Elem
  cls : List Nat
  off : Int
  deriving DecidableEq, Repr, Inhabited

def Obj.toDef (o : Obj) : Def := ⟨o.es, o.cls, o.off⟩

def Def.step (p : Def) : Op → Def
  | .setOff off => { p with off := off }
  | .setEs es cls => { p with es := es, cls := cls }
  | .elDur i d => { p with es := editAt p.es p.cls i (fun e => (e.1, d)) }
  | .elState i s => { p with es := editAt p.es p.cls i (fun e => (s, e.2)) }
  | .appendInPlace e c => { p with es := p.es ++ [e], cls := p.cls ++ [c] }
  | .fresh es cls off => ⟨es, cls, off⟩
  | .query _ => p
  | .readTable => p
  | .keep => p

/-- What the cycle DEFINITION answers along a history: every query answered by `CR.TL.stateAt` on the elements and the
    offset the object has at that moment. -/
def specAns (p : Def) : Op → List (Res Nat)
  | .query ts => ts.map (stateAt p.es p.off)
  | _ => []

def specRun (p : Def) : List Op → List (List (Res Nat))
  | [] => []
  | op :: ops => specAns p op :: specRun (p.step op) ops

/-- The memo, if present, is the table of the current elements and offset. -/
def Coherent (o : Obj) : Prop := o.table = none ∨ o.table = some (initSteps o.es o.off)

/-- What the validating `cycle_init_timesteps` of the CURRENT source relies on (found by translating it, T17
    `tie_cycle_init_timesteps_memo`): it compares the DIFFERENCES of the memoised table with the current durations and never
    looks at the offset, so `fillWith true` (= always the table of the current elements AND offset) is what it returns only
    because a memo, when present, starts at the current offset.  That holds along every history: the only operation that
    changes the offset is the `time_offset` setter, which drops the memo (`C17_offCoherent_step` / `_run`). -/
def OffCoherent (o : Obj) : Prop := ∀ tb, o.table = some tb → tb.head? = some o.off

/-- An operation the non-validating code gets right: in-place edits of durations / of the list only while no table exists. -/
def SafeAt (o : Obj) : Op → Prop
  | .elDur _ _ => o.table = none
  | .appendInPlace _ _ => o.table = none
  | _ => True

def SafeRun (v : Bool) (o : Obj) : List Op → Prop
  | [] => True
  | op :: ops => SafeAt o op ∧ SafeRun v (stepWith v o op).2 ops

end CR.TL.Hist
