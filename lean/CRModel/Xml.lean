/-
  CRModel.Xml — element trees as `lxml.etree` / `xml.etree.ElementTree` present them to
  commonroad/common/writer/file_writer_xml.py and commonroad/common/reader/file_reader_xml.py:
  tag, attributes, text, children; `find` (first child with a tag), `findall` (all children with a tag, in document order),
  `get` (attribute).  Core Lean only.
-/
import CRModel.Basic

namespace CR.X

structure Xml where
  tag : String
  attrs : List (String × String)
  text : String
  kids : List Xml

/-- `node.tag == t` -/
def hasTag (t : String) (x : Xml) : Bool := x.tag == t

/-- `node.find(t)` on the children list -/
def find (t : String) (l : List Xml) : Option Xml := l.find? (hasTag t)

/-- `node.findall(t)` on the children list -/
def findAll (t : String) (l : List Xml) : List Xml := l.filter (hasTag t)

/-- `node.get(k)` -/
def getAttr (k : String) (x : Xml) : Option String :=
  match x.attrs.find? (fun p => p.1 == k) with
  | some p => some p.2
  | none => none

/-- the children whose tag is one of `ts` (what a reader that only ever asks for these tags can see) -/
def own (ts : List String) (l : List Xml) : List Xml := l.filter (fun x => ts.contains x.tag)

/-- `[f(x) for x in l]` where `f` may raise -/
def mapOpt {α β : Type} (f : α → Option β) : List α → Option (List β)
  | [] => some []
  | a :: as =>
    match f a, mapOpt f as with
    | some b, some bs => some (b :: bs)
    | _, _ => none

def leaf (tag text : String) : Xml := ⟨tag, [], text, []⟩
def node (tag : String) (kids : List Xml) : Xml := ⟨tag, [], "", kids⟩

end CR.X
