/-
  CRModel.DrawParams — how the drawing functions of mp_renderer.py read their flags and time windows from the
  parameter tree (`MPDrawParams`): `flagsOf` is the function `Grp → Flags` that connects the two models
  `CR.Params` (propagation) and `CR.Draw` (selection).

    draw_scenario 461-472            : draw_params.dynamic_obstacle / static_obstacle / phantom_obstacle / environment_obstacle
    draw_dynamic_obstacle 518-532    : time_begin, time_end, draw_icon, show_label, draw_shape, draw_direction,
                                       draw_initial_state, occupancy.draw_occupancies, draw_signals,
                                       trajectory.draw_trajectory, history.draw_history
    _draw_history 705-709            : history.steps, history.step_size
    draw_trajectory 735-750          : trajectory.time_begin, trajectory.time_end, trajectory.draw_continuous
    draw_state 886                   : state.draw_arrow
    draw_phantom_obstacle 658-668    : time_begin, time_end, draw_shape, occupancy.draw_occupancies
    draw_static_obstacle 487, draw_environment_obstacle 692 : time_begin
  Plain values are atoms holding the JSON text of the Python value (`5`, `true`).
-/
import CRModel.Params
import CRModel.DrawSelect
namespace CR.Draw
open CR.Params

/-- Decimal digits to a number (`json.dumps` of a Python `int`). -/
def digitsToNat : List Char → Nat → Option Nat
  | [], acc => some acc
  | c :: cs, acc => if c.isDigit then digitsToNat cs (acc * 10 + (c.toNat - 48)) else none

/-- The integer an atom denotes: `-?[0-9]+`. -/
def parseInt (s : String) : Option Int :=
  match s.toList with
  | [] => none
  | '-' :: cs => if cs.isEmpty then none else (digitsToNat cs 0).map (fun n => -(n : Int))
  | cs => (digitsToNat cs 0).map (fun n => (n : Int))

def atomInt (g : Grp) (path : List String) : Option Int :=
  match g.at path with
  | some (.atom a) => parseInt a
  | _ => none

def atomBool (g : Grp) (path : List String) : Option Bool :=
  match g.at path with
  | some (.atom a) => if a = "true" then some true else if a = "false" then some false else none
  | _ => none

def pDyn : List String := ["dynamic_obstacle"]
def pDynTraj : List String := ["dynamic_obstacle", "trajectory"]
def pDynOcc : List String := ["dynamic_obstacle", "occupancy"]
def pDynHist : List String := ["dynamic_obstacle", "history"]
def pDynState : List String := ["dynamic_obstacle", "state"]
def pPh : List String := ["phantom_obstacle"]
def pPhOcc : List String := ["phantom_obstacle", "occupancy"]
def pStatic : List String := ["static_obstacle"]
def pEnv : List String := ["environment_obstacle"]

/-- The groups whose `time_begin` / `time_end` a drawing function of the selection logic reads. -/
def windowPaths : List (List String) := [pDyn, pDynTraj, pPh, pStatic, pEnv]

/-- Flags and windows as `draw_scenario` and the functions it calls read them from the parameter object. -/
def flagsOf (g : Grp) : Option Flags := do
  let dyn : DynFlags := {
    tb := ← atomInt g (pDyn ++ ["time_begin"])
    te := ← atomInt g (pDyn ++ ["time_end"])
    drawShape := ← atomBool g (pDyn ++ ["draw_shape"])
    drawIcon := ← atomBool g (pDyn ++ ["draw_icon"])
    drawDirection := ← atomBool g (pDyn ++ ["draw_direction"])
    drawSignals := ← atomBool g (pDyn ++ ["draw_signals"])
    drawOccupancies := ← atomBool g (pDynOcc ++ ["draw_occupancies"])
    drawTrajectory := ← atomBool g (pDynTraj ++ ["draw_trajectory"])
    drawHistory := ← atomBool g (pDynHist ++ ["draw_history"])
    histSteps := ← atomInt g (pDynHist ++ ["steps"])
    histStepSize := ← atomInt g (pDynHist ++ ["step_size"])
    drawInitialState := ← atomBool g (pDyn ++ ["draw_initial_state"])
    showLabel := ← atomBool g (pDyn ++ ["show_label"])
    stateArrow := ← atomBool g (pDynState ++ ["draw_arrow"])
    trajTb := ← atomInt g (pDynTraj ++ ["time_begin"])
    trajTe := ← atomInt g (pDynTraj ++ ["time_end"])
    trajContinuous := ← atomBool g (pDynTraj ++ ["draw_continuous"]) }
  let ph : PhFlags := {
    tb := ← atomInt g (pPh ++ ["time_begin"])
    te := ← atomInt g (pPh ++ ["time_end"])
    drawShape := ← atomBool g (pPh ++ ["draw_shape"])
    drawOccupancies := ← atomBool g (pPhOcc ++ ["draw_occupancies"]) }
  pure { dyn := dyn, ph := ph,
         tbStatic := ← atomInt g (pStatic ++ ["time_begin"]),
         tbEnv := ← atomInt g (pEnv ++ ["time_begin"]) }

/-- The model's table of the defaults of draw_params.py as far as the selection logic reads them
    (`MPDrawParams()`: BaseParam 29-33, DynamicObstacleParams 318-343, HistoryParams 137-141, OccupancyParams 127,
    TrajectoryParams 256-259, StateParams 116, PhantomObstacleParams 348-349).  The translator tie proves it equal to
    `flagsOf` of the tree extracted from the source (CRProps/T19.lean, `tie_default_flags`). -/
def defaultFlags : Flags :=
  { dyn := { tb := 0, te := 200, drawShape := true, drawIcon := false, drawDirection := false, drawSignals := true,
             drawOccupancies := false, drawTrajectory := true, drawHistory := false, histSteps := 5, histStepSize := 1,
             drawInitialState := false, showLabel := false, stateArrow := false, trajTb := 0, trajTe := 200,
             trajContinuous := false },
    ph := { tb := 0, te := 200, drawShape := true, drawOccupancies := false },
    tbStatic := 0, tbEnv := 0 }

mutual
  /-- every group of the tree, at any depth, declares `name` (true of the fields of `BaseParam`, which every parameter
      class inherits) -/
  def _root_.CR.Params.Grp.allDeclare (name : String) : Grp → Bool
    | .mk _ fs => fs.declares name && fs.allDeclareF name
  def _root_.CR.Params.Fields.allDeclareF (name : String) : Fields → Bool
    | .nil => true
    | .atom _ _ r => r.allDeclareF name
    | .grp _ g r => g.allDeclare name && r.allDeclareF name
end

end CR.Draw
