/-
  CRModel.PyExtC08 — the fixed vocabulary the C08 translator (harness/translate/src_c08.py) maps the Python operations of
  commonroad/planning/goal.py and planning_problem.py to. Hand-written, core Lean only; each entry is *trusted to denote*
  the Python operation named in its comment, on the model's value types (CRModel/Goal.lean: a state is the record `St` of
  its five relevant attributes, `None`/absent = `none`; a set of attribute names is a `List Fld`, only membership observed).
-/
import CRModel.Goal
namespace CR.PyG
open CR.Goal

/-- reading an attribute whose value is then used as a number / point: `None` there makes the consumer raise `TypeError`. -/
def need {α : Type} : Option α → Res α
  | some a => .ok a
  | none => .error .type

/-- `a.issubset(b)`. -/
def issubset (a b : List Fld) : Bool := a.all (fun f => b.contains f)

/-- `f in s`. -/
def mem (f : Fld) (s : List Fld) : Bool := s.contains f

/-- `set(l)`: the elements of `l` (only membership is observed). -/
def setOf (l : List Fld) : List Fld := l

/-- `s.add(f)`. -/
def add (s : List Fld) (f : Fld) : List Fld := if s.contains f then s else s ++ [f]

/-- `s.remove(f)`: `KeyError` if absent. -/
def remove (s : List Fld) (f : Fld) : Res (List Fld) :=
  if s.contains f then .ok (s.filter (· != f)) else .error .key

/-- `goal_state.used_attributes` / `state.used_attributes` (state.py:212-224: the attributes that are not `None`). -/
def gUsedAttrs (g : GState) : List Fld := g.usedAttrs
def sUsedAttrs (s : St) : List Fld := s.usedAttrs

/-- `goal_state.has_value(name)` (state.py:248-254: `hasattr and getattr is not None`). -/
def gHasValue (g : GState) : Fld → Bool
  | .time_step => true
  | .position => g.pos.isSome
  | .orientation => g.ori.isSome
  | .velocity => g.vel.isSome
  | _ => false

/-- `state.has_value(name)`. -/
def sHasValue (s : St) : Fld → Bool
  | .time_step => true
  | .position => s.pos.isSome
  | .orientation => s.ori.isSome
  | .velocity => s.vel.isSome
  | .velocity_y => s.velY.isSome
  | .other _ => false

/-- `{a: getattr(s, a) for a in s.attributes if a != f}`: the attribute dictionary of `s` without `f`. -/
def attrsExcept (s : St) : Fld → St
  | .position => { s with pos := none }
  | .orientation => { s with ori := none }
  | .velocity => { s with vel := none }
  | .velocity_y => { s with velY := none }
  | _ => s

/-- `s.f = v` / `attributes["f"] = v` for a number `v`. -/
def setNum (s : St) (f : Fld) (v : Rat) : St :=
  match f with
  | .time_step => { s with t := v }
  | .orientation => { s with ori := some v }
  | .velocity => { s with vel := some v }
  | .velocity_y => { s with velY := some v }
  | _ => s

/-- `CustomState(**attributes)`: the state with exactly these attributes. -/
def customState (attrs : St) : St := attrs

/-- `shape.contains_point(p)`: `AttributeError` on `None.contains_point`, `TypeError` for a `None` point. -/
def containsPoint : Option CR.Geom.Shape → Option CR.Geom.Pt → Res Bool
  | some sh, some p => .ok (sh.contains p)
  | none, _ => .error .attr
  | some _, none => .error .type

/-- `np.any(list_of_bools)`. -/
def npAny (l : List Bool) : Bool := l.any id

/-- `a and b` where evaluating `b` may raise: `b` is evaluated only if `a` is true. -/
def andM (a : Bool) (b : Res Bool) : Res Bool := if a then b else .ok false

/-- `a or b` where evaluating `b` may raise. -/
def orM (a : Bool) (b : Res Bool) : Res Bool := if a then .ok true else b

/-- `getattr(state, name)` on a raw goal state: `AttributeError` for an absent name. -/
def rawGet (st : RawG) (f : Fld) : Res (Option Cls) :=
  match st.lookup f with
  | some c => .ok c
  | none => .error .attr

/-- `state.used_attributes` of a raw goal state. -/
def rawUsed (st : RawG) : List Fld := st.used

/-- `isinstance(v, C)`. -/
def isInst (v : Option Cls) (c : Cls) : Bool := CR.Goal.isInst v c

end CR.PyG
