/-
  CRModel.PyExtC01 — the fixed vocabulary of the C01 translator (harness/translate/src_c01.py): the row types of the two
  structural tables it extracts from file_writer_xml.py / file_reader_xml.py, and what the Python string operations in the
  translated helper functions denote.  Hand-written, core Lean only; each entry names the Python operation it stands for.
-/
import CRModel.CRXml

namespace CR.X.Tie

/-- what an element carries: a child element, an XML attribute, or text -/
inductive Item where
  | elem | attr | text
  deriving DecidableEq, Repr

/-- how often the writer emits an item per element that carries it: on every path / under a condition / in a loop -/
inductive Mult where
  | one | opt | many
  deriving DecidableEq, Repr

/-- one thing the writer can emit: `kind` is the tag of the carrying element (`parentTag/tag` for position / time / lanelet,
    whose content depends on where they stand), `src` the attribute paths of the written object the value comes from -/
structure W where
  kind : String
  item : Item
  name : String
  mult : Mult
  src : String
  deriving DecidableEq, Repr

/-- one thing the reader looks up: `how` ⊆ {find, findall, get, attrib, iter, text}; `required` = the reader dereferences the
    result without testing it for `None` (an absent item makes it raise) -/
structure R where
  kind : String
  item : Item
  name : String
  how : String
  required : Bool
  deriving DecidableEq, Repr

end CR.X.Tie

namespace CR.PyC01
open CR.X

def isPrefixB : List Char → List Char → Bool
  | [], _ => true
  | _ :: _, [] => false
  | a :: as, b :: bs => a == b && isPrefixB as bs

def isInfixB (p : List Char) : List Char → Bool
  | [] => p.isEmpty
  | c :: cs => isPrefixB p (c :: cs) || isInfixB p cs

/-- `p in s` on strings (substring test) -/
def strIn (p s : String) : Bool := isInfixB p.toList s.toList

/-- `s.split(".")` -/
def splitDot (s : String) : List String := (CR.X.splitDot s.toList).map String.ofList

/-- `s[:n]` (a negative n counts from the end) -/
def strTake (s : String) (n : Int) : String :=
  if 0 ≤ n then String.ofList (s.toList.take n.toNat) else String.ofList (s.toList.take (s.toList.length - (-n).toNat))

/-- `format(f, ".{d}f")` as a function of `str(f)`: the table `P.fix` the harness supplies (Codec.lean `Params`) -/
def formatFixed (P : Params) (s : String) : String := (lookupFix s P.fix).getD ""

/-- `np.format_float_positional(x, trim="0")` as a function of `str(x)`: the table `P.pos` -/
def formatPositional (P : Params) (s : String) : String := (lookupFix s P.pos).getD ""

/-- `re.sub(r"_(\w)", lambda m: m.group(1).upper(), s)` -/
def reCamel (s : String) : String := String.ofList (camel s.toList)

def snakeSepAux : List Char → List Char
  | [] => []
  | c :: r => if c.isUpper then '_' :: c :: snakeSepAux r else c :: snakeSepAux r

/-- `re.sub("(?<!^)(?=[A-Z])", "_", s)`: an underscore before every capital letter that is not the first character -/
def reSnakeSep (s : String) : String :=
  match s.toList with
  | [] => ""
  | c :: r => String.ofList (c :: snakeSepAux r)

/-- `s.lower()` (ASCII, like the model's `Char.toLower`) -/
def strLower (s : String) : String := String.ofList (s.toList.map Char.toLower)

end CR.PyC01
